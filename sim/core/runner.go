package core

import (
	"crypto/sha256"
	"encoding/binary"
	"encoding/json"
	"fmt"
	"os"
	"os/exec"
	"path/filepath"
	"runtime"
	"runtime/debug"
	"sort"
	"strings"
	"time"
)

// Event log hashing: engines call st.Event for every observable step so that
// two executions of the same scenario can be compared (determinism self-test).
type eventHash struct {
	h [32]byte
	n int64
}

func (s *Stats) Event(format string, a ...interface{}) {
	if s.ev == nil {
		s.ev = &eventHash{}
	}
	var msg string
	if len(a) == 0 {
		msg = format
	} else {
		msg = fmt.Sprintf(format, a...)
	}
	hh := sha256.New()
	hh.Write(s.ev.h[:])
	hh.Write([]byte(msg))
	copy(s.ev.h[:], hh.Sum(nil))
	s.ev.n++
	s.SimSteps++
	if s.TraceOn {
		s.Trace = append(s.Trace, msg)
	}
}

// EventHash returns the hash of the event log so far and resets it.
func (s *Stats) TakeEventHash() (uint64, int64) {
	if s.ev == nil {
		return 0, 0
	}
	h, n := binary.LittleEndian.Uint64(s.ev.h[:8]), s.ev.n
	s.ev = nil
	return h, n
}

// Guard runs f and returns a recovered panic value and stack, if any.
// HarnessError panics are re-raised.
func Guard(f func()) (pv interface{}, stack string) {
	defer func() {
		if r := recover(); r != nil {
			if he, ok := r.(*HarnessError); ok {
				panic(he)
			}
			pv = r
			stack = string(debug.Stack())
		}
	}()
	f()
	return nil, ""
}

// FoundViolation couples a violation with the scenario that produced it.
type FoundViolation struct {
	Violation *Violation `json:"violation"`
	Scenario  *Scenario  `json:"scenario"`
	RunIndex  int        `json:"run_index"`
}

// WorkerResult is what one worker process reports.
type WorkerResult struct {
	Runs       int               `json:"runs"`
	Nontrivial int               `json:"nontrivial"`
	Skipped    int               `json:"skipped_budget"`
	Stats      *Stats            `json:"stats"`
	Violations []*FoundViolation `json:"violations"`
	HarnessErr string            `json:"harness_err,omitempty"`
	WallS      float64           `json:"wall_s"`
	RunHashes  map[string]uint64 `json:"run_hashes"` // "<batch>/<i>" -> event-log hash (first few runs)
	PerBatch   map[string]int    `json:"per_batch"`
	Samples    []json.RawMessage `json:"samples"`
}

// RunSeed derives the seed of run i of a batch.
func RunSeed(seed uint64, prop, batch string, i int) uint64 {
	return Derive(seed, prop+"/"+batch, uint64(i))
}

// SafeExecute executes a scenario converting HarnessError panics into an error and leaving
// other panics to the engine (engines guard the code under test themselves). A panic that
// escapes an engine is a harness error.
func SafeExecute(e Engine, sc *Scenario, st *Stats) (v *Violation, nontrivial bool, herr error) {
	defer func() {
		if r := recover(); r != nil {
			if he, ok := r.(*HarnessError); ok {
				herr = he
				return
			}
			herr = &HarnessError{Msg: fmt.Sprintf("unexpected panic in engine: %v\n%s", r, debug.Stack())}
		}
	}()
	v, nontrivial = e.Execute(sc, st)
	return
}

// Budget returns the per-worker wall-clock budget of a tier (seconds).
func Budget(t Tier) time.Duration {
	if s := os.Getenv("VERIF_BUDGET_S"); s != "" {
		var n int
		fmt.Sscanf(s, "%d", &n)
		if n > 0 {
			return time.Duration(n) * time.Second
		}
	}
	if t == Thorough {
		return 40 * time.Minute
	}
	return 150 * time.Second
}

// Worker executes runs i ≡ w (mod W) of every batch of the property.
func Worker(p *Property, tier Tier, seed uint64, w, W int, hashFirst int, maxIndex int) *WorkerResult {
	start := time.Now()
	res := &WorkerResult{Stats: NewStats(), RunHashes: map[string]uint64{}, PerBatch: map[string]int{}}
	budget := Budget(tier)
	vd := os.Getenv("VERIF_DIR")
	if vd == "" {
		vd = "/verif"
	}
	findings := LoadFindings(filepath.Join(vd, "known_findings.json"))
	knownSeen := map[string]bool{}
	// Per-run watchdog.
	type cur struct {
		sc *Scenario
		t  time.Time
	}
	curCh := make(chan *cur, 1)
	go func() {
		var c *cur
		tick := time.NewTicker(2 * time.Second)
		for {
			select {
			case c = <-curCh:
			case <-tick.C:
				if c != nil && c.sc != nil && time.Since(c.t) > runTimeout() {
					f := filepath.Join(os.TempDir(), fmt.Sprintf("verif-hung-%d.json", os.Getpid()))
					_ = os.WriteFile(f, MustJSON(c.sc), 0o644)
					fmt.Fprintf(os.Stderr, "HARNESS: run exceeded watchdog (%v), scenario saved to %s\n", runTimeout(), f)
					os.Exit(2)
				}
			}
		}
	}()
	totalWeight, cumWeight := 0, 0
	for _, b := range p.Batches {
		totalWeight += b.Weight
	}
	for _, b := range p.Batches {
		n := b.Quick
		if tier == Thorough {
			n = b.Thorough
		}
		if maxIndex > 0 && n > maxIndex {
			n = maxIndex
		}
		if only := os.Getenv("VERIF_ONLY_BATCH"); only != "" && only != b.Name {
			continue // development aid: run a single batch of the property
		}
		// Deadline of this batch: the whole budget, or its cumulative share when weights are given.
		deadline := budget
		if totalWeight > 0 {
			cumWeight += b.Weight
			deadline = budget * time.Duration(cumWeight) / time.Duration(totalWeight)
		}
		nv := 0
		for i := w; i < n; i += W {
			if time.Since(start) > deadline {
				res.Skipped += (n - i + W - 1) / W
				break
			}
			rs := RunSeed(seed, p.ID, b.Name, i)
			var sc *Scenario
			if ig, ok := b.Engine.(IndexedGenerator); ok {
				sc = ig.GenerateIndexed(i, n, NewRand(rs), tier)
			} else {
				sc = b.Engine.Generate(NewRand(rs), tier)
			}
			sc.Property, sc.Batch, sc.Seed = p.ID, b.Name, rs
			curCh <- &cur{sc: sc, t: time.Now()}
			st := NewStats()
			v, nt, herr := SafeExecute(b.Engine, sc, st)
			curCh <- &cur{}
			if herr != nil {
				res.HarnessErr = fmt.Sprintf("batch %s run %d seed %d: %v", b.Name, i, rs, herr)
				f := filepath.Join(os.TempDir(), fmt.Sprintf("verif-harness-err-%d.json", os.Getpid()))
				_ = os.WriteFile(f, MustJSON(sc), 0o644)
				res.HarnessErr += " (scenario: " + f + ")"
				res.WallS = time.Since(start).Seconds()
				return res
			}
			h, _ := st.TakeEventHash()
			if i < hashFirst {
				res.RunHashes[fmt.Sprintf("%s/%d", b.Name, i)] = h
			}
			res.Runs++
			res.PerBatch[b.Name]++
			if nt {
				res.Nontrivial++
				st.Distinct("nontrivial_scenarios", Hash64([]byte(b.Name), MustJSON(sc.Knobs), MustJSON(sc.Ops)))
			}
			res.Stats.Merge(st)
			if v != nil {
				v.Property = p.ID
				if MatchKnown(findings, v) != nil {
					// Known findings are reported once and do not stop the exploration.
					res.Stats.Inc("known_finding_hits." + v.Fingerprint)
					if !knownSeen[v.Fingerprint] {
						knownSeen[v.Fingerprint] = true
						res.Violations = append(res.Violations, &FoundViolation{Violation: v, Scenario: sc, RunIndex: i})
					}
					continue
				}
				res.Violations = append(res.Violations, &FoundViolation{Violation: v, Scenario: sc, RunIndex: i})
				nv++
				if nv >= maxViolations() {
					break
				}
			}
		}
	}
	res.WallS = time.Since(start).Seconds()
	return res
}

func runTimeout() time.Duration {
	if s := os.Getenv("VERIF_RUN_TIMEOUT_S"); s != "" {
		var n int
		fmt.Sscanf(s, "%d", &n)
		if n > 0 {
			return time.Duration(n) * time.Second
		}
	}
	return 300 * time.Second
}

// Minimise shrinks a failing scenario while the same violation kind persists.
func Minimise(e Engine, sc *Scenario, kind string, deadline time.Time) (*Scenario, *Violation, int) {
	tests := 0
	var lastV *Violation
	test := func(c *Scenario) bool {
		if time.Now().After(deadline) {
			return false
		}
		tests++
		st := NewStats()
		v, _, herr := SafeExecute(e, c, st)
		if herr != nil || v == nil || v.Kind != kind {
			return false
		}
		lastV = v
		return true
	}
	cur := sc.Clone()
	if !test(cur) {
		return sc, nil, tests
	}
	// ddmin over ops.
	n := 2
	for len(cur.Ops) >= 2 && time.Now().Before(deadline) {
		chunk := (len(cur.Ops) + n - 1) / n
		reduced := false
		for start := 0; start < len(cur.Ops); start += chunk {
			end := start + chunk
			if end > len(cur.Ops) {
				end = len(cur.Ops)
			}
			c := cur.Clone()
			c.Ops = append(append([]json.RawMessage(nil), cur.Ops[:start]...), cur.Ops[end:]...)
			if test(c) {
				cur = c
				n = max(n-1, 2)
				reduced = true
				break
			}
		}
		if !reduced {
			if n >= len(cur.Ops) {
				break
			}
			n = min(n*2, len(cur.Ops))
		}
	}
	// Single-op removal to fixpoint, then simplifier candidates.
	for changed := true; changed && time.Now().Before(deadline); {
		changed = false
		for i := len(cur.Ops) - 1; i >= 0 && time.Now().Before(deadline); i-- {
			if i >= len(cur.Ops) {
				continue
			}
			c := cur.Clone()
			c.Ops = append(append([]json.RawMessage(nil), cur.Ops[:i]...), cur.Ops[i+1:]...)
			if test(c) {
				cur = c
				changed = true
			}
		}
		if s, ok := e.(Simplifier); ok {
			for _, c := range s.Simplify(cur) {
				if time.Now().After(deadline) {
					break
				}
				if test(c) {
					cur = c
					changed = true
					break
				}
			}
		}
	}
	// Final confirmation with trace recording.
	st := NewStats()
	st.TraceOn = true
	v, _, _ := SafeExecute(e, cur, st)
	if v != nil && v.Kind == kind {
		lastV = v
		if len(v.Trace) == 0 {
			v.Trace = st.Trace
		}
	}
	return cur, lastV, tests
}

// ---- known findings ----

// Finding is one entry of /verif/known_findings.json.
type Finding struct {
	Property    string `json:"property"`
	Status      string `json:"status"` // "known" or "fixed"
	Fingerprint string `json:"fingerprint"`
	What        string `json:"what"`
	Commit      string `json:"commit,omitempty"`
}

// LoadFindings loads the committed known-findings file (never written at run time).
func LoadFindings(path string) []Finding {
	b, err := os.ReadFile(path)
	if err != nil {
		return nil
	}
	var f struct {
		Findings []Finding `json:"findings"`
	}
	if err := json.Unmarshal(b, &f); err != nil {
		Harnessf("known findings file %s does not parse: %v", path, err)
	}
	return f.Findings
}

// MatchKnown returns the known (not fixed) finding matching the violation, if any.
func MatchKnown(fs []Finding, v *Violation) *Finding {
	for i := range fs {
		f := &fs[i]
		if f.Status == "known" && f.Property == v.Property && f.Fingerprint == v.Fingerprint {
			return f
		}
	}
	return nil
}

// ---- parent ----

// CheckConfig configures RunCheck.
type CheckConfig struct {
	Tier     Tier
	Seed     uint64
	Workers  int
	VerifDir string
	Self     string // path of this executable
	RepoDir  string
}

// RunCheck runs a property check in worker processes, merges, minimises, writes evidence
// and returns the process exit code.
func RunCheck(p *Property, cfg CheckConfig) int {
	start := time.Now()
	tmp, err := os.MkdirTemp("/dev/shm", "verif-check-")
	if err != nil {
		tmp, err = os.MkdirTemp("", "verif-check-")
		if err != nil {
			fmt.Fprintln(os.Stderr, "HARNESS: cannot create temp dir:", err)
			return 2
		}
	}
	defer os.RemoveAll(tmp)

	fmt.Printf("verifsim: property=%s tier=%s seed=%d workers=%d\n", p.ID, cfg.Tier, cfg.Seed, cfg.Workers)
	// The first runs of every batch are hashed and re-executed by the determinism self-check.
	hashFirst := 4
	if cfg.Tier == Thorough {
		hashFirst = 32
	}
	if s := os.Getenv("VERIF_SELFDET_N"); s != "" {
		fmt.Sscanf(s, "%d", &hashFirst)
	}
	type proc struct {
		cmd *exec.Cmd
		out string
	}
	var procs []proc
	for w := 0; w < cfg.Workers; w++ {
		out := filepath.Join(tmp, fmt.Sprintf("w%d.json", w))
		cmd := exec.Command(cfg.Self, "worker", "--prop", p.ID, "--tier", string(cfg.Tier),
			"--seed", fmt.Sprint(cfg.Seed), "--w", fmt.Sprint(w), "--W", fmt.Sprint(cfg.Workers),
			"--hash-first", fmt.Sprint(hashFirst), "--out", out)
		cmd.Stderr = os.Stderr
		cmd.Stdout = os.Stderr
		cmd.Env = append(os.Environ(), "VERIF_DIR="+cfg.VerifDir, "VERIF_SCRATCH="+filepath.Join(tmp, fmt.Sprintf("s%d", w)))
		if err := cmd.Start(); err != nil {
			fmt.Fprintln(os.Stderr, "HARNESS: cannot start worker:", err)
			return 2
		}
		procs = append(procs, proc{cmd, out})
	}
	total := &WorkerResult{Stats: NewStats(), RunHashes: map[string]uint64{}, PerBatch: map[string]int{}}
	harness := ""
	for _, pr := range procs {
		werr := pr.cmd.Wait()
		b, rerr := os.ReadFile(pr.out)
		if rerr != nil {
			harness = fmt.Sprintf("worker produced no result (%v, %v)", werr, rerr)
			continue
		}
		var r WorkerResult
		if err := json.Unmarshal(b, &r); err != nil {
			harness = "worker result does not parse: " + err.Error()
			continue
		}
		if r.HarnessErr != "" {
			harness = r.HarnessErr
		}
		total.Runs += r.Runs
		total.Nontrivial += r.Nontrivial
		total.Skipped += r.Skipped
		total.Stats.Merge(r.Stats)
		total.Violations = append(total.Violations, r.Violations...)
		for k, v := range r.RunHashes {
			total.RunHashes[k] = v
		}
		for k, v := range r.PerBatch {
			total.PerBatch[k] += v
		}
	}
	if harness != "" {
		fmt.Fprintln(os.Stderr, "HARNESS:", harness)
		return 2
	}

	// Determinism self-check: re-execute the hashed runs in a fresh process with another
	// GOMAXPROCS and compare event-log hashes.
	detOK, detN := true, 0
	if len(total.RunHashes) > 0 && os.Getenv("VERIF_NO_SELFDET") == "" {
		out := filepath.Join(tmp, "det.json")
		cmd := exec.Command(cfg.Self, "worker", "--prop", p.ID, "--tier", string(cfg.Tier),
			"--seed", fmt.Sprint(cfg.Seed), "--w", "0", "--W", "1", "--hash-first", fmt.Sprint(hashFirst),
			"--only-hashed", "--out", out)
		cmd.Stderr = os.Stderr
		cmd.Stdout = os.Stderr
		cmd.Env = append(os.Environ(), "GOMAXPROCS=3", "VERIF_SCRATCH="+filepath.Join(tmp, "sdet"))
		if err := cmd.Run(); err != nil {
			fmt.Fprintln(os.Stderr, "HARNESS: determinism self-check worker failed:", err)
			return 2
		}
		b, _ := os.ReadFile(out)
		var r WorkerResult
		if err := json.Unmarshal(b, &r); err != nil || r.HarnessErr != "" {
			fmt.Fprintln(os.Stderr, "HARNESS: determinism self-check result:", err, r.HarnessErr)
			return 2
		}
		for k, h := range r.RunHashes {
			if h0, ok := total.RunHashes[k]; ok {
				detN++
				if h0 != h {
					detOK = false
					fmt.Fprintf(os.Stderr, "HARNESS: determinism self-check mismatch on run %s: %x vs %x\n", k, h0, h)
				}
			}
		}
		if !detOK {
			return 2
		}
	}

	// Group violations by kind, earliest run first.
	sort.SliceStable(total.Violations, func(i, j int) bool { return total.Violations[i].RunIndex < total.Violations[j].RunIndex })
	findings := LoadFindings(filepath.Join(cfg.VerifDir, "known_findings.json"))
	seenKind := map[string]bool{}
	var lines []string
	exit := 0
	knownN, violN := 0, 0
	minBudget := 60 * time.Second
	if cfg.Tier == Thorough {
		minBudget = 5 * time.Minute
	}
	for _, fv := range total.Violations {
		key := fv.Violation.Kind + "|" + fv.Violation.Fingerprint
		if seenKind[key] {
			continue
		}
		seenKind[key] = true
		if f := MatchKnown(findings, fv.Violation); f != nil {
			knownN++
			lines = append(lines, fmt.Sprintf("KNOWN-FINDING: property=%s %s (%s)", p.ID, f.Fingerprint, f.What))
			continue
		}
		if seenKind["K:"+fv.Violation.Kind] {
			continue // one replay per kind
		}
		seenKind["K:"+fv.Violation.Kind] = true
		violN++
		// Minimise in a child process.
		in := filepath.Join(tmp, fmt.Sprintf("viol-%d.json", violN))
		sc := fv.Scenario.Clone()
		sc.Expect = fv.Violation.Fingerprint
		sc.Detail = fv.Violation.Detail
		_ = os.WriteFile(in, MustJSON(struct {
			Scenario *Scenario `json:"scenario"`
			Kind     string    `json:"kind"`
		}{sc, fv.Violation.Kind}), 0o644)
		replayDir := filepath.Join(cfg.VerifDir, "replays")
		_ = os.MkdirAll(replayDir, 0o755)
		replay := filepath.Join(replayDir, fmt.Sprintf("%s-%s-%d.json", p.ID, sanitize(fv.Violation.Kind), fv.Scenario.Seed))
		cmd := exec.Command(cfg.Self, "shrink", "--in", in, "--out", replay, "--budget", fmt.Sprint(int(minBudget.Seconds())))
		cmd.Stderr = os.Stderr
		cmd.Stdout = os.Stderr
		cmd.Env = append(os.Environ(), "VERIF_SCRATCH="+filepath.Join(tmp, "shrink"))
		if err := cmd.Run(); err != nil {
			// Could not minimise/reproduce: write the unminimised scenario.
			_ = os.WriteFile(replay, MustJSON(sc), 0o644)
			fmt.Fprintf(os.Stderr, "verifsim: minimisation failed (%v); wrote unminimised scenario\n", err)
		}
		// Confirm that the replay file reproduces in a fresh process.
		rc := exec.Command(cfg.Self, "replay", replay)
		rc.Env = append(os.Environ(), "VERIF_SCRATCH="+filepath.Join(tmp, "replay"))
		outb, rerr := rc.CombinedOutput()
		repro := rerr != nil && strings.Contains(string(outb), "REPRODUCED")
		fmt.Fprintf(os.Stderr, "verifsim: violation kind=%s fingerprint=%s\n  detail: %s\n  replay reproduces: %v\n", fv.Violation.Kind, fv.Violation.Fingerprint, firstLine(fv.Violation.Detail), repro)
		lines = append(lines, fmt.Sprintf("VIOLATION property=%s replay=%s", p.ID, replay))
		exit = 1
	}

	// Regression scenarios: the minimised scenarios of defects that were repaired (regress/
	// <ID>-*.json, committed) are re-executed in a fresh process each; a repaired defect that
	// returns is reported again even when the seeded search of this run does not reach it.
	regressN := 0
	if files, _ := filepath.Glob(filepath.Join(cfg.VerifDir, "regress", p.ID+"-*.json")); len(files) > 0 && os.Getenv("VERIF_NO_REGRESS") == "" {
		sort.Strings(files)
		for _, f := range files {
			rc := exec.Command(cfg.Self, "replay", f)
			rc.Env = append(os.Environ(), "VERIF_SCRATCH="+filepath.Join(tmp, "regress"))
			outb, rerr := rc.CombinedOutput()
			regressN++
			switch {
			case rerr == nil:
			case strings.Contains(string(outb), "REPRODUCED"):
				fmt.Fprintf(os.Stderr, "verifsim: regression scenario %s reproduces again\n%s\n", f, lastLines(string(outb), 6))
				lines = append(lines, fmt.Sprintf("VIOLATION property=%s replay=%s", p.ID, f))
				violN++
				exit = 1
			default:
				fmt.Fprintf(os.Stderr, "HARNESS: regression scenario %s could not be executed: %v\n%s\n", f, rerr, lastLines(string(outb), 6))
				return 2
			}
		}
	}

	wall := time.Since(start).Seconds()
	if err := WriteEvidence(p, cfg, total, wall, violN, knownN, detN, regressN); err != nil {
		fmt.Fprintln(os.Stderr, "HARNESS: cannot write evidence:", err)
		return 2
	}
	fmt.Printf("verifsim: runs=%d nontrivial=%d distinct_nontrivial=%d skipped_for_budget=%d wall=%.1fs selfdet_runs=%d violations=%d known=%d\n",
		total.Runs, total.Nontrivial, total.Stats.SetSize("nontrivial_scenarios"), total.Skipped, wall, detN, violN, knownN)
	for _, l := range lines {
		fmt.Println(l)
	}
	if total.Runs == 0 {
		fmt.Fprintln(os.Stderr, "HARNESS: no runs executed")
		return 2
	}
	return exit
}

func sanitize(s string) string {
	var b strings.Builder
	for _, c := range s {
		if (c >= 'a' && c <= 'z') || (c >= 'A' && c <= 'Z') || (c >= '0' && c <= '9') || c == '-' || c == '_' {
			b.WriteRune(c)
		} else {
			b.WriteByte('_')
		}
	}
	return b.String()
}

func firstLine(s string) string {
	if i := strings.IndexByte(s, '\n'); i >= 0 {
		return s[:i]
	}
	return s
}

// WriteEvidence writes /verif/evidence/<id>.json per EVIDENCE.schema.json.
func WriteEvidence(p *Property, cfg CheckConfig, r *WorkerResult, wall float64, viol, known, detN int, regressN int) error {
	var rules []string
	for _, b := range p.Batches {
		rules = append(rules, fmt.Sprintf("[%s] %s", b.Name, b.Rule))
	}
	faults := map[string]int64{}
	probes := map[string]int64{}
	other := map[string]int64{}
	for k, v := range r.Stats.Counters {
		switch {
		case strings.HasPrefix(k, "fault."):
			faults[strings.TrimPrefix(k, "fault.")] = v
		case strings.HasPrefix(k, "probe."):
			probes[strings.TrimPrefix(k, "probe.")] = v
		default:
			other[k] = v
		}
	}
	sets := map[string]int{}
	for k, l := range r.Stats.Sets {
		sets[k] = len(l)
	}
	samples := r.Stats.Samples
	if len(samples) == 0 {
		samples = []json.RawMessage{MustJSON("no sample recorded")}
	}
	cov := map[string]interface{}{
		"evaluations":         r.Runs,
		"distinct_nontrivial": r.Stats.SetSize("nontrivial_scenarios"),
		"rule": "Scenarios are generated from VERIF_SEED via splitmix64 (seed_i = H(seed, property/batch, i)); distinct = distinct hash of (batch, knobs, ops); " +
			"non-trivial per batch: " + strings.Join(rules, " "),
		"samples":                       samples,
		"runs_per_batch":                r.PerBatch,
		"runs_skipped_for_budget":       r.Skipped,
		"runs_per_hour":                 float64(r.Runs) / wall * 3600,
		"simulated_steps":               r.Stats.SimSteps,
		"simulated_time_s":              r.Stats.SimTime,
		"faults_fired":                  faults,
		"probes":                        probes,
		"counters":                      other,
		"distinct_sets":                 sets,
		"determinism_selfcheck_runs":    detN,
		"regression_scenarios_replayed": regressN,
		"components_real":               p.Real,
		"components_stub":               p.Stub,
		"known_findings_reported":       known,
		"workers":                       cfg.Workers,
		"gomaxprocs":                    runtime.GOMAXPROCS(0),
		"repo":                          cfg.RepoDir,
	}
	ev := map[string]interface{}{
		"property_id": p.ID,
		"tier":        string(cfg.Tier),
		"seed":        int64(cfg.Seed & 0x7fffffffffffffff),
		"level":       p.Level,
		"coverage":    cov,
		"assumptions": p.Assumptions,
		"wall_s":      wall,
		"violations":  viol,
	}
	dir := filepath.Join(cfg.VerifDir, "evidence")
	if err := os.MkdirAll(dir, 0o755); err != nil {
		return err
	}
	b, err := json.MarshalIndent(ev, "", " ")
	if err != nil {
		return err
	}
	return os.WriteFile(filepath.Join(dir, p.ID+".json"), b, 0o644)
}

// PanicSite extracts the first stack frame function inside the given package path fragment.
func PanicSite(stack, pkgFragment string) string {
	for _, l := range strings.Split(stack, "\n") {
		if strings.Contains(l, pkgFragment) && strings.Contains(l, "(") && !strings.HasPrefix(l, "\t") {
			l = strings.TrimSpace(l)
			if i := strings.LastIndex(l, "("); i > 0 {
				l = l[:i]
			}
			if i := strings.LastIndex(l, "/"); i >= 0 {
				l = l[i+1:]
			}
			return l
		}
	}
	return "unknown"
}

func maxViolations() int {
	if s := os.Getenv("VERIF_MAX_VIOL"); s != "" {
		var n int
		fmt.Sscanf(s, "%d", &n)
		if n > 0 {
			return n
		}
	}
	return 3
}

func lastLines(s string, n int) string {
	l := strings.Split(strings.TrimRight(s, "\n"), "\n")
	if len(l) > n {
		l = l[len(l)-n:]
	}
	return strings.Join(l, "\n")
}
