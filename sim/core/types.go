package core

import (
	"encoding/json"
	"fmt"
	"os"
	"sort"
	"strings"
	"sync"
)

// Tier is the check depth.
type Tier string

const (
	Quick    Tier = "quick"
	Thorough Tier = "thorough"
)

// Scenario is one fully determined simulated run: knobs plus a list of
// symbolic operations/faults. Executing it is a pure function of its content
// and the code under test. It is also the replay file.
type Scenario struct {
	Property string            `json:"property"`
	Engine   string            `json:"engine"`
	Batch    string            `json:"batch"`
	Seed     uint64            `json:"seed"`
	Knobs    json.RawMessage   `json:"knobs"`
	Ops      []json.RawMessage `json:"ops"`
	// Expect is filled in for replay files: the violation fingerprint the replay must reproduce.
	Expect string `json:"expect,omitempty"`
	// Detail is a human-readable description of the violation (replay files only).
	Detail string `json:"detail,omitempty"`
	// Trace is the minimised event trace recorded when the violation was reproduced.
	Trace []string `json:"trace,omitempty"`
}

// Clone returns a deep-enough copy (ops slice copied).
func (s *Scenario) Clone() *Scenario {
	c := *s
	c.Ops = append([]json.RawMessage(nil), s.Ops...)
	return &c
}

// MustJSON marshals v or panics (harness bug).
func MustJSON(v interface{}) json.RawMessage {
	b, err := json.Marshal(v)
	if err != nil {
		panic(fmt.Sprintf("core: marshal: %v", err))
	}
	return b
}

// Violation is a property violation found by an oracle.
type Violation struct {
	Property string `json:"property"`
	// Kind is the fingerprint class (oracle name); minimisation preserves it.
	Kind string `json:"kind"`
	// Fingerprint = Kind plus salient parameters; known findings match on it.
	Fingerprint string   `json:"fingerprint"`
	Detail      string   `json:"detail"`
	Trace       []string `json:"trace,omitempty"`
}

func (v *Violation) Error() string {
	return fmt.Sprintf("property=%s %s: %s", v.Property, v.Fingerprint, v.Detail)
}

// HarnessError signals trouble in the harness itself (exit code 2), never a violation.
type HarnessError struct{ Msg string }

func (e *HarnessError) Error() string { return "harness error: " + e.Msg }

// Harnessf panics with a HarnessError; the runner turns it into exit 2.
func Harnessf(format string, a ...interface{}) {
	panic(&HarnessError{Msg: fmt.Sprintf(format, a...)})
}

// Stats collects reach measurements. All counters are incremented when a
// thing actually fired, never when it was merely configured.
type Stats struct {
	Counters map[string]int64    `json:"counters"`
	Sets     map[string][]uint64 `json:"sets"` // distinct fingerprints per named set (bounded)
	setIdx   map[string]map[uint64]struct{}
	SimSteps int64             `json:"sim_steps"`
	SimTime  float64           `json:"sim_time_s"`
	Samples  []json.RawMessage `json:"samples,omitempty"`
	// TraceOn makes Event record a readable trace (replay/minimisation only).
	TraceOn bool     `json:"-"`
	Trace   []string `json:"-"`
	ev      *eventHash
}

// NewStats creates empty stats.
func NewStats() *Stats {
	return &Stats{Counters: map[string]int64{}, Sets: map[string][]uint64{}, setIdx: map[string]map[uint64]struct{}{}}
}

// Inc increments a counter.
func (s *Stats) Inc(name string) { s.Counters[name]++ }

// Add adds to a counter.
func (s *Stats) Add(name string, n int64) { s.Counters[name] += n }

const maxSetSize = 200000

// Distinct records a fingerprint in the named set.
func (s *Stats) Distinct(set string, fp uint64) {
	if s.setIdx == nil {
		s.setIdx = map[string]map[uint64]struct{}{}
	}
	m := s.setIdx[set]
	if m == nil {
		m = map[uint64]struct{}{}
		s.setIdx[set] = m
		for _, x := range s.Sets[set] {
			m[x] = struct{}{}
		}
	}
	if _, ok := m[fp]; ok {
		return
	}
	if len(m) >= maxSetSize {
		s.Counters["set_overflow."+set]++
		return
	}
	m[fp] = struct{}{}
	s.Sets[set] = append(s.Sets[set], fp)
}

// SetSize returns the number of distinct fingerprints in a set.
func (s *Stats) SetSize(set string) int { return len(s.Sets[set]) }

// Sample keeps up to n written-out example cases.
func (s *Stats) Sample(n int, v interface{}) {
	if len(s.Samples) < n {
		s.Samples = append(s.Samples, MustJSON(v))
	}
}

// Merge merges o into s.
func (s *Stats) Merge(o *Stats) {
	for k, v := range o.Counters {
		s.Counters[k] += v
	}
	for k, l := range o.Sets {
		for _, fp := range l {
			s.Distinct(k, fp)
		}
	}
	s.SimSteps += o.SimSteps
	s.SimTime += o.SimTime
	for _, x := range o.Samples {
		if len(s.Samples) < 6 {
			s.Samples = append(s.Samples, x)
		}
	}
}

// SortedCounters returns counter names in sorted order.
func (s *Stats) SortedCounters() []string {
	ks := make([]string, 0, len(s.Counters))
	for k := range s.Counters {
		ks = append(ks, k)
	}
	sort.Strings(ks)
	return ks
}

// Engine is one simulation engine bound to a property batch.
type Engine interface {
	// Generate draws a scenario. It is the only consumer of the PRNG.
	Generate(r *Rand, tier Tier) *Scenario
	// Execute runs the scenario against the real code. It must be a pure
	// function of the scenario. nontrivial reports whether the run met the
	// batch's non-triviality rule. A HarnessError panic means exit 2.
	Execute(sc *Scenario, st *Stats) (v *Violation, nontrivial bool)
}

// IndexedGenerator is optionally implemented by engines that partition a finite fault space by
// run index (fault enumeration): i is the run index within the batch, n the number of runs.
type IndexedGenerator interface {
	GenerateIndexed(i, n int, r *Rand, tier Tier) *Scenario
}

// Simplifier is optionally implemented by engines to offer smaller variants of a scenario
// (knob reduction, per-op simplification) beyond dropping ops.
type Simplifier interface {
	Simplify(sc *Scenario) []*Scenario
}

// Batch describes one batch of runs for a property.
type Batch struct {
	Name   string
	Engine Engine
	// Runs per tier.
	Quick, Thorough int
	// Rule is the non-triviality rule of the batch in words.
	Rule string
	// Weight, when set on the batches of a property, splits the per-worker wall-clock budget
	// between them in proportion (time a batch does not use passes on to the next one), so that a
	// slow first batch cannot starve the following ones on a loaded machine. Without weights the
	// batches share one budget in order.
	Weight int
}

// Property describes how one property is decided.
type Property struct {
	ID      string
	Level   string // evidence level
	Batches []Batch
	// Real / Stub components, for the evidence file.
	Real, Stub  []string
	Assumptions []string
}

// LogRing keeps the most recent error-level log lines of the code under test (the harness
// routes the repository's logger here), so that oracles can attribute a rejected proposal or a
// fatal error to its logged cause.
type logRing struct {
	mu    sync.Mutex
	lines []string
}

// Logs is the process-wide ring of recent log lines.
var Logs = &logRing{}

func (l *logRing) Write(p []byte) (int, error) {
	l.mu.Lock()
	l.lines = append(l.lines, string(p))
	if len(l.lines) > 40 {
		l.lines = l.lines[len(l.lines)-40:]
	}
	l.mu.Unlock()
	if os.Getenv("VERIF_DEBUG") != "" {
		_, _ = os.Stderr.Write(p)
	}
	return len(p), nil
}

// Recent returns the recent log lines joined.
func (l *logRing) Recent() string {
	l.mu.Lock()
	defer l.mu.Unlock()
	return strings.Join(l.lines, "")
}

// Reset clears the ring.
func (l *logRing) Reset() {
	l.mu.Lock()
	l.lines = nil
	l.mu.Unlock()
}
