// Package core contains the deterministic-simulation scaffolding shared by all
// engines: the seeded PRNG, scenario/violation types, statistics, the generic
// delta-debugging minimiser, known-findings matching and evidence writing.
package core

import (
	"crypto/sha256"
	"encoding/binary"
)

// Rand is a splitmix64 PRNG. It is the only source of random choices in the
// harness; execution of a scenario draws nothing.
type Rand struct{ s uint64 }

// NewRand creates a PRNG from the given seed.
func NewRand(seed uint64) *Rand { return &Rand{s: seed} }

// Uint64 returns the next value.
func (r *Rand) Uint64() uint64 {
	r.s += 0x9e3779b97f4a7c15
	z := r.s
	z = (z ^ (z >> 30)) * 0xbf58476d1ce4e5b9
	z = (z ^ (z >> 27)) * 0x94d049bb133111eb
	return z ^ (z >> 31)
}

// Intn returns a value in [0,n). n must be > 0.
func (r *Rand) Intn(n int) int {
	if n <= 0 {
		panic("core: Intn with n <= 0")
	}
	return int(r.Uint64() % uint64(n))
}

// Range returns a value in [lo,hi] inclusive.
func (r *Rand) Range(lo, hi int) int {
	if hi < lo {
		lo, hi = hi, lo
	}
	return lo + r.Intn(hi-lo+1)
}

// Bool returns a fair coin.
func (r *Rand) Bool() bool { return r.Uint64()&1 == 1 }

// Chance returns true with probability num/den.
func (r *Rand) Chance(num, den int) bool { return r.Intn(den) < num }

// Bytes returns n pseudo-random bytes.
func (r *Rand) Bytes(n int) []byte {
	b := make([]byte, n)
	for i := 0; i < n; i += 8 {
		var t [8]byte
		binary.LittleEndian.PutUint64(t[:], r.Uint64())
		copy(b[i:], t[:])
	}
	return b
}

// Pick returns a random index weighted by w.
func (r *Rand) Pick(w []int) int {
	t := 0
	for _, x := range w {
		t += x
	}
	if t <= 0 {
		return 0
	}
	v := r.Intn(t)
	for i, x := range w {
		if v < x {
			return i
		}
		v -= x
	}
	return len(w) - 1
}

// Perm returns a random permutation of 0..n-1.
func (r *Rand) Perm(n int) []int {
	p := make([]int, n)
	for i := range p {
		p[i] = i
	}
	for i := n - 1; i > 0; i-- {
		j := r.Intn(i + 1)
		p[i], p[j] = p[j], p[i]
	}
	return p
}

// Fork derives an independent PRNG labelled by s.
func (r *Rand) Fork(label string) *Rand { return NewRand(Derive(r.Uint64(), label, 0)) }

// Derive derives a sub-seed from (seed, label, i).
func Derive(seed uint64, label string, i uint64) uint64 {
	h := sha256.New()
	var b [16]byte
	binary.LittleEndian.PutUint64(b[:8], seed)
	binary.LittleEndian.PutUint64(b[8:], i)
	h.Write(b[:])
	h.Write([]byte(label))
	return binary.LittleEndian.Uint64(h.Sum(nil)[:8])
}

// Hash64 hashes bytes to 64 bits (for fingerprints of states / interleavings).
func Hash64(parts ...[]byte) uint64 {
	h := sha256.New()
	for _, p := range parts {
		var l [4]byte
		binary.LittleEndian.PutUint32(l[:], uint32(len(p)))
		h.Write(l[:])
		h.Write(p)
	}
	return binary.LittleEndian.Uint64(h.Sum(nil)[:8])
}
