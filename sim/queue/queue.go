// Package queue is engine E5 (simqueue): the runtime transaction pool main queue driven by
// three kinds of simulated actors (submitters, batch scheduler, block watcher) whose atomic
// operations are interleaved by the simulator, checked against a literal reference model
// that tolerates exactly the nondeterminism the property allows (order among equal priorities).
package queue

import (
	"encoding/json"
	"fmt"
	"math"
	"sort"

	"github.com/oasisprotocol/oasis-core/go/common/crypto/hash"
	"github.com/oasisprotocol/oasis-core/go/runtime/host/protocol"
	"github.com/oasisprotocol/oasis-core/go/runtime/txpool"

	"verif/sim/core"
)

// Knobs of a run.
type Knobs struct {
	Capacity int      `json:"capacity"`
	Nonce0   []uint64 `json:"nonce0"` // initial state sequence per sender
}

// Op is one symbolic actor step.
type Op struct {
	K      string `json:"k"` // add | sched | extra | used | usedsched | fwd | reset
	Sender int    `json:"s,omitempty"`
	Off    int    `json:"off,omitempty"`  // sequence offset relative to the sender's state sequence
	Prio   uint64 `json:"p,omitempty"`    // priority
	Limit  int    `json:"l,omitempty"`    // schedule limit
	Pick   int    `json:"pick,omitempty"` // index selector (mod size) for used ops
	N      int    `json:"n,omitempty"`    // how many hashes for used ops
	ID     int    `json:"id,omitempty"`   // makes raw bytes unique
}

// Engine implements core.Engine.
type Engine struct{}

var boundaries = []uint64{0, 1, 7, math.MaxInt64 - 3, math.MaxInt64 - 1, math.MaxInt64, math.MaxInt64 + 1, math.MaxUint64 - 4, math.MaxUint64 - 1, math.MaxUint64}

// Generate implements core.Engine.
func (Engine) Generate(r *core.Rand, tier core.Tier) *core.Scenario {
	ns := r.Range(1, 4)
	k := Knobs{Capacity: r.Range(1, 8)}
	for i := 0; i < ns; i++ {
		if r.Chance(1, 2) {
			k.Nonce0 = append(k.Nonce0, boundaries[r.Intn(len(boundaries))])
		} else {
			k.Nonce0 = append(k.Nonce0, uint64(r.Intn(20)))
		}
	}
	nops := r.Range(3, 40)
	if tier == core.Thorough {
		nops = r.Range(3, 80)
	}
	// Swarm: per-run op mix.
	w := []int{r.Range(4, 12), r.Range(1, 5), r.Range(0, 4), r.Range(0, 3), r.Range(0, 4), r.Range(0, 2), r.Range(0, 1)}
	prioMax := []int{1, 3, 5, 1000}[r.Intn(4)]
	sc := &core.Scenario{Engine: "queue", Knobs: core.MustJSON(k)}
	for i := 0; i < nops; i++ {
		var op Op
		switch r.Pick(w) {
		case 0:
			op = Op{K: "add", Sender: r.Intn(ns), Off: r.Range(-2, 5), Prio: uint64(r.Intn(prioMax + 1)), ID: i}
			if r.Chance(1, 30) {
				op.Prio = math.MaxUint64
			}
		case 1:
			op = Op{K: "sched", Limit: r.Range(0, 10)}
			if r.Chance(1, 20) {
				op.Limit = 150
			}
		case 2:
			op = Op{K: "extra", Limit: r.Range(0, 6)}
		case 3:
			op = Op{K: "used", Pick: r.Intn(64), N: r.Range(1, 3)}
		case 4:
			op = Op{K: "usedsched", N: r.Range(1, 4)}
		case 5:
			op = Op{K: "fwd", Sender: r.Intn(ns), Off: r.Range(0, 4)}
		case 6:
			op = Op{K: "reset"}
		}
		sc.Ops = append(sc.Ops, core.MustJSON(op))
	}
	return sc
}

// mtx is a model transaction.
type mtx struct {
	h      hash.Hash
	raw    []byte
	sender int
	seq    uint64
	prio   uint64
}

// model is the literal reference model: a slice of transactions plus, per sender that has
// transactions (or was created), its current sequence, plus the per-pass record of the last
// scheduled sequence per sender.
type model struct {
	capacity int
	txs      []*mtx
	cur      map[int]uint64 // current sequence of senders known to the pool
	lastSch  map[int]uint64 // per pass: last scheduled seq per sender
}

func (m *model) find(sender int, seq uint64) *mtx {
	for _, t := range m.txs {
		if t.sender == sender && t.seq == seq {
			return t
		}
	}
	return nil
}

func (m *model) byHash(h hash.Hash) *mtx {
	for _, t := range m.txs {
		if t.h == h {
			return t
		}
	}
	return nil
}

func (m *model) remove(t *mtx) {
	for i, x := range m.txs {
		if x == t {
			m.txs = append(m.txs[:i], m.txs[i+1:]...)
			break
		}
	}
	m.gc(t.sender)
}

func (m *model) count(sender int) int {
	n := 0
	for _, t := range m.txs {
		if t.sender == sender {
			n++
		}
	}
	return n
}

// gc forgets a sender that has no transactions (the pool tracks only senders with transactions).
func (m *model) gc(sender int) {
	if m.count(sender) == 0 {
		delete(m.cur, sender)
	}
}

func (m *model) forward(sender int, seq uint64) {
	c, ok := m.cur[sender]
	if !ok || seq <= c {
		return
	}
	m.cur[sender] = seq
	var keep []*mtx
	for _, t := range m.txs {
		if t.sender == sender && t.seq < seq {
			continue
		}
		keep = append(keep, t)
	}
	m.txs = keep
	m.gc(sender)
}

// candidates returns the transactions that may be scheduled next.
func (m *model) candidates() []*mtx {
	var c []*mtx
	seen := map[int]bool{}
	for _, t := range m.txs {
		if seen[t.sender] {
			continue
		}
		seen[t.sender] = true
		var want uint64
		if last, ok := m.lastSch[t.sender]; ok {
			if last == math.MaxUint64 {
				continue
			}
			want = last + 1
		} else {
			want = m.cur[t.sender]
		}
		if x := m.find(t.sender, want); x != nil {
			c = append(c, x)
		}
	}
	return c
}

func maxPrio(c []*mtx) uint64 {
	var p uint64
	for _, t := range c {
		if t.prio > p {
			p = t.prio
		}
	}
	return p
}

func viol(kind, fp, detail string) *core.Violation {
	return &core.Violation{Property: "C20", Kind: kind, Fingerprint: fp, Detail: detail}
}

func seqClass(s uint64) string {
	switch {
	case s == math.MaxInt64:
		return "2^63-1"
	case s == math.MaxInt64+1:
		return "2^63"
	case s == math.MaxUint64:
		return "2^64-1"
	case s >= math.MaxInt64-4 && s <= math.MaxInt64+4:
		return "near-2^63"
	case s >= math.MaxUint64-4:
		return "near-2^64"
	}
	return "ordinary"
}

// Execute implements core.Engine.
func (Engine) Execute(sc *core.Scenario, st *core.Stats) (*core.Violation, bool) {
	var k Knobs
	if err := json.Unmarshal(sc.Knobs, &k); err != nil {
		core.Harnessf("queue: bad knobs: %v", err)
	}
	ns := len(k.Nonce0)
	if ns == 0 || k.Capacity < 1 {
		core.Harnessf("queue: bad knobs")
	}
	q := txpool.NewVerifMainQueue(k.Capacity)
	m := &model{capacity: k.Capacity, cur: map[int]uint64{}, lastSch: map[int]uint64{}}
	nonce := append([]uint64(nil), k.Nonce0...) // hidden chain state sequence per sender (monotone)
	var lastSchedule []hash.Hash
	var passOpen, passInterrupted bool
	kinds := map[string]bool{}

	senderName := func(i int) string { return fmt.Sprintf("sender-%d", i) }
	addSeq := func(base uint64, off int) uint64 {
		if off >= 0 {
			if base > math.MaxUint64-uint64(off) {
				return math.MaxUint64
			}
			return base + uint64(off)
		}
		if base < uint64(-off) {
			return 0
		}
		return base - uint64(-off)
	}

	// checkContents compares pool contents with the model.
	checkContents := func(step int, what string) *core.Violation {
		all := q.All()
		got := map[hash.Hash]bool{}
		for _, t := range all {
			if got[t.Hash()] {
				return viol("contents-duplicate", "contents-duplicate", fmt.Sprintf("step %d (%s): All() returned a transaction twice", step, what))
			}
			got[t.Hash()] = true
		}
		if q.Size() != len(all) {
			return viol("size-mismatch", "size-mismatch", fmt.Sprintf("step %d (%s): Size()=%d but All() has %d", step, what, q.Size(), len(all)))
		}
		if len(all) > k.Capacity {
			return viol("capacity-exceeded", "capacity-exceeded", fmt.Sprintf("step %d (%s): pool holds %d > capacity %d", step, what, len(all), k.Capacity))
		}
		if len(got) != len(m.txs) {
			return viol("contents-mismatch", "contents-mismatch", fmt.Sprintf("step %d (%s): pool holds %d transactions, reference model %d (%s)", step, what, len(got), len(m.txs), m.describe()))
		}
		for _, t := range m.txs {
			if !got[t.h] {
				return viol("contents-mismatch", "contents-mismatch", fmt.Sprintf("step %d (%s): model transaction sender=%d seq=%d prio=%d missing from pool", step, what, t.sender, t.seq, t.prio))
			}
			if g, ok := q.Get(t.h); !ok || g.Hash() != t.h {
				return viol("get-mismatch", "get-mismatch", fmt.Sprintf("step %d (%s): Get of a held transaction failed", step, what))
			}
		}
		return nil
	}

	// doSchedule validates a returned schedule sequentially against the model.
	doSchedule := func(step int, what string, limit int, res []*txpool.TxQueueMeta) *core.Violation {
		n := limit
		if n > 100 {
			n = 100
		}
		seenInPass := map[hash.Hash]bool{}
		for i, r := range res {
			t := m.byHash(r.Hash())
			if t == nil {
				return viol("schedule-unknown-tx", "schedule-unknown-tx", fmt.Sprintf("step %d (%s): scheduled transaction #%d is not in the reference pool", step, what, i))
			}
			if seenInPass[t.h] {
				return viol("schedule-duplicate", "schedule-duplicate", fmt.Sprintf("step %d (%s): transaction scheduled twice in one call", step, what))
			}
			seenInPass[t.h] = true
			// Invariant (sender prefix rule), stated independently of candidates():
			// every lower sequence from the sender's current sequence onward must have been
			// scheduled before it in this pass, i.e. t.seq == cur (nothing scheduled yet for the
			// sender) or t.seq == last+1.
			if last, ok := m.lastSch[t.sender]; ok {
				if last == math.MaxUint64 || t.seq != last+1 {
					return viol("sender-order", "sender-order", fmt.Sprintf("step %d (%s): sender %d seq %d scheduled after seq %d in the same pass", step, what, t.sender, t.seq, last))
				}
			} else if t.seq != m.cur[t.sender] {
				return viol("sender-order", "sender-order", fmt.Sprintf("step %d (%s): sender %d seq %d scheduled but current sequence is %d", step, what, t.sender, t.seq, m.cur[t.sender]))
			}
			c := m.candidates()
			if mp := maxPrio(c); t.prio != mp {
				return viol("priority-order", "priority-order", fmt.Sprintf("step %d (%s): scheduled prio %d while a ready transaction has prio %d", step, what, t.prio, mp))
			}
			m.lastSch[t.sender] = t.seq
			if cl := seqClass(t.seq); cl != "ordinary" {
				st.Inc("probe.scheduled_seq_" + cl)
			}
		}
		// Completeness: the schedule stops early only when nothing is ready.
		if len(res) < n {
			if c := m.candidates(); len(c) > 0 {
				t := c[0]
				return viol("schedule-incomplete", "schedule-incomplete seq="+seqClass(t.seq),
					fmt.Sprintf("step %d (%s): schedule(limit=%d) returned %d transactions but sender %d seq %d (prio %d) is ready (its sequence is the sender's current sequence or follows the last one scheduled in this pass; %s)",
						step, what, limit, len(res), t.sender, t.seq, t.prio, m.describe()))
			}
		}
		if len(res) > n {
			return viol("schedule-over-limit", "schedule-over-limit", fmt.Sprintf("step %d (%s): %d transactions for limit %d", step, what, len(res), limit))
		}
		lastSchedule = lastSchedule[:0]
		for _, r := range res {
			lastSchedule = append(lastSchedule, r.Hash())
		}
		return nil
	}

	for step, raw := range sc.Ops {
		var op Op
		if err := json.Unmarshal(raw, &op); err != nil {
			core.Harnessf("queue: bad op: %v", err)
		}
		kinds[op.K] = true
		var v *core.Violation
		skip := false
		pv, stack := core.Guard(func() {
			switch op.K {
			case "add":
				s := op.Sender % ns
				seq := addSeq(nonce[s], op.Off)
				rawTx := []byte(fmt.Sprintf("tx/%d/%d/%d/%d", s, seq, op.Prio, op.ID))
				meta := &protocol.CheckTxMetadata{Priority: op.Prio, Sender: []byte(senderName(s)), SenderSeq: seq, SenderStateSeq: nonce[s]}
				tx := txpool.NewVerifTx(rawTx)
				st.Event("add s=%d seq=%d prio=%d state=%d", s, seq, op.Prio, nonce[s])
				if cl := seqClass(seq); cl != "ordinary" {
					st.Inc("probe.add_seq_" + cl)
				}
				if passOpen {
					passInterrupted = true
				}
				err := q.Add(tx, meta)
				// Model.
				m.forward(s, nonce[s])
				if _, ok := m.cur[s]; !ok {
					m.cur[s] = nonce[s]
				}
				nt := &mtx{h: tx.Hash(), raw: rawTx, sender: s, seq: seq, prio: op.Prio}
				switch old := m.find(s, seq); {
				case seq < m.cur[s]:
					m.gc(s)
					st.Inc("probe.add_expired")
					if err == nil {
						v = viol("add-accepted-expired", "add-accepted-expired", fmt.Sprintf("step %d: add of seq %d below current %d succeeded", step, seq, nonce[s]))
					}
				case old != nil:
					if old.prio >= op.Prio {
						st.Inc("probe.replacement_refused")
						if err == nil {
							v = viol("replacement-not-strict", "replacement-not-strict", fmt.Sprintf("step %d: same-sequence transaction with prio %d replaced one with prio %d", step, op.Prio, old.prio))
						}
					} else {
						st.Inc("probe.strict_replacement")
						if err != nil {
							v = viol("replacement-refused", "replacement-refused", fmt.Sprintf("step %d: higher-priority replacement refused: %v", step, err))
						}
						for i, x := range m.txs {
							if x == old {
								m.txs[i] = nt
							}
						}
					}
				default:
					m.txs = append(m.txs, nt)
					if len(m.txs) > m.capacity {
						st.Inc("probe.capacity_eviction")
						// Allowed: evict any transaction of minimal priority. Adopt the pool's choice
						// when it is among the allowed ones.
						minP := uint64(math.MaxUint64)
						for _, t := range m.txs {
							if t.prio < minP {
								minP = t.prio
							}
						}
						held := map[hash.Hash]bool{}
						for _, t := range q.All() {
							held[t.Hash()] = true
						}
						var evicted []*mtx
						for _, t := range m.txs {
							if !held[t.h] {
								evicted = append(evicted, t)
							}
						}
						switch {
						case len(evicted) != 1:
							v = viol("eviction-count", "eviction-count", fmt.Sprintf("step %d: adding beyond capacity evicted %d transactions", step, len(evicted)))
						case evicted[0].prio != minP:
							v = viol("eviction-not-lowest", "eviction-not-lowest", fmt.Sprintf("step %d: evicted prio %d but lowest is %d", step, evicted[0].prio, minP))
						default:
							if (evicted[0] == nt) != (err != nil) {
								v = viol("add-result", "add-result", fmt.Sprintf("step %d: eviction of new tx=%v but err=%v", step, evicted[0] == nt, err))
							}
							if evicted[0] == nt {
								st.Inc("probe.add_underpriced")
							}
							m.remove(evicted[0])
						}
					} else if err != nil {
						v = viol("add-refused", "add-refused", fmt.Sprintf("step %d: valid add refused: %v", step, err))
					}
				}
			case "sched", "extra":
				if op.K == "sched" {
					m.lastSch = map[int]uint64{}
					if passOpen && passInterrupted {
						st.Inc("probe.pass_interrupted")
					}
					passOpen, passInterrupted = true, false
				}
				var res []*txpool.TxQueueMeta
				if op.K == "sched" {
					res = q.Schedule(op.Limit)
				} else {
					res = q.ScheduleExtra(op.Limit)
				}
				st.Event("%s limit=%d -> %d", op.K, op.Limit, len(res))
				v = doSchedule(step, op.K, op.Limit, res)
			case "reset":
				q.Reset()
				m.lastSch = map[int]uint64{}
				passOpen = false
				st.Event("reset")
			case "used", "usedsched":
				var hs []hash.Hash
				if op.K == "usedsched" {
					for i := 0; i < op.N && i < len(lastSchedule); i++ {
						hs = append(hs, lastSchedule[i])
					}
				} else if len(m.txs) > 0 {
					sorted := append([]*mtx(nil), m.txs...)
					sort.Slice(sorted, func(i, j int) bool {
						if sorted[i].sender != sorted[j].sender {
							return sorted[i].sender < sorted[j].sender
						}
						if sorted[i].seq != sorted[j].seq {
							return sorted[i].seq < sorted[j].seq
						}
						return sorted[i].prio < sorted[j].prio
					})
					for i := 0; i < op.N; i++ {
						hs = append(hs, sorted[(op.Pick+i*7)%len(sorted)].h)
					}
				}
				if len(hs) == 0 {
					skip = true
					return
				}
				if passOpen {
					passInterrupted = true
				}
				st.Event("used n=%d", len(hs))
				q.HandleTxsUsed(hs)
				for _, h := range hs {
					t := m.byHash(h)
					if t == nil {
						continue
					}
					st.Inc("probe.tx_used")
					m.remove(t)
					if t.seq < math.MaxUint64 {
						if _, known := m.cur[t.sender]; !known {
							// sender forgotten: nothing to forward in the pool
						} else {
							m.forward(t.sender, t.seq+1)
						}
						if nonce[t.sender] < t.seq+1 {
							nonce[t.sender] = t.seq + 1
						}
					}
				}
			case "fwd":
				s := op.Sender % ns
				seq := addSeq(nonce[s], op.Off)
				if nonce[s] < seq {
					nonce[s] = seq
				}
				if passOpen {
					passInterrupted = true
				}
				st.Event("fwd s=%d seq=%d", s, seq)
				q.Forward(senderName(s), seq)
				m.forward(s, seq)
			default:
				core.Harnessf("queue: unknown op %q", op.K)
			}
		})
		if pv != nil {
			return viol("panic", "panic in "+core.PanicSite(stack, "oasis-core/go/runtime/txpool"), fmt.Sprintf("step %d (%s): the pool panicked: %v (%s)\n%s", step, op.K, pv, m.describe(), stack)), true
		}
		if skip {
			continue
		}
		if v == nil {
			v = checkContents(step, op.K)
		}
		if v != nil {
			return v, true
		}
		st.Distinct("pool_states", core.Hash64([]byte(m.describe())))
	}
	st.Sample(3, map[string]interface{}{"knobs": k, "ops": sc.Ops})
	return nil, len(kinds) >= 3 && (kinds["sched"] || kinds["extra"]) && kinds["add"]
}

func (m *model) describe() string {
	s := append([]*mtx(nil), m.txs...)
	sort.Slice(s, func(i, j int) bool {
		if s[i].sender != s[j].sender {
			return s[i].sender < s[j].sender
		}
		return s[i].seq < s[j].seq
	})
	out := ""
	for _, t := range s {
		out += fmt.Sprintf("[s%d seq=%d p=%d]", t.sender, t.seq, t.prio)
	}
	ks := make([]int, 0, len(m.cur))
	for k := range m.cur {
		ks = append(ks, k)
	}
	sort.Ints(ks)
	for _, k := range ks {
		out += fmt.Sprintf(" cur[s%d]=%d", k, m.cur[k])
	}
	ls := make([]int, 0, len(m.lastSch))
	for k := range m.lastSch {
		ls = append(ls, k)
	}
	sort.Ints(ls)
	for _, k := range ls {
		out += fmt.Sprintf(" last[s%d]=%d", k, m.lastSch[k])
	}
	return out
}
