module verif/sim

go 1.26.3
