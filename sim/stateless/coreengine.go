package stateless

// The real stateless.Core over a real consensus light client (C19, batch "core").
//
// The function-level batch drives the verification functions one call at a time. This batch runs
// what a stateless node actually runs: stateless.Core (request plumbing, height resolution, the
// "latest height" exception for block results, the state-root and results-hash caches) on top of
// the real oasis light client (lazy initialization from the trust options, pruned store) and the
// real CometBFT light-client verification, with
//
//   - a simulated network of light-block providers (primary + two witnesses) that serve the
//     synthetic chain's really signed light blocks up to a network tip that the simulator
//     advances, so the set of verified headers grows while requests are being served, and
//   - a Byzantine consensus provider whose answer to any single request is an honest response
//     altered by the mutation operators of the function-level batch (or a response for another
//     height, or one for a height the network does not have yet).
//
// A scenario is a sequence of caller requests (block, transactions, transactions with proofs,
// block results, transactions with results, state root, validators, light block, latest height,
// submit-with-proof) interleaved with tip advances and background light-client syncs. Oracle:
// whatever Core returns to its caller must equal the honest data in every field the verified
// header binds, for every height below the latest trusted one; honest answers must be returned;
// nothing may panic.

import (
	"bytes"
	"context"
	"encoding/json"
	"fmt"
	"time"

	cmtdb "github.com/cometbft/cometbft-db"
	cmtlight "github.com/cometbft/cometbft/light"
	cmtlightprovider "github.com/cometbft/cometbft/light/provider"
	cmtlightdb "github.com/cometbft/cometbft/light/store/db"
	cmtproto "github.com/cometbft/cometbft/proto/tendermint/types"
	cmttypes "github.com/cometbft/cometbft/types"

	"github.com/oasisprotocol/oasis-core/go/common/cbor"
	"github.com/oasisprotocol/oasis-core/go/common/crypto/hash"
	consensusAPI "github.com/oasisprotocol/oasis-core/go/consensus/api"
	"github.com/oasisprotocol/oasis-core/go/consensus/api/transaction"
	cmtAPI "github.com/oasisprotocol/oasis-core/go/consensus/cometbft/api"
	"github.com/oasisprotocol/oasis-core/go/consensus/cometbft/light"
	sl "github.com/oasisprotocol/oasis-core/go/consensus/cometbft/stateless"
	mkvsNode "github.com/oasisprotocol/oasis-core/go/storage/mkvs/node"

	"verif/sim/core"
)

// CoreEngine implements core.Engine for the batch "core".
type CoreEngine struct{}

// CoreKnobs are the knobs of a core run.
type CoreKnobs struct {
	Knobs
	// Trust is the index of the height the light client is configured to trust initially.
	Trust int `json:"trust"`
	// Tip is the index of the network tip at the start.
	Tip int `json:"tip"`
}

// CoreOp is one step of a core run.
type CoreOp struct {
	// Call: block | txs | txproofs | results | txresults | stateroot | vals | lightblock | latest |
	// submit (caller requests), adv (the network tip advances by N), sync (the light client
	// verifies up to the tip in the background).
	Call string `json:"call"`
	// H selects the height of an honest request (index, may lie above the tip).
	H int `json:"h,omitempty"`
	N int `json:"n,omitempty"`
	// Mut, when set, is what the Byzantine provider does to its answer (the requested height is
	// then the one the mutant is aimed at).
	Mut *Op `json:"mut,omitempty"`
	// Latest is the provider's answer to GetLatestHeight for the "latest" call (offset to the tip).
	Latest int `json:"latest,omitempty"`
	// AtLatest makes the caller ask for "the latest height" (height 0) instead of a number; Core
	// then asks the provider for the latest height, possibly more than once during one request,
	// and the provider answers with tip+LatestSeq[i] on its i-th answer (the last one repeats).
	// Forge > 0 (lightblock calls): the light-block peers answer that many requests for the
	// height with a forged light block; the caller asks for the height several times in a row.
	Forge     int   `json:"forge,omitempty"`
	AtLatest  bool  `json:"at_latest,omitempty"`
	LatestSeq []int `json:"latest_seq,omitempty"`
}

var coreCalls = []string{"block", "txs", "txproofs", "results", "txresults", "stateroot", "vals", "lightblock", "latest", "submit"}

var coreMutEP = map[string]string{"block": "block", "txs": "txs", "txproofs": "txs", "stateroot": "txs", "results": "results", "txresults": "results", "vals": "vals", "submit": "proof"}

// Generate implements core.Engine.
func (CoreEngine) Generate(r *core.Rand, tier core.Tier) *core.Scenario {
	var k CoreKnobs
	k.Source = "synthetic"
	k.ChainSeed = r.Uint64() >> 1
	k.Heights = r.Range(4, 10)
	k.Vals = r.Range(1, 5)
	switch r.Intn(4) {
	case 0:
		k.Base = 1
	case 1:
		k.Base = int64(r.Range(2, 5))
	default:
		k.Base = int64(r.Range(6, 30000000))
	}
	if r.Chance(2, 3) {
		k.ChangeAt = r.Range(1, k.Heights)
		k.ChangeKind = r.Intn(4)
	}
	for i := 0; i < k.Heights; i++ {
		k.TxCounts = append(k.TxCounts, r.Pick([]int{1, 1, 2})*r.Range(0, 4))
		k.Nanos = append(k.Nanos, int64(r.Pick([]int{1, 1, 2})*r.Intn(500000000)))
	}
	k.DupTx = r.Chance(1, 4)
	k.Absent = r.Intn(3)
	k.Tip = r.Range(1, k.Heights-2)
	k.Trust = r.Range(0, k.Tip)
	sc := &core.Scenario{Engine: "stateless-core", Knobs: core.MustJSON(k)}
	w := make([]int, len(coreCalls))
	for i := range w {
		w[i] = r.Range(0, 6)
	}
	w[r.Intn(len(w))] += 3
	nops := r.Range(15, 60)
	if tier == core.Thorough {
		nops = r.Range(20, 120)
	}
	for i := 0; i < nops; i++ {
		switch {
		case r.Chance(1, 10):
			sc.Ops = append(sc.Ops, core.MustJSON(CoreOp{Call: "adv", N: r.Range(1, 2)}))
			continue
		case r.Chance(1, 12):
			sc.Ops = append(sc.Ops, core.MustJSON(CoreOp{Call: "sync"}))
			continue
		}
		op := CoreOp{Call: coreCalls[r.Pick(w)], H: r.Intn(64)}
		if r.Chance(1, 3) {
			op.H = r.Intn(4) // towards the tip (selector counts down from the tip)
		}
		if op.Call == "lightblock" && r.Chance(1, 3) {
			op.Forge = r.Range(1, 4)
			op.H = r.Intn(3) // at or just below the tip: mostly not verified yet
		}
		if op.Call == "latest" {
			op.Latest = r.Pick([]int{4, 2, 1, 1}) * (r.Intn(5) - 2)
			if r.Chance(1, 8) {
				op.Latest = -1 << 40
			}
		}
		if r.Chance(1, 8) && (op.Call == "block" || op.Call == "txs" || op.Call == "results" || op.Call == "txresults" || op.Call == "stateroot") {
			op.AtLatest = true
			for j, n := 0, r.Range(1, 3); j < n; j++ {
				op.LatestSeq = append(op.LatestSeq, -r.Pick([]int{3, 3, 2, 1}))
			}
			if r.Chance(1, 6) {
				op.LatestSeq[r.Intn(len(op.LatestSeq))] = r.Range(1, 2) // a height the network does not have
			}
			sc.Ops = append(sc.Ops, core.MustJSON(op))
			continue
		}
		if ep := coreMutEP[op.Call]; ep != "" && r.Chance(3, 5) {
			ops := opTable[ep]
			m := Op{EP: ep, M: ops[r.Intn(len(ops))], H: r.Intn(64), A: r.Intn(1 << 16), B: r.Intn(1 << 16), C: r.Intn(1 << 16)}
			if r.Chance(1, 2) {
				m.A, m.B, m.C = r.Intn(12), r.Intn(12), r.Intn(12)
			}
			switch m.M {
			case "append", "prepend", "meta-extend", "raw-extend", "hdr-extend", "lc-extend":
				m.X = r.Bytes(r.Range(1, 40))
			}
			op.Mut = &m
		}
		sc.Ops = append(sc.Ops, core.MustJSON(op))
	}
	return sc
}

// ---- the simulated network ----

// lbNet serves the chain's light blocks up to the tip (primary and witnesses share it).
type lbNet struct {
	c      *chain
	tip    int
	served int
	// forge: height -> number of requests that are still answered with a forged light block (a
	// header with another application hash under the honest commit): a lying light-block peer.
	forge  map[int64]int
	forged int
}

func copyLightBlock(lb *cmttypes.LightBlock) *cmttypes.LightBlock {
	p, err := lb.ToProto()
	if err != nil {
		core.Harnessf("stateless-core: light block to proto: %v", err)
	}
	raw, err := p.Marshal()
	if err != nil {
		core.Harnessf("stateless-core: light block marshal: %v", err)
	}
	var q cmtproto.LightBlock
	if err := q.Unmarshal(raw); err != nil {
		core.Harnessf("stateless-core: light block unmarshal: %v", err)
	}
	out, err := cmttypes.LightBlockFromProto(&q)
	if err != nil {
		core.Harnessf("stateless-core: light block from proto: %v", err)
	}
	return out
}

func (n *lbNet) ChainID() string { return n.c.chainID }

func (n *lbNet) LightBlock(_ context.Context, height int64) (*cmttypes.LightBlock, error) {
	if height == 0 {
		return copyLightBlock(n.c.hs[n.tip].lb), nil
	}
	for i := 0; i <= n.tip; i++ {
		if n.c.hs[i].lb.Height == height {
			n.served++
			lb := copyLightBlock(n.c.hs[i].lb)
			if n.forge[height] > 0 {
				n.forge[height]--
				n.forged++
				lb.Header.AppHash = append([]byte{}, lb.Header.AppHash...)
				lb.Header.AppHash[0] ^= 0x5a
			}
			return lb, nil
		}
	}
	if height > n.c.hs[n.tip].lb.Height {
		return nil, cmtlightprovider.ErrHeightTooHigh
	}
	return nil, cmtlightprovider.ErrLightBlockNotFound
}

func (n *lbNet) LightBlockWithPeerID(ctx context.Context, height int64) (*cmttypes.LightBlock, string, error) {
	lb, err := n.LightBlock(ctx, height)
	return lb, "net", err
}

func (n *lbNet) ReportEvidence(context.Context, cmttypes.Evidence) error { return nil }
func (n *lbNet) MalevolentProvider(string)                               {}

// byzProvider is the untrusted consensus provider: honest data of the heights up to the tip,
// except for the one response the current step overrides.
type byzProvider struct {
	consensusAPI.Backend // nil: any call the harness did not foresee panics (harness error)

	c   *chain
	net *lbNet

	blk    *consensusAPI.Block
	txs    [][]byte
	hasTxs bool
	res    *consensusAPI.BlockResults
	vals   *consensusAPI.Validators
	latest *int64
	// latestSeq, when set, are the answers to consecutive GetLatestHeight calls (last repeats).
	latestSeq []int64
	latestN   int
	proof     *transaction.Proof
	calls     int
}

func (p *byzProvider) reset() {
	p.blk, p.txs, p.hasTxs, p.res, p.vals, p.latest, p.proof = nil, nil, false, nil, nil, nil, nil
	p.latestSeq, p.latestN = nil, 0
}

func (p *byzProvider) idx(height int64) int {
	for i := 0; i <= p.net.tip; i++ {
		if p.c.hs[i].lb.Height == height {
			return i
		}
	}
	return -1
}

func (p *byzProvider) GetBlock(_ context.Context, height int64) (*consensusAPI.Block, error) {
	p.calls++
	if p.blk != nil {
		return p.blk, nil
	}
	if i := p.idx(height); i >= 0 {
		return cloneBlock(p.c.hs[i].block), nil
	}
	return nil, consensusAPI.ErrVersionNotFound
}

func (p *byzProvider) GetTransactions(_ context.Context, height int64) ([][]byte, error) {
	p.calls++
	if p.hasTxs {
		return p.txs, nil
	}
	if i := p.idx(height); i >= 0 {
		return cpList(p.c.hs[i].txs), nil
	}
	return nil, consensusAPI.ErrVersionNotFound
}

func (p *byzProvider) GetBlockResults(_ context.Context, height int64) (*consensusAPI.BlockResults, error) {
	p.calls++
	if p.res != nil {
		return p.res, nil
	}
	if i := p.idx(height); i >= 0 {
		o := p.c.hs[i].resultsAll
		return &consensusAPI.BlockResults{Height: o.Height, Meta: cp(o.Meta)}, nil
	}
	return nil, consensusAPI.ErrVersionNotFound
}

func (p *byzProvider) GetValidators(_ context.Context, height int64) (*consensusAPI.Validators, error) {
	p.calls++
	if p.vals != nil {
		return p.vals, nil
	}
	// Validators of height h are the "next validators" of height h-1.
	if i := p.idx(height - 1); i >= 0 {
		o := p.c.hs[i].nextVals
		return &consensusAPI.Validators{Height: o.Height, Meta: cp(o.Meta)}, nil
	}
	return nil, consensusAPI.ErrVersionNotFound
}

func (p *byzProvider) GetLatestHeight(context.Context) (int64, error) {
	p.calls++
	if len(p.latestSeq) > 0 {
		i := min(p.latestN, len(p.latestSeq)-1)
		p.latestN++
		return p.latestSeq[i], nil
	}
	if p.latest != nil {
		return *p.latest, nil
	}
	return p.c.hs[p.net.tip].lb.Height, nil
}

func (p *byzProvider) SubmitTxWithProof(context.Context, *transaction.SignedTransaction) (*transaction.Proof, error) {
	p.calls++
	if p.proof != nil {
		return p.proof, nil
	}
	return nil, fmt.Errorf("provider: transaction not included")
}

// ---- execution ----

type coreRun struct {
	c    *chain
	st   *core.Stats
	net  *lbNet
	prov *byzProvider
	lc   *light.Client
	core *sl.Core
	ctx  context.Context

	// trustHeight is the height of the configured trust root (the lazily initialised light client
	// knows no trusted height before its first use).
	trustHeight int64

	proofs    map[int][][]byte
	honestOK  int
	effective int
	returned  int
}

func cviol(kind, fp, detail string) *core.Violation {
	return &core.Violation{Property: "C19", Kind: kind, Fingerprint: fp, Detail: detail}
}

func (cr *coreRun) idxOf(height int64) int {
	for i, hd := range cr.c.hs {
		if hd.lb.Height == height {
			return i
		}
	}
	return -1
}

func (cr *coreRun) lastTrusted() int64 {
	h, err := cr.lc.LastTrustedHeight()
	if err != nil {
		return -1
	}
	return h
}

func (cr *coreRun) proofsOf(hi int) [][]byte {
	if p, ok := cr.proofs[hi]; ok {
		return p
	}
	twp := sl.VerifTransactionsWithProofs(cpList(cr.c.hs[hi].txs))
	cr.proofs[hi] = twp.Proofs
	return twp.Proofs
}

// call runs one request against Core, guarding panics.
func (cr *coreRun) call(i int, op *CoreOp, what string, f func() error) (err error, v *core.Violation) {
	pv, stack := core.Guard(func() { err = f() })
	if pv != nil {
		if _, ok := pv.(*core.HarnessError); ok {
			panic(pv)
		}
		site := core.PanicSite(stack, repoPkg)
		if site == "unknown" {
			site = core.PanicSite(stack, "oasis-core/go/")
		}
		return nil, cviol("panic", "panic in "+site, fmt.Sprintf("step %d: Core.%s panicked: %v\n%s", i, what, pv, stack))
	}
	return err, nil
}

func mutName(op *CoreOp) string {
	if op.Mut == nil {
		return "honest"
	}
	return op.Mut.EP + "/" + op.Mut.M
}

// step executes one op.
func (cr *coreRun) step(i int, op *CoreOp) *core.Violation {
	c, st := cr.c, cr.st
	cr.prov.reset()
	n := len(c.hs)
	switch op.Call {
	case "adv":
		if cr.net.tip < n-1 {
			cr.net.tip = min(n-1, cr.net.tip+max(1, op.N))
			st.Inc("probe.core.tip_advanced")
			st.Event("step %d tip -> %d", i, c.hs[cr.net.tip].lb.Height)
		}
		return nil
	case "sync":
		before := cr.lastTrusted()
		_, err := cr.lc.VerifyLightBlockAt(cr.ctx, c.hs[cr.net.tip].lb.Height)
		if err != nil {
			return cviol("light-client-sync-failed", "light-client-sync-failed", fmt.Sprintf("step %d: the light client could not verify the honest network tip %d: %v", i, c.hs[cr.net.tip].lb.Height, err))
		}
		if cr.lastTrusted() > before {
			st.Inc("probe.core.light_client_synced_forward")
		}
		st.Event("step %d sync trusted=%d", i, cr.lastTrusted())
		return nil
	}
	// The height index an honest request is for: counted down from just above the tip, so that small
	// selectors give tip+1, tip, tip-1, ...
	hi := cr.net.tip + 1 - op.H%(cr.net.tip+2)
	if hi >= n {
		hi = n - 1
	}
	skip := func(why string) *core.Violation {
		st.Event("step %d %s %s skipped: %s", i, op.Call, mutName(op), why)
		st.Inc("probe.core.skipped." + op.Call)
		return nil
	}
	known := func(idx int) bool { return idx >= 0 && idx <= cr.net.tip }
	// verdict helpers
	accepted := func(res string) {
		st.Inc("probe.core." + res + "." + op.Call)
		cr.returned++
	}
	honestFail := func(what string, h int64, err error) *core.Violation {
		return cviol("honest-rejected", "honest-rejected core "+op.Call, fmt.Sprintf("step %d: Core.%s(%d) failed although the provider answered honestly and the network has the height (tip %d, latest trusted %d): %v", i, what, h, c.hs[cr.net.tip].lb.Height, cr.lastTrusted(), err))
	}
	unverifiable := func(what string, h int64) *core.Violation {
		return cviol("returned-unverifiable", "returned-unverifiable "+op.Call, fmt.Sprintf("step %d (%s): Core.%s(%d) returned data although no light block of that height can be verified (network tip %d)", i, mutName(op), what, h, c.hs[cr.net.tip].lb.Height))
	}
	fired := func() {
		if op.Mut != nil {
			cr.effective++
			st.Inc("fault.core." + op.Mut.EP + "." + op.Mut.M)
		}
	}

	if op.AtLatest {
		return cr.stepLatest(i, op)
	}
	switch op.Call {
	case "block":
		var b *consensusAPI.Block
		if op.Mut != nil {
			lbIdx, mb, why := c.mutBlock(op.Mut)
			if why != "" {
				return skip(why)
			}
			hi, b = lbIdx, mb
			cr.prov.blk = mb
		}
		h := c.hs[hi].lb.Height
		var got *consensusAPI.Block
		err, v := cr.call(i, op, "GetBlock", func() (e error) { got, e = cr.core.GetBlock(cr.ctx, h); return })
		if v != nil {
			return v
		}
		st.Event("step %d block %s h=%d %s", i, mutName(op), h, errStr(err))
		if err != nil {
			if op.Mut == nil && known(hi) {
				return honestFail("GetBlock", h, err)
			}
			st.Inc("probe.core.rejected.block")
			return nil
		}
		if !known(hi) {
			return unverifiable("GetBlock", h)
		}
		bound, env, unb := diffBlock(projBlock(c.hs[hi].block), projBlock(got))
		if b != nil {
			fired()
		}
		if len(bound) > 0 {
			return cviol("block-accepted-altered", "block-accepted-altered "+bound[0], fmt.Sprintf("step %d (%s): Core.GetBlock(%d) returned a block that differs from the honest block in bound field(s) %v", i, mutName(op), h, bound))
		}
		if len(env) > 0 {
			st.Inc("probe.known_finding_last_commit_envelope_accepted")
		}
		for _, f := range unb {
			st.Inc("probe.unbound_accepted." + f)
		}
		if op.Mut == nil {
			cr.honestOK++
		}
		accepted("returned")

	case "txs", "txproofs":
		if op.Mut != nil {
			lbIdx, mt, why := c.mutTxs(op.Mut)
			if why != "" {
				return skip(why)
			}
			if c.hs[lbIdx].hasTx && eqList(c.hs[lbIdx].txs, mt) {
				return skip("ineffective")
			}
			hi = lbIdx
			cr.prov.txs, cr.prov.hasTxs = mt, true
		}
		h := c.hs[hi].lb.Height
		var got [][]byte
		var proofs [][]byte
		what := "GetTransactions"
		if op.Call == "txproofs" {
			what = "GetTransactionsWithProofs"
		}
		err, v := cr.call(i, op, what, func() (e error) {
			if op.Call == "txproofs" {
				var twp *consensusAPI.TransactionsWithProofs
				if twp, e = cr.core.GetTransactionsWithProofs(cr.ctx, h); e == nil {
					got, proofs = twp.Transactions, twp.Proofs
				}
				return
			}
			got, e = cr.core.GetTransactions(cr.ctx, h)
			return
		})
		if v != nil {
			return v
		}
		st.Event("step %d %s %s h=%d %s", i, op.Call, mutName(op), h, errStr(err))
		if err != nil {
			if op.Mut == nil && known(hi) {
				return honestFail(what, h, err)
			}
			st.Inc("probe.core.rejected." + op.Call)
			return nil
		}
		if !known(hi) {
			return unverifiable(what, h)
		}
		fired()
		if !eqList(got, c.hs[hi].txs) {
			return cviol("txs-accepted-altered", "txs-accepted-altered core", fmt.Sprintf("step %d (%s): Core.%s(%d) returned %d transactions that differ from the block's", i, mutName(op), what, h, len(got)))
		}
		if op.Call == "txproofs" {
			// Every returned proof must verify for its transaction against the verified header.
			if len(proofs) != len(got) {
				return cviol("proofs-count", "proofs-count", fmt.Sprintf("step %d: %d proofs for %d transactions", i, len(proofs), len(got)))
			}
			for j := range got {
				var stx transaction.SignedTransaction
				if cbor.Unmarshal(got[j], &stx) != nil || !bytes.Equal(cbor.Marshal(&stx), got[j]) {
					continue
				}
				if err := sl.VerifVerifyTransactionProof(&transaction.Proof{Height: h, RawProof: proofs[j]}, &stx, c.hs[hi].lb); err != nil {
					return cviol("issued-proof-does-not-verify", "issued-proof-does-not-verify", fmt.Sprintf("step %d: the proof Core issued for transaction %d of height %d does not verify: %v", i, j, h, err))
				}
			}
		}
		if op.Mut == nil {
			cr.honestOK++
		}
		accepted("returned")

	case "results", "txresults":
		var mres *consensusAPI.BlockResults
		if op.Mut != nil {
			lbIdx, mr, why := c.mutResults(op.Mut)
			if why != "" {
				return skip(why)
			}
			hi, mres = lbIdx, mr
			cr.prov.res = mr
		}
		h := c.hs[hi].lb.Height
		honest := c.hs[hi].resultsAll
		if mres != nil && honest != nil && honest.Height == mres.Height && bytes.Equal(honest.Meta, mres.Meta) {
			return skip("ineffective")
		}
		var got *consensusAPI.BlockResults
		var twr *consensusAPI.TransactionsWithResults
		what := "GetBlockResults"
		if op.Call == "txresults" {
			what = "GetTransactionsWithResults"
		}
		err, v := cr.call(i, op, what, func() (e error) {
			if op.Call == "txresults" {
				twr, e = cr.core.GetTransactionsWithResults(cr.ctx, h)
				return
			}
			got, e = cr.core.GetBlockResults(cr.ctx, h)
			return
		})
		if v != nil {
			return v
		}
		last := cr.lastTrusted()
		st.Event("step %d %s %s h=%d trusted=%d %s", i, op.Call, mutName(op), h, last, errStr(err))
		if err != nil {
			if op.Mut == nil && known(hi) {
				return honestFail(what, h, err)
			}
			st.Inc("probe.core.rejected." + op.Call)
			return nil
		}
		if !known(hi) {
			return unverifiable(what, h)
		}
		fired()
		if h >= last {
			// The latest trusted height: its results cannot be bound yet (documented, #6210).
			st.Inc("probe.core.results_of_latest_trusted_height_returned_unverified")
			if got != nil && got.Height != h {
				return cviol("results-accepted-altered", "results-accepted-altered height", fmt.Sprintf("step %d (%s): Core.GetBlockResults(%d) returned results labelled height %d", i, mutName(op), h, got.Height))
			}
			accepted("returned_unverifiable_latest")
			return nil
		}
		st.Inc("probe.core.results_below_latest_trusted_height")
		hp := projResults(honest)
		switch {
		case got != nil:
			if bound := diffResults(hp, projResults(got)); len(bound) > 0 {
				return cviol("results-accepted-altered", "results-accepted-altered "+bound[0], fmt.Sprintf("step %d (%s): Core.GetBlockResults(%d) (latest trusted height %d) returned results that differ from the honest results in bound field(s) %v", i, mutName(op), h, last, bound))
			}
		case twr != nil:
			if !eqList(twr.Transactions, c.hs[hi].txs) {
				return cviol("txs-accepted-altered", "txs-accepted-altered core", fmt.Sprintf("step %d (%s): Core.GetTransactionsWithResults(%d) returned other transactions than the block's", i, mutName(op), h))
			}
			if len(twr.Results) != len(hp.entries) {
				return cviol("results-accepted-altered", "results-accepted-altered count", fmt.Sprintf("step %d (%s): Core.GetTransactionsWithResults(%d) returned %d results, the block has %d", i, mutName(op), h, len(twr.Results), len(hp.entries)))
			}
			for j, r := range twr.Results {
				e := hp.entries[j]
				if r.Error.Code != e.code || int64(r.GasUsed) != e.gu {
					return cviol("results-accepted-altered", "results-accepted-altered txresult", fmt.Sprintf("step %d (%s): Core.GetTransactionsWithResults(%d) (latest trusted height %d): result %d is {code %d gas %d}, honest {code %d gas %d}", i, mutName(op), h, last, j, r.Error.Code, r.GasUsed, e.code, e.gu))
				}
			}
		}
		if op.Mut == nil {
			cr.honestOK++
		}
		accepted("returned")

	case "stateroot":
		if op.Mut != nil {
			lbIdx, mt, why := c.mutTxs(op.Mut)
			if why != "" {
				return skip(why)
			}
			if c.hs[lbIdx].hasTx && eqList(c.hs[lbIdx].txs, mt) {
				return skip("ineffective")
			}
			hi = lbIdx
			cr.prov.txs, cr.prov.hasTxs = mt, true
		}
		h := c.hs[hi].lb.Height
		var got mkvsNode.Root
		before := cr.prov.calls
		err, v := cr.call(i, op, "StateRoot", func() (e error) { got, e = cr.core.StateRoot(cr.ctx, h); return })
		if v != nil {
			return v
		}
		st.Event("step %d stateroot %s h=%d %s", i, mutName(op), h, errStr(err))
		if cr.prov.calls > before {
			st.Inc("probe.core.stateroot_from_provider_transactions")
		} else if err == nil {
			st.Inc("probe.core.stateroot_from_verified_header_or_cache")
		}
		if err != nil {
			if op.Mut == nil && known(hi) {
				return honestFail("StateRoot", h, err)
			}
			st.Inc("probe.core.rejected.stateroot")
			return nil
		}
		if !known(hi) {
			return unverifiable("StateRoot", h)
		}
		if cr.prov.calls > before {
			fired()
		}
		want := c.hs[hi].rootAfter
		if got.Hash != want || got.Version != uint64(h) || got.Type != mkvsNode.RootTypeState {
			return cviol("stateroot-wrong", "stateroot-wrong core", fmt.Sprintf("step %d (%s): Core.StateRoot(%d) returned %v; the state root after that block is %s", i, mutName(op), h, got, want))
		}
		if op.Mut == nil {
			cr.honestOK++
		}
		accepted("returned")

	case "vals":
		// Validators of height h; the provider is only consulted when h is not verifiable yet.
		target := hi // index of the light block the answer is checked against is target-1
		if op.Mut != nil {
			lbIdx, mv, why := c.mutVals(op.Mut)
			if why != "" {
				return skip(why)
			}
			target = lbIdx + 1
			cr.prov.vals = mv
		}
		var h int64
		if target < n {
			h = c.hs[target].lb.Height
		} else {
			h = c.hs[n-1].lb.Height + 1
		}
		var got *consensusAPI.Validators
		before := cr.prov.calls
		err, v := cr.call(i, op, "GetValidators", func() (e error) { got, e = cr.core.GetValidators(cr.ctx, h); return })
		if v != nil {
			return v
		}
		st.Event("step %d vals %s h=%d %s", i, mutName(op), h, errStr(err))
		if err != nil {
			if op.Mut == nil && known(target) {
				return honestFail("GetValidators", h, err)
			}
			st.Inc("probe.core.rejected.vals")
			return nil
		}
		// The validators of a height are committed to by that height's verified header, or, for the
		// height right above the last verifiable one, by the previous header's next-validators hash.
		var want *consensusAPI.Validators
		switch {
		case known(target):
			enc, eerr := light.EncodeValidators(c.hs[target].lb.ValidatorSet, h)
			if eerr != nil {
				core.Harnessf("stateless-core: EncodeValidators: %v", eerr)
			}
			want = enc
		case target >= 1 && known(target-1):
			want = c.hs[target-1].nextVals
		default:
			return unverifiable("GetValidators", h)
		}
		if cr.prov.calls > before {
			fired()
			st.Inc("probe.core.validators_from_provider_for_unverified_height")
		}
		if bound := diffVals(projVals(want), projVals(got)); len(bound) > 0 {
			return cviol("validators-accepted-altered", "validators-accepted-altered "+bound[0], fmt.Sprintf("step %d (%s): Core.GetValidators(%d) returned validators that differ from the set committed to by the verified header %d in %v", i, mutName(op), h, h-1, bound))
		}
		if op.Mut == nil {
			cr.honestOK++
		}
		accepted("returned")

	case "lightblock":
		h := c.hs[hi].lb.Height
		if op.Forge > 0 && known(hi) && h > cr.lastTrusted() && h > cr.trustHeight {
			// (Only for heights above the latest trusted one, i.e. forward verification. CometBFT's
			// BACKWARD verification re-fetches the target height while walking the hash chain and
			// checks the re-fetched header, but then stores the block it fetched FIRST: a peer that
			// answers two consecutive requests for the same height differently gets an unverified
			// header trusted. That is the dependency's code, not the repository's; observed with this
			// fault kind, recorded in DESIGN.md, not generated.)
			// Lying light-block peers: the same height is asked for several times in a row; a block
			// that failed verification must never come back as verified.
			cr.net.forge[h] = op.Forge
			before := cr.net.forged
			for attempt := 0; attempt < 3; attempt++ {
				var got *consensusAPI.LightBlock
				err, v := cr.call(i, op, "GetLightBlock", func() (e error) { got, e = cr.core.GetLightBlock(cr.ctx, h); return })
				if v != nil {
					return v
				}
				st.Event("step %d lightblock forged-peers h=%d attempt=%d %s", i, h, attempt, errStr(err))
				if err != nil {
					st.Inc("probe.core.forged_light_block_refused")
					continue
				}
				dec, derr := light.DecodeLightBlock(got)
				if derr != nil || got.Height != h || !bytes.Equal(dec.Hash(), c.hs[hi].lb.Hash()) {
					return cviol("lightblock-wrong", "lightblock-wrong forged", fmt.Sprintf("step %d: Core.GetLightBlock(%d), attempt %d while light-block peers serve a forged block for that height: a light block other than the chain's was returned as verified (decode error %v)", i, h, attempt+1, derr))
				}
				// And data bound to it: the block of that height.
				var blk *consensusAPI.Block
				if err, v := cr.call(i, op, "GetBlock", func() (e error) { blk, e = cr.core.GetBlock(cr.ctx, h); return }); v != nil {
					return v
				} else if err == nil {
					if bound, _, _ := diffBlock(projBlock(c.hs[hi].block), projBlock(blk)); len(bound) > 0 {
						return cviol("block-accepted-altered", "block-accepted-altered "+bound[0], fmt.Sprintf("step %d: after forged light blocks for height %d Core.GetBlock returned a block that differs in %v", i, h, bound))
					}
				}
			}
			delete(cr.net.forge, h)
			if cr.net.forged > before {
				cr.effective++
				st.Inc("fault.core.forged-light-block-served")
			}
			accepted("returned_or_refused_under_forged_light_blocks")
			return nil
		}
		var got *consensusAPI.LightBlock
		err, v := cr.call(i, op, "GetLightBlock", func() (e error) { got, e = cr.core.GetLightBlock(cr.ctx, h); return })
		if v != nil {
			return v
		}
		st.Event("step %d lightblock h=%d %s", i, h, errStr(err))
		if err != nil {
			if known(hi) {
				return honestFail("GetLightBlock", h, err)
			}
			return nil
		}
		if !known(hi) {
			return unverifiable("GetLightBlock", h)
		}
		dec, derr := light.DecodeLightBlock(got)
		if derr != nil || got.Height != h || !bytes.Equal(dec.Hash(), c.hs[hi].lb.Hash()) {
			return cviol("lightblock-wrong", "lightblock-wrong", fmt.Sprintf("step %d: Core.GetLightBlock(%d) returned another light block (decode error %v)", i, h, derr))
		}
		cr.honestOK++
		accepted("returned")

	case "latest":
		claimed := c.hs[cr.net.tip].lb.Height + int64(op.Latest)
		cr.prov.latest = &claimed
		var got int64
		err, v := cr.call(i, op, "GetLatestHeight", func() (e error) { got, e = cr.core.GetLatestHeight(cr.ctx); return })
		if v != nil {
			return v
		}
		st.Event("step %d latest claimed=%d %s", i, claimed, errStr(err))
		if op.Latest != 0 {
			cr.effective++
			st.Inc("fault.core.latest-height-lie")
		}
		if err != nil {
			if op.Latest == 0 {
				return honestFail("GetLatestHeight", claimed, err)
			}
			return nil
		}
		if idx := cr.idxOf(got); !known(idx) || got != claimed {
			return cviol("latest-height-unverified", "latest-height-unverified", fmt.Sprintf("step %d: Core.GetLatestHeight returned %d (provider claimed %d, network tip %d)", i, got, claimed, c.hs[cr.net.tip].lb.Height))
		}
		accepted("returned")

	case "submit":
		// SubmitTxWithProof: the provider answers with an inclusion proof.
		var pm *proofMutant
		if op.Mut != nil {
			m, why := c.mutProof(op.Mut, cr.proofsOf)
			if why != "" {
				return skip(why)
			}
			pm = m
		} else {
			var l []int
			for j := 0; j <= cr.net.tip; j++ {
				if c.hs[j].hasTx {
					l = append(l, j)
				}
			}
			if len(l) == 0 {
				return skip("no data")
			}
			hj := l[op.H%len(l)]
			m, ok := c.honestProof(hj, op.N%len(c.hs[hj].txs), cr.proofsOf(hj))
			if !ok {
				return skip("transaction does not round-trip")
			}
			pm = m
		}
		cr.prov.proof = pm.proof
		var got *transaction.Proof
		err, v := cr.call(i, op, "SubmitTxWithProof", func() (e error) { got, e = cr.core.SubmitTxWithProof(cr.ctx, pm.tx); return })
		if v != nil {
			return v
		}
		st.Event("step %d submit %s proof.h=%d %s", i, mutName(op), pm.proof.Height, errStr(err))
		at := cr.idxOf(pm.proof.Height)
		if pm.proof.Height == 0 {
			at = cr.net.tip // "latest" as the honest provider reports it
		}
		if err != nil {
			if op.Mut == nil && known(at) {
				return honestFail("SubmitTxWithProof", pm.proof.Height, err)
			}
			st.Inc("probe.core.rejected.submit")
			return nil
		}
		if !known(at) {
			return unverifiable("SubmitTxWithProof", pm.proof.Height)
		}
		fired()
		found := false
		for _, raw := range c.hs[at].txs {
			if bytes.Equal(raw, pm.txRaw) {
				found = true
			}
		}
		if !found {
			return cviol("proof-accepted-wrong-tx", "proof-accepted-wrong-tx core", fmt.Sprintf("step %d (%s): Core.SubmitTxWithProof returned a proof for height %d although the submitted transaction is not in that block", i, mutName(op), pm.proof.Height))
		}
		if got == nil || got.Height != pm.proof.Height {
			return cviol("proof-altered", "proof-altered", fmt.Sprintf("step %d: Core.SubmitTxWithProof returned another proof than the verified one", i))
		}
		if op.Mut == nil {
			cr.honestOK++
		}
		accepted("returned")

	default:
		core.Harnessf("stateless-core: unknown call %q", op.Call)
	}
	return nil
}

// Execute implements core.Engine.
func (CoreEngine) Execute(sc *core.Scenario, st *core.Stats) (*core.Violation, bool) {
	var k CoreKnobs
	if err := json.Unmarshal(sc.Knobs, &k); err != nil {
		core.Harnessf("stateless-core: bad knobs: %v", err)
	}
	c := buildSynthetic(&k.Knobs, st)
	n := len(c.hs)
	if k.Tip < 0 || k.Tip >= n || k.Trust < 0 || k.Trust > k.Tip {
		core.Harnessf("stateless-core: bad knobs trust=%d tip=%d heights=%d", k.Trust, k.Tip, n)
	}
	net := &lbNet{c: c, tip: k.Tip, forge: map[int64]int{}}
	prov := &byzProvider{c: c, net: net}
	trusted := c.hs[k.Trust].lb
	lc, err := light.VerifNewClient(c.chainID, cmtlight.TrustOptions{Period: 100 * 365 * 24 * time.Hour, Height: trusted.Height, Hash: trusted.Hash()},
		net, []cmtlightprovider.Provider{net, net}, cmtlightdb.New(cmtdb.NewMemDB(), ""))
	if err != nil {
		core.Harnessf("stateless-core: light client: %v", err)
	}
	ctx, cancel := context.WithCancel(context.Background())
	defer cancel()
	cr := &coreRun{c: c, st: st, net: net, prov: prov, lc: lc, ctx: ctx, proofs: map[int][][]byte{}, trustHeight: trusted.Height,
		core: sl.NewCore(prov, lc, sl.Config{ChainContext: c.chainID, GenesisHeight: k.Base})}
	st.Event("chain heights=%d first=%d trust=%d tip=%d", n, c.hs[0].lb.Height, trusted.Height, c.hs[k.Tip].lb.Height)
	for i, raw := range sc.Ops {
		var op CoreOp
		if err := json.Unmarshal(raw, &op); err != nil {
			core.Harnessf("stateless-core: bad op: %v", err)
		}
		if v := cr.step(i, &op); v != nil {
			return v, true
		}
	}
	for _, hd := range c.hs {
		if !bytes.Equal(hd.lb.Header.Hash(), hd.lbHash) {
			core.Harnessf("stateless-core: a light block header changed during the run")
		}
	}
	st.Add("probe.core.light_blocks_served_by_network", int64(net.served))
	st.Sample(3, map[string]interface{}{"knobs": k, "first_ops": sc.Ops[:min(len(sc.Ops), 6)], "honest_returned": cr.honestOK, "effective_mutants": cr.effective})
	return nil, cr.honestOK >= 1 && cr.effective >= 3
}

var _ = hash.Hash{}
var _ = cmtAPI.BackendName

// stepLatest executes a request for "the latest height": Core resolves the height through the
// provider, possibly more than once, and the provider may answer differently each time. Whatever
// is returned must be the data of ONE height that the provider claimed and the light client could
// verify, bound like any other answer.
func (cr *coreRun) stepLatest(i int, op *CoreOp) *core.Violation {
	c, st := cr.c, cr.st
	tipH := c.hs[cr.net.tip].lb.Height
	claimed := map[int]bool{}
	for _, off := range op.LatestSeq {
		h := tipH + int64(off)
		cr.prov.latestSeq = append(cr.prov.latestSeq, h)
		if idx := cr.idxOf(h); idx >= 0 && idx <= cr.net.tip {
			claimed[idx] = true
		}
	}
	if len(cr.prov.latestSeq) == 0 {
		cr.prov.latestSeq = []int64{tipH}
		claimed[cr.net.tip] = true
	}
	cr.effective++
	st.Inc("fault.core.latest-height-sequence")
	bad := func(kind, detail string) *core.Violation {
		return cviol(kind, kind+" at-latest", fmt.Sprintf("step %d (%s at the latest height; the provider answers GetLatestHeight with %v, network tip %d): %s", i, op.Call, cr.prov.latestSeq, tipH, detail))
	}
	const latest = consensusAPI.HeightLatest
	switch op.Call {
	case "block":
		var got *consensusAPI.Block
		err, v := cr.call(i, op, "GetBlock(latest)", func() (e error) { got, e = cr.core.GetBlock(cr.ctx, latest); return })
		if v != nil {
			return v
		}
		st.Event("step %d block@latest seq=%v %s", i, cr.prov.latestSeq, errStr(err))
		if err != nil {
			return nil
		}
		idx := cr.idxOf(got.Height)
		if !claimed[idx] {
			return bad("latest-height-unverified", fmt.Sprintf("GetBlock returned a block of height %d", got.Height))
		}
		if bound, _, _ := diffBlock(projBlock(c.hs[idx].block), projBlock(got)); len(bound) > 0 {
			return bad("block-accepted-altered", fmt.Sprintf("the returned block of height %d differs from the honest block in %v", got.Height, bound))
		}
	case "txs":
		var got [][]byte
		err, v := cr.call(i, op, "GetTransactions(latest)", func() (e error) { got, e = cr.core.GetTransactions(cr.ctx, latest); return })
		if v != nil {
			return v
		}
		st.Event("step %d txs@latest seq=%v %s", i, cr.prov.latestSeq, errStr(err))
		if err != nil {
			return nil
		}
		ok := false
		for idx := range claimed {
			if eqList(got, c.hs[idx].txs) {
				ok = true
			}
		}
		if !ok {
			return bad("txs-accepted-altered", "the returned transactions are not the transactions of any height the provider claimed as latest")
		}
	case "results", "txresults":
		var got *consensusAPI.BlockResults
		var twr *consensusAPI.TransactionsWithResults
		what := "GetBlockResults(latest)"
		if op.Call == "txresults" {
			what = "GetTransactionsWithResults(latest)"
		}
		err, v := cr.call(i, op, what, func() (e error) {
			if op.Call == "txresults" {
				twr, e = cr.core.GetTransactionsWithResults(cr.ctx, latest)
				return
			}
			got, e = cr.core.GetBlockResults(cr.ctx, latest)
			return
		})
		if v != nil {
			return v
		}
		last := cr.lastTrusted()
		st.Event("step %d %s@latest seq=%v trusted=%d %s", i, op.Call, cr.prov.latestSeq, last, errStr(err))
		if err != nil {
			return nil
		}
		if got != nil {
			idx := cr.idxOf(got.Height)
			if !claimed[idx] {
				return bad("latest-height-unverified", fmt.Sprintf("GetBlockResults returned results labelled height %d", got.Height))
			}
			if got.Height < last {
				if bound := diffResults(projResults(c.hs[idx].resultsAll), projResults(got)); len(bound) > 0 {
					return bad("results-accepted-altered", fmt.Sprintf("the returned results of height %d (latest trusted %d) differ from the honest ones in %v", got.Height, last, bound))
				}
			}
			break
		}
		// Transactions and results must belong to the same height.
		txIdx := -1
		for idx := range claimed {
			if eqList(twr.Transactions, c.hs[idx].txs) {
				txIdx = idx
			}
		}
		if txIdx < 0 {
			return bad("txs-accepted-altered", "the returned transactions are not the transactions of any height the provider claimed as latest")
		}
		hp := projResults(c.hs[txIdx].resultsAll)
		if len(twr.Results) != len(hp.entries) {
			return bad("results-of-another-height", fmt.Sprintf("the transactions are those of height %d (%d results expected), %d results returned", c.hs[txIdx].lb.Height, len(hp.entries), len(twr.Results)))
		}
		if c.hs[txIdx].lb.Height < last {
			for j, r := range twr.Results {
				e := hp.entries[j]
				if r.Error.Code != e.code || int64(r.GasUsed) != e.gu {
					return bad("results-of-another-height", fmt.Sprintf("the transactions are those of height %d, but result %d is {code %d gas %d} while that block's result is {code %d gas %d}: transactions and results bound to different headers were combined", c.hs[txIdx].lb.Height, j, r.Error.Code, r.GasUsed, e.code, e.gu))
				}
			}
			st.Inc("probe.core.at_latest_txresults_checked_below_latest_trusted")
		}
	case "stateroot":
		var got mkvsNode.Root
		err, v := cr.call(i, op, "StateRoot(latest)", func() (e error) { got, e = cr.core.StateRoot(cr.ctx, latest); return })
		if v != nil {
			return v
		}
		st.Event("step %d stateroot@latest seq=%v %s", i, cr.prov.latestSeq, errStr(err))
		if err != nil {
			return nil
		}
		// The state root of version v is bound by the verified header v+1 (its application hash),
		// or, for the newest height, by the metadata transaction of the verified block v.
		wasClaimed := false
		for _, h := range cr.prov.latestSeq {
			if h == int64(got.Version) {
				wasClaimed = true
			}
		}
		var want hash.Hash
		switch next, idx := cr.idxOf(int64(got.Version)+1), cr.idxOf(int64(got.Version)); {
		case !wasClaimed:
			return bad("latest-height-unverified", fmt.Sprintf("StateRoot returned a root of version %d", got.Version))
		case next >= 0 && next <= cr.net.tip:
			if err := want.UnmarshalBinary(c.hs[next].lb.AppHash); err != nil {
				core.Harnessf("stateless-core: app hash: %v", err)
			}
		case idx >= 0 && idx <= cr.net.tip:
			want = c.hs[idx].rootAfter
		default:
			return bad("latest-height-unverified", fmt.Sprintf("StateRoot returned a root of version %d, which no verifiable header binds", got.Version))
		}
		if got.Hash != want {
			return bad("stateroot-wrong", fmt.Sprintf("StateRoot returned %v; the state root after block %d is %s", got, got.Version, want))
		}
	default:
		core.Harnessf("stateless-core: call %q cannot be made at the latest height", op.Call)
	}
	st.Inc("probe.core.returned_at_latest." + op.Call)
	cr.returned++
	return nil
}
