package stateless

import (
	"bytes"
	"encoding/json"
	"fmt"

	cmtproto "github.com/cometbft/cometbft/proto/tendermint/types"

	"github.com/oasisprotocol/oasis-core/go/common/crypto/hash"
	consensusAPI "github.com/oasisprotocol/oasis-core/go/consensus/api"
	cmtAPI "github.com/oasisprotocol/oasis-core/go/consensus/cometbft/api"
	sl "github.com/oasisprotocol/oasis-core/go/consensus/cometbft/stateless"

	"verif/sim/core"
)

// Knobs of a run.
type Knobs struct {
	Source     string  `json:"source"` // "synthetic" or "recorded"
	ChainSeed  uint64  `json:"chain_seed,omitempty"`
	Base       int64   `json:"base,omitempty"`
	Heights    int     `json:"heights,omitempty"`
	Vals       int     `json:"vals,omitempty"`
	ChangeAt   int     `json:"change_at,omitempty"`
	ChangeKind int     `json:"change_kind,omitempty"`
	TxCounts   []int   `json:"tx_counts,omitempty"`
	Nanos      []int64 `json:"nanos,omitempty"`
	DupTx      bool    `json:"dup_tx,omitempty"`
	Absent     int     `json:"absent,omitempty"`
	// EnvelopeProbe records that the generator enabled the last-commit envelope operators
	// (a known finding) for this run.
	EnvelopeProbe bool `json:"envelope_probe,omitempty"`
}

// Engine implements core.Engine.
type Engine struct{}

// EnvelopeFingerprint is the fingerprint of the known finding "verifyBlock does not bind the
// height and block id of Meta.LastCommit".
const EnvelopeFingerprint = "block-accepted-altered last-commit-envelope"

// Generate implements core.Engine.
func (Engine) Generate(r *core.Rand, tier core.Tier) *core.Scenario {
	var k Knobs
	if r.Chance(1, 6) {
		k.Source = "recorded"
	} else {
		k.Source = "synthetic"
		k.ChainSeed = r.Uint64() >> 1
		k.Heights = r.Range(3, 8)
		k.Vals = r.Range(1, 5)
		switch r.Intn(4) {
		case 0:
			k.Base = 1
		case 1:
			k.Base = int64(r.Range(2, 5))
		default:
			k.Base = int64(r.Range(6, 30000000))
		}
		if r.Chance(2, 3) {
			k.ChangeAt = r.Range(1, k.Heights)
			k.ChangeKind = r.Intn(4)
		}
		for i := 0; i < k.Heights; i++ {
			switch r.Intn(4) {
			case 0:
				k.TxCounts = append(k.TxCounts, 0)
			case 1:
				k.TxCounts = append(k.TxCounts, r.Range(1, 2))
			default:
				k.TxCounts = append(k.TxCounts, r.Range(2, 9))
			}
			switch r.Intn(4) {
			case 0:
				k.Nanos = append(k.Nanos, 0)
			case 1:
				k.Nanos = append(k.Nanos, []int64{1, 999999999, 500000000}[r.Intn(3)])
			default:
				k.Nanos = append(k.Nanos, int64(r.Intn(1000000000)))
			}
		}
		k.DupTx = r.Chance(1, 4)
		k.Absent = r.Intn(3)
	}
	k.EnvelopeProbe = r.Chance(1, 40)

	// Swarm: per-run entry-point mix.
	w := make([]int, len(epOrder))
	for i := range w {
		w[i] = r.Range(0, 6)
	}
	w[r.Intn(len(w))] += 3
	nops := r.Range(20, 90)
	if tier == core.Thorough {
		nops = r.Range(20, 160)
	}
	sc := &core.Scenario{Engine: "stateless", Knobs: core.MustJSON(k)}
	for i := 0; i < nops; i++ {
		ep := epOrder[r.Pick(w)]
		ops := opTable[ep]
		op := Op{EP: ep, M: ops[r.Intn(len(ops))], H: r.Intn(64), A: r.Intn(1 << 16), B: r.Intn(1 << 16), C: r.Intn(1 << 16)}
		if r.Chance(1, 2) {
			// Small selectors reach the first entries/bytes more often on short data.
			op.A, op.B, op.C = r.Intn(12), r.Intn(12), r.Intn(12)
		}
		switch op.M {
		case "append", "prepend", "meta-extend", "raw-extend", "hdr-extend", "lc-extend":
			op.X = r.Bytes(r.Range(1, 40))
		}
		sc.Ops = append(sc.Ops, core.MustJSON(op))
	}
	if k.EnvelopeProbe {
		for i := r.Range(1, 3); i > 0; i-- {
			op := Op{EP: "block", M: envelopeOps[r.Intn(len(envelopeOps))], H: r.Intn(64), A: r.Intn(1 << 16), B: r.Intn(1 << 16), C: r.Intn(1 << 16)}
			at := r.Intn(len(sc.Ops) + 1)
			sc.Ops = append(sc.Ops[:at], append([]json.RawMessage{core.MustJSON(op)}, sc.Ops[at:]...)...)
		}
	}
	return sc
}

func viol(kind, fp, detail string) *core.Violation {
	return &core.Violation{Property: "C19", Kind: kind, Fingerprint: fp, Detail: detail}
}

const repoPkg = "oasis-core/go/consensus/cometbft"

func panicViol(ep, what string, pv interface{}, stack string) *core.Violation {
	site := core.PanicSite(stack, repoPkg)
	if site == "unknown" {
		site = core.PanicSite(stack, "cometbft")
	}
	return viol("panic", "panic in "+site, fmt.Sprintf("%s verification panicked on %s: %v\n%s", ep, what, pv, stack))
}

func errStr(err error) string {
	if err == nil {
		return "accepted"
	}
	s := err.Error()
	if len(s) > 70 {
		s = s[:70]
	}
	return "rejected: " + s
}

// ---- bound projections (computed by the harness, independently of the verification code) ----

type lcProj struct {
	ok      bool
	sigs    [][]byte
	height  int64
	round   int32
	blockID []byte
}

type blockProj struct {
	height        int64
	hash          hash.Hash
	sec           int64
	nsec          int
	rootNS        string
	rootVersion   uint64
	rootType      uint8
	rootHash      hash.Hash
	metaOK        bool
	header        []byte
	lc            lcProj
	lcRaw         []byte
	size          uint64
	metaRaw       []byte
	zoneOffsetSec int
}

func projBlock(b *consensusAPI.Block) *blockProj {
	p := &blockProj{
		height: b.Height, hash: b.Hash, sec: b.Time.Unix(), nsec: b.Time.Nanosecond(),
		rootNS: string(b.StateRoot.Namespace[:]), rootVersion: b.StateRoot.Version, rootType: uint8(b.StateRoot.Type), rootHash: b.StateRoot.Hash,
		size: b.Size, metaRaw: b.Meta,
	}
	_, p.zoneOffsetSec = b.Time.Zone()
	m, ok := decMeta(b.Meta)
	if !ok {
		return p
	}
	p.metaOK = true
	p.header = m.Header
	p.lcRaw = m.LastCommit
	var pc cmtproto.Commit
	if err := pc.Unmarshal(m.LastCommit); err != nil {
		return p
	}
	p.lc.ok = true
	p.lc.height, p.lc.round = pc.Height, pc.Round
	p.lc.blockID, _ = pc.BlockID.Marshal()
	for i := range pc.Signatures {
		sb, _ := pc.Signatures[i].Marshal()
		p.lc.sigs = append(p.lc.sigs, sb)
	}
	return p
}

func eqList(a, b [][]byte) bool {
	if len(a) != len(b) {
		return false
	}
	for i := range a {
		if !bytes.Equal(a[i], b[i]) {
			return false
		}
	}
	return true
}

// diffBlock returns the bound fields, the known-finding (envelope) fields and the documented
// unbound fields in which the mutant differs from the honest block.
func diffBlock(h, m *blockProj) (bound, envelope, unbound []string) {
	if h.height != m.height {
		bound = append(bound, "height")
	}
	if h.hash != m.hash {
		bound = append(bound, "hash")
	}
	if h.sec != m.sec || h.nsec != m.nsec {
		bound = append(bound, "time")
	}
	if h.rootNS != m.rootNS {
		bound = append(bound, "root.namespace")
	}
	if h.rootVersion != m.rootVersion {
		bound = append(bound, "root.version")
	}
	if h.rootType != m.rootType {
		bound = append(bound, "root.type")
	}
	if h.rootHash != m.rootHash {
		bound = append(bound, "root.hash")
	}
	switch {
	case !m.metaOK:
		bound = append(bound, "meta-undecodable")
	default:
		if !bytes.Equal(h.header, m.header) {
			bound = append(bound, "meta.header")
		}
		switch {
		case !m.lc.ok:
			bound = append(bound, "meta.last-commit-undecodable")
		default:
			if !eqList(h.lc.sigs, m.lc.sigs) {
				bound = append(bound, "meta.last-commit-signatures")
			}
			if h.lc.height != m.lc.height {
				envelope = append(envelope, "height")
			}
			if !bytes.Equal(h.lc.blockID, m.lc.blockID) {
				envelope = append(envelope, "block_id")
			}
			if h.lc.round != m.lc.round {
				unbound = append(unbound, "lastcommit_round")
			}
			if len(bound) == 0 && len(envelope) == 0 && h.lc.round == m.lc.round && !bytes.Equal(h.lcRaw, m.lcRaw) {
				unbound = append(unbound, "lastcommit_encoding")
			}
		}
		if !bytes.Equal(h.metaRaw, m.metaRaw) && bytes.Equal(h.header, m.header) && bytes.Equal(h.lcRaw, m.lcRaw) {
			unbound = append(unbound, "meta_encoding")
		}
	}
	if h.size != m.size {
		unbound = append(unbound, "block_size")
	}
	if h.zoneOffsetSec != m.zoneOffsetSec && h.sec == m.sec && h.nsec == m.nsec {
		unbound = append(unbound, "time_zone_same_instant")
	}
	return
}

type resEntry struct {
	null   bool
	code   uint32
	data   []byte
	gw, gu int64
}

type resProj struct {
	ok      bool
	height  int64
	entries []resEntry
	rest    []byte // everything else, for the unbound probe
}

func projResults(r *consensusAPI.BlockResults) *resProj {
	p := &resProj{height: r.Height}
	m, ok := decResults(r.Meta)
	if !ok {
		return p
	}
	p.ok = true
	for _, e := range m.TxsResults {
		if e == nil {
			p.entries = append(p.entries, resEntry{null: true})
			continue
		}
		p.entries = append(p.entries, resEntry{code: e.Code, data: e.Data, gw: e.GasWanted, gu: e.GasUsed})
	}
	p.rest = r.Meta
	return p
}

func diffResults(h, m *resProj) (bound []string) {
	if h.height != m.height {
		bound = append(bound, "height")
	}
	if !m.ok {
		return append(bound, "meta-undecodable")
	}
	if len(h.entries) != len(m.entries) {
		return append(bound, "result-count")
	}
	for i := range h.entries {
		a, b := h.entries[i], m.entries[i]
		switch {
		case a.null != b.null:
			bound = append(bound, "null-entry")
		case a.code != b.code:
			bound = append(bound, "code")
		case !bytes.Equal(a.data, b.data):
			bound = append(bound, "data")
		case a.gw != b.gw:
			bound = append(bound, "gas_wanted")
		case a.gu != b.gu:
			bound = append(bound, "gas_used")
		}
	}
	return
}

type valProj struct {
	ok      bool
	height  int64
	entries [][]byte // pubkey proto || power
	rest    []byte
}

func projVals(v *consensusAPI.Validators) *valProj {
	p := &valProj{height: v.Height, rest: v.Meta}
	var pvs cmtproto.ValidatorSet
	if err := pvs.Unmarshal(v.Meta); err != nil {
		return p
	}
	p.ok = true
	for _, pv := range pvs.Validators {
		if pv == nil {
			p.entries = append(p.entries, []byte("nil"))
			continue
		}
		kb, _ := pv.PubKey.Marshal()
		p.entries = append(p.entries, append(kb, []byte(fmt.Sprintf("/%d", pv.VotingPower))...))
	}
	return p
}

func diffVals(h, m *valProj) (bound []string) {
	if h.height != m.height {
		bound = append(bound, "height")
	}
	if !m.ok {
		return append(bound, "meta-undecodable")
	}
	if !eqList(h.entries, m.entries) {
		bound = append(bound, "validator-list")
	}
	return
}

// ---- execution ----

type runState struct {
	c         *chain
	st        *core.Stats
	proofs    map[int][][]byte
	honestOK  int
	effective int
	deferred  *core.Violation // known-finding class violation, reported only if nothing else fails
	envelope  bool            // knob: report the last-commit envelope finding in this run
}

func (rs *runState) proofsOf(hi int) [][]byte {
	if p, ok := rs.proofs[hi]; ok {
		return p
	}
	var twp *consensusAPI.TransactionsWithProofs
	if pv, stack := core.Guard(func() { twp = sl.VerifTransactionsWithProofs(cpList(rs.c.hs[hi].txs)) }); pv != nil {
		core.Harnessf("stateless: transactionsWithProofs panicked on honest transactions: %v\n%s", pv, stack)
	}
	if len(twp.Proofs) != len(rs.c.hs[hi].txs) || !eqList(twp.Transactions, rs.c.hs[hi].txs) {
		core.Harnessf("stateless: transactionsWithProofs returned %d proofs for %d transactions", len(twp.Proofs), len(rs.c.hs[hi].txs))
	}
	rs.proofs[hi] = twp.Proofs
	return twp.Proofs
}

// honest checks that every honest response is accepted.
func (rs *runState) honest() *core.Violation {
	c, st := rs.c, rs.st
	vcore := new(sl.Core)
	for hi, hd := range c.hs {
		h := hd.lb.Height
		if hd.block != nil {
			var err error
			b := cloneBlock(hd.block)
			if pv, stack := core.Guard(func() { err = sl.VerifVerifyBlock(b, hd.lb) }); pv != nil {
				return panicViol("block", "the honest block", pv, stack)
			}
			st.Event("honest block h=%d %s", h, errStr(err))
			if err != nil {
				return viol("honest-rejected", "honest-rejected block", fmt.Sprintf("the honest block of height %d was rejected: %v", h, err))
			}
			st.Inc("probe.honest_accepted.block")
			rs.honestOK++
		}
		if hd.hasTx {
			var err error
			txs := cpList(hd.txs)
			if pv, stack := core.Guard(func() { err = sl.VerifVerifyTransactions(txs, hd.lb) }); pv != nil {
				return panicViol("txs", "the honest transaction list", pv, stack)
			}
			st.Event("honest txs h=%d n=%d %s", h, len(txs), errStr(err))
			if err != nil {
				return viol("honest-rejected", "honest-rejected txs", fmt.Sprintf("the honest transaction list of height %d was rejected: %v", h, err))
			}
			st.Inc("probe.honest_accepted.txs")
			rs.honestOK++
			if v := rs.checkRoot(hi, txs, "the honest transaction list"); v != nil {
				return v
			}
			proofs := rs.proofsOf(hi)
			for i := range hd.txs {
				pm, ok := c.honestProof(hi, i, proofs)
				if !ok {
					st.Inc("probe.tx_not_roundtripping")
					continue
				}
				if pv, stack := core.Guard(func() { err = sl.VerifVerifyTransactionProof(pm.proof, pm.tx, hd.lb) }); pv != nil {
					return panicViol("proof", "an honest proof", pv, stack)
				}
				st.Event("honest proof h=%d i=%d %s", h, i, errStr(err))
				if err != nil {
					return viol("honest-rejected", "honest-rejected proof", fmt.Sprintf("the honest inclusion proof of transaction %d/%d of height %d was rejected: %v", i, len(hd.txs), h, err))
				}
				st.Inc("probe.honest_accepted.proof")
				rs.honestOK++
			}
		}
		if hd.results != nil && hd.resultsHash != nil {
			var err error
			var meta *cmtAPI.BlockResultsMeta
			res := &consensusAPI.BlockResults{Height: hd.results.Height, Meta: cp(hd.results.Meta)}
			if pv, stack := core.Guard(func() { meta, err = sl.VerifVerifyBlockResults(res, hd.resultsHash, hd.lb) }); pv != nil {
				return panicViol("results", "the honest block results", pv, stack)
			}
			st.Event("honest results h=%d %s", h, errStr(err))
			if err != nil {
				return viol("honest-rejected", "honest-rejected results", fmt.Sprintf("the honest block results of height %d were rejected: %v", h, err))
			}
			if meta == nil {
				return viol("results-meta-missing", "results-meta-missing", fmt.Sprintf("verifyBlockResults accepted height %d but returned no metadata", h))
			}
			st.Inc("probe.honest_accepted.results")
			rs.honestOK++
		}
		if hd.nextVals != nil {
			var err error
			v := &consensusAPI.Validators{Height: hd.nextVals.Height, Meta: cp(hd.nextVals.Meta)}
			if pv, stack := core.Guard(func() { err = vcore.VerifVerifyNextValidators(v, hd.lb) }); pv != nil {
				return panicViol("vals", "the honest validator set", pv, stack)
			}
			st.Event("honest vals h=%d %s", h, errStr(err))
			if err != nil {
				return viol("honest-rejected", "honest-rejected vals", fmt.Sprintf("the honest validators of height %d were rejected against light block %d: %v", h+1, h, err))
			}
			st.Inc("probe.honest_accepted.vals")
			rs.honestOK++
		}
	}
	return nil
}

// checkRoot: a transaction list that passed verifyTransactions for height index hi must yield the
// honest state root through stateRootFromBlockTxs.
func (rs *runState) checkRoot(hi int, txs [][]byte, what string) *core.Violation {
	hd := rs.c.hs[hi]
	var root hash.Hash
	var err error
	if pv, stack := core.Guard(func() { root, err = sl.VerifStateRootFromBlockTxs(txs) }); pv != nil {
		return panicViol("stateroot", what, pv, stack)
	}
	rs.st.Event("stateroot h=%d %s", hd.lb.Height, errStr(err))
	if !hd.hasRootAfter {
		return nil
	}
	if err != nil {
		return viol("stateroot-mismatch", "stateroot-mismatch error", fmt.Sprintf("%s of height %d passed verifyTransactions but stateRootFromBlockTxs failed: %v", what, hd.lb.Height, err))
	}
	if root != hd.rootAfter {
		return viol("stateroot-mismatch", "stateroot-mismatch value", fmt.Sprintf("%s of height %d passed verifyTransactions but stateRootFromBlockTxs returned %s, the next verified header's app hash is %s", what, hd.lb.Height, root, hd.rootAfter))
	}
	rs.st.Inc("probe.stateroot_from_verified_txs_matches_next_app_hash")
	return nil
}

func (rs *runState) outcome(op *Op, res string) {
	rs.st.Inc("probe." + res + "." + op.EP + "." + op.M)
	rs.st.Inc("probe." + res + "." + op.EP)
}

func (rs *runState) unbound(fields []string) {
	for _, f := range fields {
		rs.st.Inc("probe.unbound_accepted")
		rs.st.Inc("probe.unbound_accepted." + f)
	}
}

// step executes one mutant. A returned violation ends the run.
func (rs *runState) step(i int, op *Op) *core.Violation {
	c, st := rs.c, rs.st
	fired := func() {
		rs.effective++
		st.Inc("fault." + op.EP + "." + op.M)
	}
	skip := func(why string) *core.Violation {
		st.Event("op %d %s/%s skipped: %s", i, op.EP, op.M, why)
		rs.outcome(op, "skipped")
		return nil
	}
	switch op.EP {
	case "block":
		lbIdx, b, why := c.mutBlock(op)
		if why != "" {
			return skip(why)
		}
		lb := c.hs[lbIdx].lb
		var hp *blockProj
		if c.hs[lbIdx].block != nil {
			hp = projBlock(c.hs[lbIdx].block)
		}
		mp := projBlock(b)
		var bound, env, unb []string
		if hp != nil {
			bound, env, unb = diffBlock(hp, mp)
			if len(bound)+len(env)+len(unb) == 0 {
				return skip("ineffective")
			}
		} else {
			bound = []string{"height"} // a response for another height and no honest answer known here
		}
		fired()
		var err error
		if pv, stack := core.Guard(func() { err = sl.VerifVerifyBlock(b, lb) }); pv != nil {
			return panicViol("block", "operator "+op.M, pv, stack)
		}
		st.Event("op %d block/%s lb=%d %s", i, op.M, lb.Height, errStr(err))
		if err != nil {
			rs.outcome(op, "rejected")
			return nil
		}
		if len(bound) > 0 {
			return viol("block-accepted-altered", "block-accepted-altered "+bound[0],
				fmt.Sprintf("op %d (%s): verifyBlock accepted a block for light block %d that differs from the honest block in bound field(s) %v", i, op.M, lb.Height, bound))
		}
		if len(env) > 0 {
			st.Inc("probe.known_finding_last_commit_envelope_accepted")
			// Reported only in the small fraction of runs that enable the envelope probe, so that
			// the known finding does not end a large share of the runs; counted everywhere.
			if rs.deferred == nil && rs.envelope {
				rs.deferred = viol("block-accepted-altered", EnvelopeFingerprint,
					fmt.Sprintf("op %d (%s): verifyBlock accepted a block for light block %d whose Meta.LastCommit has an altered %v (Commit.Hash covers the signature list only; height %d-1 and LastBlockID of the verified header are not compared)", i, op.M, lb.Height, env, lb.Height))
			}
			rs.unbound(unb)
			rs.outcome(op, "accepted_known_finding")
			return nil
		}
		rs.unbound(unb)
		rs.outcome(op, "accepted_equivalent")
	case "txs":
		lbIdx, txs, why := c.mutTxs(op)
		if why != "" {
			return skip(why)
		}
		hd := c.hs[lbIdx]
		same := hd.hasTx && eqList(hd.txs, txs)
		if same {
			return skip("ineffective")
		}
		fired()
		var err error
		if pv, stack := core.Guard(func() { err = sl.VerifVerifyTransactions(txs, hd.lb) }); pv != nil {
			return panicViol("txs", "operator "+op.M, pv, stack)
		}
		st.Event("op %d txs/%s lb=%d n=%d %s", i, op.M, hd.lb.Height, len(txs), errStr(err))
		if err == nil {
			return viol("txs-accepted-altered", "txs-accepted-altered "+op.M,
				fmt.Sprintf("op %d (%s): verifyTransactions accepted a transaction list (%d entries) for light block %d that differs from the block's transactions", i, op.M, len(txs), hd.lb.Height))
		}
		rs.outcome(op, "rejected")
		// Nothing is asserted about the state root of a rejected list, but reading it must not panic.
		if pv, stack := core.Guard(func() { _, _ = sl.VerifStateRootFromBlockTxs(txs) }); pv != nil {
			return panicViol("stateroot", "operator "+op.M, pv, stack)
		}
	case "results":
		lbIdx, res, why := c.mutResults(op)
		if why != "" {
			return skip(why)
		}
		hd := c.hs[lbIdx]
		if hd.resultsHash == nil {
			return skip("no trusted results hash")
		}
		mp := projResults(res)
		var bound []string
		if hd.results != nil {
			if hd.results.Height == res.Height && bytes.Equal(hd.results.Meta, res.Meta) {
				return skip("ineffective")
			}
			bound = diffResults(projResults(hd.results), mp)
		} else {
			bound = []string{"height"}
		}
		fired()
		var err error
		var meta *cmtAPI.BlockResultsMeta
		if pv, stack := core.Guard(func() { meta, err = sl.VerifVerifyBlockResults(res, hd.resultsHash, hd.lb) }); pv != nil {
			return panicViol("results", "operator "+op.M, pv, stack)
		}
		st.Event("op %d results/%s lb=%d %s", i, op.M, hd.lb.Height, errStr(err))
		if err != nil {
			rs.outcome(op, "rejected")
			return nil
		}
		if len(bound) > 0 {
			return viol("results-accepted-altered", "results-accepted-altered "+bound[0],
				fmt.Sprintf("op %d (%s): verifyBlockResults accepted results for light block %d that differ from the honest results in bound field(s) %v", i, op.M, hd.lb.Height, bound))
		}
		if meta == nil || len(meta.TxsResults) != len(mp.entries) {
			return viol("results-meta-missing", "results-meta-missing", fmt.Sprintf("op %d (%s): verifyBlockResults accepted but returned inconsistent metadata", i, op.M))
		}
		rs.unbound([]string{"results_" + op.M})
		rs.outcome(op, "accepted_equivalent")
	case "vals":
		lbIdx, v, why := c.mutVals(op)
		if why != "" {
			return skip(why)
		}
		hd := c.hs[lbIdx]
		mp := projVals(v)
		var bound []string
		if hd.nextVals != nil {
			if hd.nextVals.Height == v.Height && bytes.Equal(hd.nextVals.Meta, v.Meta) {
				return skip("ineffective")
			}
			bound = diffVals(projVals(hd.nextVals), mp)
		} else {
			bound = []string{"height"}
		}
		fired()
		if op.M == "replay" && hd.nextVals != nil && bytes.Equal(hd.nextVals.Meta, v.Meta) {
			st.Inc("probe.replayed_validators_same_set_other_height")
		}
		var err error
		vcore := new(sl.Core)
		if pv, stack := core.Guard(func() { err = vcore.VerifVerifyNextValidators(v, hd.lb) }); pv != nil {
			return panicViol("vals", "operator "+op.M, pv, stack)
		}
		st.Event("op %d vals/%s lb=%d %s", i, op.M, hd.lb.Height, errStr(err))
		if err != nil {
			rs.outcome(op, "rejected")
			return nil
		}
		if len(bound) > 0 {
			return viol("validators-accepted-altered", "validators-accepted-altered "+bound[0],
				fmt.Sprintf("op %d (%s): verifyNextValidators accepted validators (height field %d) against light block %d that differ from the honest next validator set in bound field(s) %v", i, op.M, v.Height, hd.lb.Height, bound))
		}
		rs.unbound([]string{"validators_" + op.M})
		rs.outcome(op, "accepted_equivalent")
	case "proof":
		pm, why := c.mutProof(op, rs.proofsOf)
		if why != "" {
			return skip(why)
		}
		hd := c.hs[pm.lbIdx]
		// Effective unless it is exactly an honest (proof, tx) pair of that light block.
		honestPair := -1
		if hd.hasTx {
			proofs := rs.proofsOf(pm.lbIdx)
			for j := range hd.txs {
				if bytes.Equal(hd.txs[j], pm.txRaw) && bytes.Equal(proofs[j], pm.proof.RawProof) && pm.proof.Height == hd.lb.Height {
					honestPair = j
				}
			}
		}
		if honestPair >= 0 {
			return skip("ineffective")
		}
		fired()
		var err error
		if pv, stack := core.Guard(func() { err = sl.VerifVerifyTransactionProof(pm.proof, pm.tx, hd.lb) }); pv != nil {
			return panicViol("proof", "operator "+op.M, pv, stack)
		}
		st.Event("op %d proof/%s lb=%d %s", i, op.M, hd.lb.Height, errStr(err))
		if err != nil {
			rs.outcome(op, "rejected")
			return nil
		}
		// Accepted: the transaction bytes must be a transaction of exactly that block.
		var at []int
		for j := range hd.txs {
			if hd.hasTx && bytes.Equal(hd.txs[j], pm.txRaw) {
				at = append(at, j)
			}
		}
		if len(at) == 0 {
			return viol("proof-accepted-wrong-tx", "proof-accepted-wrong-tx "+op.M,
				fmt.Sprintf("op %d (%s): verifyTransactionProof accepted a proof against light block %d for transaction bytes that are not in that block", i, op.M, hd.lb.Height))
		}
		p, ok := decProof(pm.proof.RawProof)
		if !ok {
			return viol("proof-accepted-undecodable", "proof-accepted-undecodable", fmt.Sprintf("op %d (%s): an undecodable proof was accepted", i, op.M))
		}
		posOK := false
		for _, j := range at {
			if int64(j) == p.Index {
				posOK = true
			}
		}
		switch {
		case !posOK && p.Total == int64(len(hd.txs)):
			return viol("proof-accepted-wrong-index", "proof-accepted-wrong-index",
				fmt.Sprintf("op %d (%s): a proof claiming index %d of %d was accepted for a transaction that is at %v", i, op.M, p.Index, p.Total, at))
		case !posOK:
			rs.unbound([]string{"proof_position_with_altered_total"})
		case p.Total != int64(len(hd.txs)):
			rs.unbound([]string{"proof_total"})
		case pm.proof.Height != hd.lb.Height:
			rs.unbound([]string{"proof_height_field_not_compared_by_function"})
		case len(at) > 1:
			rs.unbound([]string{"proof_for_duplicate_transaction_bytes"})
		default:
			rs.unbound([]string{"proof_encoding"})
		}
		rs.outcome(op, "accepted_equivalent")
	default:
		core.Harnessf("stateless: unknown entry point %q", op.EP)
	}
	return nil
}

// Execute implements core.Engine.
func (Engine) Execute(sc *core.Scenario, st *core.Stats) (*core.Violation, bool) {
	var k Knobs
	if err := json.Unmarshal(sc.Knobs, &k); err != nil {
		core.Harnessf("stateless: bad knobs: %v", err)
	}
	var c *chain
	switch k.Source {
	case "recorded":
		c = buildRecorded(st)
		st.Inc("probe.runs_on_recorded_mainnet_vectors")
	case "synthetic":
		c = buildSynthetic(&k, st)
		st.Inc("probe.runs_on_synthetic_chain")
	default:
		core.Harnessf("stateless: unknown source %q", k.Source)
	}
	st.Event("chain source=%s heights=%d first=%d", k.Source, len(c.hs), c.hs[0].lb.Height)
	rs := &runState{c: c, st: st, proofs: map[int][][]byte{}, envelope: k.EnvelopeProbe}
	if v := rs.honest(); v != nil {
		return v, true
	}
	for i, raw := range sc.Ops {
		var op Op
		if err := json.Unmarshal(raw, &op); err != nil {
			core.Harnessf("stateless: bad op: %v", err)
		}
		if v := rs.step(i, &op); v != nil {
			return v, true
		}
	}
	// Trusted inputs must not have been modified by the code under test.
	for _, hd := range c.hs {
		if !bytes.Equal(hd.lb.Header.Hash(), hd.lbHash) {
			core.Harnessf("stateless: a light block header changed during the run")
		}
	}
	if rs.deferred != nil {
		return rs.deferred, true
	}
	st.Sample(3, map[string]interface{}{"knobs": k, "first_ops": sc.Ops[:min(len(sc.Ops), 6)], "honest_accepted": rs.honestOK, "effective_mutants": rs.effective})
	return nil, rs.honestOK >= 1 && rs.effective >= 5
}
