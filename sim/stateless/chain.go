// Package stateless is the C19 engine (E3 "Byzantine remote" over honest provider data): honest
// provider responses (block, transactions, block results, next validators, transaction proofs)
// for short chains of REAL CometBFT objects - or for the recorded mainnet vectors shipped with the
// stateless package - are altered by seeded mutation operators before they reach the stateless
// node's verification functions. The oracle accepts an altered response only when everything the
// verified header commits to is unchanged.
package stateless

import (
	"crypto/sha256"
	"encoding/json"
	"fmt"
	"os"
	"path/filepath"
	"sync"
	"time"

	abci "github.com/cometbft/cometbft/abci/types"
	cmted "github.com/cometbft/cometbft/crypto/ed25519"
	cmtproto "github.com/cometbft/cometbft/proto/tendermint/types"
	cmtversion "github.com/cometbft/cometbft/proto/tendermint/version"
	cmtcoretypes "github.com/cometbft/cometbft/rpc/core/types"
	cmttypes "github.com/cometbft/cometbft/types"
	"github.com/cometbft/cometbft/version"

	"github.com/oasisprotocol/oasis-core/go/common/cbor"
	"github.com/oasisprotocol/oasis-core/go/common/crypto/hash"
	"github.com/oasisprotocol/oasis-core/go/common/crypto/signature"
	"github.com/oasisprotocol/oasis-core/go/common/crypto/signature/signers/memory"
	"github.com/oasisprotocol/oasis-core/go/common/quantity"
	consensusAPI "github.com/oasisprotocol/oasis-core/go/consensus/api"
	"github.com/oasisprotocol/oasis-core/go/consensus/api/transaction"
	cmtAPI "github.com/oasisprotocol/oasis-core/go/consensus/cometbft/api"
	"github.com/oasisprotocol/oasis-core/go/consensus/cometbft/light"

	"verif/sim/core"
)

// hdata is everything known about one height: the light-client verified light block (trusted) and
// the honest provider's responses for that height (nil when not available).
type hdata struct {
	lb     *cmttypes.LightBlock
	lbHash []byte // header hash at build time (end-of-run self-check: trusted data never mutated)

	block *consensusAPI.Block
	txs   [][]byte
	hasTx bool

	results     *consensusAPI.BlockResults
	resultsHash []byte // trusted: LastResultsHash of the next verified header
	// resultsAll is the honest provider's results answer also for the last height (batch "core").
	resultsAll *consensusAPI.BlockResults

	nextVals *consensusAPI.Validators // honest validators for height+1

	rootAfter    hash.Hash // state root after this block (next header's app hash)
	hasRootAfter bool

	valChange bool
}

type chain struct {
	chainID string
	hs      []*hdata
}

var chainCtxOnce sync.Once

// ensureChainContext sets the process-global signature chain context once, deterministically.
func ensureChainContext() {
	chainCtxOnce.Do(func() {
		signature.UnsafeResetChainContext()
		signature.SetChainContext("verif-c19-0000000000000000000000000000000000000000000000000000")
	})
}

func sha(parts ...string) []byte {
	h := sha256.New()
	for _, p := range parts {
		h.Write([]byte(p))
		h.Write([]byte{0})
	}
	return h.Sum(nil)
}

type valKey struct {
	priv cmted.PrivKey
	val  *cmttypes.Validator
}

func mkVal(seed uint64, i int, power int64) valKey {
	pk := cmted.GenPrivKeyFromSecret([]byte(fmt.Sprintf("c19/%d/val/%d", seed, i)))
	return valKey{priv: pk, val: cmttypes.NewValidator(pk.PubKey(), power)}
}

// signCommit builds a real signed commit for (height, round, blockID) by the given validator set.
// Up to `absent` validators (lowest power first) are left out as long as more than 2/3 of the
// voting power signs.
func signCommit(chainID string, vs *cmttypes.ValidatorSet, keys map[string]cmted.PrivKey, height int64, round int32, bid cmttypes.BlockID, ts time.Time, absent int) *cmttypes.Commit {
	total := vs.TotalVotingPower()
	signing := total
	sigs := make([]cmttypes.CommitSig, len(vs.Validators))
	skip := make([]bool, len(vs.Validators))
	for i := len(vs.Validators) - 1; i >= 0 && absent > 0; i-- {
		p := vs.Validators[i].VotingPower
		if (signing-p)*3 > total*2 {
			signing -= p
			skip[i] = true
			absent--
		}
	}
	for i, v := range vs.Validators {
		if skip[i] {
			sigs[i] = cmttypes.NewCommitSigAbsent()
			continue
		}
		vote := &cmttypes.Vote{
			Type:             cmtproto.PrecommitType,
			Height:           height,
			Round:            round,
			BlockID:          bid,
			Timestamp:        ts.Add(time.Duration(i+1) * 7 * time.Millisecond),
			ValidatorAddress: v.Address,
			ValidatorIndex:   int32(i),
		}
		priv, ok := keys[string(v.Address)]
		if !ok {
			core.Harnessf("stateless: no key for validator %X", v.Address)
		}
		sig, err := priv.Sign(cmttypes.VoteSignBytes(chainID, vote.ToProto()))
		if err != nil {
			core.Harnessf("stateless: sign vote: %v", err)
		}
		sigs[i] = cmttypes.NewCommitSigForBlock(sig, v.Address, vote.Timestamp)
	}
	return cmttypes.NewCommit(height, round, bid, sigs)
}

func rbytes(r *core.Rand, n int) []byte { return r.Bytes(n)[:n] }

// buildSynthetic builds a short chain of real CometBFT blocks, commits and light blocks and the
// honest provider responses derived from them with the converters the full node uses.
func buildSynthetic(k *Knobs, st *core.Stats) *chain {
	ensureChainContext()
	n := k.Heights
	if n < 2 || n > 16 || k.Vals < 1 || k.Vals > 8 || k.Base < 1 {
		core.Harnessf("stateless: bad synthetic knobs %+v", *k)
	}
	r := core.NewRand(core.Derive(k.ChainSeed, "c19-chain", 0))
	chainID := fmt.Sprintf("verif-c19-%d", k.ChainSeed%1000)

	// Validator sets: V[i] validates height index i, V[n] is the set after the last block.
	keys := map[string]cmted.PrivKey{}
	var base []valKey
	for i := 0; i < k.Vals; i++ {
		vk := mkVal(k.ChainSeed, i, int64(r.Range(1, 100)))
		base = append(base, vk)
		keys[string(vk.val.Address)] = vk.priv
	}
	mkSet := func(vks []valKey) *cmttypes.ValidatorSet {
		var vals []*cmttypes.Validator
		for _, vk := range vks {
			vals = append(vals, vk.val.Copy())
		}
		return cmttypes.NewValidatorSet(vals)
	}
	setA := base
	setB := append([]valKey(nil), base...)
	if k.ChangeAt > 0 {
		switch {
		case k.ChangeKind%4 == 1 && len(setB) > 1:
			setB = setB[:len(setB)-1]
		case k.ChangeKind%4 == 2:
			c := *setB[0].val
			c.VotingPower += 17
			setB[0] = valKey{priv: setB[0].priv, val: &c}
		case k.ChangeKind%4 == 3:
			vk := mkVal(k.ChainSeed, 100, setB[0].val.VotingPower)
			keys[string(vk.val.Address)] = vk.priv
			setB[0] = vk
		default:
			vk := mkVal(k.ChainSeed, 101, int64(r.Range(1, 100)))
			keys[string(vk.val.Address)] = vk.priv
			setB = append(setB, vk)
		}
	}
	V := make([]*cmttypes.ValidatorSet, n+1)
	for i := 0; i <= n; i++ {
		if k.ChangeAt > 0 && i >= k.ChangeAt {
			V[i] = mkSet(setB)
		} else {
			V[i] = mkSet(setA)
		}
	}

	// Transaction signers.
	var signers []signature.Signer
	for i := 0; i < 3; i++ {
		s, err := memory.NewFromSeed(sha("c19-signer", fmt.Sprint(k.ChainSeed), fmt.Sprint(i)))
		if err != nil {
			core.Harnessf("stateless: signer: %v", err)
		}
		signers = append(signers, s)
	}

	app := make([][]byte, n+1)
	for i := range app {
		app[i] = rbytes(r, 32)
	}
	consHash := cmttypes.DefaultConsensusParams().Hash()
	t0 := time.Date(2024, 1, 1, 0, 0, 0, 0, time.UTC).Add(time.Duration(k.ChainSeed%100000) * time.Second)

	c := &chain{chainID: chainID}
	var prevCommit *cmttypes.Commit
	var prevID cmttypes.BlockID
	var prevResults []*abci.ResponseDeliverTx
	headers := make([]*cmttypes.Header, n)
	resMeta := make([]*cmtcoretypes.ResultBlockResults, n)

	for i := 0; i < n; i++ {
		height := k.Base + int64(i)
		nanos := int64(0)
		if i < len(k.Nanos) {
			nanos = k.Nanos[i] % 1_000_000_000
		}
		tm := t0.Add(time.Duration(i) * 6 * time.Second).Add(time.Duration(nanos))

		// Transactions: ordinary signed transactions followed by the block metadata transaction.
		ntx := 0
		if i < len(k.TxCounts) {
			ntx = k.TxCounts[i]
		}
		var txs [][]byte
		var results []*abci.ResponseDeliverTx
		for j := 0; j < ntx; j++ {
			if k.DupTx && j == ntx-1 && j > 0 {
				txs = append(txs, append([]byte(nil), txs[0]...))
			} else {
				fee := &transaction.Fee{Amount: *quantity.NewFromUint64(uint64(r.Intn(1000))), Gas: transaction.Gas(1000 + r.Intn(5000))}
				body := map[string]interface{}{"to": rbytes(r, 21), "amount": rbytes(r, r.Range(1, 6)), "memo": rbytes(r, r.Range(0, 40))}
				tx := transaction.NewTransaction(uint64(r.Intn(50)), fee, transaction.MethodName("staking.Transfer"), body)
				stx, err := transaction.Sign(signers[r.Intn(len(signers))], tx)
				if err != nil {
					core.Harnessf("stateless: sign tx: %v", err)
				}
				txs = append(txs, cbor.Marshal(stx))
			}
			res := &abci.ResponseDeliverTx{
				Code:      uint32(r.Pick([]int{5, 1, 1}) * r.Range(1, 9)),
				GasWanted: int64(r.Intn(10000)),
				GasUsed:   int64(r.Intn(10000)),
			}
			if r.Chance(2, 3) {
				res.Data = rbytes(r, r.Range(1, 24))
			}
			if res.Code != 0 {
				res.Codespace = "staking"
				res.Log = fmt.Sprintf("failed-%d", r.Intn(100))
			}
			if r.Chance(1, 2) {
				res.Info = "info"
			}
			for e := r.Intn(3); e > 0; e-- {
				res.Events = append(res.Events, abci.Event{Type: "oasis_event_staking", Attributes: []abci.EventAttribute{{Key: "transfer", Value: fmt.Sprintf("v%d", r.Intn(1000)), Index: true}}})
			}
			results = append(results, res)
		}
		var rootAfter hash.Hash
		if err := rootAfter.UnmarshalBinary(app[i+1]); err != nil {
			core.Harnessf("stateless: app hash: %v", err)
		}
		metaTx := consensusAPI.NewBlockMetadataTx(&consensusAPI.BlockMetadata{StateRoot: rootAfter, EventsRoot: rbytes(r, 32)})
		sigMeta, err := transaction.Sign(signers[0], metaTx)
		if err != nil {
			core.Harnessf("stateless: sign meta tx: %v", err)
		}
		txs = append(txs, cbor.Marshal(sigMeta))
		results = append(results, &abci.ResponseDeliverTx{Code: abci.CodeTypeOK, Data: cbor.Marshal(nil)})
		if ntx == 0 {
			st.Inc("probe.block_with_only_meta_tx")
		}
		if k.DupTx && ntx > 1 {
			st.Inc("probe.block_with_duplicate_tx")
		}

		// Last commit.
		var lastCommit *cmttypes.Commit
		var lastID cmttypes.BlockID
		switch {
		case i > 0:
			lastCommit, lastID = prevCommit, prevID
		case height == 1:
			lastCommit = cmttypes.NewCommit(0, 0, cmttypes.BlockID{}, nil)
			st.Inc("probe.initial_height_empty_last_commit")
		default:
			lastID = cmttypes.BlockID{Hash: rbytes(r, 32), PartSetHeader: cmttypes.PartSetHeader{Total: 1, Hash: rbytes(r, 32)}}
			lastCommit = signCommit(chainID, V[0], keys, height-1, int32(r.Intn(2)), lastID, tm.Add(-5*time.Second), k.Absent)
		}

		var cmtTxs cmttypes.Txs
		for _, tx := range txs {
			cmtTxs = append(cmtTxs, cmttypes.Tx(tx))
		}
		blk := &cmttypes.Block{
			Header: cmttypes.Header{
				Version:            cmtversion.Consensus{Block: version.BlockProtocol, App: uint64(k.ChainSeed % 7)},
				ChainID:            chainID,
				Height:             height,
				Time:               tm,
				LastBlockID:        lastID,
				ValidatorsHash:     V[i].Hash(),
				NextValidatorsHash: V[i+1].Hash(),
				ConsensusHash:      consHash,
				AppHash:            app[i],
				ProposerAddress:    V[i].Validators[i%len(V[i].Validators)].Address,
			},
			Data:       cmttypes.Data{Txs: cmtTxs},
			LastCommit: lastCommit,
		}
		blk.LastCommitHash = lastCommit.Hash()
		blk.DataHash = blk.Data.Hash()
		blk.EvidenceHash = blk.Evidence.Hash()
		if i > 0 {
			blk.LastResultsHash = cmttypes.NewResults(prevResults).Hash()
		} else {
			blk.LastResultsHash = rbytes(r, 32)
		}
		if err := blk.ValidateBasic(); err != nil {
			core.Harnessf("stateless: synthetic block %d fails ValidateBasic: %v", height, err)
		}
		ps, err := blk.MakePartSet(cmttypes.BlockPartSizeBytes)
		if err != nil {
			core.Harnessf("stateless: part set: %v", err)
		}
		bid := cmttypes.BlockID{Hash: blk.Hash(), PartSetHeader: ps.Header()}
		commit := signCommit(chainID, V[i], keys, height, int32(r.Intn(3)), bid, tm.Add(time.Second), k.Absent)
		if err := V[i].VerifyCommitLight(chainID, bid, height, commit); err != nil {
			core.Harnessf("stateless: synthetic commit %d does not verify: %v", height, err)
		}
		for _, s := range commit.Signatures {
			if s.BlockIDFlag == cmttypes.BlockIDFlagAbsent {
				st.Inc("probe.commit_with_absent_validator")
				break
			}
		}
		hdr := blk.Header
		lb := &cmttypes.LightBlock{SignedHeader: &cmttypes.SignedHeader{Header: &hdr, Commit: commit}, ValidatorSet: V[i]}
		if err := lb.ValidateBasic(chainID); err != nil {
			core.Harnessf("stateless: synthetic light block %d invalid: %v", height, err)
		}

		// Honest provider responses through the full node's converters.
		cblk, err := cmtAPI.NewBlock(blk)
		if err != nil {
			core.Harnessf("stateless: NewBlock: %v", err)
		}
		resMeta[i] = &cmtcoretypes.ResultBlockResults{
			Height:           height,
			TxsResults:       results,
			BeginBlockEvents: []abci.Event{{Type: "oasis_event_beacon", Attributes: []abci.EventAttribute{{Key: "epoch", Value: fmt.Sprint(i)}}}},
		}
		if r.Bool() {
			resMeta[i].EndBlockEvents = []abci.Event{{Type: "oasis_event_roothash", Attributes: []abci.EventAttribute{{Key: "finalized", Value: "x"}}}}
		}
		nv, err := light.EncodeValidators(V[i+1], height+1)
		if err != nil {
			core.Harnessf("stateless: EncodeValidators: %v", err)
		}
		hd := &hdata{
			lb: lb, lbHash: append([]byte(nil), hdr.Hash()...),
			block: cblk, txs: txs, hasTx: true,
			results:  cmtAPI.NewBlockResults(resMeta[i]),
			nextVals: nv, rootAfter: rootAfter, hasRootAfter: true,
			valChange: string(hdr.ValidatorsHash) != string(hdr.NextValidatorsHash),
		}
		if hd.valChange {
			st.Inc("probe.height_with_validator_set_change")
		}
		if tm.Nanosecond() != 0 {
			st.Inc("probe.header_time_with_subsecond_part")
		}
		c.hs = append(c.hs, hd)
		headers[i] = &hdr
		prevCommit, prevID, prevResults = commit, bid, results
	}
	for i := 0; i+1 < n; i++ {
		c.hs[i].resultsHash = append([]byte(nil), headers[i+1].LastResultsHash...)
	}
	for _, hd := range c.hs {
		hd.resultsAll = hd.results
	}
	// The last height has no verified successor: results cannot be bound (documented, #6210).
	c.hs[n-1].results = nil
	return c
}

var recorded struct {
	once  sync.Once
	files map[string][]byte
	err   error
}

func repoDir() string {
	if d := os.Getenv("VERIF_REPO"); d != "" {
		return d
	}
	return "/repo"
}

// buildRecorded loads the recorded mainnet vectors exactly like core_test.go does.
func buildRecorded(st *core.Stats) *chain {
	recorded.once.Do(func() {
		recorded.files = map[string][]byte{}
		dir := filepath.Join(repoDir(), "go", "consensus", "cometbft", "stateless", "testdata")
		for _, f := range []string{"block_25300000.json", "light_block_25300000.json", "light_block_25300001.json", "results_25300000.json", "txs_25300000.json"} {
			b, err := os.ReadFile(filepath.Join(dir, f))
			if err != nil {
				recorded.err = err
				return
			}
			recorded.files[f] = b
		}
	})
	if recorded.err != nil {
		core.Harnessf("stateless: recorded vectors: %v", recorded.err)
	}
	dec := func(name string, v interface{}) {
		if err := json.Unmarshal(recorded.files[name], v); err != nil {
			core.Harnessf("stateless: recorded vector %s: %v", name, err)
		}
	}
	var clb, clb2 consensusAPI.LightBlock
	var blk consensusAPI.Block
	var res consensusAPI.BlockResults
	var txs [][]byte
	dec("light_block_25300000.json", &clb)
	dec("light_block_25300001.json", &clb2)
	dec("block_25300000.json", &blk)
	dec("results_25300000.json", &res)
	dec("txs_25300000.json", &txs)
	lb, err := light.DecodeLightBlock(&clb)
	if err != nil {
		core.Harnessf("stateless: recorded light block: %v", err)
	}
	lb2, err := light.DecodeLightBlock(&clb2)
	if err != nil {
		core.Harnessf("stateless: recorded next light block: %v", err)
	}
	nv, err := light.EncodeValidators(lb2.ValidatorSet, lb2.Height)
	if err != nil {
		core.Harnessf("stateless: EncodeValidators: %v", err)
	}
	var rootAfter hash.Hash
	if err := rootAfter.UnmarshalBinary(lb2.AppHash); err != nil {
		core.Harnessf("stateless: recorded app hash: %v", err)
	}
	h0 := &hdata{
		lb: lb, lbHash: append([]byte(nil), lb.Header.Hash()...),
		block: &blk, txs: txs, hasTx: true,
		results: &res, resultsHash: append([]byte(nil), lb2.LastResultsHash...),
		nextVals: nv, rootAfter: rootAfter, hasRootAfter: true,
		valChange: string(lb.ValidatorsHash) != string(lb.NextValidatorsHash),
	}
	h1 := &hdata{lb: lb2, lbHash: append([]byte(nil), lb2.Header.Hash()...)}
	if lb.Header.Time.Nanosecond() != 0 {
		st.Inc("probe.header_time_with_subsecond_part")
	}
	return &chain{chainID: lb.ChainID, hs: []*hdata{h0, h1}}
}
