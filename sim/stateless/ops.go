package stateless

import (
	"fmt"
	"time"

	abci "github.com/cometbft/cometbft/abci/types"
	cmtcrypto "github.com/cometbft/cometbft/crypto"
	cmted "github.com/cometbft/cometbft/crypto/ed25519"
	cmtenc "github.com/cometbft/cometbft/crypto/encoding"
	cmtmerkle "github.com/cometbft/cometbft/crypto/merkle"
	cmtproto "github.com/cometbft/cometbft/proto/tendermint/types"
	cmttypes "github.com/cometbft/cometbft/types"

	"github.com/oasisprotocol/oasis-core/go/common/cbor"
	"github.com/oasisprotocol/oasis-core/go/common/crypto/hash"
	"github.com/oasisprotocol/oasis-core/go/common/crypto/signature/signers/memory"
	consensusAPI "github.com/oasisprotocol/oasis-core/go/consensus/api"
	"github.com/oasisprotocol/oasis-core/go/consensus/api/transaction"
	cmtAPI "github.com/oasisprotocol/oasis-core/go/consensus/cometbft/api"
	mkvsNode "github.com/oasisprotocol/oasis-core/go/storage/mkvs/node"

	"verif/sim/core"
)

// Op is one symbolic mutant: entry point, operator, height selector and operator parameters.
// Selectors are reduced modulo the actual sizes at execution time so that every op is meaningful
// on every chain and ops stay independent of each other.
type Op struct {
	EP string `json:"ep"`
	M  string `json:"m"`
	H  int    `json:"h"`
	A  int    `json:"a,omitempty"`
	B  int    `json:"b,omitempty"`
	C  int    `json:"c,omitempty"`
	X  []byte `json:"x,omitempty"`
}

// Operator tables (entry point -> operators). Envelope operators are listed separately because
// they hit a known finding and are enabled only in a small fraction of runs.
var opTable = map[string][]string{
	"block": {
		"height", "hash-flip", "hash-other", "time", "time-zone", "root-ns", "root-version", "root-type",
		"root-hash-flip", "root-hash-other", "root-hash-after", "size",
		"meta-flip", "meta-trunc", "meta-extend", "meta-other",
		"hdr-byte", "hdr-field", "hdr-trunc", "hdr-extend",
		"lc-byte", "lc-trunc", "lc-extend", "lc-other", "lc-empty",
		"lc-sig-remove", "lc-sig-alter", "lc-sig-absent", "lc-sig-ts", "lc-sig-addr", "lc-sig-swap", "lc-sig-dup", "lc-sig-flag",
		"lc-round", "replay",
	},
	"txs": {
		"drop", "dup", "swap", "flip", "trunc-tx", "append", "prepend", "insert-empty", "empty", "split", "merge",
		"replace-meta", "meta-root-flip", "drop-meta", "replay",
	},
	"results": {
		"height", "code", "data", "gas-wanted", "gas-used", "log", "info", "codespace", "events", "begin-events", "end-events",
		"drop", "dup", "swap", "append", "null-entry", "empty", "meta-flip", "meta-trunc", "meta-extend", "replay",
	},
	"vals": {
		"height", "key", "key-only", "power", "swap", "add", "remove", "dup", "priority", "proposer", "total-power", "addr",
		"meta-flip", "meta-trunc", "meta-extend", "replay",
	},
	"proof": {
		"tx-other", "block-other", "raw-flip", "raw-trunc", "raw-extend", "index", "total", "leaf-hash",
		"aunt-flip", "aunt-drop", "aunt-dup", "aunt-swap", "tx-flip", "tx-sig-flip", "height",
	},
}

var envelopeOps = []string{"lc-height", "lc-blockid"}

var epOrder = []string{"block", "txs", "results", "vals", "proof"}

func sel(a, n int) int {
	if n <= 0 {
		return 0
	}
	if a < 0 {
		a = -a
	}
	return a % n
}

func cp(b []byte) []byte { return append([]byte(nil), b...) }

func cpList(l [][]byte) [][]byte {
	out := make([][]byte, len(l))
	for i := range l {
		out[i] = cp(l[i])
	}
	return out
}

func flipBit(b []byte, pos, bit int) []byte {
	o := cp(b)
	if len(o) == 0 {
		return o
	}
	o[sel(pos, len(o))] ^= 1 << uint(sel(bit, 8))
	return o
}

func nonEmpty(x []byte) []byte {
	if len(x) == 0 {
		return []byte{0x78, 0x01}
	}
	return x
}

// unknownProtoField is a well-formed protobuf field (number 15, varint 1) no message here knows.
var unknownProtoField = []byte{0x78, 0x01}

func cloneBlock(b *consensusAPI.Block) *consensusAPI.Block {
	c := *b
	c.Meta = cp(b.Meta)
	return &c
}

// withData returns the indices of heights that have honest data for the entry point.
func (c *chain) withData(ep string) []int {
	var l []int
	for i, h := range c.hs {
		ok := false
		switch ep {
		case "block":
			ok = h.block != nil
		case "txs", "proof":
			ok = h.hasTx
		case "results":
			ok = h.results != nil && h.resultsHash != nil
		case "vals":
			ok = h.nextVals != nil
		}
		if ok {
			l = append(l, i)
		}
	}
	return l
}

// replayPair picks (light block index, response index) with |difference| = 1.
func (c *chain) replayPair(ep string, hsel, dir int) (lbIdx, g int, ok bool) {
	type pr struct{ lb, g int }
	var l []pr
	for _, g := range c.withData(ep) {
		for _, d := range []int{-1, 1} {
			if i := g + d; i >= 0 && i < len(c.hs) {
				if ep == "results" && c.hs[i].resultsHash == nil {
					continue // results need the trusted hash of the light block's own height
				}
				l = append(l, pr{i, g})
			}
		}
	}
	if len(l) == 0 {
		return 0, 0, false
	}
	p := l[sel(hsel*2+dir, len(l))]
	return p.lb, p.g, true
}

func decMeta(b []byte) (*cmtAPI.BlockMeta, bool) {
	var m cmtAPI.BlockMeta
	if err := cbor.Unmarshal(b, &m); err != nil {
		return nil, false
	}
	return &m, true
}

func mustMeta(b []byte) *cmtAPI.BlockMeta {
	m, ok := decMeta(b)
	if !ok {
		core.Harnessf("stateless: honest block meta does not decode")
	}
	return m
}

func mustCommit(b []byte) *cmtproto.Commit {
	var c cmtproto.Commit
	if err := c.Unmarshal(b); err != nil {
		core.Harnessf("stateless: honest last commit does not decode: %v", err)
	}
	return &c
}

func mustMarshal(b []byte, err error) []byte {
	if err != nil {
		core.Harnessf("stateless: marshal: %v", err)
	}
	return b
}

var zones = []int{2 * 3600, -5 * 3600, 5*3600 + 1800, 1, -1, 14 * 3600}

// mutBlock applies a block operator. It returns the light block index to verify against, the
// altered block, or a skip reason.
func (c *chain) mutBlock(op *Op) (int, *consensusAPI.Block, string) {
	if op.M == "replay" {
		lbIdx, g, ok := c.replayPair("block", op.H, op.A)
		if !ok {
			return 0, nil, "no adjacent height"
		}
		return lbIdx, cloneBlock(c.hs[g].block), ""
	}
	l := c.withData("block")
	if len(l) == 0 {
		return 0, nil, "no data"
	}
	hi := l[sel(op.H, len(l))]
	hd := c.hs[hi]
	b := cloneBlock(hd.block)
	// An adjacent height with a block, for "other" operators.
	other := func() *hdata {
		for _, d := range []int{1, -1} {
			j := hi + d*(1-2*sel(op.B, 2))
			if j >= 0 && j < len(c.hs) && c.hs[j].block != nil {
				return c.hs[j]
			}
		}
		return nil
	}
	setMeta := func(m *cmtAPI.BlockMeta) { b.Meta = cbor.Marshal(m) }
	lcMut := func(f func(pc *cmtproto.Commit) string) string {
		m := mustMeta(b.Meta)
		pc := mustCommit(m.LastCommit)
		if s := f(pc); s != "" {
			return s
		}
		enc, err := pc.Marshal()
		if err != nil {
			return "altered commit cannot be encoded"
		}
		m.LastCommit = enc
		setMeta(m)
		return ""
	}
	sigIdx := func(pc *cmtproto.Commit, a int) (int, string) {
		if len(pc.Signatures) == 0 {
			return 0, "no signatures"
		}
		return sel(a, len(pc.Signatures)), ""
	}
	skip := ""
	switch op.M {
	case "height":
		b.Height += []int64{1, -1, 2, 1 << 32}[sel(op.A, 4)]
	case "hash-flip":
		copy(b.Hash[:], flipBit(b.Hash[:], op.A, op.B))
	case "hash-other":
		o := other()
		if o == nil {
			return 0, nil, "no adjacent block"
		}
		b.Hash = o.block.Hash
	case "time":
		d := []time.Duration{time.Second, -time.Second, time.Nanosecond, -time.Nanosecond, 999999999 * time.Nanosecond, time.Duration(hd.lb.Time.Nanosecond()), time.Hour}[sel(op.A, 7)]
		if d == 0 {
			return 0, nil, "header time has no sub-second part"
		}
		b.Time = b.Time.Add(d)
	case "time-zone":
		z := zones[sel(op.A, len(zones))]
		if _, cur := b.Time.Zone(); cur == z {
			z += 3600
		}
		b.Time = b.Time.In(time.FixedZone("", z))
	case "root-ns":
		copy(b.StateRoot.Namespace[:], flipBit(b.StateRoot.Namespace[:], op.A, op.B))
	case "root-version":
		switch sel(op.A, 5) {
		case 0:
			b.StateRoot.Version++
		case 1:
			b.StateRoot.Version--
		case 2:
			b.StateRoot.Version = 0
		case 3:
			b.StateRoot.Version = ^uint64(0)
		default:
			b.StateRoot.Version += 1 << 40
		}
	case "root-type":
		t := mkvsNode.RootType(sel(op.A, 256))
		if t == b.StateRoot.Type {
			t++
		}
		b.StateRoot.Type = t
	case "root-hash-flip":
		copy(b.StateRoot.Hash[:], flipBit(b.StateRoot.Hash[:], op.A, op.B))
	case "root-hash-other":
		o := other()
		if o == nil {
			return 0, nil, "no adjacent block"
		}
		b.StateRoot.Hash = o.block.StateRoot.Hash
	case "root-hash-after":
		if !hd.hasRootAfter {
			return 0, nil, "no root"
		}
		b.StateRoot.Hash = hd.rootAfter
	case "size":
		b.Size += uint64(1 + sel(op.A, 1000))
	case "meta-flip":
		b.Meta = flipBit(b.Meta, op.A, op.B)
	case "meta-trunc":
		b.Meta = b.Meta[:sel(op.A, len(b.Meta))]
	case "meta-extend":
		b.Meta = append(b.Meta, nonEmpty(op.X)...)
	case "meta-other":
		o := other()
		if o == nil {
			return 0, nil, "no adjacent block"
		}
		b.Meta = cp(o.block.Meta)
	case "hdr-byte":
		m := mustMeta(b.Meta)
		m.Header = flipBit(m.Header, op.A, op.B)
		setMeta(m)
	case "hdr-trunc":
		m := mustMeta(b.Meta)
		m.Header = m.Header[:sel(op.A, len(m.Header))]
		setMeta(m)
	case "hdr-extend":
		m := mustMeta(b.Meta)
		if sel(op.A, 2) == 0 {
			m.Header = append(m.Header, unknownProtoField...)
		} else {
			m.Header = append(m.Header, nonEmpty(op.X)...)
		}
		setMeta(m)
	case "hdr-field":
		m := mustMeta(b.Meta)
		var ph cmtproto.Header
		if err := ph.Unmarshal(m.Header); err != nil {
			core.Harnessf("stateless: honest header does not decode: %v", err)
		}
		h, err := cmttypes.HeaderFromProto(&ph)
		if err != nil {
			core.Harnessf("stateless: honest header invalid: %v", err)
		}
		fh := func(x []byte) []byte {
			if len(x) == 0 {
				return sha("forged", fmt.Sprint(op.B))
			}
			return flipBit(x, op.B, op.C)
		}
		switch sel(op.A, 17) {
		case 0:
			h.Version.Block++
		case 1:
			h.Version.App++
		case 2:
			h.ChainID += "x"
		case 3:
			h.Height++
		case 4:
			h.Time = h.Time.Add(time.Nanosecond)
		case 5:
			h.Time = h.Time.Add(time.Second)
		case 6:
			h.LastBlockID.Hash = fh(h.LastBlockID.Hash)
		case 7:
			h.LastBlockID.PartSetHeader.Total++
		case 8:
			h.LastCommitHash = fh(h.LastCommitHash)
		case 9:
			h.DataHash = fh(h.DataHash)
		case 10:
			h.ValidatorsHash = fh(h.ValidatorsHash)
		case 11:
			h.NextValidatorsHash = fh(h.NextValidatorsHash)
		case 12:
			h.ConsensusHash = fh(h.ConsensusHash)
		case 13:
			h.AppHash = fh(h.AppHash)
		case 14:
			h.LastResultsHash = fh(h.LastResultsHash)
		case 15:
			h.EvidenceHash = fh(h.EvidenceHash)
		default:
			h.ProposerAddress = fh(h.ProposerAddress)
		}
		m.Header = mustMarshal(h.ToProto().Marshal())
		setMeta(m)
		if sel(op.C, 2) == 1 {
			// A self-consistent forgery: every top-level field follows the forged header.
			b.Hash = hash.LoadFromHexBytes(h.Hash())
			b.Height = h.Height
			b.StateRoot.Version = uint64(h.Height) - 1
			b.Time = h.Time.Truncate(time.Second)
			if len(h.AppHash) == hash.Size {
				copy(b.StateRoot.Hash[:], h.AppHash)
			}
		}
	case "lc-byte":
		m := mustMeta(b.Meta)
		if len(m.LastCommit) == 0 {
			return 0, nil, "empty last commit"
		}
		m.LastCommit = flipBit(m.LastCommit, op.A, op.B)
		setMeta(m)
	case "lc-trunc":
		m := mustMeta(b.Meta)
		if len(m.LastCommit) == 0 {
			return 0, nil, "empty last commit"
		}
		m.LastCommit = m.LastCommit[:sel(op.A, len(m.LastCommit))]
		setMeta(m)
	case "lc-extend":
		m := mustMeta(b.Meta)
		if sel(op.A, 2) == 0 {
			m.LastCommit = append(m.LastCommit, unknownProtoField...)
		} else {
			m.LastCommit = append(m.LastCommit, nonEmpty(op.X)...)
		}
		setMeta(m)
	case "lc-other":
		o := other()
		if o == nil {
			return 0, nil, "no adjacent block"
		}
		m := mustMeta(b.Meta)
		m.LastCommit = cp(mustMeta(o.block.Meta).LastCommit)
		setMeta(m)
	case "lc-empty":
		m := mustMeta(b.Meta)
		m.LastCommit = mustMarshal(cmttypes.NewCommit(0, 0, cmttypes.BlockID{}, nil).ToProto().Marshal())
		setMeta(m)
	case "lc-sig-remove":
		skip = lcMut(func(pc *cmtproto.Commit) string {
			i, s := sigIdx(pc, op.A)
			if s != "" {
				return s
			}
			pc.Signatures = append(append([]cmtproto.CommitSig(nil), pc.Signatures[:i]...), pc.Signatures[i+1:]...)
			return ""
		})
	case "lc-sig-alter":
		skip = lcMut(func(pc *cmtproto.Commit) string {
			i, s := sigIdx(pc, op.A)
			if s != "" {
				return s
			}
			if len(pc.Signatures[i].Signature) == 0 {
				pc.Signatures[i].Signature = sha("sig")
			} else {
				pc.Signatures[i].Signature = flipBit(pc.Signatures[i].Signature, op.B, op.C)
			}
			return ""
		})
	case "lc-sig-absent":
		skip = lcMut(func(pc *cmtproto.Commit) string {
			i, s := sigIdx(pc, op.A)
			if s != "" {
				return s
			}
			if pc.Signatures[i].BlockIdFlag == cmtproto.BlockIDFlagAbsent {
				return "already absent"
			}
			pc.Signatures[i] = *(&cmttypes.CommitSig{BlockIDFlag: cmttypes.BlockIDFlagAbsent}).ToProto()
			return ""
		})
	case "lc-sig-ts":
		skip = lcMut(func(pc *cmtproto.Commit) string {
			i, s := sigIdx(pc, op.A)
			if s != "" {
				return s
			}
			pc.Signatures[i].Timestamp = pc.Signatures[i].Timestamp.Add([]time.Duration{time.Nanosecond, time.Second, -time.Millisecond}[sel(op.B, 3)])
			return ""
		})
	case "lc-sig-addr":
		skip = lcMut(func(pc *cmtproto.Commit) string {
			i, s := sigIdx(pc, op.A)
			if s != "" {
				return s
			}
			if len(pc.Signatures[i].ValidatorAddress) == 0 {
				return "absent signature"
			}
			pc.Signatures[i].ValidatorAddress = flipBit(pc.Signatures[i].ValidatorAddress, op.B, op.C)
			return ""
		})
	case "lc-sig-swap":
		skip = lcMut(func(pc *cmtproto.Commit) string {
			n := len(pc.Signatures)
			if n < 2 {
				return "fewer than two signatures"
			}
			i := sel(op.A, n)
			j := (i + 1 + sel(op.B, n-1)) % n
			pc.Signatures[i], pc.Signatures[j] = pc.Signatures[j], pc.Signatures[i]
			return ""
		})
	case "lc-sig-dup":
		skip = lcMut(func(pc *cmtproto.Commit) string {
			i, s := sigIdx(pc, op.A)
			if s != "" {
				return s
			}
			pc.Signatures = append(pc.Signatures, pc.Signatures[i])
			return ""
		})
	case "lc-sig-flag":
		skip = lcMut(func(pc *cmtproto.Commit) string {
			i, s := sigIdx(pc, op.A)
			if s != "" {
				return s
			}
			switch pc.Signatures[i].BlockIdFlag {
			case cmtproto.BlockIDFlagCommit:
				pc.Signatures[i].BlockIdFlag = cmtproto.BlockIDFlagNil
			case cmtproto.BlockIDFlagNil:
				pc.Signatures[i].BlockIdFlag = cmtproto.BlockIDFlagCommit
			default:
				return "absent signature"
			}
			return ""
		})
	case "lc-round":
		skip = lcMut(func(pc *cmtproto.Commit) string {
			pc.Round += int32(1 + sel(op.A, 5))
			return ""
		})
	case "lc-height":
		skip = lcMut(func(pc *cmtproto.Commit) string {
			d := []int64{1, -1, 1000}[sel(op.A, 3)]
			if pc.Height+d < 1 {
				d = 1
			}
			pc.Height += d
			return ""
		})
	case "lc-blockid":
		skip = lcMut(func(pc *cmtproto.Commit) string {
			if len(pc.BlockID.Hash) == 0 {
				return "empty last commit"
			}
			switch sel(op.A, 3) {
			case 0:
				pc.BlockID.Hash = flipBit(pc.BlockID.Hash, op.B, op.C)
			case 1:
				pc.BlockID.PartSetHeader.Total++
			default:
				pc.BlockID.PartSetHeader.Hash = flipBit(pc.BlockID.PartSetHeader.Hash, op.B, op.C)
			}
			return ""
		})
	default:
		core.Harnessf("stateless: unknown block operator %q", op.M)
	}
	return hi, b, skip
}

// mutTxs applies a transaction-list operator.
func (c *chain) mutTxs(op *Op) (int, [][]byte, string) {
	if op.M == "replay" {
		lbIdx, g, ok := c.replayPair("txs", op.H, op.A)
		if !ok {
			return 0, nil, "no adjacent height"
		}
		return lbIdx, cpList(c.hs[g].txs), ""
	}
	l := c.withData("txs")
	if len(l) == 0 {
		return 0, nil, "no data"
	}
	hi := l[sel(op.H, len(l))]
	hd := c.hs[hi]
	txs := cpList(hd.txs)
	n := len(txs)
	ins := func(at int, tx []byte) {
		txs = append(txs[:at], append([][]byte{tx}, txs[at:]...)...)
	}
	foreign := func() []byte {
		if sel(op.B, 2) == 1 {
			for _, d := range []int{1, -1} {
				if j := hi + d; j >= 0 && j < len(c.hs) && c.hs[j].hasTx {
					o := c.hs[j].txs
					return cp(o[sel(op.C, len(o))])
				}
			}
		}
		return cp(nonEmpty(op.X))
	}
	forgedMeta := func(root hash.Hash) []byte {
		ensureChainContext()
		s, err := memory.NewFromSeed(sha("c19-forger"))
		if err != nil {
			core.Harnessf("stateless: signer: %v", err)
		}
		stx, err := transaction.Sign(s, consensusAPI.NewBlockMetadataTx(&consensusAPI.BlockMetadata{StateRoot: root, EventsRoot: sha("events")}))
		if err != nil {
			core.Harnessf("stateless: sign: %v", err)
		}
		return cbor.Marshal(stx)
	}
	switch op.M {
	case "drop":
		i := sel(op.A, n)
		txs = append(txs[:i], txs[i+1:]...)
	case "dup":
		i := sel(op.A, n)
		ins(sel(op.B, n+1), cp(txs[i]))
	case "swap":
		if n < 2 {
			return 0, nil, "fewer than two transactions"
		}
		i := sel(op.A, n)
		j := (i + 1 + sel(op.B, n-1)) % n
		txs[i], txs[j] = txs[j], txs[i]
	case "flip":
		i := sel(op.A, n)
		txs[i] = flipBit(txs[i], op.B, op.C)
	case "trunc-tx":
		i := sel(op.A, n)
		txs[i] = txs[i][:sel(op.B, len(txs[i]))]
	case "append":
		txs = append(txs, foreign())
	case "prepend":
		ins(0, foreign())
	case "insert-empty":
		ins(sel(op.A, n+1), []byte{})
	case "empty":
		if sel(op.A, 2) == 0 {
			txs = nil
		} else {
			txs = [][]byte{}
		}
	case "split":
		i := sel(op.A, n)
		if len(txs[i]) < 2 {
			return 0, nil, "transaction too short"
		}
		at := 1 + sel(op.B, len(txs[i])-1)
		a, b := cp(txs[i][:at]), cp(txs[i][at:])
		txs[i] = a
		ins(i+1, b)
	case "merge":
		if n < 2 {
			return 0, nil, "fewer than two transactions"
		}
		i := sel(op.A, n-1)
		m := append(cp(txs[i]), txs[i+1]...)
		txs = append(txs[:i], txs[i+1:]...)
		txs[i] = m
	case "replace-meta":
		var root hash.Hash
		copy(root[:], sha("forged-root", fmt.Sprint(op.A)))
		if sel(op.B, 3) == 0 {
			// The state root of the block's own header (state BEFORE the block).
			copy(root[:], hd.lb.AppHash)
		}
		txs[n-1] = forgedMeta(root)
	case "meta-root-flip":
		root, err := stateRootOf(txs[n-1])
		if err != nil {
			return 0, nil, "last transaction is not a metadata transaction"
		}
		copy(root[:], flipBit(root[:], op.A, op.B))
		txs[n-1] = forgedMeta(root)
	case "drop-meta":
		txs = txs[:n-1]
	default:
		core.Harnessf("stateless: unknown txs operator %q", op.M)
	}
	return hi, txs, ""
}

// stateRootOf is the harness's own reading of a block metadata transaction.
func stateRootOf(raw []byte) (hash.Hash, error) {
	var stx transaction.SignedTransaction
	if err := cbor.Unmarshal(raw, &stx); err != nil {
		return hash.Hash{}, err
	}
	var tx transaction.Transaction
	if err := cbor.Unmarshal(stx.Blob, &tx); err != nil {
		return hash.Hash{}, err
	}
	if tx.Method != consensusAPI.MethodMeta {
		return hash.Hash{}, fmt.Errorf("not a metadata transaction")
	}
	var bm consensusAPI.BlockMetadata
	if err := cbor.Unmarshal(tx.Body, &bm); err != nil {
		return hash.Hash{}, err
	}
	return bm.StateRoot, nil
}

func decResults(b []byte) (*cmtAPI.BlockResultsMeta, bool) {
	var m cmtAPI.BlockResultsMeta
	if err := cbor.Unmarshal(b, &m); err != nil {
		return nil, false
	}
	return &m, true
}

// mutResults applies a block-results operator.
func (c *chain) mutResults(op *Op) (int, *consensusAPI.BlockResults, string) {
	if op.M == "replay" {
		lbIdx, g, ok := c.replayPair("results", op.H, op.A)
		if !ok {
			return 0, nil, "no adjacent height"
		}
		o := c.hs[g].results
		return lbIdx, &consensusAPI.BlockResults{Height: o.Height, Meta: cp(o.Meta)}, ""
	}
	l := c.withData("results")
	if len(l) == 0 {
		return 0, nil, "no data"
	}
	hi := l[sel(op.H, len(l))]
	hd := c.hs[hi]
	res := &consensusAPI.BlockResults{Height: hd.results.Height, Meta: cp(hd.results.Meta)}
	m, ok := decResults(res.Meta)
	if !ok {
		core.Harnessf("stateless: honest results do not decode")
	}
	n := len(m.TxsResults)
	entry := func() (*abci.ResponseDeliverTx, string) {
		if n == 0 {
			return nil, "no results"
		}
		return m.TxsResults[sel(op.A, n)], ""
	}
	re := func() { res.Meta = cbor.Marshal(m) }
	ev := abci.Event{Type: "oasis_event_forged", Attributes: []abci.EventAttribute{{Key: "k", Value: fmt.Sprint(op.B)}}}
	switch op.M {
	case "height":
		res.Height += []int64{1, -1, 2}[sel(op.A, 3)]
	case "code":
		e, s := entry()
		if s != "" {
			return 0, nil, s
		}
		if e.Code != 0 && sel(op.B, 2) == 0 {
			e.Code = 0
		} else {
			e.Code += uint32(1 + sel(op.B, 7))
		}
		re()
	case "data":
		e, s := entry()
		if s != "" {
			return 0, nil, s
		}
		switch {
		case len(e.Data) > 0 && sel(op.B, 3) == 0:
			e.Data = nil
		case len(e.Data) > 0 && sel(op.B, 3) == 1:
			e.Data = flipBit(e.Data, op.C, op.B)
		default:
			e.Data = append(cp(e.Data), 0x00)
		}
		re()
	case "gas-wanted":
		e, s := entry()
		if s != "" {
			return 0, nil, s
		}
		e.GasWanted += []int64{1, -1, 1 << 40}[sel(op.B, 3)]
		re()
	case "gas-used":
		e, s := entry()
		if s != "" {
			return 0, nil, s
		}
		e.GasUsed += []int64{1, -1, 1 << 40}[sel(op.B, 3)]
		re()
	case "log":
		e, s := entry()
		if s != "" {
			return 0, nil, s
		}
		e.Log += "x"
		re()
	case "info":
		e, s := entry()
		if s != "" {
			return 0, nil, s
		}
		e.Info += "x"
		re()
	case "codespace":
		e, s := entry()
		if s != "" {
			return 0, nil, s
		}
		e.Codespace += "x"
		re()
	case "events":
		e, s := entry()
		if s != "" {
			return 0, nil, s
		}
		if len(e.Events) > 0 && sel(op.B, 2) == 0 {
			e.Events = e.Events[:len(e.Events)-1]
		} else {
			e.Events = append(e.Events, ev)
		}
		re()
	case "begin-events":
		m.BeginBlockEvents = append(m.BeginBlockEvents, ev)
		re()
	case "end-events":
		m.EndBlockEvents = append(m.EndBlockEvents, ev)
		re()
	case "drop":
		if n == 0 {
			return 0, nil, "no results"
		}
		i := sel(op.A, n)
		m.TxsResults = append(m.TxsResults[:i], m.TxsResults[i+1:]...)
		re()
	case "dup":
		if n == 0 {
			return 0, nil, "no results"
		}
		d := *m.TxsResults[sel(op.A, n)]
		m.TxsResults = append(m.TxsResults, &d)
		re()
	case "swap":
		if n < 2 {
			return 0, nil, "fewer than two results"
		}
		i := sel(op.A, n)
		j := (i + 1 + sel(op.B, n-1)) % n
		m.TxsResults[i], m.TxsResults[j] = m.TxsResults[j], m.TxsResults[i]
		re()
	case "append":
		m.TxsResults = append(m.TxsResults, &abci.ResponseDeliverTx{Code: uint32(sel(op.A, 3)), Data: cp(op.X)})
		re()
	case "null-entry":
		if n == 0 || sel(op.B, 4) == 0 {
			m.TxsResults = append(m.TxsResults, nil)
		} else {
			m.TxsResults[sel(op.A, n)] = nil
		}
		re()
	case "empty":
		m.TxsResults = nil
		re()
	case "meta-flip":
		res.Meta = flipBit(res.Meta, op.A, op.B)
	case "meta-trunc":
		res.Meta = res.Meta[:sel(op.A, len(res.Meta))]
	case "meta-extend":
		res.Meta = append(res.Meta, nonEmpty(op.X)...)
	default:
		core.Harnessf("stateless: unknown results operator %q", op.M)
	}
	return hi, res, ""
}

func forgedKey(a int) cmtcrypto.PubKey {
	return cmted.GenPrivKeyFromSecret([]byte(fmt.Sprintf("c19/forged/%d", a%16))).PubKey()
}

// mutVals applies a validator-set operator.
func (c *chain) mutVals(op *Op) (int, *consensusAPI.Validators, string) {
	if op.M == "replay" {
		lbIdx, g, ok := c.replayPair("vals", op.H, op.A)
		if !ok {
			return 0, nil, "no adjacent height"
		}
		o := c.hs[g].nextVals
		return lbIdx, &consensusAPI.Validators{Height: o.Height, Meta: cp(o.Meta)}, ""
	}
	l := c.withData("vals")
	if len(l) == 0 {
		return 0, nil, "no data"
	}
	hi := l[sel(op.H, len(l))]
	hd := c.hs[hi]
	v := &consensusAPI.Validators{Height: hd.nextVals.Height, Meta: cp(hd.nextVals.Meta)}
	var pvs cmtproto.ValidatorSet
	if err := pvs.Unmarshal(v.Meta); err != nil {
		core.Harnessf("stateless: honest validators do not decode: %v", err)
	}
	n := len(pvs.Validators)
	if n == 0 {
		core.Harnessf("stateless: honest validator set is empty")
	}
	re := func() { v.Meta = mustMarshal(pvs.Marshal()) }
	setKey := func(pv *cmtproto.Validator, pk cmtcrypto.PubKey, withAddr bool) {
		ppk, err := cmtenc.PubKeyToProto(pk)
		if err != nil {
			core.Harnessf("stateless: pubkey: %v", err)
		}
		old := string(pv.Address)
		pv.PubKey = ppk
		if withAddr {
			pv.Address = pk.Address()
			if pvs.Proposer != nil && string(pvs.Proposer.Address) == old {
				pvs.Proposer.PubKey = ppk
				pvs.Proposer.Address = pk.Address()
			}
		}
	}
	i := sel(op.A, n)
	switch op.M {
	case "height":
		v.Height += []int64{1, -1, -2, 2}[sel(op.A, 4)]
	case "key":
		setKey(pvs.Validators[i], forgedKey(op.B), true)
		re()
	case "key-only":
		setKey(pvs.Validators[i], forgedKey(op.B), false)
		re()
	case "power":
		switch sel(op.B, 4) {
		case 0:
			pvs.Validators[i].VotingPower++
		case 1:
			pvs.Validators[i].VotingPower--
		case 2:
			pvs.Validators[i].VotingPower *= 2
		default:
			pvs.Validators[i].VotingPower = -pvs.Validators[i].VotingPower
		}
		if pvs.Proposer != nil && string(pvs.Proposer.Address) == string(pvs.Validators[i].Address) && sel(op.C, 2) == 0 {
			pvs.Proposer.VotingPower = pvs.Validators[i].VotingPower
		}
		re()
	case "swap":
		if n < 2 {
			return 0, nil, "single validator"
		}
		j := (i + 1 + sel(op.B, n-1)) % n
		pvs.Validators[i], pvs.Validators[j] = pvs.Validators[j], pvs.Validators[i]
		re()
	case "add":
		pk := forgedKey(op.B)
		nv := &cmtproto.Validator{VotingPower: int64(1 + sel(op.C, 50))}
		setKey(nv, pk, true)
		at := sel(op.A, n+1)
		pvs.Validators = append(pvs.Validators[:at], append([]*cmtproto.Validator{nv}, pvs.Validators[at:]...)...)
		re()
	case "remove":
		if n < 2 {
			return 0, nil, "single validator"
		}
		gone := string(pvs.Validators[i].Address)
		pvs.Validators = append(pvs.Validators[:i], pvs.Validators[i+1:]...)
		if pvs.Proposer != nil && string(pvs.Proposer.Address) == gone {
			p := *pvs.Validators[0]
			pvs.Proposer = &p
		}
		re()
	case "dup":
		d := *pvs.Validators[i]
		pvs.Validators = append(pvs.Validators, &d)
		re()
	case "priority":
		pvs.Validators[i].ProposerPriority += int64(1 + sel(op.B, 100))
		re()
	case "proposer":
		if n < 2 || pvs.Proposer == nil {
			return 0, nil, "single validator"
		}
		for k := 0; k < n; k++ {
			cand := pvs.Validators[(i+k)%n]
			if string(cand.Address) != string(pvs.Proposer.Address) {
				p := *cand
				pvs.Proposer = &p
				break
			}
		}
		re()
	case "total-power":
		pvs.TotalVotingPower += int64(1 + sel(op.B, 100))
		re()
	case "addr":
		pvs.Validators[i].Address = flipBit(pvs.Validators[i].Address, op.B, op.C)
		re()
	case "meta-flip":
		v.Meta = flipBit(v.Meta, op.A, op.B)
	case "meta-trunc":
		v.Meta = v.Meta[:sel(op.A, len(v.Meta))]
	case "meta-extend":
		if sel(op.A, 2) == 0 {
			v.Meta = append(v.Meta, unknownProtoField...)
		} else {
			v.Meta = append(v.Meta, nonEmpty(op.X)...)
		}
	default:
		core.Harnessf("stateless: unknown vals operator %q", op.M)
	}
	return hi, v, ""
}

// proofMutant is an altered (proof, transaction) pair and the light block to check it against.
type proofMutant struct {
	lbIdx int
	proof *transaction.Proof
	tx    *transaction.SignedTransaction
	txRaw []byte // cbor of tx, what the verification hashes
}

// honestProof returns the honest proof and decoded transaction i of height index hi, or false
// when the transaction does not round-trip through SignedTransaction.
func (c *chain) honestProof(hi, i int, proofs [][]byte) (*proofMutant, bool) {
	hd := c.hs[hi]
	var stx transaction.SignedTransaction
	if err := cbor.Unmarshal(hd.txs[i], &stx); err != nil {
		return nil, false
	}
	raw := cbor.Marshal(&stx)
	if string(raw) != string(hd.txs[i]) {
		return nil, false
	}
	return &proofMutant{lbIdx: hi, proof: &transaction.Proof{Height: hd.lb.Height, RawProof: cp(proofs[i])}, tx: &stx, txRaw: raw}, true
}

func decProof(raw []byte) (*cmtmerkle.Proof, bool) {
	var p cmtmerkle.Proof
	if err := cbor.Unmarshal(raw, &p); err != nil {
		return nil, false
	}
	return &p, true
}

// mutProof applies a proof operator. proofsOf returns the honest proofs of a height index.
func (c *chain) mutProof(op *Op, proofsOf func(hi int) [][]byte) (*proofMutant, string) {
	l := c.withData("proof")
	if len(l) == 0 {
		return nil, "no data"
	}
	hi := l[sel(op.H, len(l))]
	hd := c.hs[hi]
	n := len(hd.txs)
	i := sel(op.A, n)
	pm, ok := c.honestProof(hi, i, proofsOf(hi))
	if !ok {
		return nil, "transaction does not round-trip"
	}
	pmut := func(f func(p *cmtmerkle.Proof) string) string {
		p, ok := decProof(pm.proof.RawProof)
		if !ok {
			core.Harnessf("stateless: honest proof does not decode")
		}
		if s := f(p); s != "" {
			return s
		}
		pm.proof.RawProof = cbor.Marshal(p)
		return ""
	}
	skip := ""
	switch op.M {
	case "tx-other":
		if n < 2 {
			return nil, "single transaction"
		}
		j := (i + 1 + sel(op.B, n-1)) % n
		o, ok := c.honestProof(hi, j, proofsOf(hi))
		if !ok {
			return nil, "transaction does not round-trip"
		}
		pm.tx, pm.txRaw = o.tx, o.txRaw
	case "block-other":
		// The honest (proof, tx) pair of this height presented against an adjacent light block.
		j := -1
		for _, d := range []int{1 - 2*sel(op.B, 2), 2*sel(op.B, 2) - 1} {
			if k := hi + d; k >= 0 && k < len(c.hs) {
				j = k
				break
			}
		}
		if j < 0 {
			return nil, "no adjacent height"
		}
		pm.lbIdx = j
		if sel(op.C, 2) == 0 {
			pm.proof.Height = c.hs[j].lb.Height
		}
	case "raw-flip":
		pm.proof.RawProof = flipBit(pm.proof.RawProof, op.B, op.C)
	case "raw-trunc":
		pm.proof.RawProof = pm.proof.RawProof[:sel(op.B, len(pm.proof.RawProof))]
	case "raw-extend":
		pm.proof.RawProof = append(pm.proof.RawProof, nonEmpty(op.X)...)
	case "index":
		skip = pmut(func(p *cmtmerkle.Proof) string {
			switch sel(op.B, 4) {
			case 0:
				p.Index++
			case 1:
				p.Index--
			case 2:
				p.Index = int64(sel(op.C, n+2))
				if p.Index == int64(i) {
					p.Index = int64(n)
				}
			default:
				p.Index ^= 1 << uint(sel(op.C, 6))
			}
			return ""
		})
	case "total":
		skip = pmut(func(p *cmtmerkle.Proof) string {
			switch sel(op.B, 4) {
			case 0:
				p.Total++
			case 1:
				p.Total--
			case 2:
				p.Total *= 2
			default:
				p.Total = int64(sel(op.C, 2*n+2))
				if p.Total == int64(n) {
					p.Total = 0
				}
			}
			return ""
		})
	case "leaf-hash":
		skip = pmut(func(p *cmtmerkle.Proof) string {
			p.LeafHash = flipBit(p.LeafHash, op.B, op.C)
			return ""
		})
	case "aunt-flip":
		skip = pmut(func(p *cmtmerkle.Proof) string {
			if len(p.Aunts) == 0 {
				return "no aunts"
			}
			k := sel(op.B, len(p.Aunts))
			p.Aunts[k] = flipBit(p.Aunts[k], op.C, op.B)
			return ""
		})
	case "aunt-drop":
		skip = pmut(func(p *cmtmerkle.Proof) string {
			if len(p.Aunts) == 0 {
				return "no aunts"
			}
			k := sel(op.B, len(p.Aunts))
			p.Aunts = append(p.Aunts[:k], p.Aunts[k+1:]...)
			return ""
		})
	case "aunt-dup":
		skip = pmut(func(p *cmtmerkle.Proof) string {
			if len(p.Aunts) == 0 {
				return "no aunts"
			}
			p.Aunts = append(p.Aunts, cp(p.Aunts[sel(op.B, len(p.Aunts))]))
			return ""
		})
	case "aunt-swap":
		skip = pmut(func(p *cmtmerkle.Proof) string {
			if len(p.Aunts) < 2 {
				return "fewer than two aunts"
			}
			a := sel(op.B, len(p.Aunts))
			b := (a + 1 + sel(op.C, len(p.Aunts)-1)) % len(p.Aunts)
			p.Aunts[a], p.Aunts[b] = p.Aunts[b], p.Aunts[a]
			return ""
		})
	case "tx-flip":
		t := *pm.tx
		t.Blob = flipBit(t.Blob, op.B, op.C)
		pm.tx, pm.txRaw = &t, cbor.Marshal(&t)
	case "tx-sig-flip":
		t := *pm.tx
		if sel(op.B, 2) == 0 {
			copy(t.Signature.Signature[:], flipBit(t.Signature.Signature[:], op.C, op.B))
		} else {
			copy(t.Signature.PublicKey[:], flipBit(t.Signature.PublicKey[:], op.C, op.B))
		}
		pm.tx, pm.txRaw = &t, cbor.Marshal(&t)
	case "height":
		pm.proof.Height += []int64{1, -1, 1000}[sel(op.B, 3)]
	default:
		core.Harnessf("stateless: unknown proof operator %q", op.M)
	}
	return pm, skip
}
