package props

import (
	"verif/sim/core"
	"verif/sim/stateless"
)

func init() {
	reg(&core.Property{
		ID: "C19", Level: "exploration",
		Batches: []core.Batch{{
			Name: "bind", Engine: stateless.Engine{}, Quick: 24000, Thorough: 300000,
			Rule: "a run is non-trivial when at least one honest response was accepted and at least five mutants actually changed the provider response they were applied to", Weight: 1,
		}, {
			Name: "core", Engine: stateless.CoreEngine{}, Quick: 6000, Thorough: 150000,
			Rule: "a run is non-trivial when the real stateless.Core returned at least one honest answer to its caller and at least three requests were answered by the provider with a response that a mutation operator actually changed (or with a lie about the latest height)", Weight: 1,
		}},
		Real: []string{
			"consensus/cometbft/stateless verifyBlock, verifyTransactions, verifyBlockResults, verifyNextValidators, verifyTransactionProof, transactionsWithProofs, stateRootFromBlockTxs/stateRootFromMetaTx (through the verif export shim)",
			"consensus/cometbft/api NewBlock / NewBlockResults / NewBlockResultsMeta, consensus/cometbft/light Encode/DecodeValidators and DecodeLightBlock, consensus/cometbft/crypto/merkle",
			"CometBFT types: headers, signed commits, validator sets, light blocks, results and data hashes (real objects; commits carry real ed25519 signatures and pass VerifyCommitLight)",
			"recorded mainnet vectors of height 25300000/25300001 from stateless/testdata",
			"batch core: stateless.Core (GetBlock, GetTransactions, GetTransactionsWithProofs, GetBlockResults, GetTransactionsWithResults, StateRoot, GetValidators, GetLightBlock, GetLatestHeight, SubmitTxWithProof; height resolution, latest-height exception, state-root and results-hash caches), the oasis light client wrapper (lazy initialisation from trust options, pruned store) and CometBFT's light client (trusted-store lookup, sequential/skipping forward verification, backward verification, witness comparison) over an in-memory store",
		},
		Stub: []string{
			"batch bind: light client (light blocks are handed to the verification functions as already verified); batch core: the libp2p light-block provider pool is replaced by three harness providers serving the synthetic chain's really signed light blocks up to a simulator-controlled network tip (the client is constructed through the light/export_verif.go shim); WatchBlocks/Serve goroutine, queriers and verifyParameters are not run",
			"remote provider and gRPC transport (responses are produced by the full node's converters from synthetic CometBFT blocks, then altered)",
			"ABCI application (app hashes, results and events of the synthetic chain are arbitrary bytes chosen by the scenario)",
		},
		Assumptions: []string{
			"the light block passed to a verification function has been verified by the light client for the requested height",
			"Block.Size, per-transaction log/info/codespace/events, begin/end block events, validator proposer priorities/proposer/total power and the round of Meta.LastCommit are not committed to by the header and are tracked, not alarmed on",
			"batch core: the light-block providers are honest (a Byzantine light-block provider is CometBFT's light client's business); block results of the latest trusted height cannot be bound yet (documented, #6210) and are only checked for their height",
		},
	})
}
