package props

import (
	"verif/sim/chain"
	"verif/sim/core"
)

func init() {
	reg(&core.Property{
		ID: "C17", Level: "exploration",
		Batches: []core.Batch{{Name: "registry", Engine: chain.Engine{Prop: "C17"}, Quick: 1600, Thorough: 8000,
			Rule: "a run is non-trivial when at least three heights were produced and at least eight registry transactions were executed in blocks, among them at least one successful update of an existing node record and at least one refused transaction that the authority model classifies as unauthorised"}},
		Real: append(append([]string{}, chainReal...), "registry application (transactions, epoch processing of expired nodes), registry/api verification functions, registry and staking state (primary records, key map, consensus-address map, nodes-by-entity and runtimes-by-entity indexes, stake accumulators)"),
		Stub: chainStub,
		Assumptions: []string{
			"authority is judged from the decoded transaction by the harness's own model: entity descriptor signed by the entity key and submitted by it; node descriptor submitted by the node key, validly signed by the node, consensus, P2P, TLS and VRF keys (plain ed25519 over SHA-512/256(context || blob)) and listed by its registered entity; runtime descriptor submitted by the entity that governs the existing (or, for a new runtime, the new) descriptor; runtime-governed runtimes cannot be changed by transactions",
			"the registration and the genesis signature contexts are the same string in this code base, so 'genesis context instead of registration context' is not a flaw; the wrong-context variant signs entity descriptors under the node context and vice versa",
			"where the property text is silent the oracle does not judge: a registered node whose entity dropped it from its node list stays registered; a runtime may name an entity that is not registered; authorised transactions may be refused for other reasons (stake, update rules, gas)",
			"records are compared as full signed descriptors in canonical CBOR between consecutive heights of the reference replica (replica agreement is C01's business); node expiry removal follows expiration + debonding interval (as of the start of the block) < new epoch",
			"stake claims are not compared when the genesis sets DebugBypassStake (the code records no claims then)",
			"the anchor entities' validator nodes are never targeted (they back the replicas); runtime messages (roothash UpdateRuntime) are not produced by this engine",
		},
	})
}
