package props

import (
	"verif/sim/chain"
	"verif/sim/core"
)

var chainReal = []string{"ABCI mux, all eight consensus apps, genesis/InitChain, message dispatcher, gas accounting, contexts", "MKVS + badger/pathbadger NodeDB per replica", "CometBFT BlockExecutor (CreateProposalBlock/ProcessProposal/ApplyBlock), block and commit validation with real signatures, MedianTime, validator-set updates, Handshaker replay, state/block stores", "ed25519 signatures and signature contexts, CBOR"}
var chainStub = []string{"consensus reactor / WAL / p2p: the simulator chooses proposers, abandoned rounds, which precommits exist and their timestamps", "CometBFT mempool (simulator-owned container issuing the same CheckTx calls)", "evidence pool (accepts; evidence objects are real and really signed)", "pruner ticker (the simulator calls StatePruner.Prune itself)", "upgrade backend (nil), key manager / runtime host / SGX (not run)"}

func init() {
	reg(&core.Property{
		ID: "C10", Level: "exploration",
		Batches: []core.Batch{{Name: "no-halt", Engine: chain.Engine{Prop: "C10"}, Quick: 1600, Thorough: 40000,
			Rule: "a run is non-trivial when at least three heights were produced"}},
		Real: chainReal, Stub: chainStub,
		Assumptions: []string{"documented precondition: the anchor validators (one per replica) stay staked and are never accused by evidence, so that a validator set can always be elected", "genesis total supply is far below 2^64"},
	})
	reg(&core.Property{
		ID: "C05", Level: "exploration",
		Batches: []core.Batch{{Name: "supply", Engine: chain.Engine{Prop: "C05"}, Quick: 1600, Thorough: 40000,
			Rule: "a run is non-trivial when the invariants were evaluated on at least three committed blocks"}},
		Real: chainReal, Stub: chainStub,
		Assumptions: []string{"the oracle reads the committed state of one replica through the exported staking state API (replica agreement is C01's business)", "the in-tree supplementary sanity checker runs as a second opinion on some replicas; it is not trusted alone"},
	})
	reg(&core.Property{
		ID: "C08", Level: "exploration",
		Batches: []core.Batch{{Name: "failed-tx", Engine: chain.Engine{Prop: "C08"}, Quick: 1440, Thorough: 30000,
			Rule: "a run is non-trivial when at least two failing transactions were delivered and checked on the observer replica"}},
		Real: chainReal, Stub: chainStub,
		Assumptions: []string{"per-transaction before/after state is observed on an extra replica that always executes on the plain-delivery path (one DeliverTx per transaction), through ApplicationState.NewContext on the in-progress block state", "whether a transaction can have passed authentication is decided by the harness from the state before it (signature made by the harness, nonce, balance >= fee)"},
	})
	reg(&core.Property{
		ID: "C09", Level: "exploration",
		Batches: []core.Batch{{Name: "auth", Engine: chain.Engine{Prop: "C09"}, Quick: 1440, Thorough: 30000,
			Rule: "a run is non-trivial when at least three transactions took effect and at least one forged, replayed or mis-sequenced transaction was refused"}},
		Real: chainReal, Stub: chainStub,
		Assumptions: []string{"authenticity of every envelope is known to the harness by construction (it made or broke the signature itself, re-signing under other contexts with raw ed25519 outside the oasis signature package)", "a bit-flipped envelope that decodes to the identical (blob, key, signature) triple counts as the original"},
	})
	reg(&core.Property{
		ID: "C15", Level: "exploration",
		Batches: []core.Batch{{Name: "shares", Engine: chain.Engine{Prop: "C15"}, Quick: 1440, Thorough: 30000,
			Rule: "a run is non-trivial when at least three blocks were checked and at least one deposit or reclaim was observed transaction by transaction"}},
		Real: chainReal, Stub: chainStub,
		Assumptions: []string{"per-transaction pool and delegation state is observed on the plain-delivery observer replica; block-boundary effects (rewards, slashing, debonding completion) are observed between committed states with the block's events", "the 'paid out <= paid in + rewards' clause is covered through its per-operation consequences (pro-rata minting/redemption, no bystander loss, price falls only by slashing), not by a cumulative ledger"},
	})
	reg(&core.Property{
		ID: "C01", Level: "exploration",
		Batches: []core.Batch{{Name: "replicas", Engine: chain.Engine{Prop: "C01"}, Quick: 1600, Thorough: 40000,
			Rule: "a run is non-trivial when at least three heights were produced"}},
		Real: chainReal, Stub: chainStub,
		Assumptions: []string{"Go map iteration order is not controllable: it is sampled (every block is executed by several replicas with independent map seeds), so replay of a map-order dependent divergence is probabilistic", "events and logs are not compared (not consensus data)"},
	})
}
