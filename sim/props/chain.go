package props

import (
	"verif/sim/chain"
	"verif/sim/core"
)

var chainReal = []string{"ABCI mux, all eight consensus apps, genesis/InitChain, message dispatcher, gas accounting, contexts", "MKVS + badger/pathbadger NodeDB per replica", "CometBFT BlockExecutor (CreateProposalBlock/ProcessProposal/ApplyBlock), block and commit validation with real signatures, MedianTime, validator-set updates, Handshaker replay, state/block stores", "ed25519 signatures and signature contexts, CBOR"}
var chainStub = []string{"consensus reactor / WAL / p2p: the simulator chooses proposers, abandoned rounds, which precommits exist and their timestamps", "CometBFT mempool (simulator-owned container issuing the same CheckTx calls)", "evidence pool (accepts; evidence objects are real and really signed)", "pruner ticker (the simulator calls StatePruner.Prune itself)", "upgrade backend (nil), key manager / runtime host / SGX (not run)"}

func init() {
	reg(&core.Property{
		ID: "C10", Level: "exploration",
		Batches: []core.Batch{{Name: "no-halt", Engine: chain.Engine{Prop: "C10"}, Quick: 1500, Thorough: 40000,
			Rule: "a run is non-trivial when at least three heights were produced"}},
		Real: chainReal, Stub: chainStub,
		Assumptions: []string{"documented precondition: the anchor validators (one per replica) stay staked and are never accused by evidence, so that a validator set can always be elected", "genesis total supply is far below 2^64"},
	})
	reg(&core.Property{
		ID: "C01", Level: "exploration",
		Batches: []core.Batch{{Name: "replicas", Engine: chain.Engine{Prop: "C01"}, Quick: 1500, Thorough: 40000,
			Rule: "a run is non-trivial when at least three heights were produced"}},
		Real: chainReal, Stub: chainStub,
		Assumptions: []string{"Go map iteration order is not controllable: it is sampled (every block is executed by several replicas with independent map seeds), so replay of a map-order dependent divergence is probabilistic", "events and logs are not compared (not consensus data)"},
	})
}
