// Package props binds the 20 given properties to engines and batches.
package props

import (
	"sort"

	"verif/sim/core"
	"verif/sim/queue"
)

var registry = map[string]*core.Property{}

func reg(p *core.Property) { registry[p.ID] = p }

// Get returns the property with the given id.
func Get(id string) *core.Property { return registry[id] }

// IDs returns all registered property ids.
func IDs() []string {
	var ids []string
	for k := range registry {
		ids = append(ids, k)
	}
	sort.Strings(ids)
	return ids
}

// EngineFor returns the engine of a (property, batch) pair.
func EngineFor(prop, batch string) core.Engine {
	p := registry[prop]
	if p == nil {
		return nil
	}
	for _, b := range p.Batches {
		if b.Name == batch {
			return b.Engine
		}
	}
	return nil
}

func init() {
	reg(&core.Property{
		ID: "C20", Level: "exploration",
		Batches: []core.Batch{{
			Name: "interleave", Engine: queue.Engine{}, Quick: 200000, Thorough: 6000000,
			Rule: "a run is non-trivial when it contains at least three operation kinds including add and a scheduling call",
		}},
		Real:        []string{"runtime/txpool mainQueue + mainQueueScheduler + heaps (through the verif export shim)"},
		Stub:        []string{"runtime host CheckTx (metadata supplied by the simulator)", "txpool check queue, republish, block watcher goroutines (their atomic operations are interleaved by the simulator)"},
		Assumptions: []string{"sender state sequences supplied by the runtime are monotone and at least (used sequence + 1), as account nonces are", "identical raw bytes imply identical metadata"},
	})
}
