package props

import (
	"verif/sim/chain"
	"verif/sim/core"
	"verif/sim/pool"
)

func init() {
	reg(&core.Property{
		ID: "C11", Level: "exploration",
		Batches: []core.Batch{{
			Name: "pool", Engine: pool.Engine{}, Quick: 300000, Thorough: 4000000,
			Rule:   "a run is non-trivial when the pool accepted at least three commitments and the round was processed at least once",
			Weight: 2,
		}, {
			Name: "approunds", Engine: chain.Engine{Prop: "C11"}, Quick: 512, Thorough: 6000,
			Rule:   "a run is non-trivial when at least three heights were produced, the roothash application accepted at least two executor-commit transactions and at least one runtime round was ended by votes or by the round timer (finalized or failed; epoch-transition blocks do not count)",
			Weight: 3,
		}},
		Real: []string{
			"roothash/api/commitment: VerifyExecutorCommitment, Pool.AddVerifiedExecutorCommitment, Pool.ProcessCommitments, SchedulerCommitment votes, executor commitment signing/verification",
			"scheduler/api Committee (membership, roles, scheduler rank)",
			"CBOR and JSON serialisation of the pool",
			"[approunds] the roothash application inside the chain simulator (all consensus apps behind the real ABCI mux, several replicas): ExecutorCommit transactions, commitment verification against the latest runtime block, the pool persisted in consensus state, EndBlock finalization, round-timer arming / re-arming / expiry by height, discrepancy events, runtime blocks (normal, failed, epoch transition, suspended), runtime message dispatch, incoming message queue, incorrect-result slashing, liveness statistics; committees elected by the real scheduler application",
		},
		Stub: []string{
			"roothash application (commit transaction, finalization, timeout scheduling): replaced by a driver that calls verify+add per delivered commitment and ProcessCommitments with the application's retry-after-discrepancy pattern, and starts a fresh pool after a finalized or failed round",
			"compute nodes and P2P/consensus transport: simulated emitters and a network with drop, duplicate, delay/reorder",
			"registry node lookup (RAK): static table",
			"[approunds] compute nodes: the simulator signs executor commitments with the genesis compute nodes' identity keys (non-TEE runtime) and submits them as transactions of ordinary accounts or of the nodes; consensus reactor, mempool and clients as in the other chain properties",
		},
		Assumptions: []string{
			"'present' primary votes are votes that carry the scheduler's result; failure indications are counted against the straggler allowance, not as present",
			"a scheduler counts as having committed once a well-formed commitment to its own proposal reached the pool before discrepancy resolution started (whether or not the pool admitted it)",
			"a committee lists a node at most once per role; a node may hold both roles",
			"[pool] application level (block emitted, timeout re-arming, state root unchanged on failure) is not exercised by the pool batch; the approunds batch covers it",
			"[approunds] a vote counts when a successful ExecutorCommit transaction carried it, the application announced it (ExecutorCommittedEvent) and the oracle itself finds it signed by the named node, for the round being decided, based on the latest runtime block and from a member of the committee the scheduler elected; a member's first vote per scheduler is the one that counts",
			"[approunds] the round timer is the one recorded in the runtime's consensus state (NextTimeout); 'never just keeps waiting' is checked at the block whose height equals it: that block must show a first discrepancy declaration, the end of the round, or a restart of the timer because a better-ranked scheduler committed in that block; an open round must never carry a timer that is not in the future",
			"[approunds] allowed stragglers come from the genesis runtime descriptor (the workload never updates it); committee membership and order come from the scheduler application's state (C14 decides elections)",
		},
	})
}
