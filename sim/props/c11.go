package props

import (
	"verif/sim/chain"
	"verif/sim/core"
	"verif/sim/pool"
)

func init() {
	reg(&core.Property{
		ID: "C11", Level: "exploration",
		Batches: []core.Batch{{
			Name: "pool", Engine: pool.Engine{}, Quick: 300000, Thorough: 4000000,
			Rule:   "a run is non-trivial when the pool accepted at least three commitments and the round was processed at least once",
			Weight: 2,
		}, {
			Name: "approunds", Engine: chain.Engine{Prop: "C11"}, Quick: 512, Thorough: 6000,
			Rule:   "a run is non-trivial when at least three heights were produced, the roothash application accepted at least two executor-commit transactions and at least one runtime round was ended by votes or by the round timer (finalized or failed; epoch-transition blocks do not count)",
			Weight: 3,
		}},
		Real: []string{
			"roothash/api/commitment: VerifyExecutorCommitment, Pool.AddVerifiedExecutorCommitment, Pool.ProcessCommitments, SchedulerCommitment votes, executor commitment signing/verification",
			"scheduler/api Committee (membership, roles, scheduler rank)",
			"CBOR and JSON serialisation of the pool",
		},
		Stub: []string{
			"roothash application (commit transaction, finalization, timeout scheduling): replaced by a driver that calls verify+add per delivered commitment and ProcessCommitments with the application's retry-after-discrepancy pattern, and starts a fresh pool after a finalized or failed round",
			"compute nodes and P2P/consensus transport: simulated emitters and a network with drop, duplicate, delay/reorder",
			"registry node lookup (RAK): static table",
		},
		Assumptions: []string{
			"'present' primary votes are votes that carry the scheduler's result; failure indications are counted against the straggler allowance, not as present",
			"a scheduler counts as having committed once a well-formed commitment to its own proposal reached the pool before discrepancy resolution started (whether or not the pool admitted it)",
			"a committee lists a node at most once per role; a node may hold both roles",
			"application level (block emitted, timeout re-arming, state root unchanged on failure) is not exercised by this batch",
		},
	})
}
