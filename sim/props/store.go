package props

import (
	"verif/sim/chain"
	"verif/sim/core"
	"verif/sim/store"
)

var storeReal = []string{"storage/mkvs tree, cache, iterator, overlay, commit", "storage/mkvs/db/badger and pathbadger node databases (in-memory badger for tree-level runs, tmpfs directories for NodeDB-level runs)"}

func init() {
	reg(&core.Property{
		ID: "C02", Level: "exploration",
		Batches: []core.Batch{
			{Name: "groups", Engine: store.RootHashEngine{}, Quick: 50000, Thorough: 800000,
				Rule: "a run is non-trivial when it has at least two histories, a non-empty target and at least two generated operations"},
		},
		Real:        storeReal,
		Stub:        []string{"memdb: harness NodeDB stub (content-addressed map of serialized nodes) used for most tree-level histories; badger/pathbadger used for the rest"},
		Assumptions: []string{"Insert(key, nil) is outside the contract (nil encodes absence)", "an injected storage error inside a mutating operation is outside the property's quantifier (not generated here)"},
	})
	reg(&core.Property{
		ID: "C06", Level: "exploration",
		Batches: []core.Batch{
			{Name: "histories", Engine: store.NodeDBEngine{Prop: "C06"}, Quick: 10000, Thorough: 150000,
				Rule: "a run is non-trivial when the history has at least four operations including a commit and a finalize", Weight: 3},
			{Name: "chainhistory", Engine: chain.Engine{Prop: "C06"}, Quick: 240, Thorough: 6000,
				Rule: "a run is non-trivial when at least three heights were produced and at least three retained versions of the replicas' consensus databases were read back completely (most replicas prune with a window of 1-6 versions, a pruner step runs in every block)", Weight: 1},
		},
		Real:        []string{"storage/mkvs/db/badger and pathbadger on tmpfs directories (Commit/Finalize/Prune/reopen), mkvs trees, proofs", "chain level (batch chainhistory): the consensus application's state database under the real ABCI mux (doCommit, genericPruner with keep-N), with restarts, catch-ups and state-sync joiners"},
		Stub:        []string{"concurrent readers are state machines advanced inside the writer at verifhook points (inline preemption), not OS threads"},
		Assumptions: []string{"every version has a state-root candidate derived from the previous finalized state root (as the consensus layer produces them)", "badger background goroutines (flush, compaction, GC) are real and unscheduled"},
	})
	reg(&core.Property{
		ID: "C13", Level: "exploration",
		Batches: []core.Batch{
			{Name: "served", Engine: store.NodeDBEngine{Prop: "C13", CheckWL: true}, Quick: 4000, Thorough: 100000,
				Rule: "a run is non-trivial when the history has at least four operations including a commit and a finalize (every commit's served write log is replayed on the first root, after the commit and again after finalization)"},
			{Name: "apply", Engine: store.SyncEngine{}, Quick: 4000, Thorough: 100000,
				Rule: "a run is non-trivial when at least one write log was applied and at least one served log was actually changed by a corruption operator"},
		},
		Real:        []string{"NodeDB.GetWriteLog of badger and pathbadger (hashed / path-keyed logs revived from the database)", "storage/database LocalBackend.Apply -> RootCache.Apply -> ApplyWriteLog + CommitKnown", "mkvs tree commit write-log construction"},
		Stub:        []string{"the serving peer and the transport: the harness fetches the log from the source database and corrupts it with seeded operators before handing it to Apply"},
		Assumptions: []string{"the receiver applies versions in order, one state root per version derived from the previous one and at most one I/O root derived from empty"},
	})
	reg(&core.Property{
		ID: "C12", Level: "exploration",
		Batches: []core.Batch{
			{Name: "create-restore", Engine: store.CheckpointEngine{}, Quick: 5000, Thorough: 60000,
				Rule: "a run is non-trivial when the tree is non-empty and at least one chunk was created and restored", Weight: 3},
			{Name: "chainsync", Engine: chain.Engine{Prop: "C12"}, Quick: 400, Thorough: 8000,
				Rule: "a run is non-trivial when at least three heights were produced and at least one new node joined the running chain by state sync (donor checkpoint through the real ABCI ListSnapshots/LoadSnapshotChunk, joiner through OfferSnapshot/ApplySnapshotChunk with lying peers in between), held exactly the donor's state and replayed the later blocks identically", Weight: 2},
		},
		Real:        []string{"storage/mkvs/checkpoint file creator, sequential and parallel chunker (real goroutines), restorer, chunk proof verification", "badger and pathbadger multipart insert on tmpfs directories", "chain level (batch chainsync): ABCI ListSnapshots / LoadSnapshotChunk on the donor and OfferSnapshot / ApplySnapshotChunk on the joiner (abci/snapshots.go), doApplyStateSync, the state-sync-completed notification of the applications, the LocalBackend checkpointer on the donor's live consensus database, the full ABCI mux + all consensus apps + CometBFT BlockExecutor of donor and joiner (the joiner replays the later blocks and prunes)"},
		Stub:        []string{"goroutine scheduling of the parallel chunker: a harness scheduler parks every chunk task at verifhook points and releases one at a time in a seeded order", "concurrent RestoreChunk callers are interleaved inline at the restorer hooks", "chunk transport (bytes handed over directly, corrupted by seeded operators)", "chain level: CometBFT's statesync reactor and light-client state provider (the harness offers snapshots and chunks in the order and with the lies the scenario says, takes the trusted application hash from the decided chain and bootstraps the joiner's CometBFT state the way the state provider does); the chain simulator's consensus/mempool/evidence stubs; the joiner's crash is an in-process image of its data directory"},
		Assumptions: []string{"the checkpoint metadata (root, digests) comes from a trusted source unless the corruption operator says the attacker also controls the digest list", "chain level: only the application hash of the checkpoint height is trusted; an offered manifest's root version/type/namespace and format field are not bound to it and are not judged"},
	})
	reg(&core.Property{
		ID: "C07", Level: "fault_enumeration",
		Batches: []core.Batch{
			{Name: "nodedb-crash", Engine: store.CrashEngine{}, Quick: 1200, Thorough: 30000,
				Rule: "a run is non-trivial when the sampled operation performed at least one durable write and every hook hit inside it was used as a crash point (child process exit), followed by reopen, retry and continued operation", Weight: 3},
			{Name: "chaincrash", Engine: chain.Engine{Prop: "C07"}, Quick: 192, Thorough: 3000,
				Rule: "a run is non-trivial when at least three heights were produced and at least one crash image of a consensus replica (data directory + CometBFT stores at the chosen instant inside block commit) was restarted through the CometBFT handshake and passed all comparisons up to the tip", Weight: 2},
		},
		Real:        []string{"badger and pathbadger Commit/Finalize/Prune/StartMultipartInsert/chunk Commit on tmpfs directories, written by a child OS process that exits abruptly (os.Exit) at the selected verifhook point", "reopen (db.New incl. multipart leftover cleanup), checkpoint restorer", "chain level: the ABCI mux with all consensus apps, abci doCommit/InitStateStorage/Info, MKVS + NodeDB on disk, the CometBFT Handshaker, BlockExecutor and stores of the restarted replica"},
		Stub:        []string{"process death is os.Exit in a child process (no power-loss write reordering, no torn sectors; badger-internal partial batch application is not enumerable)", "chain level: the crash is an in-process image (copy of the replica's live data directory, repeated until the listing is stable, plus key-by-key copies of the in-memory CometBFT state and block stores); consensus reactor, mempool and evidence pool are the chain simulator's stubs"},
		Assumptions: []string{"hook hits inside one operation are deterministic for a given history (checked: a child that does not reach the requested hit is a harness error)", "chain level: CometBFT's fail.Fail() points are represented by the harness-reachable instants before/after SaveBlock, before SaveABCIResponses, between ABCI Commit and state-store Save, and after ApplyBlock"},
	})
	reg(&core.Property{
		ID: "C04", Level: "exploration",
		Batches: []core.Batch{
			{Name: "byzantine", Engine: store.ProofEngine{}, Quick: 200000, Thorough: 2000000,
				Rule: "a run is non-trivial when at least one honest answer was verified and at least one response was actually changed by a mutation operator"},
		},
		Real:        []string{"storage/mkvs proof builders (SyncGet/SyncGetPrefixes/SyncIterate), syncer.ProofVerifier, cache.remoteSync + MergeVerifiedSubtree, remote-backed tree lookup/iteration/prefetch"},
		Stub:        []string{"the peer: a harness ReadSyncer applying seeded mutation operators to the honest responses of a real server tree (memdb-backed)", "transport (direct calls)"},
		Assumptions: []string{"client cache capacity is unlimited or above the active path (tiny capacities are covered by the C02/C03 known finding)"},
	})
	reg(&core.Property{
		ID: "C03", Level: "exploration",
		Batches: []core.Batch{
			{Name: "faultfree", Engine: store.TreeMapEngine{}, Quick: 100000, Thorough: 4000000,
				Rule: "a run is non-trivial when it has at least four operation kinds including an insert and a read (get or iterate)"},
			{Name: "readfaults", Engine: store.TreeMapEngine{Faults: true}, Quick: 30000, Thorough: 1000000,
				Rule: "as faultfree, and at least one injected GetNode error actually fired"},
		},
		Real:        storeReal,
		Stub:        []string{"storage read errors are injected by a harness NodeDB wrapper (FaultyNodeDB) around the real backend"},
		Assumptions: []string{"writes go to the top overlay only (as Context.NewTransaction stacks them); iterators are not used across writes to the same handle", "Insert(key, nil) is outside the contract (nil encodes absence)"},
	})
}
