package props

import (
	"verif/sim/chain"
	"verif/sim/core"
	"verif/sim/decode"
)

func init() {
	reg(&core.Property{
		ID: "C16", Level: "exploration",
		Batches: []core.Batch{
			{Name: "mux", Engine: chain.Engine{Prop: "C16"}, Quick: 320, Thorough: 4000,
				Rule: "a run is non-trivial when at least three heights were produced, at least one corrupted transaction was fed to CheckTx and at least one was included in a block"},
			{Name: "decoders", Engine: decode.DecoderEngine{}, Quick: 1280, Thorough: 20000,
				Rule: "a run is non-trivial when at least one mutant differing from its valid original was presented and at least one was rejected"},
			{Name: "stream", Engine: decode.StreamEngine{}, Quick: 640, Thorough: 8000,
				Rule: "a run is non-trivial when at least one valid request/response exchange completed over a connection of the scenario"},
		},
	})
}
