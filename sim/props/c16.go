package props

import (
	"verif/sim/chain"
	"verif/sim/core"
	"verif/sim/decode"
)

// C16: untrusted bytes are decoded or rejected, never crash the node. Partial scope by design:
// only seeded STRUCTURED corruption of valid encodings (plus the stateful multiplexer surface and
// the stream surface of the runtime host protocol) is applied; "for all byte strings" with
// coverage guidance is fuzzing and is not claimed.
//
// The three batches are sized so that every worker gets through all of them within its budget on
// a loaded machine (quick: mux about 40 %, decoders about 30 %, stream about 30 % of the time).
func init() {
	reg(&core.Property{
		ID: "C16", Level: "exploration",
		Batches: []core.Batch{
			{Name: "mux", Engine: chain.Engine{Prop: "C16"}, Quick: 320, Thorough: 3000,
				Rule: "a run is non-trivial when at least three heights were produced, at least one corrupted transaction was fed to CheckTx of a live multiplexer and at least one was included in a block"},
			{Name: "decoders", Engine: decode.DecoderEngine{}, Quick: 1280, Thorough: 16000,
				Rule: "a run is non-trivial when at least one mutant differing from its valid original was presented at a decode/verify entry point and at least one was rejected"},
			{Name: "stream", Engine: decode.StreamEngine{}, Quick: 640, Thorough: 6000,
				Rule: "a run is non-trivial when at least one valid request/response exchange completed over a connection of the scenario (every scenario holds 12 to 32 connection lifecycles)"},
		},
		Real: append(append([]string{}, chainReal...),
			"[mux] CheckTx / PrepareProposal / ProcessProposal / DeliverTx of the live multiplexer with all method handlers (staking, registry, governance, roothash, vault, key manager secrets and churp, beacon, consensus meta)",
			"[decoders] exported decode and verify entry points: mkvs node/key UnmarshalBinary, syncer.Proof + ProofVerifier (v0, v1), writelog, checkpoint Metadata and Restorer.RestoreChunk on a real scratch NodeDB, commitment.ExecutorCommitment / Proposal / roothash Evidence (ValidateBasic, Verify), node.MultiSignedNode.Open + Node.ValidateBasic + registry.VerifyRegisterNodeArgs, CapabilityTEE.Verify / SGXAttestation / SGXConstraints, entity.SignedEntity.Open + registry.VerifyRegisterEntityArgs, registry.Runtime.ValidateBasic + VerifyRuntime + VerifyRuntimeNew/Update, pcs.Quote.UnmarshalBinary / Verify, QuoteBundle.Verify, TCB collateral JSON, ias.AVRBundle.Open / DecodeAVR, consensus SignedTransaction.Open + SanityCheck + body decode of every registered method",
			"[stream] runtime/host/protocol Connection (InitHost, InitGuest, Call, Close, reader/writer/handler goroutines) and the common/cbor MessageReader/MessageWriter framing",
			"recorded SGX/TDX quotes, TCB infos, QE identities, certificate chains and IAS reports of go/common/sgx/{pcs,ias}/testdata (read from the repository at run time); everything else in the corpus is encoded at run time from real objects (real tree, real checkpoint, real signatures)",
		),
		Stub: append(append([]string{}, chainStub...),
			"[mux] the Byzantine client and proposer: the harness corrupts valid signed transactions of the running simulation, re-signs corrupted inner transactions with the sender's key, calls CheckTx itself and puts the bytes into the simulated network's pool",
			"[stream] the peer and the transport: an in-memory net.Conn whose read slicing, write stalls and write-deadline expiry are driven by the sequential peer script (no wall-clock timeouts except generous watchdogs); testing/synctest is not available outside tests, so the connection's goroutines are real and every scenario runs in a child process so that a panic in them is attributed instead of killing the worker",
			"[decoders] registry state lookups (runtime / node lookup stubs holding the corpus' own descriptors)",
		),
		Assumptions: []string{
			"only seeded structured corruption of valid encodings is applied (CBOR item-tree operators: length edits, indefinite lengths, nesting bombs, duplicate and reordered keys, huge declared sizes with short bodies, truncation at and inside items, type confusion, tags, trailing data, special floats, non-canonical widths, negative integers, key types, nulls, dropped fields, splices, large blobs, invalid UTF-8, simple values; byte-level operators for the hand-written binary formats; deep-proof, fragmented-stream and over-limit generators); no coverage guidance, no claim for all byte strings",
			"bounds per call: 2 s wall clock, 256 MiB heap allocation, 8 MiB goroutine stack growth, 4096 call frames at a Read callback; an excess counts only if it persists on re-measurement (best of three fresh attempts; a garbage collection precedes each so that stack growth is visible again)",
			"a consumer's own order is respected: functions that a consumer calls only after a validation step succeeded are called only then",
			"[mux] system methods (block metadata) are fed to CheckTx only; their delivery in blocks is the engine's own Byzantine-proposal fault; a recovered panic inside PrepareProposal (logged by the multiplexer, which then proposes an empty block) is reported as a violation",
			"[mux] the 'valid transactions still succeed' clause is observed on the engine's own valid traffic after the first corrupted transaction (probe valid_tx_ok_after_garbage) and on a final valid transfer whose refusal counts only when it is not explained by fees, gas, balance or nonce",
			"[stream] a connection whose byte stream stands inside a frame after a fault (declared length longer than what was sent) is not expected to stay usable; it must still close without leaving goroutines",
		},
	})
}
