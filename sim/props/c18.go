package props

import (
	"verif/sim/attest"
	"verif/sim/core"
)

// Thorough run counts of the enumerating batches: at least the number of work units
// (attest.FlipChunkBits bit positions, attest.SweepChunkBytes byte positions per run); the engine
// refuses to run if the partition does not fit. Runs beyond the partition are seeded samples of
// two-bit flips / further byte positions.
const (
	c18FlipRuns  = 640
	c18SweepRuns = 1560
)

func init() {
	reg(&core.Property{
		ID: "C18", Level: "fault_enumeration",
		Batches: []core.Batch{
			{
				Name: "bitflip", Engine: attest.Engine{Mode: attest.ModeBitFlip, EnumRuns: c18FlipRuns}, Quick: 48, Thorough: c18FlipRuns,
				Rule: "a run is non-trivial when at least one mutant differing from the original was verified and judged",
			},
			{
				Name: "bytesweep", Engine: attest.Engine{Mode: attest.ModeByteSweep, EnumRuns: c18SweepRuns}, Quick: 48, Thorough: c18SweepRuns,
				Rule: "a run is non-trivial when at least one byte position had all 255 substitutions verified and judged",
			},
			{
				Name: "faults", Engine: attest.Engine{Mode: attest.ModeFaults}, Quick: 2400, Thorough: 24000,
				Rule: "a run is non-trivial when at least one mutant differing from the original was verified and judged",
			},
			{
				Name: "clockpolicy", Engine: attest.Engine{Mode: attest.ModeClockPolicy}, Quick: 2400, Thorough: 24000,
				Rule: "a run is non-trivial when at least one (time, policy) point was verified and compared with the reference model",
			},
		},
		Real: []string{
			"go/common/sgx/pcs: QuoteBundle.Verify / Quote.UnmarshalBinary / Quote.Verify, QuoteSignatureECDSA_P256.VerifyPCK, TCBBundle.Verify (signature chain, TCB info, QE identity, policy, TCB level selection)",
			"Go standard library crypto/x509, crypto/ecdsa as used by the verifier",
			"the SGX and TDX quotes, TCB infos, QE identities and certificate chains of go/common/sgx/pcs/testdata (read from the repository at run time)",
		},
		Stub: []string{
			"Intel PCS (collateral comes from the recorded test vectors)",
			"node registration (go/common/node/sgx.go) above the verified quote: the recorded quotes do not bind a RAK whose key is available, so only Quote/QuoteBundle.Verify is observed",
			"CBOR transport of the quote bundle (faults are injected into the decoded fields: quote bytes, document bodies, signature strings, PEM chain)",
		},
		Assumptions: []string{
			"ECDSA P-256 and SHA-256 are unforgeable: only Intel can produce new signed TCB infos, QE identities and PCK certificates, so rules needing other signed content (other TCB statuses for the same platform) are exercised at TCBBundle.Verify with genuine documents and harness-chosen platform SVNs",
			"collateral validity is the policy window documented in policy.go and asserted by quote_test.go (issueDate <= ts <= issueDate + TCBValidityPeriod days); Intel's nextUpdate is not enforced by the code and is only tracked (probe accepted_past_nextUpdate)",
			"FMSPC black/whitelist entries are written in the letter case used by the TCB info document (case variants only with VERIF_C18_CASE=1)",
			"the verification time is never the zero time.Time (crypto/x509 would substitute the wall clock) and the process-wide unsafe switches (skip verify, lax TCB, debug enclaves) are off",
		},
	})
}
