package props

import (
	"verif/sim/chain"
	"verif/sim/core"
)

func init() {
	reg(&core.Property{
		ID: "C14", Level: "exploration",
		Batches: []core.Batch{{Name: "elections", Engine: chain.Engine{Prop: "C14"}, Quick: 1600, Thorough: 8000,
			Rule: "a run is non-trivial when at least three heights were produced and at least two elections were checked, at least one of which changed the validator set or elected a runtime committee"}},
		Real: append(append([]string{}, chainReal...), "scheduler application (elections in BeginBlock, validator updates in EndBlock) reading the real beacon, registry and staking state; roothash before-schedule hook"),
		Stub: append(append([]string{}, chainStub...), "two read-only probe applications registered in every replica's mux right before and right after the scheduler (they observe ctx.State() in BeginBlock and write nothing)"),
		Assumptions: []string{
			"documented precondition: the anchor validators (one per replica) stay registered, unfrozen and staked, so that a validator set can always be elected; runs in which an election fails for lack of eligible validators are discarded, not judged",
			"insecure (block-hash) beacon backend and a non-TEE compute runtime: VRF-based sortition, TEE attestation checks and DebugForceElect are not exercised",
			"no runtime rounds are finalized in these runs, so the roothash liveness hook that runs inside the election never changes node statuses (an election where it does is skipped and counted)",
			"which of several exactly tied entities (or which of an entity's nodes) is chosen is decided by the entropy shuffle and is not judged beyond being identical on all replicas",
		},
	})
}
