package main

import (
	"fmt"
	"io"
	"os"
	"time"

	"github.com/spf13/viper"

	cmttypes "github.com/cometbft/cometbft/types"

	"github.com/oasisprotocol/oasis-core/go/common/crypto/signature"
	"github.com/oasisprotocol/oasis-core/go/common/logging"
	"github.com/oasisprotocol/oasis-core/go/common/quantity"
	"github.com/oasisprotocol/oasis-core/go/consensus/api/transaction"
	cmtapi "github.com/oasisprotocol/oasis-core/go/consensus/cometbft/api"
	staking "github.com/oasisprotocol/oasis-core/go/staking/api"

	"verif/sim/chain"
)

func main() {
	_ = logging.Initialize(io.Discard, logging.FmtJSON, logging.LevelError, nil)
	viper.Set("debug.dont_blame_oasis", true)
	k := chain.GenKnobs{Salt: "probe", Entities: 4, NodesPerEntity: []int{1, 1, 1, 1}, Accounts: 4, EpochInterval: 5, Debonding: 1,
		FeeSplit: [3]uint64{1, 1, 1}, RewardScale: 100, RewardFactorSign: 1, RewardFactorProp: 1, SignThresholdNum: 1, SignThresholdDen: 2, CommonPool: 1_000_000,
		SlashAmount: 100, SlashFreeze: 1, ThresholdEntity: 10, ThresholdNode: 10,
		EntityEscrow: []uint64{1000, 1000, 1000, 1000}, EntityBalance: []uint64{10000, 10000, 10000, 10000}, AccountBalance: []uint64{5000, 5000, 5000, 5000},
		MinValidators: 1, MaxValidators: 10, MaxValidatorsPerEntity: 2, VotingPeriod: 2, MinDeposit: 10, StakeThreshold: 68, GasBase: 10, Anchors: 3, ShortExpiry: 2, MinTransfer: 1, MinDelegation: 1}
	w, err := chain.BuildWorld(k)
	if err != nil {
		panic(err)
	}
	if err := w.Doc.SanityCheck(); err != nil {
		fmt.Println("genesis sanity check:", err)
		os.Exit(1)
	}
	signature.UnsafeResetChainContext()
	signature.SetChainContext(w.Doc.ChainContext())
	genDoc, err := cmtapi.GetCometBFTGenesisDocument(w.Doc)
	if err != nil {
		panic(err)
	}
	fmt.Println("validators in genesis:", len(genDoc.Validators))
	keys := w.ValidatorKeys()
	var reps []*chain.Replica
	for i := 0; i < 3; i++ {
		r := chain.NewReplica(w, i, w.Entities[i].Nodes[0], chain.ReplicaConfig{Backend: []string{"badger", "pathbadger", "badger"}[i], MemoryOnly: true}, fmt.Sprintf("/dev/shm/chainprobe/%d", i), genDoc)
		if err := r.Start(); err != nil {
			panic(err)
		}
		reps = append(reps, r)
	}
	t0 := time.Now()
	var lastCommit *cmttypes.Commit = &cmttypes.Commit{}
	now := w.Doc.Time
	nonce := uint64(0)
	for h := int64(1); h <= 60; h++ {
		p := reps[int(h)%3]
		var txs [][]byte
		xfer := staking.Transfer{To: staking.NewAddress(w.Accounts[1].Public()), Amount: *quantity.NewFromUint64(7)}
		tx := staking.NewTransferTx(nonce, &transaction.Fee{Amount: *quantity.NewFromUint64(3), Gas: 1000}, &xfer)
		nonce++
		raw, _ := chain.SignTx(w.Accounts[0], tx)
		txs = append(txs, raw)
		blk, err := p.Propose(h, txs, lastCommit, nil)
		if err != nil {
			panic(fmt.Sprint("propose: ", err))
		}
		fmt.Printf("  proposer=%d state.AppHash=%x block.AppHash=%x lastBlockHeight=%d\n", p.Idx, p.State.AppHash[:min(4, len(p.State.AppHash))], blk.AppHash[:min(4, len(blk.AppHash))], p.State.LastBlockHeight)
		bid, _ := chain.BlockIDOf(blk)
		now = now.Add(time.Second)
		commit, _, err := chain.MakeCommit(genDoc.ChainID, p.State.Validators, keys, h, 0, bid, now, func(i int) chain.VoteSpec { return chain.VoteSpec{} })
		if err != nil {
			panic(err)
		}
		var results []*chain.BlockResult
		for _, r := range reps {
			if r != p {
				ok, err := r.Process(blk)
				if err != nil || !ok {
					panic(fmt.Sprint("process: ", ok, err))
				}
			}
			res := r.Apply(blk, commit)
			if res.Err != nil {
				panic(fmt.Sprint("apply: ", res.Err))
			}
			results = append(results, res)
		}
		for i := 1; i < len(results); i++ {
			if d := chain.CompareResults(results[0], results[i]); d != "" {
				fmt.Println("DIVERGENCE at", h, d)
			}
		}
		fmt.Printf("h=%d txs=%d apphash=%x code=%d valupdates=%v\n", h, len(blk.Txs), results[0].AppHash[:4], results[0].TxResults[0].Code, results[0].ValUpdates)
		lastCommit = commit
	}
	fmt.Println("30 blocks x 3 replicas in", time.Since(t0))
	// restart replica 0? (memory-only: skip)
	for _, r := range reps {
		r.Stop()
	}
}
