// Command verifsim is the deterministic-simulation driver.
package main

import (
	"encoding/json"
	"flag"
	"fmt"
	"os"
	"runtime"
	"strconv"
	"time"

	"github.com/oasisprotocol/oasis-core/go/common/logging"

	"verif/sim/core"
	"verif/sim/props"
	"verif/sim/store"
)

func usage() {
	fmt.Fprintln(os.Stderr, "usage: verifsim check --prop ID --tier quick|thorough | worker ... | shrink ... | replay FILE | list")
	os.Exit(2)
}

func envSeed() uint64 {
	if s := os.Getenv("VERIF_SEED"); s != "" {
		if v, err := strconv.ParseUint(s, 10, 64); err == nil {
			return v
		}
		if v, err := strconv.ParseInt(s, 10, 64); err == nil {
			return uint64(v)
		}
	}
	return 1
}

func main() {
	if len(os.Args) < 2 {
		usage()
	}
	lvl := logging.LevelError
	if os.Getenv("VERIF_DEBUG") != "" {
		lvl = logging.LevelWarn
	}
	_ = logging.Initialize(core.Logs, logging.FmtLogfmt, lvl, nil)
	switch os.Args[1] {
	case "crashchild":
		store.CrashChildMain(os.Args[2:])
	case "list":
		for _, id := range props.IDs() {
			fmt.Println(id)
		}
	case "check":
		fs := flag.NewFlagSet("check", flag.ExitOnError)
		prop := fs.String("prop", "", "property id")
		tier := fs.String("tier", "quick", "tier")
		workers := fs.Int("workers", 0, "worker processes")
		verifDir := fs.String("verif", "/verif", "verif dir")
		repo := fs.String("repo", "/repo", "repo dir")
		_ = fs.Parse(os.Args[2:])
		if t := os.Getenv("VERIF_TIER"); t == "quick" || t == "thorough" {
			*tier = t
		}
		p := props.Get(*prop)
		if p == nil {
			fmt.Fprintln(os.Stderr, "HARNESS: unknown property", *prop)
			os.Exit(2)
		}
		w := *workers
		if w <= 0 {
			w = runtime.NumCPU()
			if s := os.Getenv("VERIF_WORKERS"); s != "" {
				if n, err := strconv.Atoi(s); err == nil && n > 0 {
					w = n
				}
			}
		}
		self, _ := os.Executable()
		os.Exit(core.RunCheck(p, core.CheckConfig{Tier: core.Tier(*tier), Seed: envSeed(), Workers: w, VerifDir: *verifDir, Self: self, RepoDir: *repo}))
	case "worker":
		fs := flag.NewFlagSet("worker", flag.ExitOnError)
		prop := fs.String("prop", "", "")
		tier := fs.String("tier", "quick", "")
		seed := fs.Uint64("seed", 1, "")
		w := fs.Int("w", 0, "")
		W := fs.Int("W", 1, "")
		hashFirst := fs.Int("hash-first", 0, "")
		onlyHashed := fs.Bool("only-hashed", false, "")
		out := fs.String("out", "", "")
		_ = fs.Parse(os.Args[2:])
		p := props.Get(*prop)
		if p == nil {
			os.Exit(2)
		}
		limit := 0
		if *onlyHashed {
			limit = *hashFirst
		}
		res := core.Worker(p, core.Tier(*tier), *seed, *w, *W, *hashFirst, limit)
		b, _ := json.Marshal(res)
		if err := os.WriteFile(*out, b, 0o644); err != nil {
			fmt.Fprintln(os.Stderr, "HARNESS: cannot write worker result:", err)
			os.Exit(2)
		}
	case "shrink":
		fs := flag.NewFlagSet("shrink", flag.ExitOnError)
		in := fs.String("in", "", "")
		out := fs.String("out", "", "")
		budget := fs.Int("budget", 60, "")
		_ = fs.Parse(os.Args[2:])
		b, err := os.ReadFile(*in)
		if err != nil {
			os.Exit(2)
		}
		var req struct {
			Scenario *core.Scenario `json:"scenario"`
			Kind     string         `json:"kind"`
		}
		if err := json.Unmarshal(b, &req); err != nil {
			os.Exit(2)
		}
		e := props.EngineFor(req.Scenario.Property, req.Scenario.Batch)
		if e == nil {
			os.Exit(2)
		}
		before := len(req.Scenario.Ops)
		sc, v, tests := core.Minimise(e, req.Scenario, req.Kind, time.Now().Add(time.Duration(*budget)*time.Second))
		if v == nil {
			fmt.Fprintln(os.Stderr, "verifsim shrink: violation did not reproduce in the shrink process")
			os.Exit(3)
		}
		sc.Expect = v.Fingerprint
		sc.Detail = v.Detail
		sc.Trace = v.Trace
		fmt.Fprintf(os.Stderr, "verifsim shrink: %d ops -> %d ops in %d executions\n", before, len(sc.Ops), tests)
		ob, _ := json.MarshalIndent(sc, "", " ")
		if err := os.WriteFile(*out, ob, 0o644); err != nil {
			os.Exit(2)
		}
	case "gen":
		// Development aid: print the scenario of run i of a batch (a replayable file).
		fs := flag.NewFlagSet("gen", flag.ExitOnError)
		prop := fs.String("prop", "", "")
		batch := fs.String("batch", "", "")
		tier := fs.String("tier", "quick", "")
		i := fs.Int("i", 0, "")
		_ = fs.Parse(os.Args[2:])
		e := props.EngineFor(*prop, *batch)
		if e == nil {
			os.Exit(2)
		}
		rs := core.RunSeed(envSeed(), *prop, *batch, *i)
		sc := e.Generate(core.NewRand(rs), core.Tier(*tier))
		sc.Property, sc.Batch, sc.Seed = *prop, *batch, rs
		ob, _ := json.MarshalIndent(sc, "", " ")
		fmt.Println(string(ob))
	case "replay":
		if len(os.Args) < 3 {
			usage()
		}
		b, err := os.ReadFile(os.Args[2])
		if err != nil {
			fmt.Fprintln(os.Stderr, "HARNESS:", err)
			os.Exit(2)
		}
		var sc core.Scenario
		if err := json.Unmarshal(b, &sc); err != nil {
			fmt.Fprintln(os.Stderr, "HARNESS:", err)
			os.Exit(2)
		}
		e := props.EngineFor(sc.Property, sc.Batch)
		if e == nil {
			fmt.Fprintln(os.Stderr, "HARNESS: unknown property/batch in replay file")
			os.Exit(2)
		}
		st := core.NewStats()
		st.TraceOn = true
		v, _, herr := core.SafeExecute(e, &sc, st)
		if herr != nil {
			fmt.Fprintln(os.Stderr, "HARNESS:", herr)
			os.Exit(2)
		}
		for _, l := range st.Trace {
			fmt.Println("  trace:", l)
		}
		if os.Getenv("VERIF_STATS") != "" {
			// Development aid: the counters (reach probes) of the replayed run.
			for _, name := range st.SortedCounters() {
				fmt.Printf("  counter: %s = %d\n", name, st.Counters[name])
			}
		}
		if v == nil {
			fmt.Println("NOT REPRODUCED: the scenario executed without violation")
			os.Exit(0)
		}
		fmt.Printf("REPRODUCED property=%s fingerprint=%q\n  %s\n", sc.Property, v.Fingerprint, v.Detail)
		if sc.Expect != "" && sc.Expect != v.Fingerprint {
			fmt.Printf("  (note: recorded fingerprint was %q)\n", sc.Expect)
		}
		fmt.Printf("VIOLATION property=%s replay=%s\n", sc.Property, os.Args[2])
		os.Exit(1)
	default:
		usage()
	}
}
