package main

import (
	"context"
	"encoding/hex"
	"fmt"

	"github.com/oasisprotocol/oasis-core/go/storage/mkvs"
	"github.com/oasisprotocol/oasis-core/go/storage/mkvs/node"

	"verif/sim/store"
)

func main() {
	ctx := context.Background()
	ks := []string{"695960f6a5ed356095e722a7bc161fd3cfc9d22c73d9a87127cc08ee", "76f576c952", "8f408998adaa8d61871cb0893a4aed085b2eb8fbafd4b1b535487561c6d3f590cc38c7dfae5d7b7056e20fe24cd9cb1e42bb26aa85eecc4a0e01edbd06c7", "53de95a42090e82ade952c7a86666555746975bff1d62d5f7204e849f4cce654c7cec0d2782a66b661e541e2311e840f979c561887d56d00"}
	var keys [][]byte
	for _, k := range ks {
		b, _ := hex.DecodeString(k)
		keys = append(keys, b)
	}
	for _, backend := range []string{"badger", "pathbadger"} {
		real := store.OpenDB(backend, "")
		ndb := &store.FaultyNodeDB{NodeDB: real}
		t := mkvs.New(nil, ndb, node.RootTypeState)
		_ = t.Insert(ctx, keys[0], []byte{})
		_ = t.Insert(ctx, keys[1], []byte{})
		_ = t.Insert(ctx, keys[2], []byte("v"))
		_, h, err := t.Commit(ctx, store.Namespace, 1)
		fmt.Println(backend, "commit", h, err)
		fmt.Println(ndb.Finalize([]node.Root{{Namespace: store.Namespace, Version: 1, Type: node.RootTypeState, Hash: h}}))
		err = t.Insert(ctx, keys[3], []byte("1234567"))
		fmt.Println("ins", err)
		for _, i := range []int{2, 0, 1, 3} {
			v, err := t.Get(ctx, keys[i])
			fmt.Printf("  after ins: get %d -> %q %v\n", i, v, err)
		}
		t.Close()
		ndb.Close()
	}
}
