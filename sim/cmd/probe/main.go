package main

import (
	"fmt"
	"os"
	"time"

	"github.com/oasisprotocol/oasis-core/go/common/logging"
	dbapi "github.com/oasisprotocol/oasis-core/go/storage/mkvs/db/api"
	badgerdb "github.com/oasisprotocol/oasis-core/go/storage/mkvs/db/badger"
	"github.com/oasisprotocol/oasis-core/go/storage/mkvs/db/pathbadger"

	"verif/sim/store"
)

func main() {
	_ = logging.Initialize(nil, logging.FmtLogfmt, logging.LevelError, nil)
	for _, mem := range []bool{true, false} {
		for _, cache := range []int64{16 << 20, 1 << 20, 64 << 10} {
			for _, be := range []string{"badger", "pathbadger"} {
				t0 := time.Now()
				n := 20
				for i := 0; i < n; i++ {
					dir := ""
					if !mem {
						dir, _ = os.MkdirTemp("/dev/shm", "probe")
					}
					cfg := &dbapi.Config{DB: dir, Namespace: store.Namespace, MaxCacheSize: cache, NoFsync: true, MemoryOnly: mem}
					var ndb dbapi.NodeDB
					var err error
					if be == "badger" {
						ndb, err = badgerdb.New(cfg)
					} else {
						ndb, err = pathbadger.New(cfg)
					}
					if err != nil {
						panic(err)
					}
					ndb.Close()
					if dir != "" {
						os.RemoveAll(dir)
					}
				}
				fmt.Printf("mem=%v cache=%d %s: %.1f ms/open+close\n", mem, cache, be, float64(time.Since(t0).Milliseconds())/float64(n))
			}
		}
	}
}
