package chain

import (
	"bytes"
	"fmt"

	abcitypes "github.com/cometbft/cometbft/abci/types"
	cmttypes "github.com/cometbft/cometbft/types"

	"github.com/oasisprotocol/oasis-core/go/common/cbor"
	"github.com/oasisprotocol/oasis-core/go/common/crypto/hash"
	stakingState "github.com/oasisprotocol/oasis-core/go/consensus/cometbft/apps/staking/state"
	vaultState "github.com/oasisprotocol/oasis-core/go/consensus/cometbft/apps/vault/state"
	staking "github.com/oasisprotocol/oasis-core/go/staking/api"
	"github.com/oasisprotocol/oasis-core/go/storage/mkvs"
	vault "github.com/oasisprotocol/oasis-core/go/vault/api"

	"verif/sim/core"
)

// c09Oracle: a transaction takes effect only if the harness knows its envelope to carry a valid
// signature by the stated signer over exactly its bytes under this chain's transaction context
// and its nonce equals the signer's current nonce; every effect advances that nonce by exactly
// one; identical bytes never take effect twice.
type c09Oracle struct {
	BaseOracle
	txs                                                 []*BuiltTx
	effected                                            map[hash.Hash]int64 // envelope hash -> height at which it took effect
	before                                              map[string][]byte
	nonceBefore                                         uint64
	viol                                                *core.Violation
	effects, refusedForged, refusedReplay, refusedNonce int
}

func init() {
	RegisterOracle("C09", func() Oracle { return &c09Oracle{effected: map[hash.Hash]int64{}} })
}

func c09Viol(kind, detail string) *core.Violation {
	return &core.Violation{Property: "C09", Kind: kind, Fingerprint: kind, Detail: detail}
}

func (o *c09Oracle) Init(s *Sim) *core.Violation {
	s.TxObs = append(s.TxObs, o)
	return nil
}

func (o *c09Oracle) BeforeBlock(s *Sim, h int64, txs []*BuiltTx) *core.Violation {
	o.txs = txs
	return nil
}

func (o *c09Oracle) BlockStart(*Sim, *Replica, int64) {}

func (o *c09Oracle) BeforeTx(s *Sim, r *Replica, idx int, raw []byte, st mkvs.KeyValueTree) {
	if o.viol != nil || idx >= len(o.txs) {
		o.before = nil
		return
	}
	o.before = dumpState(s, st)
}

func (o *c09Oracle) AfterTx(s *Sim, r *Replica, idx int, raw []byte, st mkvs.KeyValueTree, res abcitypes.ResponseDeliverTx) {
	if o.viol != nil || o.before == nil || idx >= len(o.txs) {
		return
	}
	b := o.txs[idx]
	after := dumpState(s, st)
	changed := len(after) != len(o.before)
	if !changed {
		for k, v := range o.before {
			if av, ok := after[k]; !ok || !bytes.Equal(av, v) {
				changed = true
				break
			}
		}
	}
	// A transaction took effect when it succeeded, when it changed state, or when it was executed
	// at all: gas is charged only after authentication (signature, nonce, fee), so a result that
	// reports used gas belongs to a transaction that passed it - its nonce must have advanced even
	// if everything else was rolled back.
	tookEffect := res.Code == 0 || changed || res.GasUsed > 0
	if res.Code != 0 && !changed && res.GasUsed > 0 {
		s.St.Inc("probe.c09.executed_without_state_change")
	}
	h := hash.NewFromBytes(raw)
	what := fmt.Sprintf("height %d tx %d (%s from signer %d, nonce %d, mutation %q, result %s/%d)", s.Height+1, idx, b.Op.Kind, b.Op.From, b.Nonce, b.Op.Mut, res.Codespace, res.Code)
	if !tookEffect {
		switch {
		case !b.Authentic:
			o.refusedForged++
			s.St.Inc("probe.c09.forged_or_altered_refused." + b.Op.Mut)
		case o.effected[h] != 0:
			o.refusedReplay++
			s.St.Inc("probe.c09.replay_refused")
		default:
			o.refusedNonce++
		}
		return
	}
	if !b.Authentic {
		o.viol = c09Viol("unauthentic-tx-took-effect", fmt.Sprintf("%s took effect although its envelope does not carry a valid signature by the stated signer over exactly its bytes under this chain's transaction context", what))
		return
	}
	if prev, ok := o.effected[h]; ok {
		o.viol = c09Viol("same-bytes-took-effect-twice", fmt.Sprintf("%s took effect although the identical signed bytes already took effect at height %d", what, prev))
		return
	}
	stx, tx := envelopeSigner(raw)
	if stx == nil || tx == nil {
		o.viol = c09Viol("unauthentic-tx-took-effect", fmt.Sprintf("%s took effect although its bytes do not decode to a signed transaction", what))
		return
	}
	addr := staking.NewAddress(stx.Signature.PublicKey)
	ab, err := stakingState.NewImmutableState(storeTree{o.before}).Account(s.Ctx, addr)
	if err != nil {
		core.Harnessf("c09: account decode: %v", err)
	}
	aa, err := stakingState.NewImmutableState(storeTree{after}).Account(s.Ctx, addr)
	if err != nil {
		core.Harnessf("c09: account decode: %v", err)
	}
	if tx.Nonce != ab.General.Nonce {
		o.viol = c09Viol("wrong-nonce-took-effect", fmt.Sprintf("%s took effect with nonce %d although the signer's account nonce was %d", what, tx.Nonce, ab.General.Nonce))
		return
	}
	if aa.General.Nonce != ab.General.Nonce+1 {
		o.viol = c09Viol("nonce-not-advanced-by-one", fmt.Sprintf("%s took effect but the signer's nonce went from %d to %d", what, ab.General.Nonce, aa.General.Nonce))
		return
	}
	o.effected[h] = s.Height + 1
	o.effects++
	s.St.Inc("probe.c09.effects")
	// An authorisation is a signature over (vault, nonce, action): it may only count for exactly
	// the action it names. A successful vault.AuthorizeAction for a vault nonce that already has a
	// pending action must therefore carry that very action.
	if tx.Method == vault.MethodAuthorizeAction && res.Code == 0 {
		var body vault.AuthorizeAction
		if err := cbor.Unmarshal(tx.Body, &body); err == nil {
			pa, perr := vaultState.NewImmutableState(storeTree{o.before}).PendingAction(s.Ctx, body.Vault, body.Nonce)
			switch {
			case perr != nil || pa == nil:
				s.St.Inc("probe.c09.vault_action_submitted")
			case pa.Action.Equal(&body.Action):
				s.St.Inc("probe.c09.vault_action_cosigned")
			default:
				o.viol = c09Viol("authorization-counted-for-another-action", fmt.Sprintf("%s: the signed authorisation names action %s for nonce %d of vault %s, but that nonce already had the pending action %s; the transaction succeeded, i.e. the signature was counted for an action its signer did not sign", what, vaultActionName(&body.Action), body.Nonce, body.Vault, vaultActionName(&pa.Action)))
			}
		}
	}
}

func vaultActionName(a *vault.Action) string { return fmt.Sprintf("%x", cbor.Marshal(a)) }

func (o *c09Oracle) AfterBlock(*Sim, int64, *cmttypes.Block, []*BuiltTx, *BlockResult) *core.Violation {
	return o.viol
}

func (o *c09Oracle) Finish(s *Sim) (*core.Violation, bool) {
	return o.viol, o.effects >= 3 && (o.refusedForged+o.refusedReplay+o.refusedNonce) >= 1
}
