package chain

// Oracle of property C17: registry records change only with authority; keys stay unique; an
// entity that owns nodes or runtimes is never removed; stake claims mirror the registrations.
//
// After every block the oracle reads the committed registry and staking state of the reference
// replica through the exported state packages and
//  1. replays the block on its own model of the records: epoch processing (removal of nodes whose
//     expiration plus the debonding interval has passed) and, in block order, the effect of every
//     registry transaction that the chain reported as successful. For each such transaction the
//     model decides - from the decoded transaction alone, verifying descriptor signatures with
//     plain ed25519 - whether the authority rule of the property was met and whether the
//     transaction was admissible at all (entity without nodes/runtimes, keys not in use). A
//     successful transaction without authority is a violation, and so is any difference between
//     the model's records and the committed records (full signed descriptors, canonical CBOR);
//  2. checks the secondary indexes against the primary records: every node under each of its
//     current keys, no key of the key book (every key the harness ever generated) resolving to a
//     node that does not currently hold it, no key held by two nodes, nodes-by-entity and
//     runtimes-by-entity indexes;
//  3. recomputes the stake claims of every account from the records and compares them with the
//     accounts' stake accumulators (and runs the in-tree recomputation as a second opinion).

import (
	"bytes"
	"crypto/sha512"
	"fmt"
	"sort"
	"strings"

	"github.com/oasisprotocol/curve25519-voi/primitives/ed25519"

	cmttypes "github.com/cometbft/cometbft/types"

	beacon "github.com/oasisprotocol/oasis-core/go/beacon/api"
	"github.com/oasisprotocol/oasis-core/go/common"
	"github.com/oasisprotocol/oasis-core/go/common/cbor"
	"github.com/oasisprotocol/oasis-core/go/common/crypto/signature"
	"github.com/oasisprotocol/oasis-core/go/common/entity"
	"github.com/oasisprotocol/oasis-core/go/common/identity"
	"github.com/oasisprotocol/oasis-core/go/common/node"
	"github.com/oasisprotocol/oasis-core/go/common/quantity"
	"github.com/oasisprotocol/oasis-core/go/consensus/api/transaction"
	beaconState "github.com/oasisprotocol/oasis-core/go/consensus/cometbft/apps/beacon/state"
	consensusState "github.com/oasisprotocol/oasis-core/go/consensus/cometbft/apps/consensus/state"
	registryState "github.com/oasisprotocol/oasis-core/go/consensus/cometbft/apps/registry/state"
	stakingState "github.com/oasisprotocol/oasis-core/go/consensus/cometbft/apps/staking/state"
	"github.com/oasisprotocol/oasis-core/go/consensus/cometbft/crypto"
	registry "github.com/oasisprotocol/oasis-core/go/registry/api"
	staking "github.com/oasisprotocol/oasis-core/go/staking/api"
	"github.com/oasisprotocol/oasis-core/go/storage/mkvs"
	"github.com/oasisprotocol/oasis-core/go/upgrade/migrations"

	"verif/sim/core"
)

type c17EntRec struct {
	raw []byte
	ent *entity.Entity
}

type c17NodeRec struct {
	raw []byte
	n   *node.Node
}

type c17RtRec struct {
	raw []byte
	rt  *registry.Runtime
}

// c17Snap is the set of registry records (plus the few parameters the model needs) at a height.
type c17Snap struct {
	height int64
	epoch  beacon.EpochTime
	debond beacon.EpochTime
	bypass bool
	// feature261: the consensus feature version is at least 26.1 (below it the registry keeps its
	// legacy behaviour of never removing a runtime's previous owner from the runtime-by-entity index).
	feature261 bool
	ents       map[signature.PublicKey]*c17EntRec
	nodes      map[signature.PublicKey]*c17NodeRec
	rts        map[common.Namespace]*c17RtRec
}

func (sn *c17Snap) clone() *c17Snap {
	c := &c17Snap{height: sn.height, epoch: sn.epoch, debond: sn.debond, bypass: sn.bypass, feature261: sn.feature261,
		ents: map[signature.PublicKey]*c17EntRec{}, nodes: map[signature.PublicKey]*c17NodeRec{}, rts: map[common.Namespace]*c17RtRec{}}
	for k, v := range sn.ents {
		c.ents[k] = v
	}
	for k, v := range sn.nodes {
		c.nodes[k] = v
	}
	for k, v := range sn.rts {
		c.rts[k] = v
	}
	return c
}

func c17SortedPKs[T any](m map[signature.PublicKey]T) []signature.PublicKey {
	ks := make([]signature.PublicKey, 0, len(m))
	for k := range m {
		ks = append(ks, k)
	}
	sort.Slice(ks, func(i, j int) bool { return bytes.Compare(ks[i][:], ks[j][:]) < 0 })
	return ks
}

func c17SortedNS[T any](m map[common.Namespace]T) []common.Namespace {
	ks := make([]common.Namespace, 0, len(m))
	for k := range m {
		ks = append(ks, k)
	}
	sort.Slice(ks, func(i, j int) bool { return bytes.Compare(ks[i][:], ks[j][:]) < 0 })
	return ks
}

type c17Oracle struct {
	BaseOracle
	ss   *c17Session
	prev *c17Snap
	// everNode: last descriptor seen of every node id that was ever registered.
	everNode map[signature.PublicKey]*node.Node
	// removed: node ids that were registered and are currently not (value: removed by expiry).
	removed map[signature.PublicKey]bool
	// keyHolders: for every sub-key, the node ids that ever held it.
	keyHolders map[signature.PublicKey]map[signature.PublicKey]bool
	// regThresholds: the thresholds a node's claim was given at its last successful registration
	// (with the runtime descriptors of that moment).
	regThresholds map[signature.PublicKey]string

	blocks        int
	regTxs        int
	nodeUpdatesOK int
	unauthRefused int
}

func init() {
	RegisterOracle("C17", func() Oracle {
		return &c17Oracle{everNode: map[signature.PublicKey]*node.Node{}, removed: map[signature.PublicKey]bool{}, keyHolders: map[signature.PublicKey]map[signature.PublicKey]bool{}}
	})
}

func c17Viol(kind, fp, detail string) *core.Violation {
	return &core.Violation{Property: "C17", Kind: kind, Fingerprint: fp, Detail: detail}
}

// c17Verify verifies an ed25519 signature over SHA-512/256(context || message) - the repository's
// signing scheme for contexts without chain separation - outside the signature package.
func c17Verify(pk signature.PublicKey, context signature.Context, msg []byte, sig signature.RawSignature) bool {
	h := sha512.New512_256()
	h.Write([]byte(context))
	h.Write(msg)
	return ed25519.Verify(ed25519.PublicKey(pk[:]), h.Sum(nil), sig[:])
}

func (o *c17Oracle) read(s *Sim, tree mkvs.Tree, h int64) *c17Snap {
	ctx := s.Ctx
	sn := &c17Snap{height: h, ents: map[signature.PublicKey]*c17EntRec{}, nodes: map[signature.PublicKey]*c17NodeRec{}, rts: map[common.Namespace]*c17RtRec{}}
	ep, _, err := beaconState.NewImmutableState(tree).GetEpoch(ctx)
	if err != nil {
		core.Harnessf("c17: epoch: %v", err)
	}
	sn.epoch = ep
	sst := stakingState.NewImmutableState(tree)
	sp, err := sst.ConsensusParameters(ctx)
	if err != nil {
		core.Harnessf("c17: staking parameters: %v", err)
	}
	sn.debond, sn.bypass = sp.DebondingInterval, sp.DebugBypassStake
	cp, err := consensusState.NewImmutableState(tree).ConsensusParameters(ctx)
	if err != nil {
		core.Harnessf("c17: consensus parameters: %v", err)
	}
	sn.feature261 = cp.IsFeatureVersion(migrations.Version261)
	st := registryState.NewImmutableState(tree)
	ses, err := st.SignedEntities(ctx)
	if err != nil {
		core.Harnessf("c17: entities: %v", err)
	}
	for _, se := range ses {
		var e entity.Entity
		if err := cbor.Unmarshal(se.Blob, &e); err != nil {
			core.Harnessf("c17: stored entity does not decode: %v", err)
		}
		sn.ents[e.ID] = &c17EntRec{raw: cbor.Marshal(se), ent: &e}
	}
	sns, err := st.SignedNodes(ctx)
	if err != nil {
		core.Harnessf("c17: nodes: %v", err)
	}
	for _, x := range sns {
		var n node.Node
		if err := cbor.Unmarshal(x.Blob, &n); err != nil {
			core.Harnessf("c17: stored node does not decode: %v", err)
		}
		sn.nodes[n.ID] = &c17NodeRec{raw: cbor.Marshal(x), n: &n}
	}
	rts, err := st.AllRuntimes(ctx)
	if err != nil {
		core.Harnessf("c17: runtimes: %v", err)
	}
	for _, rt := range rts {
		sn.rts[rt.ID] = &c17RtRec{raw: cbor.Marshal(rt), rt: rt}
	}
	return sn
}

// fromGenesis builds the snapshot of the genesis document (the state that InitChain creates).
func (o *c17Oracle) fromGenesis(s *Sim) *c17Snap {
	doc := s.W.Doc
	sn := &c17Snap{height: s.Height, epoch: doc.Beacon.Base, debond: doc.Staking.Parameters.DebondingInterval, bypass: doc.Staking.Parameters.DebugBypassStake,
		feature261: doc.Consensus.Parameters.IsFeatureVersion(migrations.Version261),
		ents:       map[signature.PublicKey]*c17EntRec{}, nodes: map[signature.PublicKey]*c17NodeRec{}, rts: map[common.Namespace]*c17RtRec{}}
	for _, se := range doc.Registry.Entities {
		var e entity.Entity
		if err := cbor.Unmarshal(se.Blob, &e); err != nil {
			core.Harnessf("c17: genesis entity does not decode: %v", err)
		}
		sn.ents[e.ID] = &c17EntRec{raw: cbor.Marshal(se), ent: &e}
	}
	for _, x := range doc.Registry.Nodes {
		var n node.Node
		if err := cbor.Unmarshal(x.Blob, &n); err != nil {
			core.Harnessf("c17: genesis node does not decode: %v", err)
		}
		sn.nodes[n.ID] = &c17NodeRec{raw: cbor.Marshal(x), n: &n}
	}
	for _, rt := range doc.Registry.Runtimes {
		sn.rts[rt.ID] = &c17RtRec{raw: cbor.Marshal(rt), rt: rt}
	}
	return sn
}

func (o *c17Oracle) Init(s *Sim) *core.Violation {
	o.ss = c17SessionFor(s.W)
	o.regThresholds = map[signature.PublicKey]string{}
	// The simulated consensus engine lets validators vote whose consensus key it knows: make the
	// consensus keys of the workload's node universe known, so that new validators are not
	// counted as absent.
	for _, ref := range o.ss.nodes {
		for g := 0; g < c17KeyGens; g++ {
			ck := o.ss.subKey(ref, c17SlotConsensus, g)
			pk := ck.Public()
			addr := string(crypto.PublicKeyToCometBFT(&pk).Address())
			if s.Keys[addr] == nil {
				s.Keys[addr] = &NodeKeys{Name: ref.Name, Entity: 1 << 20, Roles: node.RoleValidator, Identity: &identity.Identity{ConsensusSigner: ck}}
			}
		}
	}
	ref := s.Ref()
	if ref == nil || s.Height < 1 {
		// Nothing is committed before the first block: the model starts from the genesis document
		// (the first block's result is compared with it like any other).
		o.prev = o.fromGenesis(s)
		o.track(o.prev, nil)
		for id, rec := range o.prev.nodes {
			o.regThresholds[id] = strings.Join(c17NodeThresholds(rec.n, o.prev.rts), ",")
		}
		return nil
	}
	tree, err := ref.TreeAt(s.Height)
	if err != nil {
		core.Harnessf("c17: cannot open state at %d: %v", s.Height, err)
	}
	defer tree.Close()
	sn := o.read(s, tree, s.Height)
	o.track(sn, nil)
	if v := o.checkIndexes(s, tree, sn); v != nil {
		return v
	}
	if v := o.checkClaims(s, tree, sn); v != nil {
		return v
	}
	o.prev = sn
	return nil
}

// c17Tx is a decoded registry transaction.
type c17Tx struct {
	signer signature.PublicKey
	tx     transaction.Transaction
	// authentic: the envelope carries a valid signature of signer over the transaction under this
	// chain's transaction context (verified by the harness with plain ed25519).
	authentic bool
}

func c17Decode(raw []byte, chainContext string) *c17Tx {
	var st transaction.SignedTransaction
	if cbor.Unmarshal(raw, &st) != nil {
		return nil
	}
	var d c17Tx
	if cbor.Unmarshal(st.Blob, &d.tx) != nil {
		return nil
	}
	d.signer = st.Signature.PublicKey
	d.authentic = c17Verify(d.signer, signature.Context("oasis-core/consensus: tx for chain "+chainContext), st.Blob, st.Signature.Signature)
	return &d
}

// c17Verdict is the model's judgement of one registry transaction.
type c17Verdict struct {
	registry   bool   // a registry method that changes records
	authorised bool   // the authority rule of the property is met
	why        string // first unmet authority condition
	admissible bool   // no other rule of the property forbids it (entity owns nodes, key in use)
	whyNot     string
	apply      func(m *c17Snap) // effect on the records if it succeeds
	target     string
	class      string // for successful node registrations: what kind of change it is
}

var c17NodeSlots = []int{c17SlotConsensus, c17SlotP2P, c17SlotTLS, c17SlotVRF}

func (o *c17Oracle) judge(m *c17Snap, bt *BuiltTx, d *c17Tx) *c17Verdict {
	vd := &c17Verdict{registry: true, authorised: true, admissible: true}
	deny := func(why string) {
		if vd.authorised {
			vd.authorised, vd.why = false, why
		}
	}
	forbid := func(why string) {
		if vd.admissible {
			vd.admissible, vd.whyNot = false, why
		}
	}
	if !d.authentic {
		deny("transaction-envelope-not-validly-signed")
	}
	switch d.tx.Method {
	case registry.MethodRegisterEntity:
		var se entity.SignedEntity
		if cbor.Unmarshal(d.tx.Body, &se) != nil {
			deny("malformed-body")
			return vd
		}
		var e entity.Entity
		if cbor.Unmarshal(se.Blob, &e) != nil {
			deny("malformed-descriptor")
			return vd
		}
		vd.target = o.ss.nameOf(e.ID)
		if !se.Signature.PublicKey.Equal(e.ID) {
			deny("descriptor-not-signed-by-entity-key")
		}
		if !c17Verify(se.Signature.PublicKey, registry.RegisterEntitySignatureContext, se.Blob, se.Signature.Signature) {
			deny("descriptor-signature-invalid")
		}
		if !d.signer.Equal(e.ID) {
			deny("tx-signer-is-not-the-entity")
		}
		raw := cbor.Marshal(&se)
		vd.apply = func(m *c17Snap) { m.ents[e.ID] = &c17EntRec{raw: raw, ent: &e} }
	case registry.MethodDeregisterEntity:
		id := d.signer
		vd.target = o.ss.nameOf(id)
		for _, k := range c17SortedPKs(m.nodes) {
			if m.nodes[k].n.EntityID.Equal(id) {
				forbid("entity-has-nodes")
			}
		}
		for _, k := range c17SortedNS(m.rts) {
			if m.rts[k].rt.EntityID.Equal(id) {
				forbid("entity-has-runtimes")
			}
		}
		vd.apply = func(m *c17Snap) { delete(m.ents, id) }
	case registry.MethodRegisterNode:
		var sn node.MultiSignedNode
		if cbor.Unmarshal(d.tx.Body, &sn) != nil {
			deny("malformed-body")
			return vd
		}
		var n node.Node
		if cbor.Unmarshal(sn.Blob, &n) != nil {
			deny("malformed-descriptor")
			return vd
		}
		vd.target = o.ss.nameOf(n.ID)
		if !d.signer.Equal(n.ID) {
			deny("tx-signer-is-not-the-node")
		}
		signed := map[signature.PublicKey]bool{}
		for _, sg := range sn.Signatures {
			if !c17Verify(sg.PublicKey, registry.RegisterNodeSignatureContext, sn.Blob, sg.Signature) {
				deny("descriptor-signature-invalid")
			}
			signed[sg.PublicKey] = true
		}
		for _, slot := range []int{c17SlotNode, c17SlotP2P, c17SlotConsensus, c17SlotVRF, c17SlotTLS} {
			if !signed[c17GetKey(&n, slot)] {
				deny("descriptor-not-signed-by-" + c17SlotNames[slot] + "-key")
			}
		}
		if e, ok := m.ents[n.EntityID]; !ok {
			deny("entity-not-registered")
		} else if !c17HasNode(e.ent.Nodes, n.ID) {
			deny("node-not-in-entity-node-list")
		}
		// Keys must not be in use by another registered node.
		for _, oid := range c17SortedPKs(m.nodes) {
			if oid.Equal(n.ID) {
				continue
			}
			on := m.nodes[oid].n
			for _, slot := range c17NodeSlots {
				k := c17GetKey(&n, slot)
				for _, os := range c17NodeSlots {
					if k.Equal(c17GetKey(on, os)) {
						forbid("key-in-use " + c17SlotNames[slot] + "=" + c17SlotNames[os] + "-of-other-node")
					}
				}
				if k.Equal(on.ID) {
					forbid("key-in-use " + c17SlotNames[slot] + "=node-id-of-other-node")
				}
				if n.ID.Equal(c17GetKey(on, slot)) {
					forbid("key-in-use node-id=" + c17SlotNames[slot] + "-of-other-node")
				}
			}
		}
		vd.class = o.classify(m, &n)
		raw := cbor.Marshal(&sn)
		vd.apply = func(m *c17Snap) {
			m.nodes[n.ID] = &c17NodeRec{raw: raw, n: &n}
			o.regThresholds[n.ID] = strings.Join(c17NodeThresholds(&n, m.rts), ",")
		}
	case registry.MethodRegisterRuntime:
		var rt registry.Runtime
		if cbor.Unmarshal(d.tx.Body, &rt) != nil {
			deny("malformed-body")
			return vd
		}
		vd.target = rt.ID.String()
		gov := &rt
		if cur, ok := m.rts[rt.ID]; ok {
			gov = cur.rt
		}
		switch gov.GovernanceModel {
		case registry.GovernanceEntity:
			if !d.signer.Equal(gov.EntityID) {
				deny("tx-signer-is-not-the-governing-entity")
			}
		default:
			// Runtime governance: only the runtime itself (through a runtime message, which this
			// engine does not produce) may change the descriptor. Consensus governance: genesis only.
			deny("tx-signer-cannot-be-the-governing-" + strings.ReplaceAll(gov.GovernanceModel.String(), " ", "-"))
		}
		raw := cbor.Marshal(&rt)
		vd.apply = func(m *c17Snap) { m.rts[rt.ID] = &c17RtRec{raw: raw, rt: &rt} }
	case registry.MethodUnfreezeNode:
		// Lifting a node's freeze changes its status record: only the entity that owns the node
		// (the one named in its registered descriptor) may ask for it.
		var u registry.UnfreezeNode
		if cbor.Unmarshal(d.tx.Body, &u) != nil {
			deny("malformed-body")
			return vd
		}
		vd.target = o.ss.nameOf(u.NodeID)
		rec := m.nodes[u.NodeID]
		if rec == nil {
			forbid("no-such-node")
			return vd
		}
		if !d.signer.Equal(rec.n.EntityID) {
			deny("tx-signer-is-not-the-entity-that-owns-the-node")
		}
	default:
		vd.registry = false
	}
	return vd
}

// classify names the kind of change a node registration makes relative to the model's records.
func (o *c17Oracle) classify(m *c17Snap, n *node.Node) string {
	cur, ok := m.nodes[n.ID]
	if !ok {
		last := o.everNode[n.ID]
		switch {
		case last == nil:
			return "new"
		case !last.EntityID.Equal(n.EntityID):
			return "reregister-after-removal-other-entity"
		default:
			return "reregister-after-removal"
		}
	}
	old := cur.n
	changed, moved := 0, 0
	for _, slot := range c17NodeSlots {
		k := c17GetKey(n, slot)
		if k.Equal(c17GetKey(old, slot)) {
			continue
		}
		changed++
		for _, os := range c17NodeSlots {
			if os != slot && k.Equal(c17GetKey(old, os)) {
				moved++
			}
		}
	}
	pfx := "update"
	if old.IsExpired(m.epoch) {
		pfx = "update-expired"
	}
	switch {
	case changed == 0:
		return pfx + "-renew"
	case moved > 0:
		return pfx + "-exchange"
	default:
		return pfx + "-rotate"
	}
}

// track maintains the history of node descriptors and key holders.
func (o *c17Oracle) track(post, pre *c17Snap) {
	for _, id := range c17SortedPKs(post.nodes) {
		n := post.nodes[id].n
		o.everNode[id] = n
		delete(o.removed, id)
		for _, slot := range c17NodeSlots {
			k := c17GetKey(n, slot)
			if o.keyHolders[k] == nil {
				o.keyHolders[k] = map[signature.PublicKey]bool{}
			}
			o.keyHolders[k][id] = true
		}
	}
	if pre != nil {
		for _, id := range c17SortedPKs(pre.nodes) {
			if _, ok := post.nodes[id]; !ok {
				o.removed[id] = true
			}
		}
	}
}

func (o *c17Oracle) AfterBlock(s *Sim, h int64, blk *cmttypes.Block, txs []*BuiltTx, res *BlockResult) *core.Violation {
	ref := s.Ref()
	if ref == nil || res == nil {
		return nil
	}
	tree, err := ref.TreeAt(h)
	if err != nil {
		core.Harnessf("c17: cannot open state at %d: %v", h, err)
	}
	defer tree.Close()
	post := o.read(s, tree, h)
	o.blocks++
	s.St.Inc("probe.c17.blocks_checked")

	aligned := len(res.TxResults) >= len(txs) && len(blk.Txs) >= len(txs)
	if aligned {
		for i, bt := range txs {
			if !bytes.Equal(blk.Txs[i], bt.Raw) {
				aligned = false
				break
			}
		}
	}
	pre := o.prev
	if pre == nil || pre.height != h-1 || !aligned {
		s.St.Inc("probe.c17.model_replay_skipped")
	} else if v := o.replay(s, h, pre, post, txs, res); v != nil {
		return v
	}
	o.track(post, pre)
	if v := o.checkIndexes(s, tree, post); v != nil {
		return v
	}
	if v := o.checkClaims(s, tree, post); v != nil {
		return v
	}
	o.prev = post
	return nil
}

// replay runs the model over the block and compares its records with the committed ones.
func (o *c17Oracle) replay(s *Sim, h int64, pre, post *c17Snap, txs []*BuiltTx, res *BlockResult) *core.Violation {
	m := pre.clone()
	m.epoch = post.epoch
	var log []string
	// Epoch processing (registry BeginBlock): nodes whose expiration plus the debonding interval
	// (as of the start of the block) lies before the new epoch are removed.
	if post.epoch != pre.epoch {
		s.St.Inc("probe.c17.epoch_transitions")
		for _, id := range c17SortedPKs(m.nodes) {
			n := m.nodes[id].n
			if !n.IsExpired(post.epoch) {
				continue
			}
			if !n.IsExpired(pre.epoch) {
				s.St.Inc("probe.c17.nodes_expired")
			}
			exp, d := uint64(n.Expiration), uint64(pre.debond)
			if ^uint64(0)-exp < d {
				continue
			}
			if exp+d < uint64(post.epoch) {
				delete(m.nodes, id)
				log = append(log, fmt.Sprintf("epoch %d: node %s (expiration %d, debonding %d) removed", post.epoch, o.ss.nameOf(id), exp, d))
				s.St.Inc("probe.c17.nodes_removed_after_expiry")
			}
		}
	}
	for i, bt := range txs {
		tr := res.TxResults[i]
		d := c17Decode(bt.Raw, s.W.Doc.ChainContext())
		if d == nil {
			continue
		}
		vd := o.judge(m, bt, d)
		if !vd.registry {
			continue
		}
		ok := tr.Code == 0
		in := o.ss.intents[c17IntentKey(d.tx.Method, d.tx.Nonce, d.tx.Body)]
		o.probes(s, bt, d, vd, in, ok, tr.Codespace, tr.Code)
		desc := fmt.Sprintf("tx %d %s target=%s signer=%s", i, d.tx.Method, vd.target, o.ss.nameOf(d.signer))
		if in != nil {
			desc += fmt.Sprintf(" intent={%s flaw=%q keyop=%q}", in.Kind, in.Flaw, in.KeyOp)
		}
		o.regTxs++
		if !ok {
			if !vd.authorised {
				o.unauthRefused++
			}
			continue
		}
		method := string(d.tx.Method)
		if !vd.authorised {
			return c17Viol("unauthorised-accepted "+vd.why, "unauthorised-accepted "+method+" "+vd.why,
				fmt.Sprintf("height %d: %s succeeded (code 0) although the authority rule is not met: %s\nearlier in this block: %s", h, desc, vd.why, strings.Join(log, "; ")))
		}
		if !vd.admissible {
			kind, fp := "forbidden-accepted "+strings.Fields(vd.whyNot)[0], "forbidden-accepted "+method+" "+vd.whyNot
			if strings.Contains(vd.whyNot, "node-id") {
				// A node identity key used as another node's consensus/P2P/TLS/VRF key (or the
				// reverse): kept apart from sub-key collisions, which the registry's key map covers.
				kind, fp = "node-id-as-sub-key", "node-id-as-sub-key accepted"
			}
			return c17Viol(kind, fp,
				fmt.Sprintf("height %d: %s succeeded (code 0) although the property forbids it: %s\nearlier in this block: %s", h, desc, vd.whyNot, strings.Join(log, "; ")))
		}
		if vd.apply != nil {
			vd.apply(m)
		}
		log = append(log, desc+" ok")
		if d.tx.Method == registry.MethodRegisterNode && strings.HasPrefix(vd.class, "update") {
			o.nodeUpdatesOK++
		}
	}
	// The committed records must be exactly the model's.
	explain := "explained changes of this block: " + strings.Join(log, "; ")
	for _, id := range c17SortedPKs(m.ents) {
		a, ok := post.ents[id]
		if v := c17Diff("entity", o.ss.nameOf(id), m.ents[id].raw, c17RawE(a, ok), c17RawE(pre.ents[id], pre.ents[id] != nil), h, explain); v != nil {
			return v
		}
	}
	for _, id := range c17SortedPKs(post.ents) {
		if _, ok := m.ents[id]; !ok {
			if v := c17Diff("entity", o.ss.nameOf(id), nil, post.ents[id].raw, c17RawE(pre.ents[id], pre.ents[id] != nil), h, explain); v != nil {
				return v
			}
		}
	}
	for _, id := range c17SortedPKs(m.nodes) {
		a, ok := post.nodes[id]
		if v := c17Diff("node", o.ss.nameOf(id), m.nodes[id].raw, c17RawN(a, ok), c17RawN(pre.nodes[id], pre.nodes[id] != nil), h, explain); v != nil {
			return v
		}
	}
	for _, id := range c17SortedPKs(post.nodes) {
		if _, ok := m.nodes[id]; !ok {
			if v := c17Diff("node", o.ss.nameOf(id), nil, post.nodes[id].raw, c17RawN(pre.nodes[id], pre.nodes[id] != nil), h, explain); v != nil {
				return v
			}
		}
	}
	for _, id := range c17SortedNS(m.rts) {
		a, ok := post.rts[id]
		if v := c17Diff("runtime", id.String(), m.rts[id].raw, c17RawR(a, ok), c17RawR(pre.rts[id], pre.rts[id] != nil), h, explain); v != nil {
			return v
		}
	}
	for _, id := range c17SortedNS(post.rts) {
		if _, ok := m.rts[id]; !ok {
			if v := c17Diff("runtime", id.String(), nil, post.rts[id].raw, c17RawR(pre.rts[id], pre.rts[id] != nil), h, explain); v != nil {
				return v
			}
		}
	}
	s.St.Inc("probe.c17.blocks_replayed_on_model")
	return nil
}

func c17RawE(r *c17EntRec, ok bool) []byte {
	if !ok || r == nil {
		return nil
	}
	return r.raw
}

func c17RawN(r *c17NodeRec, ok bool) []byte {
	if !ok || r == nil {
		return nil
	}
	return r.raw
}

func c17RawR(r *c17RtRec, ok bool) []byte {
	if !ok || r == nil {
		return nil
	}
	return r.raw
}

// c17Diff compares the model's record (want) with the committed one (got); before is the record
// at the previous height.
func c17Diff(what, name string, want, got, before []byte, h int64, explain string) *core.Violation {
	if bytes.Equal(want, got) {
		return nil
	}
	var how string
	switch {
	case want == nil && before == nil:
		how = "added"
	case want == nil:
		how = "not-removed"
	case got == nil && before == nil:
		how = "successful-registration-not-recorded"
	case got == nil:
		how = "removed"
	case bytes.Equal(got, before):
		how = "successful-update-not-recorded"
	default:
		how = "changed"
	}
	return c17Viol("unexplained-change "+what+" "+how, "unexplained-change "+what+" "+how,
		fmt.Sprintf("height %d: %s record %s: %s - the committed record differs from what the successful authorised transactions of the block and epoch processing explain\n  committed: %x\n  model:     %x\n  previous:  %x\n%s", h, what, name, how, c17Trunc(got), c17Trunc(want), c17Trunc(before), explain))
}

func c17Trunc(b []byte) []byte {
	if len(b) > 96 {
		return b[:96]
	}
	return b
}

// probes counts what the workload reached.
func (o *c17Oracle) probes(s *Sim, bt *BuiltTx, d *c17Tx, vd *c17Verdict, in *c17Intent, ok bool, codespace string, code uint32) {
	out := "refused"
	if ok {
		out = "ok"
	}
	m := strings.TrimPrefix(string(d.tx.Method), "registry.")
	s.St.Inc("probe.c17.tx." + m + "." + out)
	if !vd.authorised {
		s.St.Inc("probe.c17.unauthorised." + out + "." + vd.why)
	} else if !vd.admissible {
		s.St.Inc("probe.c17.inadmissible." + out + "." + strings.Fields(vd.whyNot)[0])
		if strings.HasPrefix(vd.whyNot, "key-in-use") && !ok {
			s.St.Inc("probe.c17.foreign_key_takeover_refused")
		}
	}
	if d.tx.Method == registry.MethodDeregisterEntity && vd.authorised {
		switch {
		case ok:
			s.St.Inc("probe.c17.entity_removal_accepted")
		case !vd.admissible:
			s.St.Inc("probe.c17.entity_removal_refused_" + vd.whyNot)
		default:
			s.St.Inc("probe.c17.entity_removal_refused_other")
		}
	}
	if d.tx.Method == registry.MethodRegisterNode && vd.authorised && !vd.admissible && !ok && strings.HasPrefix(vd.class, "reregister-after-removal") {
		s.St.Inc("probe.c17.reregistration_refused_key_taken_meanwhile")
	}
	if d.tx.Method == registry.MethodRegisterNode && vd.authorised && vd.admissible {
		s.St.Inc("probe.c17.node." + vd.class + "." + out)
		if ok {
			switch {
			case strings.HasSuffix(vd.class, "-rotate"):
				s.St.Inc("probe.c17.key_rotation_ok")
			case strings.HasSuffix(vd.class, "-exchange"):
				s.St.Inc("probe.c17.key_exchange_ok")
			case strings.HasPrefix(vd.class, "reregister-after-removal"):
				s.St.Inc("probe.c17.reregistration_after_expiry_ok")
			}
		} else {
			s.St.Inc(fmt.Sprintf("probe.c17.node_refusal.%s.%d", codespace, code))
		}
	}
	if in != nil {
		if in.Flaw != "" {
			s.St.Inc("probe.c17.flaw." + in.Kind + "." + in.Flaw + "." + out)
		} else {
			s.St.Inc("probe.c17.kind." + in.Kind + "." + out)
		}
		if in.KeyOp != "" && in.Flaw == "" {
			op := in.KeyOp
			if i := strings.IndexByte(op, '-'); i > 0 {
				op = op[:i]
			}
			s.St.Inc("probe.c17.keyop." + op + "." + out)
		}
	}
	_ = bt
}

// checkIndexes compares the registry's secondary indexes with the primary records.
func (o *c17Oracle) checkIndexes(s *Sim, tree mkvs.Tree, sn *c17Snap) *core.Violation {
	ctx := s.Ctx
	st := registryState.NewImmutableState(tree)
	h := sn.height
	type holder struct {
		id   signature.PublicKey
		slot int
	}
	holders := map[signature.PublicKey][]holder{}
	subKeyOf := map[signature.PublicKey]signature.PublicKey{} // sub-key -> node id (first holder)
	byEntity := map[signature.PublicKey][]signature.PublicKey{}
	for _, id := range c17SortedPKs(sn.nodes) {
		n := sn.nodes[id].n
		name := o.ss.nameOf(id)
		got, err := st.Node(ctx, id)
		if err != nil || !got.ID.Equal(id) {
			return c17Viol("index node-not-found-by-id", "index node-not-found-by-id", fmt.Sprintf("height %d: node %s is listed but Node(id) fails: %v", h, name, err))
		}
		for _, slot := range []int{c17SlotConsensus, c17SlotP2P, c17SlotTLS, c17SlotVRF, c17SlotNode} {
			k := c17GetKey(n, slot)
			holders[k] = append(holders[k], holder{id, slot})
			if slot == c17SlotNode {
				continue
			}
			if _, ok := subKeyOf[k]; !ok {
				subKeyOf[k] = id
			}
			m, err := st.NodeBySubKey(ctx, k)
			switch {
			case err != nil:
				return c17Viol("index node-not-found-by-current-"+c17SlotNames[slot]+"-key", "index node-not-found-by-current-"+c17SlotNames[slot]+"-key",
					fmt.Sprintf("height %d: registered node %s is not found under its current %s key %s (%s): NodeBySubKey: %v", h, name, c17SlotNames[slot], k, o.ss.nameOf(k), err))
			case !m.ID.Equal(id):
				return c17Viol("index current-"+c17SlotNames[slot]+"-key-resolves-to-other-node", "index current-"+c17SlotNames[slot]+"-key-resolves-to-other-node",
					fmt.Sprintf("height %d: the current %s key %s (%s) of node %s resolves to node %s", h, c17SlotNames[slot], k, o.ss.nameOf(k), name, o.ss.nameOf(m.ID)))
			}
			s.St.Inc("probe.c17.current_keys_checked")
		}
		ck := n.Consensus.ID
		addr := []byte(crypto.PublicKeyToCometBFT(&ck).Address())
		if m, err := st.NodeByConsensusAddress(ctx, addr); err != nil || !m.ID.Equal(id) {
			return c17Viol("index node-not-found-by-consensus-address", "index node-not-found-by-consensus-address", fmt.Sprintf("height %d: node %s is not found under its consensus address: %v", h, name, err))
		}
		byEntity[n.EntityID] = append(byEntity[n.EntityID], id)
		if _, ok := sn.ents[n.EntityID]; !ok {
			return c17Viol("orphan-node", "orphan-node", fmt.Sprintf("height %d: node %s is registered but its entity %s is not (an entity that owns nodes was removed)", h, name, o.ss.nameOf(n.EntityID)))
		}
		if !c17HasNode(sn.ents[n.EntityID].ent.Nodes, id) {
			s.St.Inc("probe.c17.registered_node_not_in_entity_list")
		}
	}
	// No key belongs to two nodes.
	for _, k := range c17SortedPKs(holders) {
		hs := holders[k]
		for i := 1; i < len(hs); i++ {
			if !hs[i].id.Equal(hs[0].id) {
				a, b := c17SlotNames[hs[0].slot], c17SlotNames[hs[i].slot]
				if a > b {
					a, b = b, a
				}
				return c17Viol("key-shared", "key-shared "+a+"/"+b,
					fmt.Sprintf("height %d: public key %s (%s) is the %s key of registered node %s and the %s key of registered node %s", h, k, o.ss.nameOf(k), c17SlotNames[hs[0].slot], o.ss.nameOf(hs[0].id), c17SlotNames[hs[i].slot], o.ss.nameOf(hs[i].id)))
			}
		}
	}
	// Every key the harness ever generated (and every key ever seen in a descriptor) that is not
	// a current sub-key of a registered node resolves to no node.
	book := append([]signature.PublicKey{}, o.ss.order...)
	for _, k := range c17SortedPKs(o.keyHolders) {
		if _, ok := o.ss.signers[k]; !ok {
			book = append(book, k)
		}
	}
	for _, k := range book {
		if _, cur := subKeyOf[k]; cur {
			continue
		}
		m, err := st.NodeBySubKey(ctx, k)
		if err == nil && m != nil {
			what := "a key that no registered node holds"
			if len(o.keyHolders[k]) > 0 {
				what = "a historical key"
			}
			return c17Viol("index stale-key-resolves-to-node", "index stale-key-resolves-to-node",
				fmt.Sprintf("height %d: %s, %s (%s), resolves to node %s, whose current keys do not include it", h, what, k, o.ss.nameOf(k), o.ss.nameOf(m.ID)))
		}
		if len(o.keyHolders[k]) > 0 {
			s.St.Inc("probe.c17.historical_keys_checked")
		}
	}
	s.St.Add("probe.c17.book_keys_checked", int64(len(book)))
	// Nodes by entity, runtimes by entity.
	rtByEntity := map[signature.PublicKey]bool{}
	for _, id := range c17SortedNS(sn.rts) {
		rtByEntity[sn.rts[id].rt.EntityID] = true
		if _, ok := sn.ents[sn.rts[id].rt.EntityID]; !ok {
			s.St.Inc("probe.c17.runtime_of_unregistered_entity")
		}
	}
	entIDs := map[signature.PublicKey]bool{}
	for _, e := range o.ss.ents {
		entIDs[e.Public()] = true
	}
	for id := range sn.ents {
		entIDs[id] = true
	}
	for id := range byEntity {
		entIDs[id] = true
	}
	for _, e := range c17SortedPKs(entIDs) {
		got, err := st.GetEntityNodes(ctx, e)
		if err != nil {
			return c17Viol("index nodes-by-entity-dangling", "index nodes-by-entity-dangling", fmt.Sprintf("height %d: GetEntityNodes(%s): %v", h, o.ss.nameOf(e), err))
		}
		var gl, wl []string
		for _, n := range got {
			gl = append(gl, o.ss.nameOf(n.ID))
		}
		for _, id := range byEntity[e] {
			wl = append(wl, o.ss.nameOf(id))
		}
		sort.Strings(gl)
		sort.Strings(wl)
		if strings.Join(gl, ",") != strings.Join(wl, ",") {
			return c17Viol("index nodes-by-entity-mismatch", "index nodes-by-entity-mismatch", fmt.Sprintf("height %d: entity %s: nodes-by-entity index lists [%s] but the registered nodes naming it are [%s]", h, o.ss.nameOf(e), strings.Join(gl, ","), strings.Join(wl, ",")))
		}
		has, err := st.HasEntityNodes(ctx, e)
		if err != nil || has != (len(wl) > 0) {
			return c17Viol("index has-entity-nodes-mismatch", "index has-entity-nodes-mismatch", fmt.Sprintf("height %d: entity %s: HasEntityNodes=%v (%v) but it has %d registered nodes", h, o.ss.nameOf(e), has, err, len(wl)))
		}
		hasRt, err := st.HasEntityRuntimes(ctx, e)
		if err == nil && hasRt && !rtByEntity[e] && !sn.feature261 {
			// Legacy behaviour below feature version 26.1 (kept for consensus compatibility): a
			// runtime's previous owner stays in the index. The direction the property needs
			// (an owner is always indexed) is still checked.
			s.St.Inc("probe.c17.legacy_runtime_owner_index_keeps_previous_owner")
			continue
		}
		if err != nil || hasRt != rtByEntity[e] {
			return c17Viol("index runtimes-by-entity-mismatch", "index runtimes-by-entity-mismatch", fmt.Sprintf("height %d: entity %s: HasEntityRuntimes=%v (%v) but runtimes naming it exist=%v", h, o.ss.nameOf(e), hasRt, err, rtByEntity[e]))
		}
	}
	s.St.Inc("probe.c17.index_checks")
	return nil
}

func c17Global(k staking.ThresholdKind) string { return "global:" + k.String() }

// c17NodeThresholds recomputes the thresholds of a node's stake claim from its descriptor and the
// current runtime descriptors.
func c17NodeThresholds(n *node.Node, rts map[common.Namespace]*c17RtRec) []string {
	var out []string
	if n.Roles&node.RoleValidator != 0 {
		out = append(out, c17Global(staking.KindNodeValidator))
	}
	seen := map[common.Namespace]bool{}
	for _, nr := range n.Runtimes {
		if nr == nil || seen[nr.ID] {
			continue
		}
		seen[nr.ID] = true
		var kinds []staking.ThresholdKind
		if n.Roles&node.RoleKeyManager != 0 {
			kinds = append(kinds, staking.KindNodeKeyManager)
		}
		if n.Roles&node.RoleComputeWorker != 0 {
			kinds = append(kinds, staking.KindNodeCompute)
		}
		if n.Roles&node.RoleObserver != 0 {
			kinds = append(kinds, staking.KindNodeObserver)
		}
		for _, k := range kinds {
			out = append(out, c17Global(k))
			if rec, ok := rts[nr.ID]; ok {
				if q, ok := rec.rt.Staking.Thresholds[k]; ok && !q.IsZero() {
					out = append(out, "const:"+q.String())
				}
			}
		}
	}
	sort.Strings(out)
	return out
}

func c17ThresholdStrings(ts []staking.StakeThreshold) []string {
	var out []string
	for _, t := range ts {
		switch {
		case t.Global != nil:
			out = append(out, c17Global(*t.Global))
		case t.Constant != nil:
			out = append(out, "const:"+t.Constant.String())
		default:
			out = append(out, "malformed")
		}
	}
	sort.Strings(out)
	return out
}

// checkClaims compares every account's stake claims with the claims implied by the records.
func (o *c17Oracle) checkClaims(s *Sim, tree mkvs.Tree, sn *c17Snap) *core.Violation {
	if sn.bypass {
		s.St.Inc("probe.c17.claims_skipped_stake_bypassed")
		return nil
	}
	ctx := s.Ctx
	h := sn.height
	sst := stakingState.NewImmutableState(tree)
	want := map[staking.Address]map[string][]string{}
	add := func(a staking.Address, claim string, ts []string) {
		if want[a] == nil {
			want[a] = map[string][]string{}
		}
		want[a][claim] = ts
	}
	for _, id := range c17SortedPKs(sn.ents) {
		add(staking.NewAddress(id), "registry.RegisterEntity", []string{c17Global(staking.KindEntity)})
	}
	for _, id := range c17SortedPKs(sn.nodes) {
		n := sn.nodes[id].n
		add(staking.NewAddress(n.EntityID), fmt.Sprintf("registry.RegisterNode.%s", id), c17NodeThresholds(n, sn.rts))
	}
	for _, id := range c17SortedNS(sn.rts) {
		rt := sn.rts[id].rt
		var a staking.Address
		switch rt.GovernanceModel {
		case registry.GovernanceEntity:
			a = staking.NewAddress(rt.EntityID)
		case registry.GovernanceRuntime:
			a = staking.NewRuntimeAddress(rt.ID)
		default:
			continue
		}
		kind := staking.KindRuntimeCompute
		if rt.Kind == registry.KindKeyManager {
			kind = staking.KindRuntimeKeyManager
		}
		add(a, fmt.Sprintf("registry.RegisterRuntime.%s", id.Hex()), []string{c17Global(kind)})
	}
	addrs, err := sst.Addresses(ctx)
	if err != nil {
		core.Harnessf("c17: addresses: %v", err)
	}
	seen := map[staking.Address]bool{}
	for _, a := range addrs {
		seen[a] = true
	}
	for a := range want {
		if !seen[a] {
			addrs = append(addrs, a)
		}
	}
	sort.Slice(addrs, func(i, j int) bool { return bytes.Compare(addrs[i][:], addrs[j][:]) < 0 })
	accounts := map[staking.Address]*staking.Account{}
	var mine *core.Violation
	for _, a := range addrs {
		acct, err := sst.Account(ctx, a)
		if err != nil {
			core.Harnessf("c17: account: %v", err)
		}
		accounts[a] = acct
		got := acct.Escrow.StakeAccumulator.Claims
		w := want[a]
		var gk, wk []string
		for c := range got {
			gk = append(gk, string(c))
		}
		for c := range w {
			wk = append(wk, c)
		}
		sort.Strings(gk)
		sort.Strings(wk)
		s.St.Add("probe.c17.claims_checked", int64(len(wk)))
		if mine != nil {
			continue
		}
		for _, c := range wk {
			if _, ok := got[staking.StakeClaim(c)]; !ok {
				mine = c17Viol("claims-missing", "claims-missing "+c17ClaimClass(c), fmt.Sprintf("height %d: account %s lacks the stake claim %s implied by the current registrations; recorded claims: %v", h, a, c, gk))
				break
			}
		}
		if mine != nil {
			continue
		}
		for _, c := range gk {
			if _, ok := w[c]; !ok {
				mine = c17Viol("claims-stale", "claims-stale "+c17ClaimClass(c), fmt.Sprintf("height %d: account %s records the stake claim %s, which no current registration implies; implied claims: %v", h, a, c, wk))
				break
			}
		}
		if mine != nil {
			continue
		}
		for _, c := range wk {
			gt := c17ThresholdStrings(got[staking.StakeClaim(c)])
			if strings.Join(gt, ",") != strings.Join(w[c], ",") {
				fp := "claims-thresholds " + c17ClaimClass(c)
				if strings.HasPrefix(c, "registry.RegisterNode.") {
					var id signature.PublicKey
					if id.UnmarshalText([]byte(strings.TrimPrefix(c, "registry.RegisterNode."))) == nil {
						if at, ok := o.regThresholds[id]; ok && at == strings.Join(gt, ",") {
							// The recorded list is the one of the node's last registration: the
							// runtime's thresholds were updated afterwards.
							fp += " stale-since-runtime-threshold-update"
						}
					}
				}
				mine = c17Viol("claims-thresholds", fp, fmt.Sprintf("height %d: account %s claim %s records thresholds %v but the current registrations imply %v", h, a, c, gt, w[c]))
				break
			}
		}
	}
	// Second opinion: the in-tree recomputation (registry.AddStakeClaims + staking.SanityCheckStake).
	var second error
	pv, _ := core.Guard(func() {
		var ents []*entity.Entity
		var nodes []*node.Node
		var rts []*registry.Runtime
		for _, id := range c17SortedPKs(sn.ents) {
			ents = append(ents, sn.ents[id].ent)
		}
		for _, id := range c17SortedPKs(sn.nodes) {
			nodes = append(nodes, sn.nodes[id].n)
		}
		for _, id := range c17SortedNS(sn.rts) {
			rts = append(rts, sn.rts[id].rt)
		}
		escrows := map[staking.Address]*staking.EscrowAccount{}
		if second = registry.AddStakeClaims(ents, nodes, rts, rts, escrows); second != nil {
			return
		}
		var th map[staking.ThresholdKind]quantity.Quantity
		if th, second = sst.Thresholds(ctx); second != nil {
			return
		}
		second = staking.SanityCheckStake(accounts, escrows, th, false)
	})
	if pv != nil {
		second = fmt.Errorf("panic: %v", pv)
	}
	s.St.Inc("probe.c17.claims_second_opinion_runs")
	switch {
	case mine != nil && second != nil:
		mine.Detail += fmt.Sprintf("\n(the in-tree recomputation agrees: %v)", second)
		return mine
	case mine != nil:
		mine.Detail += "\n(the in-tree recomputation reports no problem: the two recomputations disagree)"
		mine.Fingerprint += " (in-tree check silent)"
		return mine
	case second != nil:
		return c17Viol("claims-second-opinion", "claims-second-opinion-disagrees", fmt.Sprintf("height %d: the harness's recomputation of the stake claims matches the accounts but the in-tree recomputation does not: %v", h, second))
	}
	return nil
}

func c17ClaimClass(c string) string {
	switch {
	case strings.HasPrefix(c, "registry.RegisterNode."):
		return "node"
	case strings.HasPrefix(c, "registry.RegisterRuntime."):
		return "runtime"
	case c == "registry.RegisterEntity":
		return "entity"
	}
	return "other"
}

func (o *c17Oracle) Finish(s *Sim) (*core.Violation, bool) {
	s.St.Add("probe.c17.registry_txs_executed", int64(o.regTxs))
	nt := o.blocks >= 3 && o.regTxs >= 8 && o.nodeUpdatesOK >= 1 && o.unauthRefused >= 1
	if nt {
		s.St.Inc("probe.c17.nontrivial_runs")
	}
	return nil, nt
}
