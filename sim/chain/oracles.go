package chain

import (
	cmtapi "github.com/oasisprotocol/oasis-core/go/consensus/cometbft/api"
)

// oraclesFor returns the oracle set of a property.
func oraclesFor(prop string) []Oracle {
	switch prop {
	default:
		return nil
	}
}

// probeAppsFor returns harness probe apps to register on a replica.
func probeAppsFor(s *Sim, r *Replica) []cmtapi.Application {
	return nil
}
