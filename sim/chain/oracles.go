package chain

import (
	cmttypes "github.com/cometbft/cometbft/types"

	cmtapi "github.com/oasisprotocol/oasis-core/go/consensus/cometbft/api"

	"verif/sim/core"
)

// oracleFactories maps a property id to constructors of its oracles. Oracle files register
// themselves in init().
var oracleFactories = map[string][]func() Oracle{}

// RegisterOracle registers an oracle constructor for a property.
func RegisterOracle(prop string, f func() Oracle) {
	oracleFactories[prop] = append(oracleFactories[prop], f)
}

// oraclesFor returns fresh oracle instances of a property.
func oraclesFor(prop string) []Oracle {
	var out []Oracle
	for _, f := range oracleFactories[prop] {
		out = append(out, f())
	}
	return out
}

// probeAppFactories maps a property id to constructors of harness probe apps (registered in the
// mux of every replica whose local configuration has ProbeApps set, or of every replica when
// the factory says so).
var probeAppFactories = map[string][]func(s *Sim, r *Replica) cmtapi.Application{}

// RegisterProbeApp registers a probe app constructor for a property.
func RegisterProbeApp(prop string, f func(s *Sim, r *Replica) cmtapi.Application) {
	probeAppFactories[prop] = append(probeAppFactories[prop], f)
}

// probeAppsFor returns harness probe apps to register on a replica.
func probeAppsFor(s *Sim, r *Replica) []cmtapi.Application {
	var out []cmtapi.Application
	for _, f := range probeAppFactories[s.Prop] {
		if app := f(s, r); app != nil {
			out = append(out, app)
		}
	}
	return out
}

// BaseOracle is a no-op oracle to embed.
type BaseOracle struct{}

func (BaseOracle) Init(*Sim) *core.Violation                           { return nil }
func (BaseOracle) BeforeBlock(*Sim, int64, []*BuiltTx) *core.Violation { return nil }
func (BaseOracle) AfterBlock(*Sim, int64, *cmttypes.Block, []*BuiltTx, *BlockResult) *core.Violation {
	return nil
}
func (BaseOracle) Finish(*Sim) (*core.Violation, bool) { return nil, true }
