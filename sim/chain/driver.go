package chain

import (
	"bytes"
	"fmt"
	"sort"
	"time"

	abcitypes "github.com/cometbft/cometbft/abci/types"
	cmtproto "github.com/cometbft/cometbft/proto/tendermint/types"
	sm "github.com/cometbft/cometbft/state"
	cmttypes "github.com/cometbft/cometbft/types"

	"github.com/oasisprotocol/oasis-core/go/common/cbor"
	"github.com/oasisprotocol/oasis-core/go/common/crypto/signature"
	"github.com/oasisprotocol/oasis-core/go/consensus/api/transaction"
	"github.com/oasisprotocol/oasis-core/go/consensus/cometbft/crypto"
)

// ValKey maps a CometBFT validator address to the node keys that can sign for it.
type ValKey struct {
	Node *NodeKeys
}

// ValidatorKeys indexes all node keys of the world by CometBFT address.
func (w *World) ValidatorKeys() map[string]*NodeKeys {
	m := map[string]*NodeKeys{}
	for _, ek := range w.Entities {
		for _, nk := range ek.Nodes {
			pk := nk.Identity.ConsensusSigner.Public()
			addr := crypto.PublicKeyToCometBFT(&pk).Address()
			m[string(addr)] = nk
		}
	}
	return m
}

// VoteSpec says how a validator takes part in a commit.
type VoteSpec struct {
	Absent bool
	// TimeSkew is added to the nominal vote time (per-validator clock skew), in milliseconds.
	TimeSkewMs int64
	// NotBefore is the time of the block being voted on.
	NotBefore time.Time
}

// MakeCommit builds a real signed commit for (height, round, blockID) from the validator set,
// according to the per-validator vote specs (index = validator index). nominal is the
// simulated wall-clock time of the precommits.
func MakeCommit(chainID string, vals *cmttypes.ValidatorSet, keys map[string]*NodeKeys, height int64, round int32, blockID cmttypes.BlockID, nominal time.Time, spec func(i int) VoteSpec) (*cmttypes.Commit, int64, error) {
	sigs := make([]cmttypes.CommitSig, len(vals.Validators))
	var signedPower int64
	for i, v := range vals.Validators {
		vs := spec(i)
		nk := keys[string(v.Address)]
		if vs.Absent || nk == nil {
			sigs[i] = cmttypes.NewCommitSigAbsent()
			continue
		}
		ts := nominal.Add(time.Duration(vs.TimeSkewMs) * time.Millisecond)
		if !ts.After(vs.NotBefore) {
			// A correct validator never votes with a time that is not after the block's time.
			ts = vs.NotBefore.Add(time.Millisecond)
		}
		vote := &cmttypes.Vote{
			Type:             cmtproto.PrecommitType,
			Height:           height,
			Round:            round,
			BlockID:          blockID,
			Timestamp:        ts,
			ValidatorAddress: v.Address,
			ValidatorIndex:   int32(i),
		}
		sb := cmttypes.VoteSignBytes(chainID, vote.ToProto())
		sig, err := crypto.SignerToCometBFT(nk.Identity.ConsensusSigner).Sign(sb)
		if err != nil {
			return nil, 0, err
		}
		sigs[i] = cmttypes.CommitSig{BlockIDFlag: cmttypes.BlockIDFlagCommit, ValidatorAddress: v.Address, Timestamp: ts, Signature: sig}
		signedPower += v.VotingPower
	}
	return &cmttypes.Commit{Height: height, Round: round, BlockID: blockID, Signatures: sigs}, signedPower, nil
}

// SignTx signs and serializes a transaction.
func SignTx(signer signature.Signer, tx *transaction.Transaction) ([]byte, error) {
	st, err := transaction.Sign(signer, tx)
	if err != nil {
		return nil, err
	}
	return cbor.Marshal(st), nil
}

// BlockResult is what a replica observed when executing a block.
type BlockResult struct {
	AppHash    []byte
	TxResults  []*abcitypes.ResponseDeliverTx
	ValUpdates []string // sorted "pubkey/power"
	Err        error
	// EventKinds counts "<type>/<first attribute key>" of all ABCI events of the block
	// (reach probes only; events are not consensus data).
	EventKinds map[string]int
	// Events are all ABCI events of the block in order (begin block, transactions, end block).
	Events []abcitypes.Event
	// BeginEvents / EndEvents are the events of BeginBlock and EndBlock alone.
	BeginEvents, EndEvents []abcitypes.Event
}

// Propose makes the replica build a proposal block (PrepareProposal path).
func (r *Replica) Propose(height int64, txs [][]byte, lastCommit *cmttypes.Commit, evidence []cmttypes.Evidence) (*cmttypes.Block, error) {
	r.mp.next = nil
	for _, tx := range txs {
		r.mp.next = append(r.mp.next, cmttypes.Tx(tx))
	}
	r.execSetEvidence(evidence)
	pk := r.Node.Identity.ConsensusSigner.Public()
	addr := crypto.PublicKeyToCometBFT(&pk).Address()
	blk, err := r.exec.CreateProposalBlock(height, r.State, lastCommit, addr)
	if err != nil {
		return nil, err
	}
	return CopyBlock(blk)
}

// CopyBlock round-trips a block through its wire encoding, as gossip does. (Header fields such
// as AppHash alias memory of the proposer's application when the in-process ABCI client is used.)
func CopyBlock(b *cmttypes.Block) (*cmttypes.Block, error) {
	pb, err := b.ToProto()
	if err != nil {
		return nil, err
	}
	raw, err := pb.Marshal()
	if err != nil {
		return nil, err
	}
	var pb2 cmtproto.Block
	if err := pb2.Unmarshal(raw); err != nil {
		return nil, err
	}
	return cmttypes.BlockFromProto(&pb2)
}

func (r *Replica) execSetEvidence(ev []cmttypes.Evidence) {
	r.exec = sm.NewBlockExecutor(r.stateStore, nopLogger, r.conns.Consensus(), r.mp, &simEvpool{next: ev}, r.blockStore)
}

// Process runs ProcessProposal for the block.
func (r *Replica) Process(block *cmttypes.Block) (bool, error) {
	return r.exec.ProcessProposal(block, r.State)
}

// Apply saves and applies the block (and the commit that was seen for it).
func (r *Replica) Apply(block *cmttypes.Block, seenCommit *cmttypes.Commit) *BlockResult {
	parts, err := block.MakePartSet(cmttypes.BlockPartSizeBytes)
	if err != nil {
		return &BlockResult{Err: err}
	}
	blockID := cmttypes.BlockID{Hash: block.Hash(), PartSetHeader: parts.Header()}
	if r.crashPoint != nil {
		r.crashPoint("cmt.beforeSaveBlock")
	}
	if r.blockStore.Height() < block.Height {
		r.blockStore.SaveBlock(block, parts, seenCommit)
	}
	if r.crashPoint != nil {
		r.crashPoint("cmt.afterSaveBlock")
	}
	st, err := r.exec.ApplyBlock(r.State, blockID, block)
	if err != nil {
		return &BlockResult{Err: err}
	}
	r.State = st
	if r.crashPoint != nil {
		r.crashPoint("cmt.afterApplyBlock")
	}
	return r.resultAt(block.Height, st.AppHash)
}

// resultAt builds the block result of a height from the ABCI responses in the replica's state
// store (appHash = application hash after that height).
func (r *Replica) resultAt(height int64, appHash []byte) *BlockResult {
	res := &BlockResult{AppHash: append([]byte{}, appHash...)}
	resp, err := r.stateStore.LoadABCIResponses(height)
	if err != nil {
		res.Err = fmt.Errorf("load abci responses: %w", err)
		return res
	}
	res.TxResults = resp.DeliverTxs
	res.EventKinds = map[string]int{}
	countEvents := func(evs []abcitypes.Event) {
		res.Events = append(res.Events, evs...)
		for _, ev := range evs {
			for _, a := range ev.Attributes {
				res.EventKinds[ev.Type+"/"+string(a.Key)]++
			}
		}
	}
	if resp.BeginBlock != nil {
		countEvents(resp.BeginBlock.Events)
		res.BeginEvents = resp.BeginBlock.Events
	}
	if resp.EndBlock != nil {
		countEvents(resp.EndBlock.Events)
		res.EndEvents = resp.EndBlock.Events
	}
	for _, d := range resp.DeliverTxs {
		countEvents(d.Events)
	}
	for _, vu := range resp.EndBlock.ValidatorUpdates {
		res.ValUpdates = append(res.ValUpdates, fmt.Sprintf("%x/%d", vu.PubKey.GetEd25519(), vu.Power))
	}
	sort.Strings(res.ValUpdates)
	return res
}

// BlockIDOf computes the block id.
func BlockIDOf(block *cmttypes.Block) (cmttypes.BlockID, error) {
	parts, err := block.MakePartSet(cmttypes.BlockPartSizeBytes)
	if err != nil {
		return cmttypes.BlockID{}, err
	}
	return cmttypes.BlockID{Hash: block.Hash(), PartSetHeader: parts.Header()}, nil
}

// CompareResults describes the first difference between two block results (nil = equal).
func CompareResults(a, b *BlockResult) string {
	if !bytes.Equal(a.AppHash, b.AppHash) {
		return fmt.Sprintf("application state root %x vs %x", a.AppHash, b.AppHash)
	}
	if len(a.TxResults) != len(b.TxResults) {
		return fmt.Sprintf("%d vs %d transaction results", len(a.TxResults), len(b.TxResults))
	}
	for i := range a.TxResults {
		x, y := a.TxResults[i], b.TxResults[i]
		if x.Code != y.Code || x.Codespace != y.Codespace || !bytes.Equal(x.Data, y.Data) || x.GasUsed != y.GasUsed || x.GasWanted != y.GasWanted {
			return fmt.Sprintf("result of transaction %d: {code %d/%s data %x gas %d/%d} vs {code %d/%s data %x gas %d/%d}", i, x.Code, x.Codespace, x.Data, x.GasUsed, x.GasWanted, y.Code, y.Codespace, y.Data, y.GasUsed, y.GasWanted)
		}
	}
	if fmt.Sprint(a.ValUpdates) != fmt.Sprint(b.ValUpdates) {
		return fmt.Sprintf("validator updates %v vs %v", a.ValUpdates, b.ValUpdates)
	}
	return ""
}
