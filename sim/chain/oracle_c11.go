package chain

// C11 at application level — "a runtime round finalizes only with unanimity or backup majority".
//
// The oracle follows the genesis runtime through the committed state of every block (latest
// runtime block header, round timer) and the block's roothash events, and keeps an INDEPENDENT
// record of the votes the application accepted: the executor commitments carried by successful
// roothash.ExecutorCommit transactions, in block order, which the oracle itself finds admissible
// (signed by the node they name, for the round being decided, based on the latest runtime block,
// from a member of the committee the scheduler elected for the epoch). Whenever a new runtime
// block appears it is judged against the property text with that record only:
//
//   - a Normal block must carry exactly the result of the own commitment of a scheduler of this
//     round, no better-ranked scheduler may have committed, and either (no discrepancy was
//     declared) every recorded primary vote for that scheduler agrees, at most `stragglers` members
//     indicated failure and at least primary-stragglers agreeing votes are present, or (a
//     discrepancy was declared) a strict majority of the backup workers voted for exactly it;
//     a member's first vote per scheduler is the one that counts;
//   - any other block (failed round, epoch transition, suspension) keeps the previous state root;
//   - when the round timer recorded in the state expires at a height, that block must show a
//     discrepancy declaration (once), the end of the round, or a timer restarted because a
//     better-ranked scheduler committed in that very block — never silence; and an open round
//     never carries a timer that lies in the past.
//
// Nothing of the repository's pool or committee code is called; scheduler ranks are recomputed
// from the documented rotation (rank = (round + index among the primary workers) mod primary size).

import (
	"context"
	"fmt"
	"sort"
	"strings"

	abcitypes "github.com/cometbft/cometbft/abci/types"
	cmttypes "github.com/cometbft/cometbft/types"

	"github.com/oasisprotocol/oasis-core/go/common"
	"github.com/oasisprotocol/oasis-core/go/common/cbor"
	"github.com/oasisprotocol/oasis-core/go/common/crypto/hash"
	"github.com/oasisprotocol/oasis-core/go/common/crypto/signature"
	"github.com/oasisprotocol/oasis-core/go/consensus/api/events"
	"github.com/oasisprotocol/oasis-core/go/consensus/api/transaction"
	roothashState "github.com/oasisprotocol/oasis-core/go/consensus/cometbft/apps/roothash/state"
	schedulerState "github.com/oasisprotocol/oasis-core/go/consensus/cometbft/apps/scheduler/state"
	roothash "github.com/oasisprotocol/oasis-core/go/roothash/api"
	"github.com/oasisprotocol/oasis-core/go/roothash/api/block"
	"github.com/oasisprotocol/oasis-core/go/roothash/api/commitment"
	scheduler "github.com/oasisprotocol/oasis-core/go/scheduler/api"
	"github.com/oasisprotocol/oasis-core/go/storage/mkvs"

	"verif/sim/core"
)

func init() {
	RegisterOracle("C11", func() Oracle { return &c11Oracle{} })
}

type c11Vote struct {
	fail bool
	key  string // identity of the claimed result
	h    int64  // height at which it was accepted
}

// c11Round is the oracle's record of the round being decided.
type c11Round struct {
	round     uint64    // round being decided
	prevHash  hash.Hash // hash of the latest runtime block header
	prevState hash.Hash // its state root
	workers   []signature.PublicKey
	backups   []signature.PublicKey
	disc      bool  // a discrepancy has been declared
	discAt    int64 // height of the declaration
	// votes[scheduler][node]: the first accepted vote of the node for the scheduler's proposal.
	votes map[signature.PublicKey]map[signature.PublicKey]c11Vote
	// own[scheduler]: the result of the scheduler's own accepted commitment.
	own      map[signature.PublicKey]*commitment.ComputeResultsHeader
	ownAt    map[signature.PublicKey]int64
	topAt    int64 // height at which the best-ranked committed scheduler last changed
	accepted int
	started  int64
}

type c11Oracle struct {
	BaseOracle
	on         bool
	rtID       common.Namespace
	stragglers int
	last       block.Header // latest runtime block header as of the previous height
	lastHash   hash.Hash
	armed      int64 // round timer recorded in the state as of the previous height
	cur        *c11Round

	acceptedTxs, decided, ended, blocks int
	// successInEpoch: a round was finalized normally since the last committee change.
	successInEpoch bool
}

func c11Violation(kind, cause, detail string) *core.Violation {
	fp := kind
	if cause != "" {
		fp += " [" + cause + "]"
	}
	return cViol("C11", kind, fp, detail)
}

// c11ResultKey identifies a claimed result: two votes are for exactly the same result iff every
// field of the result header is equal.
func c11ResultKey(h *commitment.ComputeResultsHeader) string {
	p := func(x *hash.Hash) string {
		if x == nil {
			return "-"
		}
		return x.Hex()
	}
	return fmt.Sprintf("%d/%s/%s/%s/%s/%s/%d", h.Round, h.PreviousHash.Hex(), p(h.IORoot), p(h.StateRoot), p(h.MessagesHash), p(h.InMessagesHash), h.InMessagesCount)
}

func c11Index(l []signature.PublicKey, k signature.PublicKey) int {
	for i, x := range l {
		if x.Equal(k) {
			return i
		}
	}
	return -1
}

// rank of a primary worker in the round (lower = higher priority); ok=false for anybody else.
func (r *c11Round) rank(sched signature.PublicKey) (uint64, bool) {
	i := c11Index(r.workers, sched)
	if i < 0 {
		return 0, false
	}
	return (r.round + uint64(i)) % uint64(len(r.workers)), true
}

// top returns the best-ranked scheduler with an accepted own commitment.
func (r *c11Round) top() (signature.PublicKey, bool) {
	var best signature.PublicKey
	var bestRank uint64
	found := false
	for _, w := range r.workers { // committee order: no map iteration
		if r.own[w] == nil {
			continue
		}
		if rk, _ := r.rank(w); !found || rk < bestRank {
			best, bestRank, found = w, rk, true
		}
	}
	return best, found
}

// tally counts, among the given members, the distinct nodes whose counted vote for the scheduler
// is exactly key, the nodes that indicated failure, and whether any counted vote carries another
// result.
func (r *c11Round) tally(sched signature.PublicKey, among []signature.PublicKey, key string) (agree, fails int, dissent bool) {
	seen := map[signature.PublicKey]bool{}
	for _, n := range among {
		if seen[n] {
			continue
		}
		seen[n] = true
		v, ok := r.votes[sched][n]
		switch {
		case !ok:
		case v.fail:
			fails++
		case v.key == key:
			agree++
		default:
			dissent = true
		}
	}
	return
}

func (r *c11Round) describe(name func(signature.PublicKey) string) string {
	var b strings.Builder
	fmt.Fprintf(&b, "round %d, primary=%d backup=%d, discrepancy declared=%v;", r.round, len(r.workers), len(r.backups), r.disc)
	for _, w := range r.workers {
		if len(r.votes[w]) == 0 {
			continue
		}
		rk, _ := r.rank(w)
		fmt.Fprintf(&b, " proposal of %s (rank %d", name(w), rk)
		if r.own[w] != nil {
			b.WriteString(", committed")
		}
		b.WriteString("):")
		var ks []string
		for n, v := range r.votes[w] {
			role := ""
			if c11Index(r.workers, n) >= 0 {
				role += "P"
			}
			if c11Index(r.backups, n) >= 0 {
				role += "B"
			}
			s := "other"
			switch {
			case v.fail:
				s = "failure"
			case r.own[w] != nil && v.key == c11ResultKey(r.own[w]):
				s = "agree"
			}
			ks = append(ks, fmt.Sprintf(" %s[%s]=%s@%d", name(n), role, s, v.h))
		}
		sort.Strings(ks)
		b.WriteString(strings.Join(ks, ""))
		b.WriteString(";")
	}
	return b.String()
}

func (o *c11Oracle) nodeName(s *Sim) func(signature.PublicKey) string {
	return func(pk signature.PublicKey) string {
		for _, ek := range s.W.Entities {
			for _, nk := range ek.Nodes {
				if nk.Identity.NodeSigner.Public().Equal(pk) {
					return fmt.Sprintf("e%dn%d", nk.Entity, c11NodeNo(nk.Name))
				}
			}
		}
		return pk.String()[:8]
	}
}

func c11NodeNo(name string) int {
	i := strings.LastIndex(name, "node")
	n := 0
	fmt.Sscanf(name[i+4:], "%d", &n)
	return n
}

// read returns the runtime state and the executor committee elected by the scheduler.
func (o *c11Oracle) read(tree mkvs.ImmutableKeyValueTree) (*roothash.RuntimeState, []signature.PublicKey, []signature.PublicKey) {
	ctx := context.Background()
	rs, err := roothashState.NewImmutableState(tree).RuntimeState(ctx, o.rtID)
	if err != nil || rs == nil || rs.LastBlock == nil {
		return nil, nil, nil
	}
	var workers, backups []signature.PublicKey
	com, err := schedulerState.NewImmutableState(tree).Committee(ctx, scheduler.KindComputeExecutor, o.rtID)
	if err == nil && com != nil {
		for _, m := range com.Members {
			switch m.Role {
			case scheduler.RoleWorker:
				workers = append(workers, m.PublicKey)
			case scheduler.RoleBackupWorker:
				backups = append(backups, m.PublicKey)
			}
		}
	}
	return rs, workers, backups
}

func (o *c11Oracle) startRound(h int64, last *block.Header, workers, backups []signature.PublicKey) {
	o.last = *last
	o.lastHash = last.EncodedHash()
	o.cur = &c11Round{
		round: last.Round + 1, prevHash: o.lastHash, prevState: last.StateRoot, workers: workers, backups: backups,
		votes: map[signature.PublicKey]map[signature.PublicKey]c11Vote{}, own: map[signature.PublicKey]*commitment.ComputeResultsHeader{}, ownAt: map[signature.PublicKey]int64{},
		started: h,
	}
}

func (o *c11Oracle) Init(s *Sim) *core.Violation {
	if !s.K.Gen.Runtime || len(s.W.Doc.Registry.Runtimes) == 0 {
		return nil
	}
	o.rtID = s.W.RuntimeID
	o.stragglers = int(s.W.Doc.Registry.Runtimes[0].Executor.AllowedStragglers)
	o.on = true
	// The state written by InitChain is not readable as a committed version: the record starts at
	// the first block from the runtime's genesis block, which the runtime state keeps (no
	// committee, timer never armed).
	return nil
}

type c11Events struct {
	finalized []uint64
	disc      []roothash.ExecutionDiscrepancyDetectedEvent
	commits   []commitment.ExecutorCommitment
}

// parseEvents extracts the roothash events of the oracle's runtime.
func (o *c11Oracle) parseEvents(evs []abcitypes.Event) c11Events {
	var out c11Events
	for _, ev := range evs {
		if !strings.HasSuffix(ev.Type, "roothash") {
			continue
		}
		mine := false
		for _, a := range ev.Attributes {
			if string(a.Key) == (&roothash.RuntimeIDAttribute{}).EventKind() {
				var id roothash.RuntimeIDAttribute
				if events.DecodeValue(string(a.Value), &id) == nil && id.ID.Equal(&o.rtID) {
					mine = true
				}
			}
		}
		if !mine {
			continue
		}
		for _, a := range ev.Attributes {
			switch string(a.Key) {
			case (&roothash.FinalizedEvent{}).EventKind():
				var e roothash.FinalizedEvent
				if events.DecodeValue(string(a.Value), &e) == nil {
					out.finalized = append(out.finalized, e.Round)
				}
			case (&roothash.ExecutionDiscrepancyDetectedEvent{}).EventKind():
				var e roothash.ExecutionDiscrepancyDetectedEvent
				if events.DecodeValue(string(a.Value), &e) == nil {
					out.disc = append(out.disc, e)
				}
			case (&roothash.ExecutorCommittedEvent{}).EventKind():
				var e roothash.ExecutorCommittedEvent
				if events.DecodeValue(string(a.Value), &e) == nil {
					out.commits = append(out.commits, e.Commit)
				}
			}
		}
	}
	return out
}

// inadmissible says why the oracle does not count a commitment ("" = it counts).
func (o *c11Oracle) inadmissible(c *commitment.ExecutorCommitment) string {
	r := o.cur
	sigCtx, err := commitment.ExecutorSignatureContext.WithSuffix(o.rtID.String())
	if err != nil || !c.NodeID.Verify(sigCtx, cbor.Marshal(c.Header), c.Signature[:]) {
		return "bad-signature"
	}
	if c.Header.Header.Round != r.round {
		return "wrong-round"
	}
	if !c.Header.Header.PreviousHash.Equal(&r.prevHash) {
		return "wrong-previous-block"
	}
	if c11Index(r.workers, c.NodeID) < 0 && c11Index(r.backups, c.NodeID) < 0 {
		return "non-member"
	}
	return ""
}

// refusalCause names, for the probes, the first reason the oracle can see for a refused
// ExecutorCommit transaction.
func (o *c11Oracle) refusalCause(xc *roothash.ExecutorCommit) string {
	r := o.cur
	if !xc.ID.Equal(&o.rtID) {
		return "unknown-runtime"
	}
	if len(r.workers) == 0 {
		return "no-committee"
	}
	seen := map[string]bool{}
	for i := range xc.Commits {
		c := &xc.Commits[i]
		if cause := o.inadmissible(c); cause != "" {
			return cause
		}
		h := &c.Header.Header
		fail := c.Header.Failure != commitment.FailureNone
		rk, isSched := r.rank(c.Header.SchedulerID)
		switch {
		case !isSched:
			return "scheduler-not-a-primary-worker"
		case fail && c.NodeID.Equal(c.Header.SchedulerID):
			return "failure-from-the-scheduler"
		case fail && (h.IORoot != nil || h.StateRoot != nil || h.MessagesHash != nil || h.InMessagesHash != nil):
			return "malformed"
		case !fail && (h.IORoot == nil || h.StateRoot == nil || h.MessagesHash == nil || h.InMessagesHash == nil):
			return "malformed"
		case len(c.Messages) > 0 && !c.NodeID.Equal(c.Header.SchedulerID):
			return "messages-from-a-non-scheduler"
		}
		k := c.NodeID.String() + "/" + c.Header.SchedulerID.String()
		if _, dup := r.votes[c.Header.SchedulerID][c.NodeID]; dup || seen[k] {
			return "duplicate-vote"
		}
		seen[k] = true
		if top, ok := r.top(); ok {
			if tr, _ := r.rank(top); rk > tr {
				return "worse-ranked-scheduler"
			} else if r.disc && rk != tr {
				return "other-scheduler-during-resolution"
			}
		}
		if r.disc && c11Index(r.backups, c.NodeID) < 0 {
			return "primary-vote-during-resolution"
		}
	}
	return "other"
}

func c11SameCommit(a, b *commitment.ExecutorCommitment) bool {
	return a.NodeID.Equal(b.NodeID) && a.Signature == b.Signature && a.Header.SchedulerID.Equal(b.Header.SchedulerID) &&
		c11ResultKey(&a.Header.Header) == c11ResultKey(&b.Header.Header) && a.Header.Failure == b.Header.Failure
}

// processTxs records the commitments of the block's successful ExecutorCommit transactions.
func (o *c11Oracle) processTxs(s *Sim, h int64, blk *cmttypes.Block, res *BlockResult) *core.Violation {
	r := o.cur
	name := o.nodeName(s)
	for i, raw := range blk.Txs {
		if i >= len(res.TxResults) {
			break
		}
		var stx transaction.SignedTransaction
		var tx transaction.Transaction
		if cbor.Unmarshal(raw, &stx) != nil || cbor.Unmarshal(stx.Blob, &tx) != nil || tx.Method != roothash.MethodExecutorCommit {
			continue
		}
		var xc roothash.ExecutorCommit
		if cbor.Unmarshal(tx.Body, &xc) != nil {
			continue
		}
		tr := res.TxResults[i]
		s.St.Inc("probe.c11.commit_txs")
		if tr.Code != 0 {
			// (a bad commitment signature surfaces as an error without a module: "unknown")
			cause := o.refusalCause(&xc)
			if tr.Codespace == "roothash" || tr.Codespace == "roothash/commitment" || (cause == "bad-signature" && strings.Contains(tr.Log, "roothash/commitment: signature verification failed")) {
				s.St.Inc("probe.c11.refused." + cause)
				s.St.Inc(fmt.Sprintf("probe.c11.refused_code.%s.%d", tr.Codespace, tr.Code))
			} else {
				s.St.Inc("probe.c11.commit_tx_failed_elsewhere")
			}
			continue
		}
		if !xc.ID.Equal(&o.rtID) {
			continue
		}
		if len(xc.Commits) == 0 {
			s.St.Inc("probe.c11.empty_commit_tx")
			continue
		}
		o.acceptedTxs++
		s.St.Inc("probe.c11.commit_txs_accepted")
		announced := o.parseEvents(tr.Events).commits
		for j := range xc.Commits {
			c := &xc.Commits[j]
			isAnnounced := false
			for k := range announced {
				if c11SameCommit(c, &announced[k]) {
					isAnnounced = true
				}
			}
			if cause := o.inadmissible(c); cause != "" {
				if isAnnounced {
					kind := map[string]string{"bad-signature": "forged-accepted", "wrong-round": "wrong-round-accepted", "wrong-previous-block": "wrong-round-accepted", "non-member": "non-member-accepted"}[cause]
					return c11Violation(kind, cause, fmt.Sprintf("height %d: the application accepted (transaction %d succeeded and announced it) an executor commitment in the name of %s for the proposal of %s that must not count: %s (%s)",
						h, i, name(c.NodeID), name(c.Header.SchedulerID), cause, r.describe(name)))
				}
				s.St.Inc("probe.c11.inadmissible_in_successful_tx_not_announced")
				continue
			}
			sched := c.Header.SchedulerID
			v := c11Vote{fail: c.Header.Failure != commitment.FailureNone, key: c11ResultKey(&c.Header.Header), h: h}
			s.St.Inc("probe.c11.commitments_accepted")
			s.St.Event("c11 accept h=%d node=%s sched=%s fail=%v", h, name(c.NodeID), name(sched), v.fail)
			if _, dup := r.votes[sched][c.NodeID]; dup {
				// Counts at most once: the first vote stays the one that counts.
				s.St.Inc("probe.c11.second_vote_accepted_not_counted")
				continue
			}
			if r.votes[sched] == nil {
				r.votes[sched] = map[signature.PublicKey]c11Vote{}
			}
			r.votes[sched][c.NodeID] = v
			r.accepted++
			if v.fail {
				s.St.Inc("probe.c11.failure_votes_accepted")
			}
			if c11Index(r.backups, c.NodeID) >= 0 && !r.disc {
				s.St.Inc("probe.c11.backup_vote_before_discrepancy")
			}
			if c11Index(r.backups, c.NodeID) >= 0 && c11Index(r.workers, c.NodeID) >= 0 {
				s.St.Inc("probe.c11.vote_from_node_with_both_roles")
			}
			rk, isSched := r.rank(sched)
			hd := &c.Header.Header
			if c.NodeID.Equal(sched) && isSched && !v.fail && hd.IORoot != nil && hd.StateRoot != nil && hd.MessagesHash != nil && hd.InMessagesHash != nil && r.own[sched] == nil {
				prevTop, had := r.top()
				cp := *hd
				r.own[sched], r.ownAt[sched] = &cp, h
				if pr, _ := r.rank(prevTop); !had || rk < pr {
					r.topAt = h
					if had {
						s.St.Inc("probe.c11.better_ranked_scheduler_took_over")
					}
				}
				if rk > 0 {
					s.St.Inc("probe.c11.scheduler_rank_gt0_committed")
				}
				if len(c.Messages) > 0 {
					s.St.Inc("probe.c11.proposal_with_runtime_messages")
				}
				if hd.InMessagesCount > 0 {
					s.St.Inc("probe.c11.proposal_consuming_incoming_messages")
				}
			}
		}
	}
	return nil
}

// judge decides whether the new runtime block nb is allowed to follow o.last given the record.
func (o *c11Oracle) judge(s *Sim, h int64, nb *block.Header, timerExpired bool) *core.Violation {
	r := o.cur
	name := o.nodeName(s)
	o.decided++
	ctx := fmt.Sprintf("height %d, runtime block round %d type %d; %s", h, nb.Round, nb.HeaderType, r.describe(name))
	if nb.HeaderType != block.Normal {
		if !nb.StateRoot.Equal(&r.prevState) {
			kind := "empty-block-changed-state-root"
			if nb.HeaderType == block.RoundFailed {
				kind = "failed-round-changed-state-root"
			}
			return c11Violation(kind, fmt.Sprintf("type-%d", nb.HeaderType), fmt.Sprintf("the runtime state root changed from %s to %s in a block that is not a normally finalized round; %s", r.prevState.Hex()[:12], nb.StateRoot.Hex()[:12], ctx))
		}
		switch nb.HeaderType {
		case block.RoundFailed:
			o.ended++
			cause := "other"
			top, hasTop := r.top()
			switch {
			case !hasTop:
				cause = "no-scheduler-commitment"
			case r.disc:
				agree, fails, _ := r.tally(top, r.backups, c11ResultKey(r.own[top]))
				others := len(r.votes[top]) // rough
				_ = others
				switch {
				case 2*agree > len(r.backups):
					cause = "after-backup-majority"
				case timerExpired:
					cause = "resolution-timeout"
				case fails > 0 && 2*(len(r.backups)-fails) <= len(r.backups):
					cause = "majority-impossible-failures"
				default:
					cause = "backups-disagree-with-scheduler"
				}
			default:
				agree, fails, dissent := r.tally(top, r.workers, c11ResultKey(r.own[top]))
				if !dissent && fails <= o.stragglers && agree >= len(r.workers)-o.stragglers {
					cause = "after-unanimous-vote"
				}
			}
			s.St.Inc("probe.c11.round_failed." + cause)
			s.St.Inc("probe.c11.rounds_failed")
			if !o.successInEpoch {
				// (the per-epoch liveness statistics have not been touched by a success yet)
				s.St.Inc("probe.c11.round_failed_before_first_success_in_epoch")
				if timerExpired {
					s.St.Inc("probe.c11.round_failed_on_timer_before_first_success_in_epoch")
				}
			}
		case block.EpochTransition:
			o.successInEpoch = false
			s.St.Inc("probe.c11.epoch_transition_blocks")
			if r.accepted > 0 {
				s.St.Inc("probe.c11.epoch_transition_cut_a_round_with_votes")
			}
		case block.Suspended:
			o.successInEpoch = false
			s.St.Inc("probe.c11.suspended_blocks")
		}
		return nil
	}

	// A normally finalized round: a new state root was accepted.
	var chosen signature.PublicKey
	var chosenRank uint64
	found := false
	for _, w := range r.workers {
		own := r.own[w]
		if own == nil || !own.IORoot.Equal(&nb.IORoot) || !own.StateRoot.Equal(&nb.StateRoot) || !own.MessagesHash.Equal(&nb.MessagesHash) || !own.InMessagesHash.Equal(&nb.InMessagesHash) {
			continue
		}
		if rk, _ := r.rank(w); !found || rk < chosenRank {
			chosen, chosenRank, found = w, rk, true
		}
	}
	phase := "detection"
	if r.disc {
		phase = "resolution"
	}
	if !found || nb.Round != r.round || !nb.PreviousHash.Equal(&r.prevHash) {
		return c11Violation("finalized-unknown-proposal", phase, "a round was finalized with a result that is not the accepted own commitment of a scheduler of this round; "+ctx)
	}
	if top, _ := r.top(); !top.Equal(chosen) {
		tr, _ := r.rank(top)
		return c11Violation("finalized-worse-rank", phase, fmt.Sprintf("the proposal of %s (rank %d) was finalized although %s (rank %d) had committed at height %d; %s", name(chosen), chosenRank, name(top), tr, r.ownAt[top], ctx))
	}
	key := c11ResultKey(r.own[chosen])
	P, S, NB := len(r.workers), o.stragglers, len(r.backups)
	switch r.disc {
	case false:
		agree, fails, dissent := r.tally(chosen, r.workers, key)
		switch {
		case dissent:
			return c11Violation("finalized-with-dissent", "", "a round was finalized without discrepancy resolution although a primary worker's counted vote carries a different result; "+ctx)
		case fails > S:
			return c11Violation("finalized-too-many-failures", "", fmt.Sprintf("a round was finalized without discrepancy resolution with %d failure indications, allowed %d; %s", fails, S, ctx))
		case agree < P-S:
			return c11Violation("finalized-below-presence", "", fmt.Sprintf("a round was finalized without discrepancy resolution with %d agreeing primary votes, required %d-%d; %s", agree, P, S, ctx))
		}
		s.St.Inc("probe.c11.finalized_by_unanimity")
		if agree < P {
			s.St.Inc("probe.c11.finalized_with_stragglers")
		}
		if fails > 0 {
			s.St.Inc("probe.c11.finalized_with_failures")
		}
		if timerExpired {
			s.St.Inc("probe.c11.finalized_on_timeout")
		}
	case true:
		agree, _, _ := r.tally(chosen, r.backups, key)
		if 2*agree <= NB {
			return c11Violation("finalized-without-backup-majority", "", fmt.Sprintf("a round was finalized after a discrepancy with %d of %d backup workers voting for exactly that result; %s", agree, NB, ctx))
		}
		s.St.Inc("probe.c11.finalized_after_discrepancy_by_backup_majority")
		if agree == NB/2+1 {
			s.St.Inc("probe.c11.majority_exactly_at_threshold")
		}
		if r.discAt == h {
			s.St.Inc("probe.c11.discrepancy_resolved_in_the_same_block")
		}
	}
	s.St.Inc("probe.c11.rounds_finalized")
	o.successInEpoch = true
	o.ended++
	if chosenRank > 0 {
		s.St.Inc("probe.c11.finalized_scheduler_rank_gt0")
	}
	if nb.StateRoot.Equal(&r.prevState) {
		s.St.Inc("probe.c11.finalized_with_unchanged_state_root")
	}
	if len(r.own) > 1 {
		s.St.Inc("probe.c11.finalized_with_several_committed_schedulers")
	}
	return nil
}

func (o *c11Oracle) AfterBlock(s *Sim, h int64, blk *cmttypes.Block, _ []*BuiltTx, res *BlockResult) *core.Violation {
	if !o.on || res == nil {
		return nil
	}
	vw, cl := s.view()
	if vw == nil {
		return nil
	}
	defer cl()
	rs, workers, backups := o.read(vw.Tree())
	if rs == nil {
		return c11Violation("runtime-state-lost", "", fmt.Sprintf("height %d: the runtime's roothash state is gone", h))
	}
	o.blocks++
	if o.cur == nil {
		if rs.GenesisBlock == nil {
			return nil
		}
		o.startRound(h-1, &rs.GenesisBlock.Header, nil, nil)
		o.armed = roothash.TimeoutNever
	}
	name := o.nodeName(s)
	post := &rs.LastBlock.Header
	postHash := post.EncodedHash()
	begin, end := o.parseEvents(res.BeginEvents), o.parseEvents(res.EndEvents)
	changed := !postHash.Equal(&o.lastHash)
	armed := o.armed
	timerExpires := armed != roothash.TimeoutNever && armed == h
	discBefore := o.cur.disc
	s.St.Event("c11 h=%d round=%d type=%d changed=%v armed=%d next=%d disc=%d fin=%d/%d", h, post.Round, post.HeaderType, changed, armed, rs.NextTimeout, len(end.disc), len(begin.finalized), len(end.finalized))

	if changed && post.Round != o.last.Round+1 {
		// More than one runtime block in one consensus block (or a rewritten block): the
		// intermediate blocks cannot be seen any more. The workload cannot cause this; it is
		// counted and the record restarts.
		s.St.Inc("probe.c11.unobservable_round_jump")
		o.startRound(h, post, workers, backups)
		o.armed = rs.NextTimeout
		return nil
	}
	atBegin := changed && (len(begin.finalized) > 0 || (len(end.finalized) == 0 && post.HeaderType != block.Normal && post.HeaderType != block.RoundFailed))
	if changed && atBegin {
		// The round ended while the block began (epoch transition / suspension): judged with the
		// votes recorded so far; this block's transactions belong to the next round.
		if v := o.judge(s, h, post, false); v != nil {
			return v
		}
		o.startRound(h, post, workers, backups)
	}
	if v := o.processTxs(s, h, blk, res); v != nil {
		return v
	}
	for _, d := range end.disc {
		if d.Round != o.cur.round {
			s.St.Inc("probe.c11.discrepancy_event_for_another_round")
			continue
		}
		if !o.cur.disc {
			o.cur.disc, o.cur.discAt = true, h
			s.St.Inc("probe.c11.discrepancy_declared")
			if d.Timeout {
				s.St.Inc("probe.c11.discrepancy_declared_on_timeout")
			} else {
				s.St.Inc("probe.c11.discrepancy_declared_early")
			}
		} else {
			s.St.Inc("probe.c11.discrepancy_declared_again")
		}
	}
	topChangedNow := o.cur.topAt == h
	if changed && !atBegin {
		if v := o.judge(s, h, post, timerExpires); v != nil {
			return v
		}
	}

	// The round timer.
	if timerExpires {
		s.St.Inc("probe.c11.round_timer_expired")
		switch {
		case changed:
			s.St.Inc("probe.c11.timer_ended_the_round")
		case !discBefore && o.cur.disc:
			s.St.Inc("probe.c11.timer_started_discrepancy_resolution")
		case topChangedNow && rs.NextTimeout > h:
			s.St.Inc("probe.c11.timer_restarted_by_better_scheduler")
		default:
			phase := "detection"
			if discBefore {
				phase = "resolution"
			}
			return c11Violation("waiting-after-timeout", phase, fmt.Sprintf("height %d: the round timer recorded in the state (%d) expired in this block, but the block shows no discrepancy declaration, no end of the round and no better-ranked scheduler; the timer is now %d; %s", h, armed, rs.NextTimeout, o.cur.describe(name)))
		}
	}
	if changed && !atBegin {
		o.startRound(h, post, workers, backups)
	}
	if rs.NextTimeout != roothash.TimeoutNever && rs.NextTimeout <= h {
		return c11Violation("waiting-after-timeout", "timer-in-the-past", fmt.Sprintf("height %d: the open round %d carries a round timer (%d) that is not in the future: it can never fire; %s", h, o.cur.round, rs.NextTimeout, o.cur.describe(name)))
	}
	if rs.NextTimeout != roothash.TimeoutNever {
		s.St.Inc("probe.c11.blocks_with_armed_timer")
	}
	o.armed = rs.NextTimeout
	return nil
}

func (o *c11Oracle) Finish(s *Sim) (*core.Violation, bool) {
	if !o.on {
		return nil, false
	}
	s.St.Sample(2, map[string]interface{}{"c11_group": s.K.Gen.RtGroupSize, "c11_backup": s.K.Gen.RtBackupSize, "c11_stragglers": s.K.Gen.RtStragglers, "c11_round_timeout": s.K.Gen.RtRoundTimeout, "compute_nodes": s.K.Gen.ComputeNodes, "accepted_commit_txs": o.acceptedTxs, "runtime_blocks_judged": o.decided, "rounds_ended_by_votes_or_timer": o.ended})
	return nil, o.acceptedTxs >= 2 && o.ended >= 1
}
