package chain

import (
	"github.com/oasisprotocol/oasis-core/go/common"
	"github.com/oasisprotocol/oasis-core/go/common/crypto/signature"
	"github.com/oasisprotocol/oasis-core/go/common/quantity"
	"github.com/oasisprotocol/oasis-core/go/consensus/api/transaction"
	roothash "github.com/oasisprotocol/oasis-core/go/roothash/api"
	staking "github.com/oasisprotocol/oasis-core/go/staking/api"

	"verif/sim/core"
)

// Extension transaction kinds available to every chain property (not tied to one workload).

func init() {
	RegisterTxKind("submitmsg", buildSubmitMsg)
	// A genesis runtime with a small incoming message queue, so that roothash.SubmitMsg (a
	// method that moves funds before it can still fail) is part of the transaction mix.
	RegisterBaseExtra(&BaseExtra{
		Name:  "submitmsg",
		Kinds: []string{"submitmsg"},
		Tune: func(r *core.Rand, k *ChainKnobs) {
			EnableRuntime(r, &k.Gen, r.Range(1, 3))
			k.Gen.RtMaxInMessages = uint32(r.Pick([]int{1, 4, 3, 1}))
			k.Gen.RtMinInMsgFee = uint64(r.Pick([]int{2, 1, 1}) * r.Range(0, 2))
		},
	})
	// The registry workload's entity/node/runtime registrations (valid and unauthorised), so that
	// the base oracles also see the registry application's methods.
	RegisterBaseExtra(&BaseExtra{
		Name:    "registry",
		Kinds:   []string{"c17.ent", "c17.ent", "c17.node", "c17.node", "c17.node", "c17.rt", "c17.rt", "c17.dereg", "c17.dereg", "c17.fund"},
		WideArg: true,
	})
}

// EnableRuntime puts a compute runtime with n compute nodes into the genesis knobs and gives the
// entities the escrow their additional stake claims need (the genesis sanity check refuses
// uncovered claims).
func EnableRuntime(r *core.Rand, g *GenKnobs, n int) {
	g.Runtime = true
	g.ComputeNodes = n
	for c := 0; c < g.ComputeNodes; c++ {
		e := c % g.Entities
		if e < len(g.EntityEscrow) {
			g.EntityEscrow[e] += g.ThresholdNode
		}
	}
	if len(g.EntityEscrow) > 0 {
		g.EntityEscrow[0] += g.ThresholdNode
	}
}

// buildSubmitMsg builds a roothash.SubmitMsg: the message fee and tokens are transferred to the
// runtime account before the queue-full check, so a full queue (or any later failure) must undo
// the transfer.  Variants: unknown runtime, fee below the runtime's minimum, tokens above the
// balance.
func buildSubmitMsg(w *World, op TxOp, v TxView, signer signature.Signer, fee *transaction.Fee) (*transaction.Transaction, signature.Signer, error) {
	acct := v.Account(staking.NewAddress(signer.Public()))
	id := w.RuntimeID
	if op.Arg%13 == 0 {
		id = common.NewTestNamespaceFromSeed([]byte("verif/sim/chain/no-such-runtime"), common.NamespaceTest)
	}
	msgFee := w.K.RtMinInMsgFee
	switch op.Arg % 5 {
	case 0:
		if msgFee > 0 {
			msgFee--
		}
	case 1:
		msgFee += uint64(op.Arg % 7)
	}
	msg := &roothash.SubmitMsg{
		ID:     id,
		Tag:    uint64(op.Arg),
		Fee:    *quantity.NewFromUint64(msgFee),
		Tokens: resolveAmount(op.Amt, &acct.General.Balance, 1),
		Data:   []byte{byte(op.Arg)},
	}
	nonce := uint64(int64(v.NextNonce(signer.Public())) + int64(op.NonceOff))
	return roothash.NewSubmitMsgTx(nonce, fee, msg), signer, nil
}
