package chain

import (
	"fmt"
	"strings"

	cmttypes "github.com/cometbft/cometbft/types"

	"github.com/oasisprotocol/oasis-core/go/common/quantity"
	"github.com/oasisprotocol/oasis-core/go/consensus/api/events"
	cmtapi "github.com/oasisprotocol/oasis-core/go/consensus/cometbft/api"
	stakingState "github.com/oasisprotocol/oasis-core/go/consensus/cometbft/apps/staking/state"
	supplementarysanity "github.com/oasisprotocol/oasis-core/go/consensus/cometbft/apps/supplementarysanity"
	staking "github.com/oasisprotocol/oasis-core/go/staking/api"

	"verif/sim/core"
)

// c05Oracle recomputes the token-supply and share-bookkeeping invariants from the committed
// staking state after every block (independently of the in-tree checker, which is registered as
// a second opinion on some replicas).
type c05Oracle struct {
	BaseOracle
	prevSupply *quantity.Quantity
	blocks     int
	burns      int
}

func init() {
	RegisterOracle("C05", func() Oracle { return &c05Oracle{} })
	RegisterProbeApp("C05", func(s *Sim, r *Replica) cmtapi.Application {
		if !r.Cfg.ProbeApps {
			return nil
		}
		return supplementarysanity.New(r.srv.State(), 1)
	})
}

func c05Viol(kind, detail string) *core.Violation {
	return &core.Violation{Property: "C05", Kind: kind, Fingerprint: kind, Detail: detail}
}

func (o *c05Oracle) Init(s *Sim) *core.Violation {
	return o.check(s, s.Height, nil)
}

func (o *c05Oracle) AfterBlock(s *Sim, h int64, _ *cmttypes.Block, _ []*BuiltTx, res *BlockResult) *core.Violation {
	return o.check(s, h, res)
}

func (o *c05Oracle) check(s *Sim, h int64, res *BlockResult) *core.Violation {
	ref := s.Ref()
	if ref == nil {
		return nil
	}
	if h < 1 {
		return nil
	}
	tree, err := ref.TreeAt(h)
	if err != nil {
		core.Harnessf("c05: cannot open state at %d: %v", h, err)
	}
	defer tree.Close()
	st := stakingState.NewImmutableState(tree)
	ctx := s.Ctx
	must := func(q *quantity.Quantity, err error) *quantity.Quantity {
		if err != nil {
			core.Harnessf("c05: state read failed: %v", err)
		}
		return q
	}
	totalSupply := must(st.TotalSupply(ctx))
	commonPool := must(st.CommonPool(ctx))
	govDeposits := must(st.GovernanceDeposits(ctx))
	lastFees := must(st.LastBlockFees(ctx))
	sum := quantity.NewQuantity()
	add := func(q *quantity.Quantity) {
		if err := sum.Add(q); err != nil {
			core.Harnessf("c05: add: %v", err)
		}
	}
	add(commonPool)
	add(govDeposits)
	add(lastFees)
	addrs, err := st.Addresses(ctx)
	if err != nil {
		core.Harnessf("c05: addresses: %v", err)
	}
	for _, a := range addrs {
		acct, err := st.Account(ctx, a)
		if err != nil {
			core.Harnessf("c05: account: %v", err)
		}
		add(&acct.General.Balance)
		add(&acct.Escrow.Active.Balance)
		add(&acct.Escrow.Debonding.Balance)
		// Share bookkeeping.
		dels, err := st.DelegationsTo(ctx, a)
		if err != nil {
			core.Harnessf("c05: delegations: %v", err)
		}
		shares := quantity.NewQuantity()
		for _, d := range dels {
			_ = shares.Add(&d.Shares)
		}
		if shares.Cmp(&acct.Escrow.Active.TotalShares) != 0 {
			return c05Viol("active-shares-mismatch", fmt.Sprintf("height %d: escrow account %s records %s active shares but the delegations into it sum to %s", h, a, acct.Escrow.Active.TotalShares, shares))
		}
		debs, err := st.DebondingDelegationsTo(ctx, a)
		if err != nil {
			core.Harnessf("c05: debonding delegations: %v", err)
		}
		dshares := quantity.NewQuantity()
		for _, ds := range debs {
			for _, d := range ds {
				_ = dshares.Add(&d.Shares)
			}
		}
		if dshares.Cmp(&acct.Escrow.Debonding.TotalShares) != 0 {
			return c05Viol("debonding-shares-mismatch", fmt.Sprintf("height %d: escrow account %s records %s debonding shares but the debonding delegations into it sum to %s", h, a, acct.Escrow.Debonding.TotalShares, dshares))
		}
		if !acct.Escrow.Active.TotalShares.IsZero() && len(dels) > 1 {
			s.St.Inc("probe.c05.pool_with_several_delegators")
		}
	}
	if sum.Cmp(totalSupply) != 0 {
		return c05Viol("supply-not-conserved", fmt.Sprintf("height %d: total supply %s but general + escrow(active, debonding) + common pool %s + governance deposits %s + last block fees %s = %s", h, totalSupply, commonPool, govDeposits, lastFees, sum))
	}
	// Total supply never increases and decreases only by the exact amounts burned.
	if res != nil && o.prevSupply != nil {
		burned := quantity.NewQuantity()
		for _, ev := range res.Events {
			if !strings.HasSuffix(ev.Type, "100_staking") {
				continue
			}
			for _, a := range ev.Attributes {
				if string(a.Key) != (&staking.BurnEvent{}).EventKind() {
					continue
				}
				var be staking.BurnEvent
				if err := events.DecodeValue(string(a.Value), &be); err != nil {
					core.Harnessf("c05: cannot decode burn event: %v", err)
				}
				_ = burned.Add(&be.Amount)
				o.burns++
			}
		}
		expect := o.prevSupply.Clone()
		if err := expect.Sub(burned); err != nil {
			return c05Viol("supply-changed", fmt.Sprintf("height %d: burn events total %s, more than the previous total supply %s", h, burned, o.prevSupply))
		}
		if expect.Cmp(totalSupply) != 0 {
			return c05Viol("supply-changed", fmt.Sprintf("height %d: total supply went from %s to %s but the block's burn events total %s", h, o.prevSupply, totalSupply, burned))
		}
	}
	o.prevSupply = totalSupply.Clone()
	o.blocks++
	s.St.Inc("probe.c05.blocks_checked")
	if !lastFees.IsZero() {
		s.St.Inc("probe.c05.blocks_with_carried_fees")
	}
	return nil
}

func (o *c05Oracle) Finish(s *Sim) (*core.Violation, bool) {
	s.St.Add("probe.c05.burn_events", int64(o.burns))
	return nil, o.blocks >= 3
}
