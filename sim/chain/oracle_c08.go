package chain

import (
	"bytes"
	"context"
	"encoding/json"
	"fmt"
	"sort"

	abcitypes "github.com/cometbft/cometbft/abci/types"
	cmttypes "github.com/cometbft/cometbft/types"

	"github.com/oasisprotocol/oasis-core/go/common/cbor"
	"github.com/oasisprotocol/oasis-core/go/common/quantity"
	"github.com/oasisprotocol/oasis-core/go/consensus/api/transaction"
	stakingState "github.com/oasisprotocol/oasis-core/go/consensus/cometbft/apps/staking/state"
	staking "github.com/oasisprotocol/oasis-core/go/staking/api"
	"github.com/oasisprotocol/oasis-core/go/storage/mkvs"

	"verif/sim/core"
	"verif/sim/store"
)

// c08Oracle: on the observer replica (plain-delivery path) the complete in-progress block state
// is dumped immediately before and after the DeliverTx of every transaction; for a failing
// transaction the two dumps are identical (rejected at authentication) or differ in exactly one
// record, the signer's account, whose nonce is +1 and whose general balance is -fee.
type c08Oracle struct {
	BaseOracle
	txs                             []*BuiltTx
	before                          store.Model
	viol                            *core.Violation
	checked                         int
	failedAfterAuth, rejectedAtAuth int
}

func init() {
	RegisterOracle("C08", func() Oracle { return &c08Oracle{} })
}

func c08Viol(kind, detail string) *core.Violation {
	return &core.Violation{Property: "C08", Kind: kind, Fingerprint: kind, Detail: detail}
}

func (o *c08Oracle) Init(s *Sim) *core.Violation {
	s.TxObs = append(s.TxObs, o)
	return nil
}

func (o *c08Oracle) BeforeBlock(s *Sim, h int64, txs []*BuiltTx) *core.Violation {
	o.txs = txs
	return nil
}

func (o *c08Oracle) BlockStart(*Sim, *Replica, int64) {}

func dumpState(s *Sim, st mkvs.KeyValueTree) store.Model {
	m, _, err := store.DumpTree(s.Ctx, st)
	if err != nil {
		core.Harnessf("c08: cannot dump in-progress state: %v", err)
	}
	return m
}

func (o *c08Oracle) BeforeTx(s *Sim, r *Replica, idx int, raw []byte, st mkvs.KeyValueTree) {
	if o.viol != nil || idx >= len(o.txs) {
		o.before = nil
		return
	}
	o.before = dumpState(s, st)
}

// envelopeSigner decodes the claimed signer of an envelope (harness-side, no verification).
func envelopeSigner(raw []byte) (*transaction.SignedTransaction, *transaction.Transaction) {
	var stx transaction.SignedTransaction
	if err := cbor.Unmarshal(raw, &stx); err != nil {
		return nil, nil
	}
	var tx transaction.Transaction
	if err := cbor.Unmarshal(stx.Blob, &tx); err != nil {
		return &stx, nil
	}
	return &stx, &tx
}

func (o *c08Oracle) AfterTx(s *Sim, r *Replica, idx int, raw []byte, st mkvs.KeyValueTree, res abcitypes.ResponseDeliverTx) {
	if o.viol != nil || o.before == nil || idx >= len(o.txs) {
		return
	}
	b := o.txs[idx]
	if !bytes.Equal(raw, b.Raw) {
		core.Harnessf("c08: transaction %d delivered to the observer is not the scheduled one", idx)
	}
	if res.Code == 0 {
		return // successful transactions are not this property's business
	}
	after := dumpState(s, st)
	o.checked++
	s.St.Inc("probe.c08.failed_tx_checked")
	// Keys that differ.
	var changed []string
	for k, v := range o.before {
		if av, ok := after[k]; !ok || !bytes.Equal(av, v) {
			changed = append(changed, k)
		}
	}
	for k := range after {
		if _, ok := o.before[k]; !ok {
			changed = append(changed, k)
		}
	}
	sort.Strings(changed)
	what := fmt.Sprintf("height %d tx %d (%s from signer %d, nonce %d, fee %d, gas limit %d, mutation %q) failed with %s/%d", s.Height+1, idx, b.Op.Kind, b.Op.From, b.Nonce, b.Fee, b.Gas, b.Op.Mut, res.Codespace, res.Code)

	// Independent classification from the state before the transaction.
	stx, tx := envelopeSigner(raw)
	var acctBefore *staking.Account
	authPossible := b.Authentic && b.Decodable && stx != nil && tx != nil
	if authPossible {
		addr := staking.NewAddress(stx.Signature.PublicKey)
		var err error
		acctBefore, err = stakingState.NewImmutableState(storeTree{o.before}).Account(s.Ctx, addr)
		if err != nil {
			core.Harnessf("c08: cannot decode account: %v", err)
		}
		if tx.Nonce != acctBefore.General.Nonce {
			authPossible = false
		}
		if tx.Fee != nil && acctBefore.General.Balance.Cmp(&tx.Fee.Amount) < 0 {
			authPossible = false
		}
	}
	if len(changed) == 0 {
		o.rejectedAtAuth++
		s.St.Inc("probe.c08.failed_tx_changed_nothing")
		return
	}
	if !authPossible {
		o.viol = c08Viol("unauthenticated-tx-changed-state", fmt.Sprintf("%s; it cannot have passed authentication (bad signature/encoding, wrong nonce or balance below the fee) yet %d state records changed, e.g. key %x", what, len(changed), changed[0]))
		return
	}
	// Exactly one record: the signer's account with nonce+1 and balance-fee.
	addr := staking.NewAddress(stx.Signature.PublicKey)
	acctAfter, err := stakingState.NewImmutableState(storeTree{after}).Account(s.Ctx, addr)
	if err != nil {
		core.Harnessf("c08: cannot decode account: %v", err)
	}
	expect := *acctBefore
	expect.General.Nonce++
	fee := quantity.NewQuantity()
	if tx.Fee != nil {
		fee = tx.Fee.Amount.Clone()
	}
	bal := acctBefore.General.Balance.Clone()
	if err := bal.Sub(fee); err != nil {
		core.Harnessf("c08: fee larger than balance although authentication was possible")
	}
	expect.General.Balance = *bal
	if !bytes.Equal(cbor.Marshal(&expect), cbor.Marshal(acctAfter)) {
		o.viol = c08Viol("failed-tx-changed-signer-account", fmt.Sprintf("%s; the signer's account went from %s to %s, expected only nonce+1 and balance-fee: %s", what, c08JSON(acctBefore), c08JSON(acctAfter), c08JSON(&expect)))
		return
	}
	if len(changed) != 1 {
		o.viol = c08Viol("failed-tx-changed-state", fmt.Sprintf("%s; besides the signer's fee and nonce, %d more state records changed, e.g. keys %x", what, len(changed)-1, changed[:min(3, len(changed))]))
		return
	}
	o.failedAfterAuth++
	s.St.Inc("probe.c08.failed_after_auth_fee_and_nonce_only")
}

func (o *c08Oracle) AfterBlock(*Sim, int64, *cmttypes.Block, []*BuiltTx, *BlockResult) *core.Violation {
	return o.viol
}

func (o *c08Oracle) Finish(s *Sim) (*core.Violation, bool) {
	return o.viol, o.checked >= 2
}

// storeTree adapts a dumped model to the read-only tree interface of the state packages.
type storeTree struct{ m store.Model }

func (t storeTree) Get(_ context.Context, key []byte) ([]byte, error) {
	v, ok := t.m[string(key)]
	if !ok {
		return nil, nil
	}
	return v, nil
}

func (t storeTree) NewIterator(context.Context, ...mkvs.IteratorOption) mkvs.Iterator {
	core.Harnessf("storeTree: iteration not supported")
	return nil
}

func c08JSON(v interface{}) string {
	b, err := json.Marshal(v)
	if err != nil {
		return fmt.Sprintf("%+v", v)
	}
	return string(b)
}
