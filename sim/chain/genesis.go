// Package chain is engine E1 (simchain): replicas of the real consensus application stack
// (ABCI mux + all consensus apps + MKVS + NodeDB, driven through the real CometBFT
// BlockExecutor/Handshaker/stores) under a simulated consensus engine that owns proposers,
// rounds, vote sets and timestamps, mempools, execution paths, restarts and interleavings.
package chain

import (
	"verif/sim/core"

	"fmt"
	"math"
	"net"
	"time"

	beacon "github.com/oasisprotocol/oasis-core/go/beacon/api"
	"github.com/oasisprotocol/oasis-core/go/common"
	"github.com/oasisprotocol/oasis-core/go/common/cbor"
	"github.com/oasisprotocol/oasis-core/go/common/crypto/signature"
	memorySigner "github.com/oasisprotocol/oasis-core/go/common/crypto/signature/signers/memory"
	"github.com/oasisprotocol/oasis-core/go/common/entity"
	"github.com/oasisprotocol/oasis-core/go/common/identity"
	"github.com/oasisprotocol/oasis-core/go/common/node"
	"github.com/oasisprotocol/oasis-core/go/common/quantity"
	"github.com/oasisprotocol/oasis-core/go/common/version"
	"github.com/oasisprotocol/oasis-core/go/consensus/api/transaction"
	cmt "github.com/oasisprotocol/oasis-core/go/consensus/cometbft/api"
	consensusGenesis "github.com/oasisprotocol/oasis-core/go/consensus/genesis"
	genesis "github.com/oasisprotocol/oasis-core/go/genesis/api"
	governance "github.com/oasisprotocol/oasis-core/go/governance/api"
	registry "github.com/oasisprotocol/oasis-core/go/registry/api"
	roothash "github.com/oasisprotocol/oasis-core/go/roothash/api"
	scheduler "github.com/oasisprotocol/oasis-core/go/scheduler/api"
	staking "github.com/oasisprotocol/oasis-core/go/staking/api"
	"github.com/oasisprotocol/oasis-core/go/upgrade/migrations"
	vault "github.com/oasisprotocol/oasis-core/go/vault/api"
)

// GenKnobs are the scenario knobs that determine the genesis document.
type GenKnobs struct {
	Salt           string `json:"salt"`             // makes all keys of a scenario distinct
	Entities       int    `json:"entities"`         // validator entities (first Replicas of them back replicas)
	NodesPerEntity []int  `json:"nodes_per_entity"` // validator nodes per entity
	Accounts       int    `json:"accounts"`         // plain user accounts
	EpochInterval  int64  `json:"epoch_interval"`
	// BeaconVRF, when set, selects the VRF beacon backend (workload_vrf.go).
	BeaconVRF   *VRFKnobs `json:"beacon_vrf,omitempty"`
	Debonding   uint64    `json:"debonding"`
	MaxBlockGas uint64    `json:"max_block_gas"`
	MinGasPrice uint64    `json:"min_gas_price"`
	// Fee split weights (propose, vote, next propose).
	FeeSplit [3]uint64 `json:"fee_split"`
	// Rewards.
	RewardScale      uint64 `json:"reward_scale"`
	RewardFactorSign uint64 `json:"reward_factor_sign"`
	RewardFactorProp uint64 `json:"reward_factor_prop"`
	SignThresholdNum uint64 `json:"sign_threshold_num"`
	SignThresholdDen uint64 `json:"sign_threshold_den"`
	CommonPool       uint64 `json:"common_pool"`
	// Slashing for consensus equivocation.
	SlashAmount uint64 `json:"slash_amount"`
	SlashFreeze uint64 `json:"slash_freeze"`
	// Stake thresholds (entity, validator node); BypassStake disables stake checks.
	ThresholdEntity uint64 `json:"threshold_entity"`
	ThresholdNode   uint64 `json:"threshold_node"`
	BypassStake     bool   `json:"bypass_stake"`
	// Legacy leaves the consensus feature version unset (pre-26.1 compatibility branches).
	Legacy bool `json:"legacy,omitempty"`
	// Per-entity escrow (index = entity); others get account balances only.
	EntityEscrow   []uint64 `json:"entity_escrow"`
	EntityBalance  []uint64 `json:"entity_balance"`
	AccountBalance []uint64 `json:"account_balance"`
	// AccountNonce are the genesis nonces of the plain accounts (boundary values near 2^64-1).
	AccountNonce []uint64 `json:"account_nonce,omitempty"`
	// Scheduler.
	MinValidators          int `json:"min_validators"`
	MaxValidators          int `json:"max_validators"`
	MaxValidatorsPerEntity int `json:"max_validators_per_entity"`
	// Governance.
	VotingPeriod   uint64 `json:"voting_period"`
	MinDeposit     uint64 `json:"min_deposit"`
	StakeThreshold uint8  `json:"stake_threshold"`
	// Gas table: base cost per operation family (small distinct values).
	GasBase uint64 `json:"gas_base"`
	// MinTransfer / MinDelegation / MinTransactBalance.
	MinTransfer   uint64 `json:"min_transfer"`
	MinDelegation uint64 `json:"min_delegation"`
	MinTransact   uint64 `json:"min_transact"`
	// Runtime: whether a (non-TEE) compute runtime is registered in genesis, with compute nodes.
	// Anchors is the number of leading entities whose validator nodes never expire.
	Anchors int `json:"anchors"`
	// ShortExpiry is the genesis expiration epoch of all other nodes (0 = never).
	ShortExpiry  uint64 `json:"short_expiry"`
	Runtime      bool   `json:"runtime"`
	ComputeNodes int    `json:"compute_nodes"`
	// RtMaxInMessages / RtMinInMsgFee: incoming-message queue size and minimum message fee of
	// the genesis runtime (roothash.SubmitMsg).
	RtMaxInMessages uint32 `json:"rt_max_in_messages,omitempty"`
	RtMinInMsgFee   uint64 `json:"rt_min_in_msg_fee,omitempty"`
	// Executor committee parameters of the genesis runtime (C11 application-level rounds); zero
	// values keep the defaults (group min(n,3), backup group min(n,2), no stragglers, timeout 5).
	RtGroupSize    int   `json:"rt_group_size,omitempty"`
	RtBackupSize   int   `json:"rt_backup_size,omitempty"`
	RtStragglers   int   `json:"rt_stragglers,omitempty"`
	RtRoundTimeout int64 `json:"rt_round_timeout,omitempty"`
	// RtSlashIncorrect, when not zero, is the runtime's slashing amount for incorrect results
	// (applied after a discrepancy was resolved against a node).
	RtSlashIncorrect uint64 `json:"rt_slash_incorrect,omitempty"`
	// Vaults is the number of funded genesis vaults (see addGenesisVaults); VaultGas, when not zero,
	// replaces the default vault gas costs (10000 / 5000 / 5000) by VaultGas+1..3.
	Vaults   int    `json:"vaults,omitempty"`
	VaultGas uint64 `json:"vault_gas,omitempty"`
	// KeyManager puts a non-TEE key manager runtime with key manager nodes into the genesis (see
	// addGenesisKeyManager in workload_keymanager.go). KMOwner is the owning entity; KMExpiry holds the
	// genesis expiration epoch of every key manager node (its length is the number of nodes);
	// KMNoInit is a bit mask of the nodes that register without an init response (never eligible
	// until they re-register); KMStatus selects the genesis status (0 none, 1 fresh with a policy,
	// 2 initialized with a master secret generation); KMLink makes the compute runtime (when there
	// is one) name the key manager; KMGas, when not zero, sets the gas costs to KMGas+1..3;
	// KMNodeBalance is the genesis balance of the key manager nodes' own accounts (they sign and
	// pay for their transactions).
	KeyManager    bool     `json:"km,omitempty"`
	KMOwner       int      `json:"km_owner,omitempty"`
	KMExpiry      []uint64 `json:"km_expiry,omitempty"`
	KMNoInit      int      `json:"km_no_init,omitempty"`
	KMStatus      int      `json:"km_status,omitempty"`
	KMLink        bool     `json:"km_link,omitempty"`
	KMGas         uint64   `json:"km_gas,omitempty"`
	KMNodeBalance uint64   `json:"km_node_balance,omitempty"`
}

// World holds the deterministic key material and derived identities of a scenario.
type World struct {
	K        GenKnobs
	Doc      *genesis.Document
	Entities []*EntityKeys
	Accounts []signature.Signer
	// All transaction signers: entities first, then accounts, then node keys.
	RuntimeID common.Namespace
	// KMID and KMNodes are the key manager runtime and its genesis nodes (knob KeyManager); the
	// nodes are not part of Entities[].Nodes, so no other workload re-registers them.
	KMID    common.Namespace
	KMNodes []*NodeKeys
}

// NodeKeys are the keys of one node.
type NodeKeys struct {
	Name     string
	Identity *identity.Identity
	Entity   int
	Roles    node.RolesMask
}

// EntityKeys are the keys of one entity and its nodes.
type EntityKeys struct {
	Signer signature.Signer
	Entity *entity.Entity
	Nodes  []*NodeKeys
}

func testSigner(parts ...interface{}) signature.Signer {
	return memorySigner.NewTestSigner(fmt.Sprint(parts...))
}

// NewNodeKeys derives the keys of a node.
func NewNodeKeys(salt string, ent, idx int, roles node.RolesMask) *NodeKeys {
	name := fmt.Sprintf("verif/%s/entity%d/node%d", salt, ent, idx)
	return &NodeKeys{
		Name:   name,
		Entity: ent,
		Roles:  roles,
		Identity: &identity.Identity{
			NodeSigner:      testSigner(name, "/node"),
			P2PSigner:       testSigner(name, "/p2p"),
			ConsensusSigner: testSigner(name, "/consensus"),
			VRFSigner:       testSigner(name, "/vrf"),
			TLSSigner:       testSigner(name, "/tls"),
		},
	}
}

// Descriptor builds the node descriptor.
func (nk *NodeKeys) Descriptor(w *World, expiration uint64, runtimes []*node.Runtime) *node.Node {
	var addr node.Address
	_ = addr.FromIP(net.ParseIP("127.0.0.1"), 9000)
	return &node.Node{
		Versioned:  cbor.NewVersioned(node.LatestNodeDescriptorVersion),
		ID:         nk.Identity.NodeSigner.Public(),
		EntityID:   w.Entities[nk.Entity].Entity.ID,
		Expiration: beacon.EpochTime(expiration),
		TLS:        node.TLSInfo{PubKey: nk.Identity.TLSSigner.Public()},
		P2P:        node.P2PInfo{ID: nk.Identity.P2PSigner.Public(), Addresses: []node.Address{addr}},
		Consensus: node.ConsensusInfo{
			ID:        nk.Identity.ConsensusSigner.Public(),
			Addresses: []node.ConsensusAddress{{ID: nk.Identity.ConsensusSigner.Public(), Address: addr}},
		},
		VRF:      node.VRFInfo{ID: nk.Identity.VRFSigner.Public()},
		Runtimes: runtimes,
		Roles:    nk.Roles,
	}
}

// Sign multi-signs a node descriptor with all of the node's keys.
func (nk *NodeKeys) Sign(ctx signature.Context, n *node.Node) (*node.MultiSignedNode, error) {
	return node.MultiSignNode([]signature.Signer{
		nk.Identity.NodeSigner, nk.Identity.P2PSigner, nk.Identity.ConsensusSigner, nk.Identity.VRFSigner, nk.Identity.TLSSigner,
	}, ctx, n)
}

func q(v uint64) quantity.Quantity { return *quantity.NewFromUint64(v) }

// BuildWorld derives keys and the genesis document from the knobs.
func BuildWorld(k GenKnobs) (*World, error) {
	w := &World{K: k}
	w.RuntimeID = common.NewTestNamespaceFromSeed([]byte("verif/sim/chain/runtime/"+k.Salt), common.NamespaceTest)
	for i := 0; i < k.Entities; i++ {
		es := testSigner("verif/", k.Salt, "/entity", i)
		ek := &EntityKeys{Signer: es, Entity: &entity.Entity{Versioned: cbor.NewVersioned(entity.LatestDescriptorVersion), ID: es.Public()}}
		n := 1
		if i < len(k.NodesPerEntity) {
			n = k.NodesPerEntity[i]
		}
		for j := 0; j < n; j++ {
			nk := NewNodeKeys(k.Salt, i, j, node.RoleValidator)
			ek.Nodes = append(ek.Nodes, nk)
			ek.Entity.Nodes = append(ek.Entity.Nodes, nk.Identity.NodeSigner.Public())
		}
		w.Entities = append(w.Entities, ek)
	}
	for i := 0; i < k.Accounts; i++ {
		w.Accounts = append(w.Accounts, testSigner("verif/", k.Salt, "/account", i))
	}

	gb := k.GasBase
	doc := &genesis.Document{
		Height:  1,
		ChainID: "verif-sim-" + k.Salt,
		Time:    time.Unix(1_700_000_000, 0).UTC(),
		Beacon: beacon.Genesis{
			Parameters: beacon.ConsensusParameters{
				Backend:            beacon.BackendInsecure,
				InsecureParameters: &beacon.InsecureParameters{Interval: k.EpochInterval},
			},
		},
		Registry: registry.Genesis{
			Parameters: registry.ConsensusParameters{
				DebugAllowUnroutableAddresses: true,
				DebugAllowTestRuntimes:        true,
				DebugDeployImmediately:        true,
				GasCosts: transaction.Costs{
					registry.GasOpRegisterEntity:          transaction.Gas(gb + 11),
					registry.GasOpDeregisterEntity:        transaction.Gas(gb + 12),
					registry.GasOpRegisterNode:            transaction.Gas(gb + 13),
					registry.GasOpUnfreezeNode:            transaction.Gas(gb + 14),
					registry.GasOpRegisterRuntime:         transaction.Gas(gb + 15),
					registry.GasOpRuntimeEpochMaintenance: transaction.Gas(1),
					registry.GasOpProveFreshness:          transaction.Gas(gb + 16),
				},
				MaxNodeExpiration: 1_000_000,
				EnableRuntimeGovernanceModels: map[registry.RuntimeGovernanceModel]bool{
					registry.GovernanceEntity:  true,
					registry.GovernanceRuntime: true,
				},
				TEEFeatures: &node.TEEFeatures{SGX: node.TEEFeaturesSGX{PCS: true}, FreshnessProofs: true},
			},
		},
		Scheduler: scheduler.Genesis{
			Parameters: scheduler.ConsensusParameters{
				MinValidators:          k.MinValidators,
				MaxValidators:          k.MaxValidators,
				MaxValidatorsPerEntity: k.MaxValidatorsPerEntity,
				DebugBypassStake:       k.BypassStake,
			},
		},
		Governance: governance.Genesis{
			Parameters: governance.ConsensusParameters{
				GasCosts: transaction.Costs{
					governance.GasOpSubmitProposal: transaction.Gas(gb + 21),
					governance.GasOpCastVote:       transaction.Gas(gb + 22),
				},
				StakeThreshold:                 k.StakeThreshold,
				UpgradeCancelMinEpochDiff:      beacon.EpochTime(k.VotingPeriod + 2),
				UpgradeMinEpochDiff:            beacon.EpochTime(k.VotingPeriod + 2),
				VotingPeriod:                   beacon.EpochTime(k.VotingPeriod),
				MinProposalDeposit:             q(k.MinDeposit),
				EnableChangeParametersProposal: true,
			},
		},
		RootHash: roothash.Genesis{
			Parameters: roothash.ConsensusParameters{
				GasCosts: transaction.Costs{
					roothash.GasOpComputeCommit:   transaction.Gas(gb + 31),
					roothash.GasOpProposerTimeout: transaction.Gas(gb + 32),
					roothash.GasOpEvidence:        transaction.Gas(gb + 33),
					roothash.GasOpSubmitMsg:       transaction.Gas(gb + 34),
				},
				MaxRuntimeMessages:        32,
				MaxInRuntimeMessages:      32,
				MaxEvidenceAge:            10,
				DebugDoNotSuspendRuntimes: true,
			},
		},
		Consensus: consensusGenesis.Genesis{
			Backend: cmt.BackendName,
			Parameters: consensusGenesis.Parameters{
				TimeoutCommit:     1 * time.Millisecond,
				SkipTimeoutCommit: true,
				MaxTxSize:         32 * 1024,
				MaxBlockSize:      4 * 1024 * 1024,
				MaxBlockGas:       transaction.Gas(k.MaxBlockGas),
				MaxEvidenceSize:   1024 * 1024,
				MinGasPrice:       k.MinGasPrice,
				GasCosts:          transaction.Costs{consensusGenesis.GasOpTxByte: 1},
				FeatureVersion:    featureVersion(k),
			},
		},
		Vault: &vault.Genesis{Parameters: vault.DefaultConsensusParameters},
	}

	sp := staking.ConsensusParameters{
		Thresholds: map[staking.ThresholdKind]quantity.Quantity{
			staking.KindEntity:            q(k.ThresholdEntity),
			staking.KindNodeValidator:     q(k.ThresholdNode),
			staking.KindNodeCompute:       q(k.ThresholdNode),
			staking.KindNodeObserver:      q(k.ThresholdNode),
			staking.KindNodeKeyManager:    q(k.ThresholdNode),
			staking.KindRuntimeCompute:    q(k.ThresholdNode),
			staking.KindRuntimeKeyManager: q(k.ThresholdNode),
			staking.KindKeyManagerChurp:   q(k.ThresholdNode),
		},
		DebondingInterval:                 beacon.EpochTime(k.Debonding),
		SigningRewardThresholdNumerator:   k.SignThresholdNum,
		SigningRewardThresholdDenominator: k.SignThresholdDen,
		CommissionScheduleRules:           staking.CommissionScheduleRules{RateChangeInterval: 1, RateBoundLead: 2, MaxRateSteps: 4, MaxBoundSteps: 4},
		Slashing: map[staking.SlashReason]staking.Slash{
			staking.SlashConsensusEquivocation:      {Amount: q(k.SlashAmount), FreezeInterval: beacon.EpochTime(k.SlashFreeze)},
			staking.SlashConsensusLightClientAttack: {Amount: q(k.SlashAmount), FreezeInterval: beacon.EpochTime(k.SlashFreeze)},
		},
		GasCosts: transaction.Costs{
			staking.GasOpTransfer:                transaction.Gas(gb + 1),
			staking.GasOpBurn:                    transaction.Gas(gb + 2),
			staking.GasOpAddEscrow:               transaction.Gas(gb + 3),
			staking.GasOpReclaimEscrow:           transaction.Gas(gb + 4),
			staking.GasOpAmendCommissionSchedule: transaction.Gas(gb + 5),
			staking.GasOpAllow:                   transaction.Gas(gb + 6),
			staking.GasOpWithdraw:                transaction.Gas(gb + 7),
		},
		MinDelegationAmount:       q(k.MinDelegation),
		MinTransferAmount:         q(k.MinTransfer),
		MinTransactBalance:        q(k.MinTransact),
		MaxAllowances:             8,
		FeeSplitWeightPropose:     q(k.FeeSplit[0]),
		FeeSplitWeightVote:        q(k.FeeSplit[1]),
		FeeSplitWeightNextPropose: q(k.FeeSplit[2]),
		RewardFactorEpochSigned:   q(k.RewardFactorSign),
		RewardFactorBlockProposed: q(k.RewardFactorProp),
		DebugBypassStake:          k.BypassStake,
	}
	if k.RewardScale > 0 {
		sp.RewardSchedule = []staking.RewardStep{{Until: 1_000_000, Scale: q(k.RewardScale)}}
	}
	st := staking.Genesis{
		Parameters:  sp,
		TokenSymbol: "VERIF",
		CommonPool:  q(k.CommonPool),
		Ledger:      map[staking.Address]*staking.Account{},
		Delegations: map[staking.Address]map[staking.Address]*staking.Delegation{},
	}
	total := quantity.NewFromUint64(k.CommonPool)
	add := func(v uint64) { _ = total.Add(quantity.NewFromUint64(v)) }
	for i, ek := range w.Entities {
		addr := staking.NewAddress(ek.Signer.Public())
		acct := &staking.Account{}
		if i < len(k.EntityBalance) {
			acct.General.Balance = q(k.EntityBalance[i])
			add(k.EntityBalance[i])
		}
		if i < len(k.EntityEscrow) && k.EntityEscrow[i] > 0 {
			acct.Escrow.Active.Balance = q(k.EntityEscrow[i])
			acct.Escrow.Active.TotalShares = q(k.EntityEscrow[i])
			add(k.EntityEscrow[i])
			st.Delegations[addr] = map[staking.Address]*staking.Delegation{addr: {Shares: q(k.EntityEscrow[i])}}
		}
		st.Ledger[addr] = acct
	}
	for i, s := range w.Accounts {
		addr := staking.NewAddress(s.Public())
		acct := &staking.Account{}
		if i < len(k.AccountBalance) {
			acct.General.Balance = q(k.AccountBalance[i])
			add(k.AccountBalance[i])
		}
		if i < len(k.AccountNonce) {
			acct.General.Nonce = k.AccountNonce[i]
		}
		st.Ledger[addr] = acct
	}
	if k.Vaults > 0 || k.VaultGas > 0 {
		addGenesisVaults(w, doc, &st, add)
	}
	st.TotalSupply = *total
	doc.Staking = st

	// Registry: entities, validator nodes, optional runtime with compute nodes.
	for _, ek := range w.Entities {
		se, err := entity.SignEntity(ek.Signer, registry.RegisterGenesisEntitySignatureContext, ek.Entity)
		if err != nil {
			return nil, err
		}
		doc.Registry.Entities = append(doc.Registry.Entities, se)
	}
	var rtNodes []*node.Runtime
	if k.Runtime {
		rt := &registry.Runtime{
			Versioned:   cbor.NewVersioned(registry.LatestRuntimeDescriptorVersion),
			ID:          w.RuntimeID,
			EntityID:    w.Entities[0].Entity.ID,
			Kind:        registry.KindCompute,
			TEEHardware: node.TEEHardwareInvalid,
			Executor: registry.ExecutorParameters{
				GroupSize:         uint16(max(1, min(k.ComputeNodes, 3))),
				GroupBackupSize:   uint16(max(1, min(k.ComputeNodes, 2))),
				AllowedStragglers: 0,
				RoundTimeout:      5,
				MaxMessages:       32,
			},
			TxnScheduler: registry.TxnSchedulerParameters{
				BatchFlushTimeout: 1 * time.Second,
				MaxBatchSize:      10,
				MaxBatchSizeBytes: 1024,
				ProposerTimeout:   2 * time.Second,
				MaxInMessages:     k.RtMaxInMessages,
			},
			Staking:         runtimeStakingParams(k),
			AdmissionPolicy: registry.RuntimeAdmissionPolicy{AnyNode: &registry.AnyNodeRuntimeAdmissionPolicy{}},
			Constraints: map[scheduler.CommitteeKind]map[scheduler.Role]registry.SchedulingConstraints{
				scheduler.KindComputeExecutor: {
					scheduler.RoleWorker:       {MinPoolSize: &registry.MinPoolSizeConstraint{Limit: 1}},
					scheduler.RoleBackupWorker: {MinPoolSize: &registry.MinPoolSizeConstraint{Limit: 1}},
				},
			},
			GovernanceModel: registry.GovernanceEntity,
			Deployments:     []*registry.VersionInfo{{Version: version.Version{Major: 0, Minor: 1, Patch: 0}}},
		}
		if k.RtGroupSize > 0 {
			rt.Executor.GroupSize = uint16(k.RtGroupSize)
		}
		if k.RtBackupSize > 0 {
			rt.Executor.GroupBackupSize = uint16(k.RtBackupSize)
		}
		if k.RtStragglers > 0 {
			rt.Executor.AllowedStragglers = uint16(k.RtStragglers)
		}
		if k.RtRoundTimeout > 0 {
			rt.Executor.RoundTimeout = k.RtRoundTimeout
		}
		doc.Registry.Runtimes = append(doc.Registry.Runtimes, rt)
		rtNodes = []*node.Runtime{{ID: w.RuntimeID, Version: version.Version{Major: 0, Minor: 1, Patch: 0}}}
		// Compute nodes are additional nodes of the entities (round robin).
		for c := 0; c < k.ComputeNodes; c++ {
			e := c % len(w.Entities)
			nk := NewNodeKeys(k.Salt, e, 100+c, node.RoleComputeWorker)
			w.Entities[e].Nodes = append(w.Entities[e].Nodes, nk)
			w.Entities[e].Entity.Nodes = append(w.Entities[e].Entity.Nodes, nk.Identity.NodeSigner.Public())
		}
		// Entities changed (node lists): re-sign.
		doc.Registry.Entities = nil
		for _, ek := range w.Entities {
			se, err := entity.SignEntity(ek.Signer, registry.RegisterGenesisEntitySignatureContext, ek.Entity)
			if err != nil {
				return nil, err
			}
			doc.Registry.Entities = append(doc.Registry.Entities, se)
		}
	}
	for _, ek := range w.Entities {
		for _, nk := range ek.Nodes {
			var rts []*node.Runtime
			if nk.Roles&node.RoleComputeWorker != 0 {
				rts = rtNodes
			}
			sn, err := nk.Sign(registry.RegisterGenesisNodeSignatureContext, nk.Descriptor(w, w.NodeExpiration(nk), rts))
			if err != nil {
				return nil, err
			}
			doc.Registry.Nodes = append(doc.Registry.Nodes, sn)
		}
	}
	_ = math.MaxInt64
	if k.KeyManager {
		if err := addGenesisKeyManager(w, doc); err != nil {
			return nil, err
		}
	}
	if k.BeaconVRF != nil {
		doc.Beacon.Parameters = beacon.ConsensusParameters{
			Backend: beacon.BackendVRF,
			VRFParameters: &beacon.VRFParameters{
				AlphaHighQualityThreshold: k.BeaconVRF.HQThreshold,
				Interval:                  k.EpochInterval,
				ProofSubmissionDelay:      k.BeaconVRF.Delay,
				GasCosts:                  transaction.Costs{beacon.GasOpVRFProve: transaction.Gas(gb + 61)},
			},
		}
	}
	w.Doc = doc
	return w, nil
}

func runtimeStakingParams(k GenKnobs) registry.RuntimeStakingParameters {
	p := registry.RuntimeStakingParameters{MinInMessageFee: q(k.RtMinInMsgFee)}
	if k.RtSlashIncorrect > 0 {
		p.Slashing = map[staking.SlashReason]staking.Slash{
			staking.SlashRuntimeIncorrectResults: {Amount: q(k.RtSlashIncorrect)},
		}
		p.RewardSlashBadResultsRuntimePercent = uint8(k.RtSlashIncorrect % 101)
	}
	// Half of the genesis runtimes slash for equivocation (roothash.Evidence; own PRNG).
	if er := core.NewRand(core.Derive(core.Hash64([]byte(k.Salt)), "rt-equivocation", 0)); er.Chance(1, 2) {
		if p.Slashing == nil {
			p.Slashing = map[staking.SlashReason]staking.Slash{}
		}
		p.Slashing[staking.SlashRuntimeEquivocation] = staking.Slash{Amount: q(uint64(er.Pick([]int{1, 3}) * er.Range(1, 3000)))}
		p.RewardSlashEquvocationRuntimePercent = uint8(er.Range(0, 100))
	}
	return p
}

// NodeExpiration is the expiration epoch of a node in genesis: long for the nodes that back
// replicas (anchor validators), short for the others (so that expiry and re-registration happen).
func (w *World) NodeExpiration(nk *NodeKeys) uint64 {
	if nk.Roles&node.RoleValidator != 0 && nk.Entity < w.K.Anchors {
		return 100_000
	}
	if w.K.ShortExpiry > 0 {
		return w.K.ShortExpiry
	}
	return 100_000
}

func featureVersion(k GenKnobs) *version.Version {
	if k.Legacy {
		return nil
	}
	v := migrations.Version261
	return &v
}
