package chain

// Workload extension of property C17 (registry authority, key uniqueness, stake claims): symbolic
// registry transactions that are resolved against the live committed state, each in correct and
// in deliberately flawed variants. All keys are deterministic test signers derived from the
// scenario salt; every key ever generated is remembered in the session's key book.

import (
	"context"
	"crypto/sha256"
	"encoding/binary"
	"fmt"

	beacon "github.com/oasisprotocol/oasis-core/go/beacon/api"
	"github.com/oasisprotocol/oasis-core/go/common"
	"github.com/oasisprotocol/oasis-core/go/common/cbor"
	"github.com/oasisprotocol/oasis-core/go/common/crypto/signature"
	"github.com/oasisprotocol/oasis-core/go/common/entity"
	"github.com/oasisprotocol/oasis-core/go/common/node"
	"github.com/oasisprotocol/oasis-core/go/common/quantity"
	"github.com/oasisprotocol/oasis-core/go/common/version"
	"github.com/oasisprotocol/oasis-core/go/consensus/api/transaction"
	registryState "github.com/oasisprotocol/oasis-core/go/consensus/cometbft/apps/registry/state"
	registry "github.com/oasisprotocol/oasis-core/go/registry/api"
	staking "github.com/oasisprotocol/oasis-core/go/staking/api"

	"verif/sim/core"
)

const (
	c17FreshEntities = 4
	c17PoolNodes     = 6
	c17PoolRuntimes  = 2
	c17KeyGens       = 4
)

// Key slots of a node descriptor (the node identity key is slot c17SlotNode).
const (
	c17SlotConsensus = 0
	c17SlotP2P       = 1
	c17SlotTLS       = 2
	c17SlotVRF       = 3
	c17SlotNode      = 4
)

var c17SlotNames = []string{"consensus", "p2p", "tls", "vrf", "node"}

// c17NodeRef is one node identity of the workload's universe.
type c17NodeRef struct {
	Name    string
	ID      signature.Signer
	Genesis *NodeKeys // nil for pool nodes
}

// c17Intent is what the workload meant a transaction to be (reach probes only; the oracle judges
// authority from the decoded transaction itself).
type c17Intent struct {
	Kind   string
	Flaw   string
	KeyOp  string
	Target string
}

// c17Session is the per-run state of the workload: the key book.
type c17Session struct {
	w       *World
	signers map[signature.PublicKey]signature.Signer
	names   map[signature.PublicKey]string
	order   []signature.PublicKey
	byName  map[string]signature.Signer
	intents map[string]*c17Intent
	nodes   []*c17NodeRef
	ents    []signature.Signer
}

// c17cur is the session of the simulation that is currently running in this process (one process
// executes one simulation at a time).
var c17cur *c17Session

func c17SessionFor(w *World) *c17Session {
	if c17cur != nil && c17cur.w == w {
		return c17cur
	}
	ss := &c17Session{w: w, signers: map[signature.PublicKey]signature.Signer{}, names: map[signature.PublicKey]string{}, byName: map[string]signature.Signer{}, intents: map[string]*c17Intent{}}
	for i, ek := range w.Entities {
		ss.remember(ek.Signer, fmt.Sprintf("entity%d", i))
		ss.ents = append(ss.ents, ek.Signer)
		for _, nk := range ek.Nodes {
			id := nk.Identity
			ss.remember(id.NodeSigner, nk.Name+"/node")
			ss.remember(id.ConsensusSigner, nk.Name+"/consensus/g0")
			ss.remember(id.P2PSigner, nk.Name+"/p2p/g0")
			ss.remember(id.TLSSigner, nk.Name+"/tls/g0")
			ss.remember(id.VRFSigner, nk.Name+"/vrf/g0")
			if nk.Roles&node.RoleValidator != 0 && nk.Entity < w.K.Anchors {
				continue // anchor validators back the replicas: never a target
			}
			ss.nodes = append(ss.nodes, &c17NodeRef{Name: nk.Name, ID: id.NodeSigner, Genesis: nk})
		}
	}
	for i, a := range w.Accounts {
		ss.remember(a, fmt.Sprintf("account%d", i))
	}
	for i := 0; i < c17FreshEntities; i++ {
		ss.ents = append(ss.ents, ss.key(fmt.Sprintf("c17/entity%d", i)))
	}
	for j := 0; j < c17PoolNodes; j++ {
		name := fmt.Sprintf("c17/node%d", j)
		ss.nodes = append(ss.nodes, &c17NodeRef{Name: name, ID: ss.key(name + "/node")})
	}
	c17cur = ss
	return ss
}

func (ss *c17Session) remember(s signature.Signer, name string) {
	pk := s.Public()
	if _, ok := ss.signers[pk]; ok {
		return
	}
	ss.signers[pk] = s
	ss.names[pk] = name
	ss.order = append(ss.order, pk)
}

// key returns the deterministic signer of the given name, generating it on first use.
func (ss *c17Session) key(name string) signature.Signer {
	if s, ok := ss.byName[name]; ok {
		return s
	}
	s := testSigner("verif/", ss.w.K.Salt, "/", name)
	ss.byName[name] = s
	ss.remember(s, name)
	return s
}

// subKey returns the key of a node for a slot and generation.
func (ss *c17Session) subKey(ref *c17NodeRef, slot, gen int) signature.Signer {
	if gen == 0 && ref.Genesis != nil {
		id := ref.Genesis.Identity
		switch slot {
		case c17SlotConsensus:
			return id.ConsensusSigner
		case c17SlotP2P:
			return id.P2PSigner
		case c17SlotTLS:
			return id.TLSSigner
		case c17SlotVRF:
			return id.VRFSigner
		}
	}
	return ss.key(fmt.Sprintf("%s/%s/g%d", ref.Name, c17SlotNames[slot], gen))
}

func (ss *c17Session) nameOf(pk signature.PublicKey) string {
	if n, ok := ss.names[pk]; ok {
		return n
	}
	return pk.String()
}

func c17GetKey(n *node.Node, slot int) signature.PublicKey {
	switch slot {
	case c17SlotConsensus:
		return n.Consensus.ID
	case c17SlotP2P:
		return n.P2P.ID
	case c17SlotTLS:
		return n.TLS.PubKey
	case c17SlotVRF:
		return n.VRF.ID
	}
	return n.ID
}

func c17SetKey(n *node.Node, slot int, pk signature.PublicKey) {
	switch slot {
	case c17SlotConsensus:
		n.Consensus.ID = pk
		for i := range n.Consensus.Addresses {
			n.Consensus.Addresses[i].ID = pk
		}
	case c17SlotP2P:
		n.P2P.ID = pk
	case c17SlotTLS:
		n.TLS.PubKey = pk
	case c17SlotVRF:
		n.VRF.ID = pk
	}
}

func c17IntentKey(method transaction.MethodName, nonce uint64, body []byte) string {
	h := sha256.Sum256(body)
	return fmt.Sprintf("%s/%d/%x", method, nonce, h[:12])
}

func c17Rand(op TxOp) *core.Rand {
	var b [32]byte
	binary.LittleEndian.PutUint64(b[0:], uint64(int64(op.Arg)))
	binary.LittleEndian.PutUint64(b[8:], uint64(int64(op.From)))
	binary.LittleEndian.PutUint64(b[16:], uint64(int64(op.To)))
	binary.LittleEndian.PutUint64(b[24:], uint64(int64(op.Amt)))
	return core.NewRand(core.Hash64([]byte(op.Kind), b[:]))
}

// c17Nonce resolves the nonce of a signer as the framework requires.
func c17Nonce(v TxView, op TxOp, signer signature.Signer) uint64 {
	n := v.NextNonce(signer.Public())
	if op.NonceOff < 0 && uint64(-op.NonceOff) > n {
		return 0
	}
	return uint64(int64(n) + int64(op.NonceOff))
}

// c17Fee makes sure that fresh (unfunded) signers can transact: the fee is dropped when the signer
// cannot pay it.
func c17Fee(v TxView, signer signature.Signer, fee *transaction.Fee) *transaction.Fee {
	bal := v.Account(staking.NewAddress(signer.Public())).General.Balance
	if bal.Cmp(&fee.Amount) < 0 {
		return &transaction.Fee{Gas: fee.Gas}
	}
	return fee
}

func (ss *c17Session) finish(v TxView, op TxOp, signer signature.Signer, fee *transaction.Fee, method transaction.MethodName, body interface{}, in *c17Intent) (*transaction.Transaction, signature.Signer, error) {
	tx := transaction.NewTransaction(c17Nonce(v, op, signer), c17Fee(v, signer, fee), method, body)
	ss.intents[c17IntentKey(tx.Method, tx.Nonce, tx.Body)] = in
	return tx, signer, nil
}

// otherSigner picks a transaction signer different from pk (entities first, then accounts).
func (ss *c17Session) otherSigner(rr *core.Rand, pk signature.PublicKey) signature.Signer {
	var cand []signature.Signer
	cand = append(cand, ss.ents...)
	cand = append(cand, ss.w.Accounts...)
	for i := 0; i < 8; i++ {
		s := cand[rr.Intn(len(cand))]
		if !s.Public().Equal(pk) {
			return s
		}
	}
	return cand[0]
}

func c17HasNode(list []signature.PublicKey, id signature.PublicKey) bool {
	for _, x := range list {
		if x.Equal(id) {
			return true
		}
	}
	return false
}

func (ss *c17Session) isAnchor(pk signature.PublicKey) bool {
	for i := 0; i < ss.w.K.Anchors && i < len(ss.w.Entities); i++ {
		if ss.w.Entities[i].Signer.Public().Equal(pk) {
			return true
		}
	}
	return false
}

// ---- entity registration / update ----

func c17BuildEntity(w *World, op TxOp, v TxView, _ signature.Signer, fee *transaction.Fee) (*transaction.Transaction, signature.Signer, error) {
	ss := c17SessionFor(w)
	rr := c17Rand(op)
	ctx := context.Background()
	st := registryState.NewImmutableState(v.Tree())
	// Target: fresh entities are the most frequent, anchors the least.
	var weights []int
	for i := range ss.ents {
		switch {
		case i >= len(w.Entities):
			weights = append(weights, 4)
		case i < w.K.Anchors:
			weights = append(weights, 1)
		default:
			weights = append(weights, 2)
		}
	}
	target := ss.ents[rr.Pick(weights)]
	tid := target.Public()
	var list []signature.PublicKey
	registered := false
	if cur, err := st.Entity(ctx, tid); err == nil && cur != nil {
		list = append(list, cur.Nodes...)
		registered = true
	}
	anchor := ss.isAnchor(tid)
	for i, n := 0, 1+rr.Intn(2); i < n; i++ {
		switch rr.Pick([]int{5, 2, 2, 1}) {
		case 0: // add a pool node
			id := ss.nodes[len(ss.nodes)-1-rr.Intn(c17PoolNodes)].ID.Public()
			if !c17HasNode(list, id) {
				list = append(list, id)
			}
		case 1: // add any node of the universe (possibly a node that another entity registered)
			id := ss.nodes[rr.Intn(len(ss.nodes))].ID.Public()
			if !c17HasNode(list, id) {
				list = append(list, id)
			}
		case 2: // remove a node from the list (anchors keep their list: their validators must stay eligible)
			if len(list) > 0 && !anchor {
				k := rr.Intn(len(list))
				list = append(append([]signature.PublicKey{}, list[:k]...), list[k+1:]...)
			}
		}
	}
	ent := &entity.Entity{Versioned: cbor.NewVersioned(entity.LatestDescriptorVersion), ID: tid, Nodes: list}
	flaw := []string{"", "txsigner", "descsigner", "descsigner-txowner", "ctx", "forged"}[rr.Pick([]int{9, 2, 2, 1, 1, 1})]
	other := ss.otherSigner(rr, tid)
	descSigner, txSigner := target, target
	sigCtx := registry.RegisterEntitySignatureContext
	switch flaw {
	case "txsigner":
		txSigner = other
	case "descsigner":
		descSigner, txSigner = other, other
	case "descsigner-txowner":
		descSigner = other
	case "ctx":
		sigCtx = registry.RegisterNodeSignatureContext
	case "forged":
		descSigner = other
	}
	se, err := entity.SignEntity(descSigner, sigCtx, ent)
	if err != nil {
		return nil, nil, err
	}
	if flaw == "forged" {
		se.Signature.PublicKey = tid // claims to be signed by the entity key
	}
	kind := "ent-new"
	if registered {
		kind = "ent-update"
	}
	return ss.finish(v, op, txSigner, fee, registry.MethodRegisterEntity, se, &c17Intent{Kind: kind, Flaw: flaw, Target: ss.nameOf(tid)})
}

func c17BuildDeregister(w *World, op TxOp, v TxView, _ signature.Signer, fee *transaction.Fee) (*transaction.Transaction, signature.Signer, error) {
	ss := c17SessionFor(w)
	rr := c17Rand(op)
	target := ss.ents[rr.Intn(len(ss.ents))]
	if rr.Chance(1, 2) {
		// Prefer an entity that owns a runtime but no nodes (the runtime rule alone must then refuse).
		st := registryState.NewImmutableState(v.Tree())
		ctx := context.Background()
		if rts, err := st.AllRuntimes(ctx); err == nil {
			owners := map[signature.PublicKey]bool{}
			for _, rt := range rts {
				owners[rt.EntityID] = true
			}
			var cands []signature.Signer
			for _, e := range ss.ents {
				if owners[e.Public()] {
					if has, err := st.HasEntityNodes(ctx, e.Public()); err == nil && !has {
						cands = append(cands, e)
					}
				}
			}
			if len(cands) > 0 {
				target = cands[rr.Intn(len(cands))]
			}
		}
	}
	return ss.finish(v, op, target, fee, registry.MethodDeregisterEntity, nil, &c17Intent{Kind: "dereg", Target: ss.nameOf(target.Public())})
}

// ---- node registration / update ----

func c17BuildNode(w *World, op TxOp, v TxView, _ signature.Signer, fee *transaction.Fee) (*transaction.Transaction, signature.Signer, error) {
	ss := c17SessionFor(w)
	rr := c17Rand(op)
	ctx := context.Background()
	st := registryState.NewImmutableState(v.Tree())
	var weights []int
	for _, ref := range ss.nodes {
		if ref.Genesis == nil {
			weights = append(weights, 3)
		} else {
			weights = append(weights, 2)
		}
	}
	ents, err := st.Entities(ctx)
	if err != nil || len(ents) == 0 {
		return nil, nil, nil
	}
	ref := ss.nodes[rr.Pick(weights)]
	if rr.Chance(3, 4) {
		// Prefer a node that some registered entity lists (otherwise most registrations fail on
		// the node-list rule alone).
		var listed []*c17NodeRef
		for _, x := range ss.nodes {
			for _, e := range ents {
				if e.HasNode(x.ID.Public()) {
					listed = append(listed, x)
					break
				}
			}
		}
		if len(listed) > 0 {
			ref = listed[rr.Intn(len(listed))]
		}
	}
	nid := ref.ID.Public()
	epoch := v.Epoch()
	var cur *node.Node
	if c, err := st.Node(ctx, nid); err == nil {
		cur = c
	}
	flaw := []string{"", "txsigner-entity", "txsigner-other", "nosig-node", "nosig-p2p", "nosig-consensus", "nosig-vrf", "nosig-tls", "entity-only", "ctx", "notinlist", "forged"}[rr.Pick([]int{14, 1, 1, 1, 1, 1, 1, 1, 1, 1, 2, 1})]

	// Owning entity.
	var listing, notListing []*entity.Entity
	for _, e := range ents {
		if e.HasNode(nid) {
			listing = append(listing, e)
		} else {
			notListing = append(notListing, e)
		}
	}
	var owner signature.PublicKey
	// Entities other than the current owner that list the node.
	var otherListing []*entity.Entity
	if cur != nil {
		for _, e := range listing {
			if !e.ID.Equal(cur.EntityID) {
				otherListing = append(otherListing, e)
			}
		}
	}
	switch {
	case flaw == "notinlist" && len(notListing) > 0:
		owner = notListing[rr.Intn(len(notListing))].ID
	case cur != nil && len(otherListing) > 0 && (cur.IsExpired(epoch) || rr.Chance(1, 4)) && rr.Chance(1, 2):
		// The node tries to move to another entity that lists it (mostly while it is expired but
		// still kept in the registry).
		owner = otherListing[rr.Intn(len(otherListing))].ID
	case cur != nil && !rr.Chance(1, 8):
		owner = cur.EntityID
	case len(listing) > 0 && !rr.Chance(1, 8):
		owner = listing[rr.Intn(len(listing))].ID
	default:
		owner = ents[rr.Intn(len(ents))].ID
	}

	// Descriptor: the current one (update) or a fresh one.
	var n *node.Node
	kind := "node-new"
	if cur != nil {
		kind = "node-update"
		if cur.IsExpired(epoch) {
			kind = "node-update-expired"
		}
		n = &node.Node{}
		if err := cbor.Unmarshal(cbor.Marshal(cur), n); err != nil {
			return nil, nil, err
		}
		n.EntityID = owner
	} else {
		roles := node.RoleValidator
		var rts []*node.Runtime
		if ref.Genesis != nil {
			roles = ref.Genesis.Roles
		} else if w.K.Runtime && rr.Chance(1, 4) {
			roles = node.RoleComputeWorker
		}
		if roles&node.RoleComputeWorker != 0 {
			rts = []*node.Runtime{{ID: w.RuntimeID, Version: version.Version{Major: 0, Minor: 1, Patch: 0}}}
		}
		tmpl := w.Entities[0].Nodes[0].Descriptor(w, 0, rts) // addresses, versions
		n = tmpl
		n.ID = nid
		n.EntityID = owner
		n.Roles = roles
		g := rr.Intn(2)
		for slot := c17SlotConsensus; slot <= c17SlotVRF; slot++ {
			c17SetKey(n, slot, ss.subKey(ref, slot, g).Public())
		}
	}
	n.Expiration = epoch + 1 + beacon.EpochTime(rr.Intn(3))

	// Shape operation on an update: the roles (and with them the runtimes and the stake claim of
	// the node) change. Dropping a role or a runtime of an active node is refused by
	// VerifyNodeUpdate — after the entity's stake has been checked against the new claim.
	keyOp := ""
	if cur != nil && w.K.Runtime && rr.Chance(1, 5) {
		rt := []*node.Runtime{{ID: w.RuntimeID, Version: version.Version{Major: 0, Minor: 1, Patch: 0}}}
		switch {
		case n.Roles&node.RoleComputeWorker == 0 && rr.Bool():
			n.Roles, n.Runtimes = node.RoleComputeWorker, rt
			keyOp = "roles-validator-to-compute "
		case n.Roles&node.RoleComputeWorker == 0:
			n.Roles, n.Runtimes = n.Roles|node.RoleComputeWorker, rt
			keyOp = "roles-add-compute "
		case n.Roles&node.RoleValidator == 0 && rr.Bool():
			n.Roles, n.Runtimes = node.RoleValidator, nil
			keyOp = "roles-compute-to-validator "
		case n.Roles&node.RoleValidator == 0:
			n.Roles |= node.RoleValidator
			keyOp = "roles-add-validator "
		default:
			n.Roles, n.Runtimes = node.RoleValidator, nil
			keyOp = "roles-drop-compute "
		}
	}

	// Key operation.
	rot := []int{c17SlotP2P, c17SlotTLS, c17SlotVRF}
	switch rr.Pick([]int{6, 5, 1, 3, 2, 1, 3, 2, 1}) {
	case 1: // rotate one of the P2P/TLS/VRF keys to another generation
		slot := rot[rr.Intn(3)]
		c17SetKey(n, slot, ss.subKey(ref, slot, rr.Intn(c17KeyGens)).Public())
		keyOp += "rotate-" + c17SlotNames[slot]
	case 2: // rotate the consensus key (only possible for a node that is not in the registry)
		c17SetKey(n, c17SlotConsensus, ss.subKey(ref, c17SlotConsensus, rr.Intn(c17KeyGens)).Public())
		keyOp += "rotate-consensus"
	case 3: // exchange two keys among the node's own slots
		p := rr.Perm(3)
		a, b := rot[p[0]], rot[p[1]]
		ka, kb := c17GetKey(n, a), c17GetKey(n, b)
		c17SetKey(n, a, kb)
		c17SetKey(n, b, ka)
		keyOp += "exchange-" + c17SlotNames[a] + "-" + c17SlotNames[b]
	case 4: // move a key to another slot and put a new key into the vacated slot
		p := rr.Perm(3)
		a, b := rot[p[0]], rot[p[1]]
		c17SetKey(n, a, c17GetKey(n, b))
		c17SetKey(n, b, ss.subKey(ref, b, rr.Intn(c17KeyGens)).Public())
		keyOp += "move-" + c17SlotNames[b] + "-to-" + c17SlotNames[a]
	case 5: // cycle the three keys
		kp, kt, kv := n.P2P.ID, n.TLS.PubKey, n.VRF.ID
		c17SetKey(n, c17SlotTLS, kp)
		c17SetKey(n, c17SlotVRF, kt)
		c17SetKey(n, c17SlotP2P, kv)
		keyOp += "cycle"
	case 6: // take a key of another registered node
		all, err := st.Nodes(ctx)
		if err == nil {
			var others []*node.Node
			for _, o := range all {
				if !o.ID.Equal(nid) {
					others = append(others, o)
				}
			}
			if len(others) > 0 {
				o := others[rr.Intn(len(others))]
				from := rr.Pick([]int{3, 3, 3, 3, 1})
				to := rot[rr.Intn(3)]
				if cur == nil && rr.Chance(1, 3) {
					to = c17SlotConsensus
				}
				c17SetKey(n, to, c17GetKey(o, from))
				keyOp += "steal-" + c17SlotNames[from] + "-as-" + c17SlotNames[to]
			}
		}
	case 7: // adopt a key of a node that is currently not registered (expired and removed, or never registered)
		var absent []*c17NodeRef
		for _, o := range ss.nodes {
			if o == ref {
				continue
			}
			if _, err := st.Node(ctx, o.ID.Public()); err != nil {
				absent = append(absent, o)
			}
		}
		if len(absent) > 0 {
			o := absent[rr.Intn(len(absent))]
			from := rot[rr.Intn(3)]
			to := rot[rr.Intn(3)]
			c17SetKey(n, to, ss.subKey(o, from, rr.Intn(2)).Public())
			keyOp += "adopt-" + c17SlotNames[from] + "-as-" + c17SlotNames[to]
		}
	case 8: // the same key in two slots
		p := rr.Perm(3)
		c17SetKey(n, rot[p[0]], c17GetKey(n, rot[p[1]]))
		keyOp += "dup"
	}

	// Signatures.
	need := []struct {
		slot int
		pk   signature.PublicKey
	}{{c17SlotNode, n.ID}, {c17SlotP2P, n.P2P.ID}, {c17SlotConsensus, n.Consensus.ID}, {c17SlotVRF, n.VRF.ID}, {c17SlotTLS, n.TLS.PubKey}}
	var signers []signature.Signer
	seen := map[signature.PublicKey]bool{}
	for _, k := range need {
		if flaw == "nosig-"+c17SlotNames[k.slot] || seen[k.pk] {
			continue
		}
		s, ok := ss.signers[k.pk]
		if !ok {
			return nil, nil, nil // a key the harness does not own (cannot happen: all keys come from the key book)
		}
		seen[k.pk] = true
		signers = append(signers, s)
	}
	ownerSigner := ss.signers[owner]
	sigCtx := registry.RegisterNodeSignatureContext
	txSigner := ref.ID
	switch flaw {
	case "entity-only":
		if ownerSigner == nil {
			return nil, nil, nil
		}
		signers = []signature.Signer{ownerSigner}
		if rr.Bool() {
			txSigner = ownerSigner
		}
	case "ctx":
		sigCtx = registry.RegisterEntitySignatureContext
	case "txsigner-entity":
		if ownerSigner == nil {
			return nil, nil, nil
		}
		txSigner = ownerSigner
	case "txsigner-other":
		txSigner = ss.nodes[rr.Intn(len(ss.nodes))].ID
		if txSigner.Public().Equal(nid) {
			txSigner = ss.otherSigner(rr, nid)
		}
	}
	sn, err := node.MultiSignNode(signers, sigCtx, n)
	if err != nil {
		return nil, nil, err
	}
	if flaw == "forged" && len(sn.Signatures) > 1 {
		// One signature is replaced by a signature of a different key over the same blob, still
		// claiming the original public key.
		k := rr.Intn(len(sn.Signatures))
		alt, err := signature.Sign(ss.otherSigner(rr, nid), sigCtx, sn.Blob)
		if err != nil {
			return nil, nil, err
		}
		sn.Signatures[k].Signature = alt.Signature
	}
	return ss.finish(v, op, txSigner, fee, registry.MethodRegisterNode, sn, &c17Intent{Kind: kind, Flaw: flaw, KeyOp: keyOp, Target: ref.Name})
}

// ---- runtime registration / update ----

func (ss *c17Session) runtimeID(i int) common.Namespace {
	return common.NewTestNamespaceFromSeed([]byte(fmt.Sprintf("verif/sim/chain/c17/runtime%d/%s", i, ss.w.K.Salt)), common.NamespaceTest)
}

func c17BuildRuntime(w *World, op TxOp, v TxView, _ signature.Signer, fee *transaction.Fee) (*transaction.Transaction, signature.Signer, error) {
	ss := c17SessionFor(w)
	rr := c17Rand(op)
	ctx := context.Background()
	st := registryState.NewImmutableState(v.Tree())
	epoch := v.Epoch()
	var ids []common.Namespace
	if w.K.Runtime {
		ids = append(ids, w.RuntimeID)
	}
	for i := 0; i < c17PoolRuntimes; i++ {
		ids = append(ids, ss.runtimeID(i))
	}
	id := ids[rr.Intn(len(ids))]
	var rt *registry.Runtime
	kind := "rt-new"
	var governing signature.Signer
	change := ""
	if cur, err := st.AnyRuntime(ctx, id); err == nil && cur != nil {
		kind = "rt-update"
		rt = &registry.Runtime{}
		if err := cbor.Unmarshal(cbor.Marshal(cur), rt); err != nil {
			return nil, nil, err
		}
		governing = ss.signers[cur.EntityID]
		switch rr.Pick([]int{3, 3, 3, 1, 1}) {
		case 1: // schedule a future deployment
			if len(rt.Deployments) == 1 {
				last := rt.Deployments[0]
				rt.Deployments = append(rt.Deployments, &registry.VersionInfo{Version: version.Version{Major: last.Version.Major, Minor: last.Version.Minor + 1}, ValidFrom: epoch + 2 + beacon.EpochTime(rr.Intn(3))})
				change = "deployment"
			}
		case 2: // hand the runtime over to another entity
			rt.EntityID = ss.ents[rr.Intn(len(ss.ents))].Public()
			change = "owner"
		case 3: // per-runtime stake thresholds
			rt.Staking.Thresholds = map[staking.ThresholdKind]quantity.Quantity{staking.KindNodeCompute: *quantity.NewFromUint64(uint64(rr.Intn(3)))}
			change = "thresholds"
		case 4: // entity governance -> runtime governance
			rt.GovernanceModel = registry.GovernanceRuntime
			change = "governance"
		default:
			rt.TxnScheduler.MaxBatchSize = uint64(10 + rr.Intn(5))
			change = "params"
		}
	} else {
		// A new compute runtime shaped like the genesis one.
		owner := ss.ents[rr.Intn(len(ss.ents))]
		governing = owner
		base := c17RuntimeTemplate(w)
		base.ID = id
		base.EntityID = owner.Public()
		rt = base
	}
	if governing == nil {
		governing = ss.ents[rr.Intn(len(ss.ents))]
	}
	flaw := ""
	txSigner := governing
	switch rr.Pick([]int{5, 2, 1}) {
	case 1:
		flaw = "txsigner"
		txSigner = ss.otherSigner(rr, governing.Public())
	case 2:
		// Signed by the entity named in the new descriptor (for an ownership change: the receiver).
		if s := ss.signers[rt.EntityID]; s != nil && !s.Public().Equal(governing.Public()) {
			flaw = "txsigner-newowner"
			txSigner = s
		}
	}
	return ss.finish(v, op, txSigner, fee, registry.MethodRegisterRuntime, rt, &c17Intent{Kind: kind, Flaw: flaw, KeyOp: change, Target: id.String()})
}

// c17RuntimeTemplate is a valid non-TEE compute runtime descriptor (the shape of the genesis one).
func c17RuntimeTemplate(w *World) *registry.Runtime {
	k := w.K
	k.Runtime = true
	if k.ComputeNodes < 1 {
		k.ComputeNodes = 1
	}
	if len(w.Doc.Registry.Runtimes) > 0 && w.Doc.Registry.Runtimes[0].Kind == registry.KindCompute {
		rt := &registry.Runtime{}
		if err := cbor.Unmarshal(cbor.Marshal(w.Doc.Registry.Runtimes[0]), rt); err == nil {
			return rt
		}
	}
	// No runtime in this genesis: derive the template from a scratch world with the same knobs.
	k.Salt = k.Salt + "/c17tmpl"
	k.KeyManager = false
	tw, err := BuildWorld(k)
	if err != nil || len(tw.Doc.Registry.Runtimes) == 0 {
		core.Harnessf("c17: cannot build runtime template: %v", err)
	}
	return tw.Doc.Registry.Runtimes[0]
}

// ---- stake for fresh entities ----

func c17BuildFund(w *World, op TxOp, v TxView, def signature.Signer, fee *transaction.Fee) (*transaction.Transaction, signature.Signer, error) {
	ss := c17SessionFor(w)
	rr := c17Rand(op)
	// Mostly the fresh entities, sometimes any entity.
	target := ss.ents[len(ss.ents)-1-rr.Intn(c17FreshEntities)]
	if rr.Chance(1, 5) {
		target = ss.ents[rr.Intn(len(ss.ents))]
	}
	p := v.StakingParams()
	need := quantity.NewQuantity()
	if q, ok := p.Thresholds[staking.KindEntity]; ok {
		_ = need.Add(&q)
	}
	if q, ok := p.Thresholds[staking.KindNodeValidator]; ok {
		for i := 0; i < 1+rr.Intn(4); i++ {
			_ = need.Add(&q)
		}
	}
	_ = need.Add(quantity.NewFromUint64(uint64(rr.Intn(40))))
	if need.Cmp(&p.MinDelegationAmount) < 0 {
		need = p.MinDelegationAmount.Clone()
	}
	bal := v.Account(staking.NewAddress(def.Public())).General.Balance
	avail := bal.Clone()
	if avail.Sub(&fee.Amount) != nil {
		avail = quantity.NewQuantity()
	}
	if need.Cmp(avail) > 0 {
		need = avail
	}
	return ss.finish(v, op, def, fee, staking.MethodAddEscrow, &staking.Escrow{Account: staking.NewAddress(target.Public()), Amount: *need}, &c17Intent{Kind: "fund", Target: ss.nameOf(target.Public())})
}

func init() {
	RegisterTxKind("c17.ent", c17BuildEntity)
	RegisterTxKind("c17.dereg", c17BuildDeregister)
	RegisterTxKind("c17.node", c17BuildNode)
	RegisterTxKind("c17.rt", c17BuildRuntime)
	RegisterTxKind("c17.fund", c17BuildFund)
	RegisterTxKind("c17.unfreeze", c17BuildUnfreeze)
	RegisterWorkload("C17", &Workload{
		Kinds: []string{
			"c17.ent", "c17.ent", "c17.ent", "c17.ent",
			"c17.node", "c17.node", "c17.node", "c17.node", "c17.node", "c17.node", "c17.node", "c17.node",
			"c17.dereg",
			"c17.rt", "c17.rt",
			"c17.fund", "c17.fund",
			"c17.unfreeze",
		},
		Weight: 105, // three quarters of the transactions
		Tune: func(r *core.Rand, k *ChainKnobs) {
			g := &k.Gen
			// Short epochs and short debonding so that nodes expire, are removed and re-register
			// within a run; fresh signers have no balance, so no minimum balance / gas price.
			g.EpochInterval = int64(r.Range(2, 4))
			g.Debonding = uint64(r.Pick([]int{3, 1}) + 1)
			g.ShortExpiry = uint64(r.Range(1, 3))
			g.MinTransact = 0
			g.MinGasPrice = 0
			g.MaxBlockGas = 0
			if r.Chance(1, 3) {
				g.ThresholdEntity, g.ThresholdNode = 0, 0
			}
			g.BypassStake = r.Chance(1, 8)
			if r.Chance(2, 3) {
				g.Runtime = true
				g.ComputeNodes = r.Range(1, 3)
				// The genesis runtime (owned by entity 0) and the compute nodes (round robin over
				// the entities) need stake of their own.
				for c := 0; c < g.ComputeNodes; c++ {
					g.EntityEscrow[c%g.Entities] += g.ThresholdNode
				}
				g.EntityEscrow[0] += g.ThresholdNode
			}
			for i := range k.Replicas {
				k.Replicas[i].MinGasPrice = 0
			}
		},
	})
}

// c17BuildUnfreeze asks to unfreeze a registered node (a frozen one when there is one), signed by
// the node's entity, by another entity that lists the node in its own descriptor (an entity may
// list any node; the list is only an allow-list), by some other entity, or by the transaction's
// default signer.
func c17BuildUnfreeze(w *World, op TxOp, v TxView, def signature.Signer, fee *transaction.Fee) (*transaction.Transaction, signature.Signer, error) {
	ss := c17SessionFor(w)
	rr := c17Rand(op)
	ctx := context.Background()
	st := registryState.NewImmutableState(v.Tree())
	nodes, err := st.Nodes(ctx)
	if err != nil || len(nodes) == 0 {
		return nil, nil, nil
	}
	var frozen []*node.Node
	for _, n := range nodes {
		if ns, err := st.NodeStatus(ctx, n.ID); err == nil && ns != nil && ns.IsFrozen() {
			frozen = append(frozen, n)
		}
	}
	n := nodes[rr.Intn(len(nodes))]
	if len(frozen) > 0 && rr.Chance(4, 5) {
		n = frozen[rr.Intn(len(frozen))]
	}
	signer := def
	switch rr.Pick([]int{3, 4, 2, 1}) {
	case 0:
		if s := ss.signers[n.EntityID]; s != nil {
			signer = s
		}
	case 1:
		// an entity (other than the owner) whose registered descriptor lists the node
		for _, es := range ss.ents {
			if es.Public().Equal(n.EntityID) {
				continue
			}
			if e, err := st.Entity(ctx, es.Public()); err == nil && e != nil && e.HasNode(n.ID) {
				signer = es
				break
			}
		}
	case 2:
		signer = ss.ents[rr.Intn(len(ss.ents))]
	}
	nonce := uint64(int64(v.NextNonce(signer.Public())) + int64(op.NonceOff))
	return registry.NewUnfreezeNodeTx(nonce, fee, &registry.UnfreezeNode{NodeID: n.ID}), signer, nil
}
