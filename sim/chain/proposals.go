package chain

import (
	beacon "github.com/oasisprotocol/oasis-core/go/beacon/api"
	"github.com/oasisprotocol/oasis-core/go/common/cbor"
	"github.com/oasisprotocol/oasis-core/go/common/quantity"
	"github.com/oasisprotocol/oasis-core/go/consensus/api/transaction"
	governance "github.com/oasisprotocol/oasis-core/go/governance/api"
	registry "github.com/oasisprotocol/oasis-core/go/registry/api"
	roothash "github.com/oasisprotocol/oasis-core/go/roothash/api"
	scheduler "github.com/oasisprotocol/oasis-core/go/scheduler/api"
	staking "github.com/oasisprotocol/oasis-core/go/staking/api"
	vault "github.com/oasisprotocol/oasis-core/go/vault/api"
)

// paramChange returns the change-parameters proposal selected by sel (module and field) and
// val (which of the field's boundary values).  The space covers every changeable field of the
// staking, governance, registry, roothash, scheduler and vault modules; values include zero,
// one, small and large ones (invalid combinations are refused by the modules' sanity checks,
// which is part of what is exercised).
func paramChange(sel, val int, epoch beacon.EpochTime) *governance.ProposalContent {
	q := func(v uint64) *quantity.Quantity { return quantity.NewFromUint64(v) }
	qs := []uint64{0, 1, 2, 7, 50, 1000, 1_000_000}
	qv := q(qs[val%len(qs)])
	ep := beacon.EpochTime(1 + val%4)
	b := val%2 == 0
	u8 := uint8([]int{0, 1, 2, 16, 67, 90, 100, 255}[val%8])
	u32 := uint32([]int{0, 1, 2, 32, 1 << 20}[val%5])
	u64 := uint64([]int{0, 1, 2, 10, 1 << 30}[val%5])
	n := []int{0, 1, 2, 3, 5, 100}[val%6]
	mk := func(module string, changes interface{}) *governance.ProposalContent {
		return &governance.ProposalContent{ChangeParameters: &governance.ChangeParametersProposal{Module: module, Changes: cbor.Marshal(changes)}}
	}
	gas := func(op transaction.Op) transaction.Costs {
		return transaction.Costs{op: transaction.Gas([]int{0, 1, 1000, 1 << 40}[val%4])}
	}
	switch sel % 40 {
	// staking
	case 0:
		return mk(staking.ModuleName, staking.ConsensusParameterChanges{MinTransactBalance: qv})
	case 1:
		return mk(staking.ModuleName, staking.ConsensusParameterChanges{MinCommissionRate: q([]uint64{0, 1, 20_000, 100_000, 100_001}[val%5])})
	case 2:
		return mk(staking.ModuleName, staking.ConsensusParameterChanges{DisableTransfers: &b})
	case 3:
		return mk(staking.ModuleName, staking.ConsensusParameterChanges{DisableDelegation: &b})
	case 4:
		return mk(staking.ModuleName, staking.ConsensusParameterChanges{MaxAllowances: &u32})
	case 5:
		steps := []staking.RewardStep{}
		for i := 0; i < val%3; i++ {
			steps = append(steps, staking.RewardStep{Until: epoch + beacon.EpochTime(2+3*i), Scale: *q(uint64(1 + 977*val%5000))})
		}
		return mk(staking.ModuleName, staking.ConsensusParameterChanges{RewardSchedule: &steps})
	case 6:
		return mk(staking.ModuleName, staking.ConsensusParameterChanges{GasCosts: gas(staking.GasOpTransfer)})
	case 7:
		return mk(staking.ModuleName, staking.ConsensusParameterChanges{AllowEscrowMessages: &b})
	case 8:
		return mk(staking.ModuleName, staking.ConsensusParameterChanges{FeeSplitWeightPropose: qv, FeeSplitWeightVote: q(qs[(val/7)%len(qs)]), FeeSplitWeightNextPropose: q(qs[(val/3)%len(qs)])})
	case 9:
		return mk(staking.ModuleName, staking.ConsensusParameterChanges{RewardFactorEpochSigned: qv, RewardFactorBlockProposed: q(qs[(val/5)%len(qs)])})
	case 10:
		return mk(staking.ModuleName, staking.ConsensusParameterChanges{DebondingInterval: &ep})
	case 11:
		return mk(staking.ModuleName, staking.ConsensusParameterChanges{MinTransferAmount: qv, MinDelegationAmount: q(qs[(val/7)%len(qs)])})
	// governance
	case 12, 13:
		return mk(governance.ModuleName, governance.ConsensusParameterChanges{MinProposalDeposit: q([]uint64{0, 1, 50, 250, 400, 5000}[val%6])})
	case 14:
		return mk(governance.ModuleName, governance.ConsensusParameterChanges{VotingPeriod: &ep})
	case 15:
		return mk(governance.ModuleName, governance.ConsensusParameterChanges{StakeThreshold: &u8})
	case 16:
		return mk(governance.ModuleName, governance.ConsensusParameterChanges{UpgradeMinEpochDiff: &ep})
	case 17:
		return mk(governance.ModuleName, governance.ConsensusParameterChanges{UpgradeCancelMinEpochDiff: &ep})
	case 18:
		if val%5 == 0 { // rarely: it ends all further parameter changes of the run
			f := false
			return mk(governance.ModuleName, governance.ConsensusParameterChanges{EnableChangeParametersProposal: &f})
		}
		return mk(governance.ModuleName, governance.ConsensusParameterChanges{GasCosts: gas(governance.GasOpCastVote)})
	// registry
	case 19:
		return mk(registry.ModuleName, registry.ConsensusParameterChanges{MaxNodeExpiration: &ep})
	case 20:
		return mk(registry.ModuleName, registry.ConsensusParameterChanges{DisableRuntimeRegistration: &b})
	case 21:
		return mk(registry.ModuleName, registry.ConsensusParameterChanges{DisableKeyManagerRuntimeRegistration: &b})
	case 22:
		return mk(registry.ModuleName, registry.ConsensusParameterChanges{MaxRuntimeDeployments: &u8})
	case 23:
		return mk(registry.ModuleName, registry.ConsensusParameterChanges{EnableRuntimeGovernanceModels: map[registry.RuntimeGovernanceModel]bool{registry.GovernanceEntity: true, registry.GovernanceRuntime: b}})
	case 24:
		return mk(registry.ModuleName, registry.ConsensusParameterChanges{GasCosts: gas(registry.GasOpRegisterNode)})
	// roothash
	case 25:
		return mk(roothash.ModuleName, roothash.ConsensusParameterChanges{MaxRuntimeMessages: &u32})
	case 26:
		return mk(roothash.ModuleName, roothash.ConsensusParameterChanges{MaxInRuntimeMessages: &u32})
	case 27:
		return mk(roothash.ModuleName, roothash.ConsensusParameterChanges{MaxEvidenceAge: &u64})
	case 28:
		return mk(roothash.ModuleName, roothash.ConsensusParameterChanges{MaxPastRootsStored: &u64})
	case 29:
		return mk(roothash.ModuleName, roothash.ConsensusParameterChanges{GasCosts: gas(roothash.GasOpSubmitMsg)})
	// scheduler
	case 30:
		return mk(scheduler.ModuleName, scheduler.ConsensusParameterChanges{MaxValidators: &n})
	case 31:
		// (the minimum alone, or minimum and maximum together in one proposal)
		m := 1 + val%3
		if (val/3)%2 == 1 {
			mx := []int{1, 2, 3, 5}[(val/6)%4]
			return mk(scheduler.ModuleName, scheduler.ConsensusParameterChanges{MinValidators: &m, MaxValidators: &mx})
		}
		return mk(scheduler.ModuleName, scheduler.ConsensusParameterChanges{MinValidators: &m})
	case 32:
		d := scheduler.VotingPowerDistribution(val % 3)
		return mk(scheduler.ModuleName, scheduler.ConsensusParameterChanges{VotingPowerDistribution: &d})
	// vault
	case 33:
		return mk(vault.ModuleName, vault.ConsensusParameterChanges{MaxAuthorityAddresses: &u8})
	case 34:
		return mk(vault.ModuleName, vault.ConsensusParameterChanges{GasCosts: gas(vault.GasOpCreate)})
	// malformed / unknown
	case 35:
		return &governance.ProposalContent{ChangeParameters: &governance.ChangeParametersProposal{Module: "verif-no-such-module", Changes: cbor.Marshal(map[string]int{"x": val})}}
	case 36:
		return &governance.ProposalContent{ChangeParameters: &governance.ChangeParametersProposal{Module: staking.ModuleName, Changes: cbor.RawMessage{0x83, 0x01, 0x02, 0x03}}}
	case 37:
		return &governance.ProposalContent{ChangeParameters: &governance.ChangeParametersProposal{Module: governance.ModuleName, Changes: cbor.Marshal(map[string]int{})}}
	default:
		return nil
	}
}
