package chain

import (
	"context"
	"fmt"
	"os"
	"path/filepath"
	"time"

	dbm "github.com/cometbft/cometbft-db"
	abcitypes "github.com/cometbft/cometbft/abci/types"
	cmtcs "github.com/cometbft/cometbft/consensus"
	cmtlog "github.com/cometbft/cometbft/libs/log"
	"github.com/cometbft/cometbft/mempool"
	"github.com/cometbft/cometbft/proxy"
	sm "github.com/cometbft/cometbft/state"
	cmtstore "github.com/cometbft/cometbft/store"
	cmttypes "github.com/cometbft/cometbft/types"

	"github.com/oasisprotocol/oasis-core/go/common"
	"github.com/oasisprotocol/oasis-core/go/consensus/cometbft/abci"
	cmtapi "github.com/oasisprotocol/oasis-core/go/consensus/cometbft/api"
	beaconApp "github.com/oasisprotocol/oasis-core/go/consensus/cometbft/apps/beacon"
	governanceApp "github.com/oasisprotocol/oasis-core/go/consensus/cometbft/apps/governance"
	keymanagerApp "github.com/oasisprotocol/oasis-core/go/consensus/cometbft/apps/keymanager"
	registryApp "github.com/oasisprotocol/oasis-core/go/consensus/cometbft/apps/registry"
	roothashApp "github.com/oasisprotocol/oasis-core/go/consensus/cometbft/apps/roothash"
	schedulerApp "github.com/oasisprotocol/oasis-core/go/consensus/cometbft/apps/scheduler"
	stakingApp "github.com/oasisprotocol/oasis-core/go/consensus/cometbft/apps/staking"
	vaultApp "github.com/oasisprotocol/oasis-core/go/consensus/cometbft/apps/vault"
	tmbeacon "github.com/oasisprotocol/oasis-core/go/consensus/cometbft/beacon"
	"github.com/oasisprotocol/oasis-core/go/roothash/api/commitment"

	"verif/sim/core"
)

// ReplicaConfig is the local (non-consensus) configuration of a replica.
type ReplicaConfig struct {
	Backend     string `json:"backend"` // badger | pathbadger
	MemoryOnly  bool   `json:"memory_only"`
	PruneKeep   uint64 `json:"prune_keep"` // 0 = no pruning
	MinGasPrice uint64 `json:"min_gas_price"`
	ProbeApps   bool   `json:"probe_apps"`
	// Observer marks the extra replica that always executes blocks on the plain-delivery path
	// (one DeliverTx call per transaction) so that oracles can observe the in-progress block
	// state before and after every transaction. It never proposes.
	Observer bool `json:"observer,omitempty"`
}

// Replica is one node: real application server + real CometBFT execution machinery.
type Replica struct {
	Idx  int
	W    *World
	Node *NodeKeys
	Cfg  ReplicaConfig
	Dir  string

	srv    *abci.ApplicationServer
	inter  *interposer
	conns  proxy.AppConns
	cancel context.CancelFunc

	stateDB, blockDB dbm.DB
	stateStore       sm.Store
	blockStore       *cmtstore.BlockStore
	exec             *sm.BlockExecutor
	State            sm.State
	mp               *simMempool
	genDoc           *cmttypes.GenesisDoc

	Up bool
	// extraApps are harness probe apps registered on every (re)start.
	extraApps func() []cmtapi.Application
	// crashPoint, when set, is called at the CometBFT-level crash points of Apply (chain-level C07).
	crashPoint func(name string)
}

// simMempool is the simulator-owned mempool: block contents are scripted.
type simMempool struct {
	next cmttypes.Txs
}

func (m *simMempool) CheckTx(cmttypes.Tx, func(*abcitypes.Response), mempool.TxInfo) error {
	return nil
}
func (m *simMempool) RemoveTxByKey(cmttypes.TxKey) error           { return nil }
func (m *simMempool) ReapMaxBytesMaxGas(int64, int64) cmttypes.Txs { return m.next }
func (m *simMempool) ReapMaxTxs(int) cmttypes.Txs                  { return m.next }
func (m *simMempool) Lock()                                        {}
func (m *simMempool) Unlock()                                      {}
func (m *simMempool) Update(int64, cmttypes.Txs, []*abcitypes.ResponseDeliverTx, mempool.PreCheckFunc, mempool.PostCheckFunc) error {
	return nil
}
func (m *simMempool) FlushAppConn() error           { return nil }
func (m *simMempool) Flush()                        {}
func (m *simMempool) TxsAvailable() <-chan struct{} { return nil }
func (m *simMempool) EnableTxsAvailable()           {}
func (m *simMempool) Size() int                     { return len(m.next) }
func (m *simMempool) SizeBytes() int64              { return 0 }

// simEvpool hands out the evidence scripted for the next block and accepts everything.
type simEvpool struct {
	next []cmttypes.Evidence
}

func (e *simEvpool) PendingEvidence(int64) ([]cmttypes.Evidence, int64) {
	var sz int64
	for _, ev := range e.next {
		sz += int64(len(ev.Bytes()))
	}
	return e.next, sz
}
func (e *simEvpool) AddEvidence(cmttypes.Evidence) error       { return nil }
func (e *simEvpool) Update(sm.State, cmttypes.EvidenceList)    {}
func (e *simEvpool) CheckEvidence(cmttypes.EvidenceList) error { return nil }

// interposer forwards every ABCI call to the real mux and gives the simulator a scheduling
// point before and after each one; it also recovers panics so that C10 can attribute them.
type interposer struct {
	abcitypes.Application
	before func(call string)
	after  func(call string)
	// lastPanic is set when an ABCI call panicked (the panic is re-raised to CometBFT).
	lastPanic interface{}
	lastStack string
	// lastDeliver is the response of the most recent DeliverTx call.
	lastDeliver abcitypes.ResponseDeliverTx
	lastTx      []byte
	// crash, when set, is called immediately after the mux returned from an ABCI call and before
	// anything else runs (chain-level C07: the instant at which a crash image may be taken).
	crash func(call string)
}

func (i *interposer) wrap(call string, f func()) {
	if i.before != nil {
		i.before(call)
	}
	pv, stack := core.Guard(f)
	if pv != nil {
		i.lastPanic, i.lastStack = pv, stack
		panic(pv)
	}
	if i.crash != nil {
		i.crash(call)
	}
	if i.after != nil {
		i.after(call)
	}
}

func (i *interposer) BeginBlock(r abcitypes.RequestBeginBlock) (res abcitypes.ResponseBeginBlock) {
	i.wrap("BeginBlock", func() { res = i.Application.BeginBlock(r) })
	return
}
func (i *interposer) DeliverTx(r abcitypes.RequestDeliverTx) (res abcitypes.ResponseDeliverTx) {
	i.lastTx = r.Tx
	i.wrap("DeliverTx", func() { res = i.Application.DeliverTx(r); i.lastDeliver = res })
	return
}
func (i *interposer) EndBlock(r abcitypes.RequestEndBlock) (res abcitypes.ResponseEndBlock) {
	i.wrap("EndBlock", func() { res = i.Application.EndBlock(r) })
	return
}
func (i *interposer) Commit() (res abcitypes.ResponseCommit) {
	i.wrap("Commit", func() { res = i.Application.Commit() })
	return
}
func (i *interposer) PrepareProposal(r abcitypes.RequestPrepareProposal) (res abcitypes.ResponsePrepareProposal) {
	i.wrap("PrepareProposal", func() { res = i.Application.PrepareProposal(r) })
	return
}
func (i *interposer) ProcessProposal(r abcitypes.RequestProcessProposal) (res abcitypes.ResponseProcessProposal) {
	i.wrap("ProcessProposal", func() { res = i.Application.ProcessProposal(r) })
	return
}
func (i *interposer) InitChain(r abcitypes.RequestInitChain) (res abcitypes.ResponseInitChain) {
	i.wrap("InitChain", func() { res = i.Application.InitChain(r) })
	return
}
func (i *interposer) CheckTx(r abcitypes.RequestCheckTx) (res abcitypes.ResponseCheckTx) {
	i.wrap("CheckTx", func() { res = i.Application.CheckTx(r) })
	return
}

// NewReplica creates (but does not start) a replica.
func NewReplica(w *World, idx int, node *NodeKeys, cfg ReplicaConfig, dir string, genDoc *cmttypes.GenesisDoc) *Replica {
	return &Replica{Idx: idx, W: w, Node: node, Cfg: cfg, Dir: dir, genDoc: genDoc, stateDB: dbm.NewMemDB(), blockDB: dbm.NewMemDB(), mp: &simMempool{}}
}

// Start (re)starts the replica: application server, apps, handshake (InitChain or replay).
func (r *Replica) Start() error {
	cancel, err := r.startApp()
	if err != nil {
		return err
	}
	st, err := r.stateStore.LoadFromDBOrGenesisDoc(r.genDoc)
	if err != nil {
		cancel()
		return fmt.Errorf("load state: %w", err)
	}
	hs := cmtcs.NewHandshaker(r.stateStore, st, r.blockStore, r.genDoc)
	hs.SetLogger(cmtlog.NewNopLogger())
	if err := hs.Handshake(r.conns); err != nil {
		cancel()
		return fmt.Errorf("handshake: %w", err)
	}
	if st, err = r.stateStore.Load(); err != nil {
		cancel()
		return fmt.Errorf("reload state: %w", err)
	}
	r.State = st
	r.exec = sm.NewBlockExecutor(r.stateStore, cmtlog.NewNopLogger(), r.conns.Consensus(), r.mp, &simEvpool{}, r.blockStore)
	r.Up = true
	return nil
}

// startApp starts the application server with all applications, the ABCI connections and opens
// the CometBFT stores; it does not run the handshake (a node that joins by state sync does not).
func (r *Replica) startApp() (context.CancelFunc, error) {
	ctx, cancel := context.WithCancel(context.Background())
	r.cancel = cancel
	pruneCfg := abci.PruneConfig{Strategy: abci.PruneNone, PruneInterval: 1000 * time.Hour}
	if r.Cfg.PruneKeep > 0 {
		pruneCfg = abci.PruneConfig{Strategy: abci.PruneKeepN, NumKept: r.Cfg.PruneKeep, PruneInterval: 1000 * time.Hour}
	}
	if !r.Cfg.MemoryOnly {
		if err := os.MkdirAll(r.Dir, 0o755); err != nil {
			return nil, err
		}
	}
	appCfg := &abci.ApplicationConfig{
		DataDir:                   filepath.Join(r.Dir, "abci"),
		StorageBackend:            r.Cfg.Backend,
		Pruning:                   pruneCfg,
		MinGasPrice:               r.Cfg.MinGasPrice,
		DisableCheckpointer:       true,
		CheckpointerCheckInterval: 1000 * time.Hour,
		Identity:                  r.Node.Identity,
		MemoryOnlyStorage:         r.Cfg.MemoryOnly,
		InitialHeight:             r.W.Doc.Height,
		ChainContext:              r.W.Doc.ChainContext(),
	}
	if !r.Cfg.MemoryOnly {
		_ = os.MkdirAll(appCfg.DataDir, 0o755)
	}
	srv, err := abci.NewApplicationServer(ctx, nil, appCfg)
	if err != nil {
		cancel()
		return nil, fmt.Errorf("NewApplicationServer: %w", err)
	}
	r.srv = srv
	state := srv.State()
	md := srv.MessageDispatcher()
	beaconClient := tmbeacon.New(0, r.W.Doc.Height, nil, tmbeacon.NewStateQueryFactory(state))
	staking := stakingApp.New(state, md)
	apps := []cmtapi.Application{
		beaconApp.New(),
		governanceApp.New(state, md),
		keymanagerApp.New(state),
		registryApp.New(state, md),
		roothashApp.New(state, md, nopECN{}),
		schedulerApp.New(state, md),
		staking,
		vaultApp.New(state, md),
	}
	if r.extraApps != nil {
		apps = append(apps, r.extraApps()...)
	}
	for _, app := range apps {
		if err := srv.Register(app); err != nil {
			cancel()
			return nil, fmt.Errorf("register %s: %w", app.Name(), err)
		}
		app.Subscribe()
	}
	if err := srv.SetEpochtime(beaconClient); err != nil {
		cancel()
		return nil, err
	}
	if err := srv.SetTransactionAuthHandler(staking); err != nil {
		cancel()
		return nil, err
	}
	if err := srv.Start(); err != nil {
		cancel()
		return nil, fmt.Errorf("mux start: %w", err)
	}
	r.inter = &interposer{Application: srv.Mux()}
	r.conns = proxy.NewAppConns(proxy.NewLocalClientCreator(r.inter), proxy.NopMetrics())
	r.conns.SetLogger(cmtlog.NewNopLogger())
	if err := r.conns.Start(); err != nil {
		cancel()
		return nil, fmt.Errorf("app conns: %w", err)
	}
	r.stateStore = sm.NewStore(r.stateDB, sm.StoreOptions{})
	r.blockStore = cmtstore.NewBlockStore(r.blockDB)
	return cancel, nil
}

// Stop stops the replica gracefully (state on disk / in the kept CometBFT databases survives).
func (r *Replica) Stop() {
	if !r.Up {
		return
	}
	r.Up = false
	_ = r.conns.Stop()
	r.srv.Stop()
	r.srv.Cleanup()
	r.cancel()
}

var nopLogger = cmtlog.NewNopLogger()

type nopECN struct{}

func (nopECN) DeliverExecutorCommitment(common.Namespace, *commitment.ExecutorCommitment) {}
