package chain

import (
	"bytes"
	"context"
	"crypto/sha512"
	"encoding/hex"
	"fmt"
	"math"

	"github.com/oasisprotocol/curve25519-voi/primitives/ed25519"

	beacon "github.com/oasisprotocol/oasis-core/go/beacon/api"
	"github.com/oasisprotocol/oasis-core/go/common/cbor"
	"github.com/oasisprotocol/oasis-core/go/common/crypto/signature"
	"github.com/oasisprotocol/oasis-core/go/common/quantity"
	"github.com/oasisprotocol/oasis-core/go/common/version"
	"github.com/oasisprotocol/oasis-core/go/consensus/api/transaction"
	stakingState "github.com/oasisprotocol/oasis-core/go/consensus/cometbft/apps/staking/state"
	governance "github.com/oasisprotocol/oasis-core/go/governance/api"
	registry "github.com/oasisprotocol/oasis-core/go/registry/api"
	staking "github.com/oasisprotocol/oasis-core/go/staking/api"
	"github.com/oasisprotocol/oasis-core/go/storage/mkvs"
	upgrade "github.com/oasisprotocol/oasis-core/go/upgrade/api"
)

// TxOp is a symbolic client transaction. It is resolved against the live state when executed,
// so removing earlier operations never invalidates it.
type TxOp struct {
	Kind string `json:"kind"`
	From int    `json:"from"`         // signer index (entities first, then accounts)
	To   int    `json:"to,omitempty"` // target index
	// Amt selects the amount: 0..1000 = permille of the relevant balance; special codes above.
	Amt int `json:"amt,omitempty"`
	// Fee amount (base units) and gas mode: 0 = generous limit, 1 = exact need unknown -> small, g>=2 = limit g-2.
	Fee     uint64 `json:"fee,omitempty"`
	GasMode int    `json:"gas,omitempty"`
	// GasFit, when > 0, sets the gas limit to the size of the signed transaction (one gas per
	// byte) plus GasFit-1: a limit in the neighbourhood of what the method itself charges, so that
	// the gas runs out at one of the later charge points inside the handler (a second operation, a
	// message executed on behalf of a vault) rather than before the handler starts.
	GasFit int `json:"gasfit,omitempty"`
	// NonceOff is added to the expected nonce (0 = valid).
	NonceOff int `json:"nonce_off,omitempty"`
	// Mut alters the signed envelope: "" | badsig | flip | otherchain | ctx | nochain | trunc | garbage | oversize
	Mut  string `json:"mut,omitempty"`
	MutA int    `json:"mut_a,omitempty"`
	// Arg is a kind-specific small integer (proposal kind, vote, commission rate...).
	Arg int `json:"arg,omitempty"`
	// Replicas is a bitmask of mempools that see the transaction (CheckTx); 0 = all.
	Replicas int `json:"replicas,omitempty"`
	// Replay resubmits the raw bytes of an earlier transaction (index modulo history) instead.
	Replay int `json:"replay,omitempty"`
}

// Amount special codes.
const (
	AmtZero     = 2000
	AmtAll      = 2001
	AmtAllPlus1 = 2002
	AmtMaxU64   = 2003
	Amt2p255    = 2004
	AmtOne      = 2005
	AmtMin      = 2006 // exactly the relevant minimum
	AmtMinLess1 = 2007
)

func resolveAmount(code int, base *quantity.Quantity, min uint64) quantity.Quantity {
	switch code {
	case AmtZero:
		return *quantity.NewFromUint64(0)
	case AmtAll:
		return *base.Clone()
	case AmtAllPlus1:
		x := base.Clone()
		_ = x.Add(quantity.NewFromUint64(1))
		return *x
	case AmtMaxU64:
		return *quantity.NewFromUint64(math.MaxUint64)
	case Amt2p255:
		x := quantity.NewQuantity()
		b := make([]byte, 32)
		b[0] = 0x80
		_ = x.UnmarshalBinary(b)
		return *x
	case AmtOne:
		return *quantity.NewFromUint64(1)
	case AmtMin:
		return *quantity.NewFromUint64(min)
	case AmtMinLess1:
		if min == 0 {
			return *quantity.NewFromUint64(0)
		}
		return *quantity.NewFromUint64(min - 1)
	}
	if code < 0 {
		code = 0
	}
	if code > 1000 {
		code = 1000
	}
	x := base.Clone()
	_ = x.Mul(quantity.NewFromUint64(uint64(code)))
	_ = x.Quo(quantity.NewFromUint64(1000))
	return *x
}

// Signer returns the idx-th transaction signer (entities first, then accounts).
func (w *World) Signer(idx int) signature.Signer {
	n := len(w.Entities) + len(w.Accounts)
	idx = ((idx % n) + n) % n
	if idx < len(w.Entities) {
		return w.Entities[idx].Signer
	}
	return w.Accounts[idx-len(w.Entities)]
}

// NumSigners is the number of ordinary transaction signers.
func (w *World) NumSigners() int { return len(w.Entities) + len(w.Accounts) }

// Addr returns the staking address of the idx-th signer.
func (w *World) Addr(idx int) staking.Address { return staking.NewAddress(w.Signer(idx).Public()) }

// BuiltTx is a resolved transaction.
type BuiltTx struct {
	Raw    []byte
	Op     TxOp
	Signer signature.PublicKey
	Nonce  uint64
	Fee    uint64
	Gas    uint64
	Method transaction.MethodName
	// Authentic: the envelope carries a valid signature by Signer over exactly these bytes under
	// this chain's transaction context (computed by the harness, independently of the code).
	Authentic bool
	// Decodable: the bytes decode to a signed transaction at all.
	Decodable bool
}

// TxView is the read access to chain state that transaction resolution needs.
type TxView interface {
	Account(addr staking.Address) *staking.Account
	Epoch() beacon.EpochTime
	StakingParams() *staking.ConsensusParameters
	NextNonce(pk signature.PublicKey) uint64 // committed nonce + number of pending transactions
	ActiveProposals() []uint64
	NodeForRefresh(sel int) (*NodeKeys, uint64) // node to (re-)register and its new expiration
	// Tree is the committed state tree the view reads from (for extension transaction kinds).
	Tree() mkvs.ImmutableKeyValueTree
	// Height is the height of the committed state the view reads from.
	Height() int64
}

// TxBuilder builds the transaction of an extension kind. It may return a different signer than
// the default (op.From); returning a nil transaction skips the operation.
type TxBuilder func(w *World, op TxOp, v TxView, defaultSigner signature.Signer, fee *transaction.Fee) (*transaction.Transaction, signature.Signer, error)

var extraTxKinds = map[string]TxBuilder{}

// RegisterTxKind registers an extension transaction kind (used by property-specific workloads).
// The builder must use v.NextNonce(signer.Public()) (+ op.NonceOff) as the nonce.
func RegisterTxKind(kind string, b TxBuilder) { extraTxKinds[kind] = b }

// BuildTx resolves a symbolic transaction.
func (w *World) BuildTx(op TxOp, v TxView, seq int) (*BuiltTx, error) {
	signer := w.Signer(op.From)
	from := staking.NewAddress(signer.Public())
	acct := v.Account(from)
	params := v.StakingParams()
	var tx *transaction.Transaction
	gas := transaction.Gas(100_000)
	switch {
	case op.GasMode == 1:
		gas = 5
	case op.GasMode >= 2:
		gas = transaction.Gas(op.GasMode - 2)
	}
	fee := &transaction.Fee{Amount: *quantity.NewFromUint64(op.Fee), Gas: gas}
	nonce := v.NextNonce(signer.Public())
	switch {
	case op.NonceOff < 0 && uint64(-op.NonceOff) > nonce:
		nonce = 0
	default:
		nonce = uint64(int64(nonce) + int64(op.NonceOff))
	}
	to := w.Addr(op.To)
	bal := &acct.General.Balance
	minXfer := params.MinTransferAmount.ToBigInt().Uint64()
	minDeleg := params.MinDelegationAmount.ToBigInt().Uint64()
	switch op.Kind {
	case "transfer":
		tx = staking.NewTransferTx(nonce, fee, &staking.Transfer{To: to, Amount: resolveAmount(op.Amt, bal, minXfer)})
	case "burn":
		tx = staking.NewBurnTx(nonce, fee, &staking.Burn{Amount: resolveAmount(op.Amt, bal, 1)})
	case "escrow":
		tx = staking.NewAddEscrowTx(nonce, fee, &staking.Escrow{Account: to, Amount: resolveAmount(op.Amt, bal, minDeleg)})
	case "reclaim":
		if op.From%w.NumSigners() < w.K.Anchors {
			// Documented precondition of C10: the anchor validators stay staked. Anchor
			// entities never reclaim from their own escrow account.
			for op.To%w.NumSigners() < w.K.Anchors {
				op.To++
			}
			to = w.Addr(op.To)
		}
		// Reclaim from an escrow account in which the signer actually holds shares, when there is
		// one (starting the search at the symbolic target).
		shares := quantity.NewQuantity()
		ist := stakingState.NewImmutableState(v.Tree())
		for i := 0; i < w.NumSigners(); i++ {
			cand := op.To + i
			if op.From%w.NumSigners() < w.K.Anchors && cand%w.NumSigners() < w.K.Anchors {
				continue
			}
			if d, err := ist.Delegation(context.Background(), from, w.Addr(cand)); err == nil && d != nil && !d.Shares.IsZero() {
				to = w.Addr(cand)
				shares = d.Shares.Clone()
				break
			}
		}
		tx = staking.NewReclaimEscrowTx(nonce, fee, &staking.ReclaimEscrow{Account: to, Shares: resolveAmount(op.Amt, shares, 1)})
	case "allow":
		tx = staking.NewAllowTx(nonce, fee, &staking.Allow{Beneficiary: to, Negative: op.Arg%3 == 0, AmountChange: resolveAmount(op.Amt, bal, 1)})
	case "withdraw":
		src := v.Account(to)
		b := quantity.NewQuantity()
		if src != nil {
			b = src.General.Balance.Clone()
		}
		tx = staking.NewWithdrawTx(nonce, fee, &staking.Withdraw{From: to, Amount: resolveAmount(op.Amt, b, 1)})
	case "amend":
		ep := v.Epoch()
		rate := quantity.NewFromUint64(uint64(op.Arg%11) * 10_000)
		tx = staking.NewAmendCommissionScheduleTx(nonce, fee, &staking.AmendCommissionSchedule{Amendment: staking.CommissionSchedule{
			Rates:  []staking.CommissionRateStep{{Start: ep + 3, Rate: *rate}},
			Bounds: []staking.CommissionRateBoundStep{{Start: ep + 3, RateMin: *quantity.NewFromUint64(0), RateMax: *quantity.NewFromUint64(100_000)}},
		}})
	case "propose":
		tx = governance.NewSubmitProposalTx(nonce, fee, w.proposalContent(op, v))
	case "vote":
		ids := v.ActiveProposals()
		id := uint64(op.Arg)
		if len(ids) > 0 {
			id = ids[op.Arg%len(ids)]
			if op.Arg >= 1000 {
				id = ids[len(ids)-1] // the most recent proposal
			}
		}
		tx = governance.NewCastVoteTx(nonce, fee, &governance.ProposalVote{ID: id, Vote: governance.Vote(1 + op.To%3)})
	case "regnode":
		nk, exp := v.NodeForRefresh(op.Arg)
		if nk == nil {
			return nil, nil
		}
		signer = nk.Identity.NodeSigner
		nonce = v.NextNonce(signer.Public())
		if op.NonceOff != 0 {
			nonce = uint64(int64(nonce) + int64(op.NonceOff))
		}
		sn, err := nk.Sign(registry.RegisterNodeSignatureContext, nk.Descriptor(w, exp, nil))
		if err != nil {
			return nil, err
		}
		tx = registry.NewRegisterNodeTx(nonce, fee, sn)
	case "deregister":
		tx = registry.NewDeregisterEntityTx(nonce, fee)
	case "unknown":
		tx = transaction.NewTransaction(nonce, fee, transaction.MethodName("verif.Nonexistent"), []byte("x"))
	case "malformed":
		tx = transaction.NewTransaction(nonce, fee, staking.MethodTransfer, cbor.RawMessage{0x83, 0x01, 0x02, 0x03})
	default:
		b, ok := extraTxKinds[op.Kind]
		if !ok {
			return nil, fmt.Errorf("unknown tx kind %q", op.Kind)
		}
		var err error
		tx, signer, err = b(w, op, v, signer, fee)
		if err != nil {
			return nil, err
		}
		if tx == nil {
			return nil, nil
		}
		nonce = tx.Nonce
	}
	bt := &BuiltTx{Op: op, Signer: signer.Public(), Nonce: nonce, Fee: op.Fee, Gas: uint64(gas), Method: tx.Method}
	st, err := transaction.Sign(signer, tx)
	if err != nil {
		return nil, err
	}
	if op.GasFit > 0 && tx.Fee != nil {
		// (the size depends on the encoded limit: iterate to the fixed point)
		for i := 0; i < 4; i++ {
			want := transaction.Gas(len(cbor.Marshal(st)) + op.GasFit - 1)
			if tx.Fee.Gas == want {
				break
			}
			tx.Fee.Gas = want
			if st, err = transaction.Sign(signer, tx); err != nil {
				return nil, err
			}
		}
		bt.Gas = uint64(tx.Fee.Gas)
	}
	bt.Authentic, bt.Decodable = true, true
	switch op.Mut {
	case "":
	case "badsig":
		st.Signature.Signature[op.MutA%len(st.Signature.Signature)] ^= 1 << uint(op.MutA%8)
		bt.Authentic = false
	case "flipblob":
		if len(st.Blob) > 0 {
			st.Blob[op.MutA%len(st.Blob)] ^= 1 << uint(op.MutA%8)
		}
		bt.Authentic = false
	case "wrongkey":
		st.Signature.PublicKey = w.Signer(op.From + 1).Public()
		bt.Authentic = st.Signature.PublicKey.Equal(signer.Public())
	case "smallorder":
		// The stated signer is an Edwards point of small order and the signature is the fixed pair
		// (R = base point, S = 1): a verifier that tolerates small-order public keys accepts it for
		// every message and context, with no private key involved. The transaction is sequenced
		// for that key's account (nonce as recorded, no fee) so that it would take effect.
		var pk signature.PublicKey
		raw, _ := hex.DecodeString(smallOrderPoints[op.MutA%len(smallOrderPoints)])
		if err := pk.UnmarshalBinary(raw); err == nil {
			tx.Nonce = v.Account(staking.NewAddress(pk)).General.Nonce
			tx.Fee = &transaction.Fee{Gas: tx.Fee.Gas}
			st.Blob = cbor.Marshal(tx)
			st.Signature.PublicKey = pk
			sig, _ := hex.DecodeString("5866666666666666666666666666666666666666666666666666666666666666" + "0100000000000000000000000000000000000000000000000000000000000000")
			copy(st.Signature.Signature[:], sig)
			bt.Signer, bt.Nonce, bt.Fee = pk, tx.Nonce, 0
		}
		bt.Authentic = false
	case "otherchain", "ctx", "nochain", "truncctx":
		// Re-sign outside the oasis signature package with a different domain separation.
		ctxs := map[string]string{
			"otherchain": "oasis-core/consensus: tx for chain " + "some-other-chain-context",
			"ctx":        string(registry.RegisterNodeSignatureContext),
			"nochain":    "oasis-core/consensus: tx",
			"truncctx":   "oasis-core/consensus: tx for chain",
		}
		st.Signature.Signature = rawSign(signer, ctxs[op.Mut], st.Blob)
		bt.Authentic = false
	}
	bt.Raw = cbor.Marshal(st)
	switch op.Mut {
	case "flipraw":
		bt.Raw[op.MutA%len(bt.Raw)] ^= 1 << uint(op.MutA%8)
		bt.Authentic = false
		var chk transaction.SignedTransaction
		bt.Decodable = cbor.Unmarshal(bt.Raw, &chk) == nil
		if bt.Decodable && bytes.Equal(chk.Blob, st.Blob) && chk.Signature.PublicKey.Equal(st.Signature.PublicKey) && chk.Signature.Signature == st.Signature.Signature {
			// An encoding-equivalent envelope: the decoded (blob, key, signature) triple is the
			// original's, so it is expected to behave like the original.
			bt.Authentic = true
		}
	case "trunc":
		bt.Raw = bt.Raw[:op.MutA%len(bt.Raw)]
		bt.Authentic, bt.Decodable = false, false
	case "garbage":
		bt.Raw = []byte(fmt.Sprintf("garbage-%d-%d", seq, op.MutA))
		bt.Authentic, bt.Decodable = false, false
	case "oversize":
		bt.Raw = append(bt.Raw, make([]byte, 40*1024)...)
		bt.Authentic, bt.Decodable = false, false
	}
	_ = context.Background()
	return bt, nil
}

// smallOrderPoints are the canonical encodings of the eight Edwards points of order 1, 2, 4, 8.
var smallOrderPoints = []string{
	"0100000000000000000000000000000000000000000000000000000000000000",
	"ecffffffffffffffffffffffffffffffffffffffffffffffffffffffffffff7f",
	"0000000000000000000000000000000000000000000000000000000000000000",
	"0000000000000000000000000000000000000000000000000000000000000080",
	"c7176a703d4dd84fba3c0b760d10670f2a2053fa2c39ccc64ec7fd7792ac037a",
	"c7176a703d4dd84fba3c0b760d10670f2a2053fa2c39ccc64ec7fd7792ac03fa",
	"26e8958fc2b227b045c3f489f2ef98f0d5dfac05d3c63339b13802886d53fc05",
	"26e8958fc2b227b045c3f489f2ef98f0d5dfac05d3c63339b13802886d53fc85",
}

// rawSign signs SHA-512/256(context || message) with the signer's raw key, outside the oasis
// signature package (test signers are deterministic, so the private key is re-derived).
func rawSign(signer signature.Signer, context string, message []byte) signature.RawSignature {
	us, ok := signer.(signature.UnsafeSigner)
	var raw signature.RawSignature
	if !ok {
		return raw
	}
	h := sha512.New512_256()
	h.Write([]byte(context))
	h.Write(message)
	sig := ed25519.Sign(ed25519.PrivateKey(us.UnsafeBytes()), h.Sum(nil))
	copy(raw[:], sig)
	return raw
}

func (w *World) proposalContent(op TxOp, v TxView) *governance.ProposalContent {
	ep := v.Epoch()
	zero := quantity.NewFromUint64(0)
	one := quantity.NewFromUint64(1)
	if op.Arg >= 16 {
		// Three quarters of the proposals: a parameter change drawn from the full space of
		// changeable fields of all modules.
		if pc := paramChange(op.Arg-16, op.To*13+op.From*5+int(op.Fee), ep); pc != nil {
			return pc
		}
	}
	switch op.Arg % 8 {
	case 0: // staking: zero vote and next-propose weights (propose stays)
		ch := staking.ConsensusParameterChanges{FeeSplitWeightVote: zero, FeeSplitWeightNextPropose: zero, FeeSplitWeightPropose: one}
		return &governance.ProposalContent{ChangeParameters: &governance.ChangeParametersProposal{Module: staking.ModuleName, Changes: cbor.Marshal(ch)}}
	case 1: // staking: zero propose weight
		ch := staking.ConsensusParameterChanges{FeeSplitWeightPropose: zero}
		return &governance.ProposalContent{ChangeParameters: &governance.ChangeParametersProposal{Module: staking.ModuleName, Changes: cbor.Marshal(ch)}}
	case 2: // staking: reward factors zero
		ch := staking.ConsensusParameterChanges{RewardFactorEpochSigned: zero, RewardFactorBlockProposed: zero}
		return &governance.ProposalContent{ChangeParameters: &governance.ChangeParametersProposal{Module: staking.ModuleName, Changes: cbor.Marshal(ch)}}
	case 3: // staking: min amounts
		m := quantity.NewFromUint64(uint64(op.To%50) + 1)
		ch := staking.ConsensusParameterChanges{MinTransferAmount: m, MinDelegationAmount: m}
		return &governance.ProposalContent{ChangeParameters: &governance.ChangeParametersProposal{Module: staking.ModuleName, Changes: cbor.Marshal(ch)}}
	case 4: // upgrade far in the future
		return &governance.ProposalContent{Upgrade: &governance.UpgradeProposal{Descriptor: upgradeDescriptor(ep + 50)}}
	case 5: // cancel a (probably nonexistent) upgrade
		return &governance.ProposalContent{CancelUpgrade: &governance.CancelUpgradeProposal{ProposalID: uint64(op.To)}}
	case 6: // governance: voting period
		vp := beacon.EpochTime(1 + op.To%3)
		ch := governance.ConsensusParameterChanges{VotingPeriod: &vp}
		return &governance.ProposalContent{ChangeParameters: &governance.ChangeParametersProposal{Module: governance.ModuleName, Changes: cbor.Marshal(ch)}}
	default: // staking: debonding interval
		di := beacon.EpochTime(1 + op.To%3)
		ch := staking.ConsensusParameterChanges{DebondingInterval: &di}
		return &governance.ProposalContent{ChangeParameters: &governance.ChangeParametersProposal{Module: staking.ModuleName, Changes: cbor.Marshal(ch)}}
	}
}

func upgradeDescriptor(epoch beacon.EpochTime) upgrade.Descriptor {
	return upgrade.Descriptor{
		Versioned: cbor.NewVersioned(upgrade.LatestDescriptorVersion),
		Handler:   "verif-nonexistent-handler",
		Target:    version.Versions,
		Epoch:     epoch,
	}
}
