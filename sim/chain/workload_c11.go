package chain

// Workload extension of C11 at application level ("approunds"): a genesis compute runtime with a
// small executor committee, and roothash.ExecutorCommit transactions carrying 1..n executor
// commitments of simulated compute nodes for the runtime's CURRENT round.
//
// A `c11.commit` operation is resolved against the committed state when it is submitted (latest
// runtime block, round, committee, commitment pool) and is a pure function of (world, op, that
// state): op.Arg is a packed record (c11Arg) that selects who commits (scheduler, primary workers,
// backup workers, a subset, everybody, arbitrary compute nodes, or "whoever is still missing in
// the current phase"), for the scheduler of which rank, which proposal variant, which members
// dissent / indicate failure / stay silent, and one optional flaw (bad signature, forged
// signature, wrong round, wrong previous hash, previous hash of a header with another header
// type, duplicate, non-member, non-worker scheduler, failure from the scheduler itself, messages
// on a non-scheduler commitment, missing root, failure with roots, empty list, unknown runtime).
// Scheduler proposals may consume incoming runtime messages and emit staking messages.

import (
	"context"
	"fmt"
	"math"

	"github.com/oasisprotocol/oasis-core/go/common"
	"github.com/oasisprotocol/oasis-core/go/common/cbor"
	"github.com/oasisprotocol/oasis-core/go/common/crypto/hash"
	"github.com/oasisprotocol/oasis-core/go/common/crypto/signature"
	"github.com/oasisprotocol/oasis-core/go/common/quantity"
	"github.com/oasisprotocol/oasis-core/go/consensus/api/transaction"
	roothashState "github.com/oasisprotocol/oasis-core/go/consensus/cometbft/apps/roothash/state"
	roothash "github.com/oasisprotocol/oasis-core/go/roothash/api"
	"github.com/oasisprotocol/oasis-core/go/roothash/api/block"
	"github.com/oasisprotocol/oasis-core/go/roothash/api/commitment"
	"github.com/oasisprotocol/oasis-core/go/roothash/api/message"
	scheduler "github.com/oasisprotocol/oasis-core/go/scheduler/api"
	staking "github.com/oasisprotocol/oasis-core/go/staking/api"

	"verif/sim/core"
)

func init() {
	RegisterTxKind("c11.commit", c11Commit)
	RegisterTxKind("c11.fundrt", c11FundRuntime)
	RegisterTxKind("c11.evidence", c11Evidence)
	RegisterWorkload("C11", &Workload{
		Kinds:     []string{"c11.commit", "c11.commit", "c11.commit", "c11.commit", "c11.commit", "c11.commit", "c11.commit", "c11.commit", "c11.commit", "c11.commit", "c14_fundnode", "submitmsg", "c11.fundrt", "c11.evidence"},
		Weight:    70,
		Tune:      c11Tune,
		ArgGen:    c11ArgGen,
		MinTxRate: 2,
		// The genesis runtime stays suspended until the first epoch transition elects a committee.
		ExtraHeights: func(k *ChainKnobs) int { return int(k.Gen.EpochInterval) },
	})
}

// c11Tune shapes the genesis for application-level rounds.
func c11Tune(r *core.Rand, k *ChainKnobs) {
	c11Runtime(r, k, true)
	g := &k.Gen
	// Commit transactions are paid by ordinary accounts or (fee-less) by the nodes themselves.
	g.MinTransact, g.MinGasPrice = 0, 0
	g.MaxBlockGas = 0
	// Mostly long epochs (several rounds per committee), sometimes short ones (committee changes
	// cut rounds short: epoch-transition blocks).
	switch r.Pick([]int{3, 5, 2}) {
	case 0:
		g.EpochInterval = int64(r.Range(8, 12))
	case 1:
		g.EpochInterval = int64(r.Range(4, 7))
	default:
		g.EpochInterval = int64(r.Range(2, 3))
	}
	// Compute nodes mostly never expire (a committee can be elected in every epoch); in a fifth of
	// the runs they expire after a few epochs and the runtime gets suspended.
	if !r.Chance(1, 5) {
		g.ShortExpiry = 0
	}
}

// c11Runtime enables the genesis runtime with a small committee. wide selects the full range of
// committee shapes (C11); otherwise a plainer shape is used (base extra).
func c11Runtime(r *core.Rand, k *ChainKnobs, wide bool) {
	g := &k.Gen
	n := r.Range(2, 6)
	if !g.Runtime || g.ComputeNodes < n {
		// (another extra may have enabled the runtime already with fewer nodes: the escrow top-up
		// of EnableRuntime is per node, so enabling again with the difference keeps it exact)
		had := 0
		if g.Runtime {
			had = g.ComputeNodes
		}
		for c := had; c < n; c++ {
			e := c % g.Entities
			if e < len(g.EntityEscrow) {
				g.EntityEscrow[e] += g.ThresholdNode
			}
		}
		if !g.Runtime && len(g.EntityEscrow) > 0 {
			g.EntityEscrow[0] += g.ThresholdNode
		}
		g.Runtime, g.ComputeNodes = true, n
	}
	n = g.ComputeNodes
	g.RtGroupSize = r.Range(1, min(n, 4))
	g.RtBackupSize = r.Range(1, min(n, 3))
	g.RtStragglers = 0
	if r.Chance(1, 2) {
		g.RtStragglers = r.Range(0, min(2, g.RtGroupSize, g.RtBackupSize))
	}
	g.RtRoundTimeout = int64(r.Pick([]int{1, 3, 4, 2, 1}) + 1) // 1..5 blocks
	if !wide {
		// Short timers, so that timer-driven endings (discrepancy on timeout, failed resolution)
		// fit into the base properties' short epochs.
		g.RtRoundTimeout = int64(r.Range(1, 3))
	}
	if g.RtMaxInMessages == 0 {
		g.RtMaxInMessages = uint32(r.Pick([]int{1, 2, 2, 1})) // 0..3 slots
	}
	if r.Chance(1, 3) {
		g.RtSlashIncorrect = uint64(r.Range(1, 60))
	}
}

// Modes of a c11.commit operation.
const (
	c11Full     = iota // the scheduler's own commitment and the other primary workers
	c11Sched           // the scheduler's own commitment only
	c11Workers         // the primary workers except the scheduler
	c11Backups         // the backup workers
	c11Subset          // the members selected by Mask
	c11Everyone        // scheduler, primary workers and backup workers
	c11Random          // 1..4 arbitrary compute nodes (members or not)
	c11Late            // whoever is still missing in the current phase (see c11LateSlots)
)

// Flaws of a c11.commit operation (applied to one commitment of the list).
const (
	c11FlawNone = iota
	c11FlawBadSig
	c11FlawForged
	c11FlawRoundPlus
	c11FlawRoundMinus
	c11FlawPrevHash
	c11FlawPrevType
	c11FlawDuplicate
	c11FlawNonMember
	c11FlawBadScheduler
	c11FlawSchedulerFailure
	c11FlawMessages
	c11FlawNoRoot
	c11FlawFailureWithRoots
	c11FlawEmpty
	c11FlawOtherRuntime
	c11NumFlaws
)

// c11Arg is the decoded op.Arg of a c11.commit operation.
type c11Arg struct {
	Mode       int // 3 bits
	RankSel    int // 2 bits: 0 follow the pool (rank 0 when empty), 1 rank 0, 2 rank 1, 3 rank Mask
	Variant    int // 2 bits: 0 canonical proposal (or the one in the pool), 1 other state root, 2 other I/O root, 3 unchanged state root
	Pert       int // 2 bits: 0 nobody deviates, 1 one member, 2 two members, 3 per-member pattern
	PertWho    int // 3 bits
	PertKind   int // 2 bits: 0 dissent, 1 failure, 2 silent, 3 dissent with a second alternative
	Flaw       int // 4 bits
	FlawWho    int // 3 bits
	Mask       int // 8 bits
	Msgs       int // 3 bits: bit 0 consume incoming messages, bit 1 emit staking messages, 4 = claim an incoming message with a wrong hash
	NodeSigner int // 1 bit: the scheduler node signs (and pays for) the transaction when it can
}

func (a c11Arg) encode() int {
	return a.Mode | a.RankSel<<3 | a.Variant<<5 | a.Pert<<7 | a.PertWho<<9 | a.PertKind<<12 | a.Flaw<<14 | a.FlawWho<<18 | a.Mask<<21 | a.Msgs<<29 | a.NodeSigner<<32
}

func c11DecodeArg(x int) c11Arg {
	if x < 0 {
		x = -x
	}
	return c11Arg{
		Mode: x & 7, RankSel: x >> 3 & 3, Variant: x >> 5 & 3, Pert: x >> 7 & 3, PertWho: x >> 9 & 7, PertKind: x >> 12 & 3,
		Flaw: x >> 14 & 15, FlawWho: x >> 18 & 7, Mask: x >> 21 & 255, Msgs: x >> 29 & 7, NodeSigner: x >> 32 & 1,
	}
}

// c11ArgGen draws the packed argument of a c11.commit operation.
func c11ArgGen(r *core.Rand, kind string) int {
	if kind != "c11.commit" {
		return r.Intn(1 << 16)
	}
	a := c11Arg{
		Mode:     r.Pick([]int{28, 9, 8, 12, 7, 8, 6, 22}),
		RankSel:  r.Pick([]int{60, 14, 16, 10}),
		Variant:  r.Pick([]int{85, 5, 5, 5}),
		Pert:     r.Pick([]int{58, 26, 8, 8}),
		PertWho:  r.Intn(8),
		PertKind: r.Pick([]int{40, 35, 15, 10}),
		FlawWho:  r.Intn(8),
		Mask:     r.Intn(256),
		Msgs:     r.Pick([]int{66, 10, 10, 6, 8}),
	}
	if r.Chance(1, 6) {
		a.Flaw = r.Range(1, c11NumFlaws-1)
	}
	if r.Chance(1, 4) {
		a.NodeSigner = 1
	}
	return a.encode()
}

// c11Slot is one commitment to build.
type c11Slot struct {
	node signature.PublicKey
	kind int // 0 agree, 1 dissent, 2 failure, 3 dissent (second alternative), -1 silent
}

// c11View is what the builder reads from the committed state.
type c11View struct {
	rs               *roothash.RuntimeState
	round            uint64
	prev             hash.Hash
	workers, backups []signature.PublicKey
	members          []signature.PublicKey // workers first, then backup-only nodes
	outsiders        []signature.PublicKey // genesis compute nodes that are not members
	keys             map[signature.PublicKey]*NodeKeys
}

func c11Contains(l []signature.PublicKey, k signature.PublicKey) bool {
	for _, x := range l {
		if x.Equal(k) {
			return true
		}
	}
	return false
}

func c11ReadView(w *World, v TxView) *c11View {
	rs, err := roothashState.NewImmutableState(v.Tree()).RuntimeState(context.Background(), w.RuntimeID)
	if err != nil || rs == nil || rs.LastBlock == nil {
		return nil
	}
	cv := &c11View{rs: rs, round: rs.LastBlock.Header.Round + 1, prev: rs.LastBlock.Header.EncodedHash(), keys: map[signature.PublicKey]*NodeKeys{}}
	nodes := c14ComputeNodes(w)
	for _, nk := range nodes {
		cv.keys[nk.Identity.NodeSigner.Public()] = nk
	}
	if rs.Committee != nil {
		for _, m := range rs.Committee.Members {
			if cv.keys[m.PublicKey] == nil {
				continue // (not a genesis compute node: the harness has no key for it)
			}
			switch m.Role {
			case scheduler.RoleWorker:
				cv.workers = append(cv.workers, m.PublicKey)
			case scheduler.RoleBackupWorker:
				cv.backups = append(cv.backups, m.PublicKey)
			}
		}
	}
	if len(cv.workers) == 0 {
		// No committee (suspended runtime): commitments of the compute nodes must all be refused.
		for _, nk := range nodes {
			cv.workers = append(cv.workers, nk.Identity.NodeSigner.Public())
		}
	}
	cv.members = append(cv.members, cv.workers...)
	for _, b := range cv.backups {
		if !c11Contains(cv.members, b) {
			cv.members = append(cv.members, b)
		}
	}
	for _, nk := range nodes {
		if pk := nk.Identity.NodeSigner.Public(); !c11Contains(cv.members, pk) {
			cv.outsiders = append(cv.outsiders, pk)
		}
	}
	return cv
}

// c11SchedulerOfRank is the primary worker that has the given rank in the given round (written
// from the documented scheduling order: the worker list rotates by one per round).
func c11SchedulerOfRank(workers []signature.PublicKey, round, rank uint64) signature.PublicKey {
	n := uint64(len(workers))
	return workers[(rank%n+n-round%n)%n]
}

func c11Hash(parts ...interface{}) hash.Hash {
	return hash.NewFromBytes([]byte(fmt.Sprint(parts...)))
}

// c11Commit builds a roothash.ExecutorCommit transaction.
func c11Commit(w *World, op TxOp, v TxView, signer signature.Signer, fee *transaction.Fee) (*transaction.Transaction, signature.Signer, error) {
	ctx := context.Background()
	a := c11DecodeArg(op.Arg)
	cv := c11ReadView(w, v)
	if cv == nil || len(cv.workers) == 0 {
		return nil, nil, nil
	}
	rs := cv.rs
	pool := rs.CommitmentPool

	// The scheduler whose proposal this transaction is about.
	var rank uint64
	switch a.RankSel {
	case 0:
		if pool != nil && pool.HighestRank != math.MaxUint64 {
			rank = pool.HighestRank
		}
	case 2:
		rank = 1
	case 3:
		rank = uint64(a.Mask)
	}
	rank %= uint64(len(cv.workers))
	sched := c11SchedulerOfRank(cv.workers, cv.round, rank)

	// Its proposal: the one already in the pool, or a fresh one.
	var base commitment.ComputeResultsHeader
	var msgs []message.Message
	fromPool := false
	if pool != nil && a.Variant == 0 {
		if sc := pool.SchedulerCommitments[rank]; sc != nil && sc.Commitment != nil {
			base, msgs, fromPool = sc.Commitment.Header.Header, sc.Commitment.Messages, true
		}
	}
	if !fromPool {
		io := c11Hash("verif c11 io root ", cv.round, " ", sched)
		st := c11Hash("verif c11 state root ", cv.round, " ", sched)
		switch a.Variant {
		case 1:
			st = c11Hash("verif c11 other state root ", cv.round, " ", sched)
		case 2:
			io = c11Hash("verif c11 other io root ", cv.round, " ", sched)
		case 3:
			st = rs.LastBlock.Header.StateRoot
		}
		var inHash hash.Hash
		inHash.Empty()
		var inCount uint32
		if a.Msgs&1 != 0 && a.Msgs != 4 {
			q, err := roothashState.NewImmutableState(v.Tree()).IncomingMessageQueue(ctx, w.RuntimeID, 0, uint32(1+a.Mask%2))
			if err == nil && len(q) > 0 {
				inHash, inCount = message.InMessagesHash(q), uint32(len(q))
			}
		}
		if a.Msgs == 4 {
			inHash, inCount = c11Hash("verif c11 no such incoming message"), 1
		}
		if a.Msgs&2 != 0 && a.Msgs != 4 {
			msgs = c11RuntimeMessages(w, v, a)
		}
		mh := message.MessagesHash(msgs)
		base = commitment.ComputeResultsHeader{Round: cv.round, PreviousHash: cv.prev, IORoot: &io, StateRoot: &st, MessagesHash: &mh, InMessagesHash: &inHash, InMessagesCount: inCount}
	}

	// Who commits.
	var others []signature.PublicKey
	for _, x := range cv.workers {
		if !x.Equal(sched) {
			others = append(others, x)
		}
	}
	var slots []c11Slot
	add := func(nodes ...signature.PublicKey) {
		for _, n := range nodes {
			slots = append(slots, c11Slot{node: n})
		}
	}
	switch a.Mode {
	case c11Full:
		add(sched)
		add(others...)
	case c11Sched:
		add(sched)
	case c11Workers:
		add(others...)
	case c11Backups:
		add(cv.backups...)
	case c11Subset:
		for i, m := range cv.members {
			if a.Mask>>(uint(i)%8)&1 != 0 {
				add(m)
			}
		}
		if len(slots) == 0 {
			add(cv.members[a.Mask%len(cv.members)])
		}
	case c11Everyone:
		add(sched)
		for _, m := range cv.members {
			if !m.Equal(sched) {
				add(m)
			}
		}
	case c11Random:
		all := append(append([]signature.PublicKey{}, cv.members...), cv.outsiders...)
		for i, n := 0, 1+a.PertWho%4; i < n; i++ {
			add(all[(a.Mask+i*3)%len(all)])
		}
	case c11Late:
		slots = c11LateSlots(cv, pool, rank, sched)
	}
	if a.Mask&0x80 != 0 {
		// Votes first, the scheduler's own commitment last.
		for i, j := 0, len(slots)-1; i < j; i, j = i+1, j-1 {
			slots[i], slots[j] = slots[j], slots[i]
		}
	}

	// Who deviates (never the scheduler's own commitment: that would be another proposal).
	deviate := func(i, kind int) {
		if len(slots) == 0 {
			return
		}
		s := &slots[i%len(slots)]
		if s.node.Equal(sched) {
			if kind != 2 {
				return
			}
		}
		s.kind = []int{1, 2, -1, 3}[kind]
	}
	switch a.Pert {
	case 1:
		deviate(a.PertWho, a.PertKind)
	case 2:
		deviate(a.PertWho, a.PertKind)
		deviate(a.PertWho+1, a.PertKind)
	case 3:
		for i := range slots {
			if p := (a.Mask*31 + i*7 + a.PertWho) % 5; p >= 2 {
				deviate(i, p-2)
			}
		}
	}

	build := func(s c11Slot) *commitment.ExecutorCommitment {
		nk := cv.keys[s.node]
		if nk == nil || s.kind < 0 {
			return nil
		}
		hdr := base
		ec := &commitment.ExecutorCommitment{NodeID: s.node, Header: commitment.ExecutorCommitmentHeader{SchedulerID: sched, Header: hdr}}
		switch s.kind {
		case 1, 3:
			alt := c11Hash("verif c11 dissenting state root ", cv.round, " ", s.kind)
			ec.Header.Header.StateRoot = &alt
		case 2:
			ec.Header.SetFailure(commitment.ExecutorCommitmentFailure(1 + a.Mask%2))
		}
		if s.node.Equal(sched) && s.kind == 0 {
			ec.Messages = msgs
		}
		if err := ec.Sign(nk.Identity.NodeSigner, w.RuntimeID); err != nil {
			return nil
		}
		return ec
	}
	var commits []commitment.ExecutorCommitment
	for _, s := range slots {
		if ec := build(s); ec != nil {
			commits = append(commits, *ec)
		}
	}

	// One optional flaw.
	rtID := w.RuntimeID
	resign := func(ec *commitment.ExecutorCommitment, by signature.PublicKey) {
		if nk := cv.keys[by]; nk != nil {
			if sig, err := ec.Header.Sign(nk.Identity.NodeSigner, w.RuntimeID); err == nil {
				ec.Signature = *sig
			}
		}
	}
	if a.Flaw == c11FlawEmpty {
		commits = nil
	}
	if a.Flaw == c11FlawOtherRuntime {
		rtID = common.NewTestNamespaceFromSeed([]byte("verif/sim/chain/no-such-runtime"), common.NamespaceTest)
	}
	if a.Flaw == c11FlawSchedulerFailure {
		ec := &commitment.ExecutorCommitment{NodeID: sched, Header: commitment.ExecutorCommitmentHeader{SchedulerID: sched, Header: base}}
		ec.Header.SetFailure(commitment.FailureUnknown)
		resign(ec, sched)
		commits = append(commits, *ec)
	}
	if len(commits) > 0 {
		f := a.FlawWho % len(commits)
		ec := &commits[f]
		switch a.Flaw {
		case c11FlawBadSig:
			ec.Signature[a.Mask%len(ec.Signature)] ^= 1 << uint(a.Mask%8)
		case c11FlawForged:
			by := cv.members[(a.Mask+1)%len(cv.members)]
			if by.Equal(ec.NodeID) && len(cv.outsiders) > 0 {
				by = cv.outsiders[0]
			}
			if !by.Equal(ec.NodeID) {
				resign(ec, by)
			}
		case c11FlawRoundPlus:
			ec.Header.Header.Round++
			resign(ec, ec.NodeID)
		case c11FlawRoundMinus:
			ec.Header.Header.Round--
			resign(ec, ec.NodeID)
		case c11FlawPrevHash:
			ec.Header.Header.PreviousHash = c11Hash("verif c11 some other block")
			resign(ec, ec.NodeID)
		case c11FlawPrevType:
			h := rs.LastBlock.Header
			h.HeaderType = block.HeaderType(uint8(h.HeaderType)%4 + 1)
			ec.Header.Header.PreviousHash = h.EncodedHash()
			resign(ec, ec.NodeID)
		case c11FlawDuplicate:
			commits = append(commits, commits[f])
		case c11FlawNonMember:
			if len(cv.outsiders) > 0 {
				ec.NodeID = cv.outsiders[a.Mask%len(cv.outsiders)]
				ec.Messages = nil
				resign(ec, ec.NodeID)
			}
		case c11FlawBadScheduler:
			var cands []signature.PublicKey
			for _, b := range cv.backups {
				if !c11Contains(cv.workers, b) {
					cands = append(cands, b)
				}
			}
			cands = append(cands, cv.outsiders...)
			if len(cands) > 0 {
				ec.Header.SchedulerID = cands[a.Mask%len(cands)]
				ec.Messages = nil
				resign(ec, ec.NodeID)
			}
		case c11FlawMessages:
			if !ec.NodeID.Equal(ec.Header.SchedulerID) {
				ec.Messages = []message.Message{{Staking: &message.StakingMessage{Transfer: &staking.Transfer{}}}}
			}
		case c11FlawNoRoot:
			ec.Header.Header.StateRoot = nil
			resign(ec, ec.NodeID)
		case c11FlawFailureWithRoots:
			ec.Header.Failure = commitment.FailureUnknown
			ec.Messages = nil
			resign(ec, ec.NodeID)
		}
	}

	// The transaction is signed by an ordinary account, or by the scheduler's node when its own
	// account can pay the fee.
	if a.NodeSigner != 0 {
		if nk := cv.keys[sched]; nk != nil {
			ns := nk.Identity.NodeSigner
			if acct := v.Account(staking.NewAddress(ns.Public())); acct.General.Balance.Cmp(&fee.Amount) >= 0 {
				signer = ns
			}
		}
	}
	nonce := uint64(int64(v.NextNonce(signer.Public())) + int64(op.NonceOff))
	return roothash.NewExecutorCommitTx(nonce, fee, rtID, commits), signer, nil
}

// c11LateSlots returns the members that are still missing for the proposal of the given rank in
// the current phase: during discrepancy resolution the backup workers that have not voted;
// otherwise the scheduler (when it has not committed) and the primary workers that have not voted.
func c11LateSlots(cv *c11View, pool *commitment.Pool, rank uint64, sched signature.PublicKey) []c11Slot {
	voted := map[signature.PublicKey]bool{}
	hasOwn := false
	disc := false
	if pool != nil {
		disc = pool.Discrepancy
		if sc := pool.SchedulerCommitments[rank]; sc != nil {
			hasOwn = sc.Commitment != nil
			for k := range sc.Votes {
				voted[k] = true
			}
		}
	}
	var out []c11Slot
	switch disc {
	case true:
		for _, b := range cv.backups {
			if !voted[b] {
				out = append(out, c11Slot{node: b})
			}
		}
	case false:
		if !hasOwn {
			out = append(out, c11Slot{node: sched})
		}
		for _, x := range cv.workers {
			if !voted[x] && !x.Equal(sched) {
				out = append(out, c11Slot{node: x})
			}
		}
	}
	return out
}

// c11RuntimeMessages are one or two staking messages emitted by the runtime (executed with the
// runtime's account as the caller when the round is finalized).
func c11RuntimeMessages(w *World, v TxView, a c11Arg) []message.Message {
	rtAddr := staking.NewRuntimeAddress(w.RuntimeID)
	bal := v.Account(rtAddr).General.Balance
	amt := resolveAmount([]int{100, 500, 1000, AmtAllPlus1, AmtOne, AmtZero}[a.Mask%6], &bal, 1)
	to := w.Addr(a.Mask >> 2)
	var out []message.Message
	switch a.PertWho % 4 {
	case 0, 1:
		out = append(out, message.Message{Staking: &message.StakingMessage{Versioned: cbor.NewVersioned(0), Transfer: &staking.Transfer{To: to, Amount: amt}}})
	case 2:
		out = append(out, message.Message{Staking: &message.StakingMessage{Versioned: cbor.NewVersioned(0), AddEscrow: &staking.Escrow{Account: w.Addr(a.Mask % max(1, len(w.Entities))), Amount: amt}}})
	case 3:
		out = append(out, message.Message{Staking: &message.StakingMessage{Versioned: cbor.NewVersioned(0), Withdraw: &staking.Withdraw{From: to, Amount: *quantity.NewFromUint64(uint64(a.Mask))}}})
	}
	if a.FlawWho%3 == 0 {
		out = append(out, message.Message{Staking: &message.StakingMessage{Versioned: cbor.NewVersioned(0), Transfer: &staking.Transfer{To: w.Addr(a.FlawWho), Amount: *quantity.NewFromUint64(uint64(a.PertWho))}}})
	}
	return out
}

// c11FundRuntime transfers a little to the runtime's account, so that its staking messages move
// real funds.
func c11FundRuntime(w *World, op TxOp, v TxView, signer signature.Signer, fee *transaction.Fee) (*transaction.Transaction, signature.Signer, error) {
	nonce := uint64(int64(v.NextNonce(signer.Public())) + int64(op.NonceOff))
	amt := quantity.NewFromUint64(uint64(100 + op.Arg%900))
	return staking.NewTransferTx(nonce, fee, &staking.Transfer{To: staking.NewRuntimeAddress(w.RuntimeID), Amount: *amt}), signer, nil
}

// c11Evidence builds a roothash.Evidence transaction: two commitments signed by one compute node
// for one round and scheduler that differ (equivocation), or one of the flawed variants: the
// same commitment twice, commitments of two different nodes, a round older than the maximum
// evidence age, a node the harness made up, a failure indication against a regular commitment
// (valid equivocation).  A runtime that slashes for equivocation takes the penalty from the
// node's entity and splits it between the runtime account and the submitter (or, when the
// submitter is a node, its entity).
func c11Evidence(w *World, op TxOp, v TxView, signer signature.Signer, fee *transaction.Fee) (*transaction.Transaction, signature.Signer, error) {
	cv := c11ReadView(w, v)
	if cv == nil || len(cv.members) == 0 {
		return nil, nil, nil
	}
	variant := op.Arg % 8
	pick := func(i int) signature.PublicKey { return cv.members[i%len(cv.members)] }
	nodeA := pick(op.Arg >> 3)
	nodeB := nodeA
	if variant == 5 {
		nodeB = pick(op.Arg>>3 + 1)
	}
	round := cv.round
	switch (op.Arg >> 7) % 4 {
	case 1:
		if round > 0 {
			round--
		}
	case 2:
		if round > 3 {
			round -= 3
		}
	}
	if variant == 7 {
		round = 0 // (older than the maximum evidence age once enough rounds have passed)
	}
	sched := c11SchedulerOfRank(cv.workers, round, 0)
	mk := func(node signature.PublicKey, tag string, failure bool) *commitment.ExecutorCommitment {
		nk := cv.keys[node]
		if nk == nil {
			return nil
		}
		io, st := c11Hash("verif c11 evidence io ", round), c11Hash("verif c11 evidence state ", round, " ", tag)
		mh := message.MessagesHash(nil)
		in := message.InMessagesHash(nil)
		ec := &commitment.ExecutorCommitment{NodeID: node, Header: commitment.ExecutorCommitmentHeader{SchedulerID: sched,
			Header: commitment.ComputeResultsHeader{Round: round, PreviousHash: cv.prev, IORoot: &io, StateRoot: &st, MessagesHash: &mh, InMessagesHash: &in}}}
		if failure {
			ec.Header.SetFailure(commitment.FailureUnknown)
		}
		if err := ec.Sign(nk.Identity.NodeSigner, w.RuntimeID); err != nil {
			return nil
		}
		return ec
	}
	a := mk(nodeA, "a", false)
	tagB := "b"
	if variant == 4 {
		tagB = "a"
	}
	b := mk(nodeB, tagB, variant == 6)
	if a == nil || b == nil {
		return nil, nil, nil
	}
	// The submitter: an ordinary account, or one of the compute nodes (reward to its entity).
	if (op.Arg>>9)%3 == 0 {
		if nk := cv.keys[pick(op.Arg>>3+2)]; nk != nil {
			signer = nk.Identity.NodeSigner
		}
	}
	nonce := uint64(int64(v.NextNonce(signer.Public())) + int64(op.NonceOff))
	ev := &roothash.Evidence{ID: w.RuntimeID, EquivocationExecutor: &roothash.EquivocationExecutorEvidence{CommitA: *a, CommitB: *b}}
	return roothash.NewEvidenceTx(nonce, fee, ev), signer, nil
}
