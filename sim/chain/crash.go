package chain

// Chain-level crash consistency (property C07, batch "chaincrash").
//
// A "crash" op arms a crash of one replica inside the next block. While that replica saves and
// applies the block, the simulator takes a CRASH IMAGE at the selected instant: a recursive copy
// of the replica's data directory (the files exactly as a process kill at that instant would
// leave them: everything the node wrote is in the page cache, nothing else is) plus copies of its
// CometBFT state and block databases. The original replica then continues untouched. After the
// block, a new replica (the "phoenix") is started from the image: CometBFT's Handshaker runs
// against the real mux (Info, InitChain or block replay). The phoenix must come back without
// error at height H-1 or H with the application hash of the other replicas, must serve every
// earlier version the original serves, must reach the tip by replaying the decided blocks with
// identical results, and then stays in lock-step as an extra replica for the rest of the run.
//
// Crash instants: the k-th verifhook hit on the replica's goroutine during the block (ABCI
// doCommit hooks, the NodeDB Commit/Finalize hooks beneath it, the NodeDB Prune hooks of
// interleaved pruner steps) and the CometBFT-level instants reachable from the harness (before /
// after SaveBlock, after the block was executed but before its ABCI responses are saved, after
// the ABCI Commit returned but before CometBFT saves its state, after ApplyBlock).

import (
	"bytes"
	"fmt"
	"io"
	"os"
	"path/filepath"
	"runtime"
	"sort"
	"strings"
	"syscall"
	"time"

	dbm "github.com/cometbft/cometbft-db"

	"github.com/oasisprotocol/oasis-core/go/common/verifhook"
	"github.com/oasisprotocol/oasis-core/go/consensus/cometbft/abci"
	cmtapi "github.com/oasisprotocol/oasis-core/go/consensus/cometbft/api"

	"verif/sim/core"
	"verif/sim/store"
)

// CrashOp arms a crash of one replica inside the next block that is produced.
type CrashOp struct {
	// Replica selects the victim among the replicas that take part in the block (modulo).
	Replica int `json:"replica"`
	// Point is the kind of crash instant: "hook" (the Hit-th verifhook hit counted from the start
	// of the replica's Apply), "prunehook" (the Hit-th hit of a NodeDB Prune hook during that
	// Apply), or one of the CometBFT-level instants in crashPoints.
	Point string `json:"point"`
	Hit   int    `json:"hit,omitempty"`
	// PruneAt lets the victim's pruner run inside the crash window (only if the victim prunes):
	// 1..3 = concurrently with doCommit, at its hook beforeTreeCommit / afterTreeCommit /
	// afterFinalize (the pruner goroutine of a real node takes none of doCommit's locks, and the
	// NodeDB serialises Prune against Commit and Finalize, so a whole Prune between two of them is
	// an ordinary interleaving); 4 = right after the ABCI Commit returned. The hook hits of that
	// Prune count towards Hit, so the crash can land inside it.
	PruneAt int `json:"prune_at,omitempty"`
}

var doCommitHooks = []string{"abci.doCommit.beforeTreeCommit", "abci.doCommit.afterTreeCommit", "abci.doCommit.afterFinalize"}

// crashPoints are the crash instants other than hook hits.
var crashPoints = []string{"cmt.beforeSaveBlock", "cmt.afterSaveBlock", "cmt.afterExecBeforeSaveResponses", "cmt.afterCommitBeforeStateSave", "cmt.afterApplyBlock"}

// maxPhoenixes bounds the number of phoenix replicas kept in lock-step at the same time (the
// oldest one is retired when a new one arrives).
const maxPhoenixes = 2

// crashImage is what a process kill would leave behind.
type crashImage struct {
	dir              string
	stateDB, blockDB dbm.DB
	point            string // resolved name of the crash instant (hook name or crashPoints entry)
	height           int64  // H, the block being applied
	prevAppHash      []byte // application hash after H-1
	orig             *Replica
}

// phoenix is a replica restarted from a crash image.
type phoenix struct {
	r     *Replica
	img   *crashImage // nil for a replica that joined by state sync (statesync.go)
	label string
	// probe is the prefix of the reach probes ("chaincrash" or "statesync").
	probe string
	// from is the height at which the replica joined the lock-step set.
	from int64
	// viol builds a violation about this replica.
	viol func(kind, detail string) *core.Violation
}

// chainCrash is the per-run state of the crash machinery.
type chainCrash struct {
	pending   *CrashOp // armed by a crash op, consumed by the next block
	active    *CrashOp // set while the victim applies the block
	victim    *Replica
	gid       uint64
	hits      int
	pruneHits int
	sawPrune  bool // NodeDB.Prune ran on the victim before the image was taken
	height    int64
	img       *crashImage
	ready     []*crashImage // images taken in the current block, to be resurrected after it
	phoenixes []*phoenix
	seq       int
	checked   int
}

// goid returns the id of the calling goroutine.
func goid() uint64 {
	var buf [64]byte
	n := runtime.Stack(buf[:], false)
	var id uint64
	for _, c := range buf[len("goroutine "):n] {
		if c < '0' || c > '9' {
			break
		}
		id = id*10 + uint64(c-'0')
	}
	return id
}

// armCrashOp handles a crash op: the crash happens inside the next block.
func (s *Sim) armCrashOp(op *CrashOp) {
	if op == nil || !s.K.Disk {
		return // only with on-disk application state
	}
	cp := *op
	s.cc.pending = &cp
}

// crashTarget resolves the victim of the pending crash for this block: the (Replica mod n)-th of
// the replicas that take part in it.
func (s *Sim) crashTarget(b *BlockOp, proposer *Replica) *Replica {
	if s.cc.pending == nil {
		return nil
	}
	var part []*Replica
	for _, r := range s.Reps {
		if !r.Up || r.Cfg.Observer || r.Cfg.MemoryOnly || pathOf(b, r, proposer) == 2 {
			continue
		}
		part = append(part, r)
	}
	if s.cc.pending.Point == "prunehook" || s.cc.pending.PruneAt > 0 {
		// A crash that involves the pruner prefers a victim that prunes.
		var pr []*Replica
		for _, r := range part {
			if r.Cfg.PruneKeep > 0 {
				pr = append(pr, r)
			}
		}
		if len(pr) > 0 {
			part = pr
		}
	}
	if len(part) == 0 {
		return nil
	}
	n := s.cc.pending.Replica
	if n < 0 {
		n = -n
	}
	return part[n%len(part)]
}

// beginCrash is called immediately before the victim saves and applies block h.
func (s *Sim) beginCrash(r *Replica, h int64) {
	cc := &s.cc
	cc.active, cc.pending = cc.pending, nil
	cc.victim, cc.gid, cc.hits, cc.height, cc.img, cc.sawPrune, cc.pruneHits = r, goid(), 0, h, nil, false, 0
	prev := append([]byte{}, r.State.AppHash...)
	take := func(point string) {
		if cc.img != nil {
			return
		}
		cc.img = s.takeImage(r, point, h, prev)
	}
	// prune runs the victim's pruner with the version it was last notified of.
	prune := func(version int64) {
		p, ok := r.srv.Pruner().(abci.StatePruner)
		if !ok || r.Cfg.PruneKeep == 0 || r.Cfg.MemoryOnly || version < 1 {
			return
		}
		s.St.Inc("probe.chaincrash.pruner_ran_inside_crash_window")
		_ = p.Prune(uint64(version))
	}
	verifhook.SetHandler(func(name string) {
		if cc.active == nil || goid() != cc.gid {
			return // not the victim's goroutine (the simulation runs on one goroutine)
		}
		cc.hits++
		if strings.Contains(name, ".Prune.") {
			cc.pruneHits++
			if cc.img == nil {
				cc.sawPrune = true
			}
			if cc.active.Point == "prunehook" && cc.pruneHits == cc.active.Hit {
				take(name)
			}
		}
		if cc.active.Point == "hook" && cc.hits == cc.active.Hit {
			take(name)
		}
		if pa := cc.active.PruneAt; pa >= 1 && pa <= 3 && name == doCommitHooks[pa-1] {
			prune(h - 1)
		}
	})
	r.crashPoint = func(name string) {
		if cc.active != nil && cc.active.Point == name {
			take(name)
		}
	}
	r.inter.crash = func(call string) {
		if cc.active == nil {
			return
		}
		switch {
		case call == "EndBlock" && cc.active.Point == "cmt.afterExecBeforeSaveResponses",
			call == "Commit" && cc.active.Point == "cmt.afterCommitBeforeStateSave":
			take(cc.active.Point)
		}
		if call == "Commit" && cc.active.PruneAt == 4 {
			prune(h)
		}
	}
}

// endCrash is called when the victim's Apply returned (ok = without error or panic).
func (s *Sim) endCrash(r *Replica, ok bool) {
	cc := &s.cc
	verifhook.SetHandler(nil)
	r.crashPoint = nil
	if r.inter != nil {
		r.inter.crash = nil
	}
	op := cc.active
	cc.active, cc.victim = nil, nil
	s.St.Add("probe.chaincrash.hook_hits_in_targeted_apply", int64(cc.hits))
	s.St.Inc(fmt.Sprintf("probe.chaincrash.hooks_per_apply.%02d", min(cc.hits, 40)))
	if cc.img == nil {
		if op.Point == "hook" || op.Point == "prunehook" {
			s.St.Inc("probe.chaincrash.hit_beyond_last_hook")
			if op.Point == "prunehook" {
				s.St.Inc("probe.chaincrash.hit_beyond_last_prune_hook")
			}
			s.St.Event("crash r%d h=%d hit=%d beyond last hook (%d hits)", r.Idx, cc.height, op.Hit, cc.hits)
		} else {
			s.St.Inc("probe.chaincrash.point_not_reached")
			s.St.Event("crash r%d h=%d point=%s not reached", r.Idx, cc.height, op.Point)
		}
		return
	}
	if !ok {
		// The uncrashed replica itself failed on this block: not a crash-consistency matter.
		os.RemoveAll(cc.img.dir)
		cc.img = nil
		return
	}
	s.St.Inc("probe.chaincrash.point." + cc.img.point)
	s.St.Inc("probe.chaincrash.backend." + r.Cfg.Backend)
	if r.Cfg.PruneKeep > 0 {
		s.St.Inc("probe.chaincrash.victim_prunes")
	}
	if cc.sawPrune {
		s.St.Inc("probe.chaincrash.pruned_block") // versions were pruned in this block before the crash instant
	}
	s.St.Event("crash r%d h=%d point=%s", r.Idx, cc.height, cc.img.point)
	cc.ready = append(cc.ready, cc.img)
	cc.img = nil
}

// takeImage copies what a process kill of the replica at this instant would leave behind.
func (s *Sim) takeImage(r *Replica, point string, h int64, prevAppHash []byte) *crashImage {
	s.cc.seq++
	img := &crashImage{dir: fmt.Sprintf("%s/phoenix%d", s.base, s.cc.seq), point: point, height: h, prevAppHash: prevAppHash, orig: r}
	retries := copyTreeStable(r.Dir, img.dir)
	if retries > 0 {
		// Not an event: whether a badger background goroutine touched the directory during the copy
		// is not determined by the scenario.
		s.St.Add("chaincrash.image_copy_retries", int64(retries))
	}
	img.stateDB, img.blockDB = copyMemDB(r.stateDB), copyMemDB(r.blockDB)
	return img
}

func copyMemDB(src dbm.DB) dbm.DB {
	dst := dbm.NewMemDB()
	it, err := src.Iterator(nil, nil)
	if err != nil {
		core.Harnessf("chaincrash: iterate db: %v", err)
	}
	defer it.Close()
	for ; it.Valid(); it.Next() {
		if err := dst.Set(append([]byte{}, it.Key()...), append([]byte{}, it.Value()...)); err != nil {
			core.Harnessf("chaincrash: copy db: %v", err)
		}
	}
	if err := it.Error(); err != nil {
		core.Harnessf("chaincrash: iterate db: %v", err)
	}
	return dst
}

// dirSignature lists a directory tree (relative path, size, mtime, mode).
func dirSignature(root string) (string, error) {
	var sb strings.Builder
	err := filepath.Walk(root, func(p string, fi os.FileInfo, err error) error {
		if err != nil {
			return err
		}
		rel, _ := filepath.Rel(root, p)
		fmt.Fprintf(&sb, "%s %d %d %v\n", rel, fi.Size(), fi.ModTime().UnixNano(), fi.Mode())
		return nil
	})
	return sb.String(), err
}

// copyTreeStable copies a live data directory. The files of a running badger instance are only
// changed (a) by writes issued by the simulation goroutine, which is standing still while it
// copies, and (b) by badger's own background goroutines (memtable flush after a reopen,
// compaction), which create and delete files and append to the MANIFEST. A copy that overlaps
// (b) could mix two instants (for example an old MANIFEST without the memtable file that was
// flushed meanwhile), which no process kill can produce. The copy is therefore repeated until
// the directory listing (names, sizes, modification times) is identical before and after it.
// It returns the number of repetitions.
func copyTreeStable(src, dst string) int {
	var lastErr error
	for attempt := 0; attempt < 400; attempt++ {
		sig1, err1 := dirSignature(src)
		_ = os.RemoveAll(dst)
		err := copyTree(src, dst)
		sig2, err2 := dirSignature(src)
		if err == nil && err1 == nil && err2 == nil && sig1 == sig2 {
			return attempt
		}
		lastErr = err
		time.Sleep(5 * time.Millisecond)
	}
	core.Harnessf("chaincrash: data directory %s did not stand still for a copy (last error: %v)", src, lastErr)
	return 0
}

func copyTree(src, dst string) error {
	return filepath.Walk(src, func(p string, fi os.FileInfo, err error) error {
		if err != nil {
			return err
		}
		rel, _ := filepath.Rel(src, p)
		target := filepath.Join(dst, rel)
		switch {
		case fi.IsDir():
			if err := os.MkdirAll(target, 0o755); err != nil {
				return err
			}
			return os.Chmod(target, fi.Mode().Perm())
		case fi.Mode().IsRegular():
			return copyFileSparse(p, target, fi)
		}
		return nil
	})
}

// copyFileSparse copies the data extents of a file (badger pre-sizes its memtable and value-log
// files to hundreds of megabytes; only the written pages are copied).
func copyFileSparse(src, dst string, fi os.FileInfo) error {
	in, err := os.Open(src)
	if err != nil {
		return err
	}
	defer in.Close()
	out, err := os.OpenFile(dst, os.O_CREATE|os.O_WRONLY|os.O_TRUNC, fi.Mode().Perm())
	if err != nil {
		return err
	}
	defer out.Close()
	size := fi.Size()
	if err := out.Truncate(size); err != nil {
		return err
	}
	const seekData, seekHole = 3, 4
	fd := int(in.Fd())
	for off := int64(0); off < size; {
		d, err := syscall.Seek(fd, off, seekData)
		end := size
		switch {
		case err == syscall.ENXIO:
			return nil // only a hole is left
		case err != nil:
			d = off // not supported by the file system: plain copy of the rest
		default:
			if e, err := syscall.Seek(fd, d, seekHole); err == nil && e > d && e < size {
				end = e
			}
		}
		if d >= size {
			return nil
		}
		if _, err := io.Copy(io.NewOffsetWriter(out, d), io.NewSectionReader(in, d, end-d)); err != nil {
			return err
		}
		off = end
	}
	return nil
}

// crViol builds a chain-crash violation (fingerprint = kind + crash instant).
func crViol(kind string, img *crashImage, detail string) *core.Violation {
	return cViol("C07", kind, kind+" "+img.point, fmt.Sprintf("replica %d (%s, prune_keep=%d) crashed at %s while applying block %d; restarted from what was on disk: %s", img.orig.Idx, img.orig.Cfg.Backend, img.orig.Cfg.PruneKeep, img.point, img.height, detail))
}

// phoenixAfterBlock runs after block h was applied by the ordinary replicas: phoenixes already
// in lock-step execute it, and crash images taken during it are resurrected and checked.
func (s *Sim) phoenixAfterBlock(h int64, ref *BlockResult) *core.Violation {
	for _, ph := range s.cc.phoenixes {
		if v := s.phoenixAdvance(ph, "phoenix-lockstep-diverged"); v != nil {
			return v
		}
	}
	ready := s.cc.ready
	s.cc.ready = nil
	for _, img := range ready {
		if v := s.resurrect(img); v != nil {
			return v
		}
	}
	return nil
}

// startPhoenix starts a replica from a crash image.
func (s *Sim) startPhoenix(img *crashImage) (ph *phoenix, serr error, pv interface{}, stack string) {
	r := NewReplica(s.W, 100+s.cc.seq, img.orig.Node, img.orig.Cfg, img.dir, s.GenDoc)
	r.stateDB, r.blockDB = img.stateDB, img.blockDB
	r.extraApps = func() []cmtapi.Application { return probeAppsFor(s, r) }
	ph = &phoenix{r: r, img: img, label: fmt.Sprintf("r%d@%d", img.orig.Idx, img.height), probe: "chaincrash", from: img.height}
	ph.viol = func(kind, detail string) *core.Violation { return crViol(kind, img, detail) }
	for attempt := 0; attempt < 2; attempt++ {
		pv, stack = core.Guard(func() { serr = r.Start() })
		if pv == nil && serr != nil && attempt == 0 && strings.Contains(serr.Error(), "Create a new file") {
			// Dependency quirk (see store.TryOpenDB): a memtable file that badger was creating.
			store.BadgerNewFileRetries.Add(1)
			s.St.Inc("chaincrash.badger_new_file_retry")
			continue
		}
		break
	}
	if pv != nil || serr != nil {
		// Best-effort release of what a half-started replica holds.
		if r.srv != nil {
			core.Guard(func() {
				if r.conns != nil {
					_ = r.conns.Stop()
				}
				r.srv.Stop()
				r.srv.Cleanup()
			})
		}
		if r.cancel != nil {
			r.cancel()
		}
	}
	return
}

// resurrect starts a phoenix from the image and applies oracles (i)-(iv); on success the phoenix
// joins the lock-step set.
func (s *Sim) resurrect(img *crashImage) *core.Violation {
	H := img.height
	ph, serr, pv, stack := s.startPhoenix(img)
	// (i) the node comes back.
	if pv != nil {
		if os.Getenv("VERIF_DEBUG") != "" {
			fmt.Fprintf(os.Stderr, "PANIC while restarting from the crash image: %v\n%s\n", pv, stack)
		}
		return crViol("phoenix-start-panic", img, fmt.Sprintf("start / ABCI handshake panicked: %v\n%s", pv, trimStack(stack)))
	}
	if serr != nil {
		return crViol("phoenix-start-failed", img, fmt.Sprintf("start / ABCI handshake failed: %v\nrecent log: %s", serr, logTail(900)))
	}
	r := ph.r
	// (ii) height and application hash.
	got := r.State.LastBlockHeight
	var want []byte
	switch got {
	case H:
		want = s.Results[H].AppHash
		s.St.Inc("probe.chaincrash.recovered_at_H")
	case H - 1:
		want = img.prevAppHash
		s.St.Inc("probe.chaincrash.recovered_at_H_minus_1")
	default:
		r.Stop()
		return crViol("phoenix-height", img, fmt.Sprintf("came back at height %d (expected %d or %d)", got, H-1, H))
	}
	s.St.Event("phoenix %s point=%s recovered at h=%d apphash=%x", ph.label, img.point, got, r.State.AppHash)
	if !bytes.Equal(r.State.AppHash, want) {
		r.Stop()
		return crViol("phoenix-apphash", img, fmt.Sprintf("came back at height %d with application hash %x; the other replicas have %x for that height", got, r.State.AppHash, want))
	}
	// The application itself must be where CometBFT thinks it is.
	if v := s.phoenixAppState(ph); v != nil {
		r.Stop()
		return v
	}
	// (iii) every version the original serves is served identically.
	if v := s.phoenixHistory(ph); v != nil {
		r.Stop()
		return v
	}
	// (iv) repeat the interrupted block (if it did not take effect) and everything after it.
	if got == H {
		// Taken effect during the handshake: the results recorded by the replay must be the others'.
		res := r.resultAt(H, r.State.AppHash)
		if res.Err != nil {
			r.Stop()
			return crViol("phoenix-replay-error", img, fmt.Sprintf("no ABCI responses for height %d after the handshake: %v", H, res.Err))
		}
		if d := CompareResults(s.Results[H], res); d != "" {
			r.Stop()
			return crViol("phoenix-replay-diverged", img, fmt.Sprintf("results of block %d recorded by the restarted node differ from the other replicas': %s", H, d))
		}
	}
	s.cc.phoenixes = append(s.cc.phoenixes, ph)
	if v := s.phoenixAdvance(ph, "phoenix-replay-diverged"); v != nil {
		return v
	}
	s.cc.checked++
	s.St.Inc("probe.chaincrash.phoenix_checked")
	if len(s.cc.phoenixes) > maxPhoenixes {
		old := s.cc.phoenixes[0]
		s.cc.phoenixes = s.cc.phoenixes[1:]
		s.retirePhoenix(old)
	}
	return nil
}

func logTail(n int) string {
	l := core.Logs.Recent()
	if len(l) > n {
		l = "..." + l[len(l)-n:]
	}
	return l
}

func trimStack(stack string) string {
	lines := strings.Split(stack, "\n")
	if len(lines) > 40 {
		lines = lines[:40]
	}
	return strings.Join(lines, "\n")
}

// phoenixAppState checks that the application's own latest version is the CometBFT height and
// that its state root is the application hash.
func (s *Sim) phoenixAppState(ph *phoenix) *core.Violation {
	r := ph.r
	var ver int64
	var root []byte
	pv, _ := core.Guard(func() {
		st := r.srv.State()
		ver = st.LastHeight()
		h := st.StateRootHash()
		root = h[:]
	})
	if pv != nil {
		return crViol("phoenix-app-state", ph.img, fmt.Sprintf("reading the application's block height panicked: %v", pv))
	}
	if ver != r.State.LastBlockHeight || (ver >= s.W.Doc.Height && !bytes.Equal(root, r.State.AppHash)) {
		return crViol("phoenix-app-state", ph.img, fmt.Sprintf("after the handshake the application is at version %d root %x while CometBFT's state is at height %d app hash %x", ver, root, r.State.LastBlockHeight, r.State.AppHash))
	}
	return nil
}

// phoenixHistory compares committed state trees of the phoenix with the original replica's at
// sampled earlier heights and at the phoenix's last height (full iteration).
func (s *Sim) phoenixHistory(ph *phoenix) *core.Violation {
	orig, r := ph.img.orig, ph.r
	var earliest uint64
	pv, _ := core.Guard(func() { earliest = orig.srv.State().Storage().NodeDB().GetEarliestVersion() })
	if pv != nil {
		return nil
	}
	last := r.State.LastBlockHeight
	lo := int64(earliest)
	if lo < s.W.Doc.Height {
		lo = s.W.Doc.Height
	}
	cand := []int64{lo, lo + 1, (lo + last) / 2, last - 2, last - 1, last}
	seen := map[int64]bool{}
	var hs []int64
	for _, h := range cand {
		if h >= lo && h <= last && !seen[h] {
			seen[h] = true
			hs = append(hs, h)
		}
	}
	sort.Slice(hs, func(i, j int) bool { return hs[i] < hs[j] })
	for _, h := range hs {
		var want store.Model
		var oerr error
		pv, _ := core.Guard(func() {
			t, err := orig.TreeAt(h)
			if err != nil {
				oerr = err
				return
			}
			defer t.Close()
			want, _, oerr = store.DumpTree(s.Ctx, t)
		})
		if pv != nil || oerr != nil {
			// The original does not serve this version (pruned meanwhile): nothing to compare.
			s.St.Inc("probe.chaincrash.history_version_not_served_by_original")
			continue
		}
		var got store.Model
		var gerr error
		pv, stack := core.Guard(func() {
			t, err := r.TreeAt(h)
			if err != nil {
				gerr = err
				return
			}
			defer t.Close()
			got, _, gerr = store.DumpTree(s.Ctx, t)
		})
		if pv != nil {
			return crViol("phoenix-history-unreadable", ph.img, fmt.Sprintf("reading the state of height %d (which the uncrashed replica serves) panicked: %v\n%s", h, pv, trimStack(stack)))
		}
		if gerr != nil {
			return crViol("phoenix-history-unreadable", ph.img, fmt.Sprintf("the state of height %d (which the uncrashed replica serves; earliest %d, last %d) cannot be read: %v", h, lo, last, gerr))
		}
		if !got.Equal(want) {
			return crViol("phoenix-history-differs", ph.img, fmt.Sprintf("the state of height %d differs from the uncrashed replica's: %s", h, store.DiffModels(got, want)))
		}
		s.St.Inc("probe.chaincrash.history_version_compared")
		if h < last {
			s.St.Inc("probe.chaincrash.history_earlier_version_compared")
		}
	}
	s.St.Event("phoenix %s history ok", ph.label)
	return nil
}

// phoenixAdvance brings a phoenix to the tip on the plain replay path, comparing every block
// result with the recorded one, and then lets its pruner run (repeating an interrupted prune).
func (s *Sim) phoenixAdvance(ph *phoenix, kind string) *core.Violation {
	r := ph.r
	fail := func(v *core.Violation) *core.Violation {
		s.dropPhoenix(ph)
		return v
	}
	for r.State.LastBlockHeight < s.Height {
		h := r.State.LastBlockHeight + 1
		blk, err := CopyBlock(s.Blocks[h])
		if err != nil {
			core.Harnessf("copy block: %v", err)
		}
		var res *BlockResult
		pv, stack := core.Guard(func() { res = r.Apply(blk, s.Commits[h]) })
		if pv != nil {
			if electionPrecondition(fmt.Sprint(pv)) {
				s.Aborted = "validator-election-precondition"
				return nil
			}
			return fail(ph.viol("phoenix-replay-panic", fmt.Sprintf("applying block %d panicked: %v\n%s", h, pv, trimStack(stack))))
		}
		if res.Err != nil {
			return fail(ph.viol("phoenix-replay-error", fmt.Sprintf("applying block %d (which the other replicas applied) failed: %v", h, res.Err)))
		}
		if d := CompareResults(s.Results[h], res); d != "" {
			return fail(ph.viol(kind, fmt.Sprintf("block %d: the restarted node disagrees with the other replicas: %s", h, d)))
		}
		s.St.Inc("probe." + ph.probe + ".phoenix_block_applied")
		if ph.img != nil && h == ph.img.height {
			s.St.Inc("probe.chaincrash.interrupted_block_repeated_by_harness")
		}
	}
	// The pruner of the restarted node runs (in a real node: on its next tick). An interrupted
	// Prune must be repeatable to completion.
	if r.Cfg.PruneKeep > 0 && r.State.LastBlockHeight > 0 {
		if p, ok := r.srv.Pruner().(abci.StatePruner); ok {
			ndb := r.srv.State().Storage().NodeDB()
			latest := uint64(r.State.LastBlockHeight)
			var perr error
			var before, after uint64
			pv, stack := core.Guard(func() {
				before = ndb.GetEarliestVersion()
				perr = p.Prune(latest)
				after = ndb.GetEarliestVersion()
			})
			if pv != nil {
				return fail(ph.viol("phoenix-prune-panic", fmt.Sprintf("the pruner panicked at height %d: %v\n%s", latest, pv, trimStack(stack))))
			}
			if perr != nil {
				return fail(ph.viol("phoenix-prune-failed", fmt.Sprintf("the pruner fails at height %d (earliest version %d): %v", latest, before, perr)))
			}
			if latest >= r.Cfg.PruneKeep {
				if want := latest - r.Cfg.PruneKeep; before <= want && after != want && want >= uint64(s.W.Doc.Height) {
					return fail(ph.viol("phoenix-prune-incomplete", fmt.Sprintf("after pruning at height %d keeping %d the earliest version is %d (was %d), expected %d", latest, r.Cfg.PruneKeep, after, before, want)))
				}
			}
			if after > before {
				s.St.Inc("probe." + ph.probe + ".phoenix_pruned")
			}
		}
	}
	return nil
}

// dropPhoenix stops a phoenix and removes it from the lock-step set.
func (s *Sim) dropPhoenix(ph *phoenix) {
	for i, x := range s.cc.phoenixes {
		if x == ph {
			s.cc.phoenixes = append(s.cc.phoenixes[:i:i], s.cc.phoenixes[i+1:]...)
			break
		}
	}
	s.retirePhoenix(ph)
}

func (s *Sim) retirePhoenix(ph *phoenix) {
	core.Guard(func() { ph.r.Stop() })
	_ = os.RemoveAll(ph.r.Dir)
}

// stopPhoenixes stops all phoenixes (end of run) and removes unused crash images.
func (s *Sim) stopPhoenixes() {
	for _, ph := range s.cc.phoenixes {
		s.retirePhoenix(ph)
	}
	s.cc.phoenixes = nil
	for _, img := range s.cc.ready {
		_ = os.RemoveAll(img.dir)
	}
	s.cc.ready = nil
}

// crashOracle makes a chaincrash run count as non-trivial only when a phoenix was fully checked.
type crashOracle struct{ BaseOracle }

func (crashOracle) Finish(s *Sim) (*core.Violation, bool) {
	if n := len(s.cc.phoenixes); n > 0 {
		s.St.Add("probe.phoenix_in_lockstep_at_end", int64(n))
		for _, ph := range s.cc.phoenixes {
			if ph.r.State.LastBlockHeight != s.Height {
				core.Harnessf("chaincrash: phoenix %s is at height %d, chain at %d", ph.label, ph.r.State.LastBlockHeight, s.Height)
			}
			s.St.Add("probe."+ph.probe+".lockstep_blocks", s.Height-ph.from)
		}
	}
	return nil, s.cc.checked > 0 || s.ss.crashChecked > 0
}

func init() {
	RegisterOracle("C07", func() Oracle { return crashOracle{} })
	// Chain-level C07 runs keep the application state on disk, and about half of the replicas
	// prune with a small window so that NodeDB.Prune runs inside the crash window.
	RegisterWorkload("C07", &Workload{Tune: func(r *core.Rand, k *ChainKnobs) {
		k.Disk = true
		for i := range k.Replicas {
			if r.Chance(1, 2) {
				k.Replicas[i].PruneKeep = uint64(r.Range(1, 4))
			}
		}
	}})
}
