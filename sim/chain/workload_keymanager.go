package chain

// Base extra "keymanager": the key manager application (secrets and CHURP extensions) for the base
// properties C01, C05, C08, C09, C10 and C15.
//
// When the extra is selected the genesis holds a non-TEE key manager runtime (test namespace with
// the key manager flag; nodes of a non-TEE key manager attest with the built-in insecure test key,
// so the harness can play the enclave), 1-3 key manager nodes of which some expire after a few
// epochs, optionally a genesis status (fresh with a policy, or initialized with a master secret
// generation) and optionally a compute runtime that names the key manager.  The transaction kinds
// are pure functions of (world, op, committed state):
//
//	km.node      (re-)registration of a key manager node whose ExtraInfo carries the enclave's signed
//	             init response: matching the status (checksum, policy checksum, runtime signing key)
//	             and, while a master secret proposal is pending, mostly "replicated" (next checksum
//	             = the proposal's), so that epoch transitions form committees of 0, 1 and more
//	             nodes and accept proposals (66 % rule); flawed variants make the node ineligible
//	             (no / garbage / mis-signed ExtraInfo, checksum, policy checksum, security flag or
//	             signing key mismatch, a second flawed version) or the registration refused
//	             (no runtime, another runtime, TEE capability, expired).
//	km.master    PublishMasterSecret for the next generation and epoch by a committee node, signed
//	             with the insecure RAK; also wrong epoch / generation, bad signature, unknown or no
//	             recipient keys, another runtime, a non-committee node or an ordinary account (a
//	             second proposal in an epoch is refused as a duplicate by itself).
//	km.ephemeral PublishEphemeralSecret analogously.
//	km.policy    UpdatePolicy by the owner (serial + 1, rotation interval so that later generations
//	             can be proposed) or somebody else; stale serials, broken signatures, other runtimes.
//	km.churp     CHURP Create / Update by the owner, Apply / Confirm by the nodes, chosen from the
//	             state of the instances so that handoffs complete; with implausible variants.
//
// The probe oracle counts what the epoch transitions did (committee sizes, accepted proposals,
// pending proposal with an empty committee, applied policies, CHURP handoffs, suspension).

import (
	"bytes"
	"context"
	"crypto/sha3"
	"fmt"
	"math"

	cmttypes "github.com/cometbft/cometbft/types"
	"github.com/oasisprotocol/curve25519-voi/primitives/x25519"

	beacon "github.com/oasisprotocol/oasis-core/go/beacon/api"
	"github.com/oasisprotocol/oasis-core/go/common"
	"github.com/oasisprotocol/oasis-core/go/common/cbor"
	"github.com/oasisprotocol/oasis-core/go/common/crypto/hash"
	"github.com/oasisprotocol/oasis-core/go/common/crypto/signature"
	"github.com/oasisprotocol/oasis-core/go/common/entity"
	"github.com/oasisprotocol/oasis-core/go/common/node"
	"github.com/oasisprotocol/oasis-core/go/common/quantity"
	"github.com/oasisprotocol/oasis-core/go/common/sgx"
	"github.com/oasisprotocol/oasis-core/go/common/version"
	"github.com/oasisprotocol/oasis-core/go/consensus/api/transaction"
	beaconState "github.com/oasisprotocol/oasis-core/go/consensus/cometbft/apps/beacon/state"
	churpState "github.com/oasisprotocol/oasis-core/go/consensus/cometbft/apps/keymanager/churp/state"
	secretsState "github.com/oasisprotocol/oasis-core/go/consensus/cometbft/apps/keymanager/secrets/state"
	registryState "github.com/oasisprotocol/oasis-core/go/consensus/cometbft/apps/registry/state"
	genesis "github.com/oasisprotocol/oasis-core/go/genesis/api"
	kmAPI "github.com/oasisprotocol/oasis-core/go/keymanager/api"
	"github.com/oasisprotocol/oasis-core/go/keymanager/churp"
	"github.com/oasisprotocol/oasis-core/go/keymanager/secrets"
	registry "github.com/oasisprotocol/oasis-core/go/registry/api"
	staking "github.com/oasisprotocol/oasis-core/go/staking/api"
	"github.com/oasisprotocol/oasis-core/go/storage/mkvs"

	"verif/sim/core"
)

func init() {
	RegisterTxKind("km.node", kmBuildNode)
	RegisterTxKind("km.master", kmBuildMaster)
	RegisterTxKind("km.ephemeral", kmBuildEphemeral)
	RegisterTxKind("km.policy", kmBuildPolicy)
	RegisterTxKind("km.churp", kmBuildChurp)
	RegisterBaseExtra(&BaseExtra{
		Name: "keymanager",
		Kinds: []string{
			"km.node", "km.node", "km.node", "km.node", "km.node", "km.node", "km.node",
			"km.master", "km.master", "km.master", "km.master",
			"km.ephemeral", "km.ephemeral", "km.ephemeral",
			"km.policy", "km.policy",
			"km.churp", "km.churp", "km.churp", "km.churp",
		},
		WideArg: true,
		Tune:    kmTune,
		OwnRand: true,
		Share:   2,
		Follow:  kmFollow,
	})
	for _, prop := range []string{"C01", "C05", "C08", "C09", "C10", "C15"} {
		RegisterOracle(prop, func() Oracle { return &kmProbe{} })
	}
}

// kmTune shapes the genesis for the key manager extra (all draws from the extra's own PRNG).
func kmTune(r *core.Rand, k *ChainKnobs) {
	g := &k.Gen
	g.KeyManager = true
	// The owner: mostly the first (anchor) entity, sometimes the last one, which is not an anchor
	// when there are more entities than replicas and may lose its stake (runtime suspension).
	g.KMOwner = 0
	if r.Chance(1, 3) {
		g.KMOwner = g.Entities - 1
	}
	n := r.Pick([]int{0, 4, 3, 3}) // 1..3 nodes
	g.KMExpiry = nil
	for i := 0; i < n; i++ {
		exp := uint64(100_000)
		if r.Chance(2, 3) {
			exp = uint64(r.Range(1, 4))
		}
		g.KMExpiry = append(g.KMExpiry, exp)
	}
	g.KMNoInit = 0
	if r.Chance(1, 4) {
		g.KMNoInit = r.Range(1, (1<<uint(n))-1)
	}
	g.KMStatus = r.Pick([]int{2, 1, 1})
	g.KMLink = r.Chance(1, 2)
	g.KMGas = g.GasBase + 60
	// The nodes sign (and pay for) their own transactions from their own accounts: either these are
	// funded, or transacting needs no balance.
	g.KMNodeBalance = 0
	if r.Chance(1, 2) {
		g.KMNodeBalance = g.MinTransact + uint64(r.Range(500, 5000))
	} else {
		g.MinTransact = 0
	}
	// The nodes sign (and pay for) their own transactions: no minimum gas price in most runs.
	if g.KMNodeBalance == 0 || !r.Chance(1, 8) {
		g.MinGasPrice = 0
	}
	// Stake for the runtime claim (owner) and one node claim per key manager node; the owner
	// sometimes gets enough for CHURP instances as well (each is a claim of its own).
	if g.KMOwner < len(g.EntityEscrow) {
		g.EntityEscrow[g.KMOwner] += g.ThresholdNode * uint64(1+r.Intn(3))
	}
	for i := 0; i < n; i++ {
		if e := (g.KMOwner + i) % g.Entities; e < len(g.EntityEscrow) {
			g.EntityEscrow[e] += g.ThresholdNode
		}
	}
}

// kmFollow turns most of the master secret proposals and half of the policy updates and CHURP
// operations into a campaign: a block that
// commits the transaction, then one to three node registrations (which react to the committed
// proposal / scheduled policy: replicate, adopt the policy checksum) and another block. Base runs
// have about one transaction per height, too few for a proposal and its replication by two thirds
// of the committee to fall into one epoch by chance.
func kmFollow(r *core.Rand, op *TxOp) []Op {
	if op.Mut != "" || op.NonceOff != 0 || op.GasMode != 0 || op.Replay != 0 {
		return nil
	}
	kind := "km.node"
	switch {
	case op.Kind == "km.master" && r.Chance(3, 4):
	case op.Kind == "km.policy" && r.Chance(1, 2):
	case op.Kind == "km.churp" && r.Chance(1, 2):
		// (CHURP operations are chosen from the state: applications of further nodes, then confirmations)
		kind = "km.churp"
	default:
		return nil
	}
	out := []Op{{K: "block", Block: &BlockOp{Proposer: r.Intn(8), Take: 20, Dt: 1}}}
	for i, n := 0, 1+r.Pick([]int{2, 3, 3}); i < n; i++ {
		out = append(out, Op{K: "tx", Tx: &TxOp{Kind: kind, From: r.Intn(16), To: r.Intn(16), Amt: r.Range(1, 500), Arg: r.Intn(1 << 16), Fee: uint64(r.Pick([]int{2, 1}) * r.Range(0, 20))}})
	}
	return append(out, Op{K: "block", Block: &BlockOp{Proposer: r.Intn(8), Take: 20, Dt: 1}})
}

var kmVersion = version.Version{Major: 0, Minor: 1, Patch: 0}

// kmPolicyChecksum is the checksum of a policy as the application computes it.
func kmPolicyChecksum(p *secrets.SignedPolicySGX) []byte {
	if p == nil {
		return nil
	}
	h := sha3.Sum256(cbor.Marshal(p))
	return h[:]
}

// kmRSK is the runtime signing key that the simulated enclaves derive from a master secret
// (identified by its checksum).
func kmRSK(checksum []byte) *signature.PublicKey {
	if len(checksum) == 0 {
		return nil
	}
	pk := testSigner("verif/km/rsk/", fmt.Sprintf("%x", checksum)).Public()
	return &pk
}

func kmBytes(n int, parts ...interface{}) []byte {
	var out []byte
	for i := 0; len(out) < n; i++ {
		h := hash.NewFromBytes([]byte(fmt.Sprint(append([]interface{}{"verif/km/bytes/", i, "/"}, parts...)...)))
		out = append(out, h[:]...)
	}
	return out[:n]
}

// kmSignPolicy signs a policy with the first n policy test keys.
func kmSignPolicy(pol secrets.PolicySGX, n int) *secrets.SignedPolicySGX {
	sp := &secrets.SignedPolicySGX{Policy: pol}
	raw := cbor.Marshal(pol)
	for i := 0; i < n && 1+i < len(kmAPI.TestSigners); i++ {
		sig, err := signature.Sign(kmAPI.TestSigners[1+i], secrets.PolicySGXSignatureContext, raw)
		if err != nil {
			core.Harnessf("km: sign policy: %v", err)
		}
		sp.Signatures = append(sp.Signatures, *sig)
	}
	return sp
}

// kmExtraInfo is the ExtraInfo blob of a node runtime: the init response signed with the RAK.
func kmExtraInfo(resp *secrets.InitResponse, rak signature.Signer) []byte {
	sir, err := secrets.SignInitResponse(rak, resp)
	if err != nil {
		core.Harnessf("km: sign init response: %v", err)
	}
	return cbor.Marshal(sir)
}

// addGenesisKeyManager puts the key manager runtime, its nodes and the key manager genesis state
// into the document (called at the end of BuildWorld).
func addGenesisKeyManager(w *World, doc *genesis.Document) error {
	k := w.K
	w.KMID = common.NewTestNamespaceFromSeed([]byte("verif/sim/chain/keymanager/"+k.Salt), common.NamespaceKeyManager)
	owner := ((k.KMOwner % len(w.Entities)) + len(w.Entities)) % len(w.Entities)
	doc.Registry.Runtimes = append(doc.Registry.Runtimes, &registry.Runtime{
		Versioned:       cbor.NewVersioned(registry.LatestRuntimeDescriptorVersion),
		ID:              w.KMID,
		EntityID:        w.Entities[owner].Entity.ID,
		Kind:            registry.KindKeyManager,
		TEEHardware:     node.TEEHardwareInvalid,
		AdmissionPolicy: registry.RuntimeAdmissionPolicy{AnyNode: &registry.AnyNodeRuntimeAdmissionPolicy{}},
		GovernanceModel: registry.GovernanceEntity,
		Deployments:     []*registry.VersionInfo{{Version: kmVersion}},
	})
	if k.KMLink {
		for _, rt := range doc.Registry.Runtimes {
			if rt.Kind == registry.KindCompute {
				id := w.KMID
				rt.KeyManager = &id
			}
		}
	}

	// Genesis status.
	var status *secrets.Status
	switch k.KMStatus {
	case 1:
		status = &secrets.Status{ID: w.KMID, Policy: kmSignPolicy(secrets.PolicySGX{Serial: 1, ID: w.KMID, MasterSecretRotationInterval: 1, MaxEphemeralSecretAge: 2}, 1)}
	case 2:
		status = &secrets.Status{ID: w.KMID, IsInitialized: true, Generation: 2, Checksum: kmBytes(32, "genesis checksum", k.Salt),
			Policy: kmSignPolicy(secrets.PolicySGX{Serial: 3, ID: w.KMID, MasterSecretRotationInterval: 2}, 2)}
	}
	gas := transaction.Costs{}
	if k.KMGas > 0 {
		gas = transaction.Costs{
			secrets.GasOpUpdatePolicy:           transaction.Gas(k.KMGas + 1),
			secrets.GasOpPublishMasterSecret:    transaction.Gas(k.KMGas + 2),
			secrets.GasOpPublishEphemeralSecret: transaction.Gas(k.KMGas + 3),
		}
	}
	doc.KeyManager = kmAPI.Genesis{
		Genesis: secrets.Genesis{Parameters: secrets.ConsensusParameters{GasCosts: gas}},
		Churp:   &churp.Genesis{Parameters: churp.DefaultConsensusParameters},
	}
	if status != nil {
		doc.KeyManager.Statuses = []*secrets.Status{status}
	}

	// Nodes (round robin over the entities, starting at the owner).
	resp := &secrets.InitResponse{}
	if status != nil {
		resp = &secrets.InitResponse{Checksum: status.Checksum, PolicyChecksum: kmPolicyChecksum(status.Policy), RSK: kmRSK(status.Checksum)}
	}
	for i, exp := range k.KMExpiry {
		e := (owner + i) % len(w.Entities)
		nk := NewNodeKeys(k.Salt, e, 200+i, node.RoleKeyManager)
		w.KMNodes = append(w.KMNodes, nk)
		w.Entities[e].Entity.Nodes = append(w.Entities[e].Entity.Nodes, nk.Identity.NodeSigner.Public())
		rt := &node.Runtime{ID: w.KMID, Version: kmVersion}
		if k.KMNoInit&(1<<uint(i)) == 0 {
			rt.ExtraInfo = kmExtraInfo(resp, kmAPI.TestSigners[0])
		}
		sn, err := nk.Sign(registry.RegisterGenesisNodeSignatureContext, nk.Descriptor(w, exp, []*node.Runtime{rt}))
		if err != nil {
			return err
		}
		doc.Registry.Nodes = append(doc.Registry.Nodes, sn)
		if k.KMNodeBalance > 0 {
			addr := staking.NewAddress(nk.Identity.NodeSigner.Public())
			doc.Staking.Ledger[addr] = &staking.Account{General: staking.GeneralAccount{Balance: q(k.KMNodeBalance)}}
			if err := doc.Staking.TotalSupply.Add(quantity.NewFromUint64(k.KMNodeBalance)); err != nil {
				return err
			}
		}
	}
	// The entities' node lists changed: re-sign.
	doc.Registry.Entities = nil
	for _, ek := range w.Entities {
		se, err := entity.SignEntity(ek.Signer, registry.RegisterGenesisEntitySignatureContext, ek.Entity)
		if err != nil {
			return err
		}
		doc.Registry.Entities = append(doc.Registry.Entities, se)
	}
	return nil
}

// kmView is what the builders (and the probe) read from a committed state.
type kmView struct {
	epoch   beacon.EpochTime
	status  *secrets.Status // nil when there is no status yet
	master  *secrets.SignedEncryptedMasterSecret
	eph     *secrets.SignedEncryptedEphemeralSecret
	nextGen uint64
	// pending: a master secret proposal for the next epoch and the next generation is stored.
	pending bool
	regs    []*node.Node // registered descriptor per world key manager node (nil = not registered)
	member  []bool       // per world key manager node: in the current committee
}

func kmReadView(w *World, tree mkvs.ImmutableKeyValueTree) *kmView {
	ctx := context.Background()
	kv := &kmView{}
	kv.epoch, _, _ = beaconState.NewImmutableState(tree).GetEpoch(ctx)
	st := secretsState.NewImmutableState(tree)
	if s, err := st.Status(ctx, w.KMID); err == nil {
		kv.status = s
		kv.nextGen = s.NextGeneration()
	}
	if m, err := st.MasterSecret(ctx, w.KMID); err == nil {
		kv.master = m
	}
	if e, err := st.EphemeralSecret(ctx, w.KMID); err == nil {
		kv.eph = e
	}
	kv.pending = kv.master != nil && kv.master.Secret.Epoch == kv.epoch+1 && kv.master.Secret.Generation == kv.nextGen
	reg := registryState.NewImmutableState(tree)
	for _, nk := range w.KMNodes {
		id := nk.Identity.NodeSigner.Public()
		n, err := reg.Node(ctx, id)
		if err != nil {
			n = nil
		}
		kv.regs = append(kv.regs, n)
		in := false
		if kv.status != nil {
			for _, m := range kv.status.Nodes {
				in = in || m.Equal(id)
			}
		}
		kv.member = append(kv.member, in)
	}
	return kv
}

// targetPolicy is the policy that will be in force after the next epoch transition.
func (kv *kmView) targetPolicy() *secrets.SignedPolicySGX {
	if kv.status == nil {
		return nil
	}
	if kv.status.NextPolicy != nil {
		return kv.status.NextPolicy
	}
	return kv.status.Policy
}

func (kv *kmView) checksum() []byte {
	if kv.status == nil {
		return nil
	}
	return kv.status.Checksum
}

// replicated reports whether the i-th node's registered descriptor claims the pending proposal.
func (kv *kmView) replicated(w *World, i int) bool {
	n := kv.regs[i]
	if n == nil || kv.master == nil {
		return false
	}
	for _, rt := range n.Runtimes {
		if !rt.ID.Equal(&w.KMID) || rt.ExtraInfo == nil {
			continue
		}
		var sir secrets.SignedInitResponse
		if cbor.Unmarshal(rt.ExtraInfo, &sir) == nil && bytes.Equal(sir.InitResponse.NextChecksum, kv.master.Secret.Secret.Checksum) {
			return true
		}
	}
	return false
}

func (kv *kmView) members() (in, out []int) {
	for i, m := range kv.member {
		if m {
			in = append(in, i)
		} else {
			out = append(out, i)
		}
	}
	return
}

// kmNodeSigner returns the signer, fee and nonce of a transaction sent by a key manager node (the
// fee is dropped when the node's account cannot pay it on top of the minimum transacting balance).
func kmNodeSigner(v TxView, op TxOp, nk *NodeKeys, fee *transaction.Fee) (signature.Signer, *transaction.Fee, uint64) {
	s := nk.Identity.NodeSigner
	need := fee.Amount.Clone()
	_ = need.Add(&v.StakingParams().MinTransactBalance)
	if bal := v.Account(staking.NewAddress(s.Public())).General.Balance; bal.Cmp(need) < 0 {
		fee = &transaction.Fee{Gas: fee.Gas}
	}
	return s, fee, c17Nonce(v, op, s)
}

// kmOtherRuntime is a runtime identifier that is not the key manager: the compute runtime when the
// genesis has one, an unregistered key manager namespace otherwise (or on request).
func kmOtherRuntime(w *World, rr *core.Rand) common.Namespace {
	if w.K.Runtime && rr.Bool() {
		return w.RuntimeID
	}
	return common.NewTestNamespaceFromSeed([]byte("verif/sim/chain/no-such-keymanager"), common.NamespaceKeyManager)
}

// kmBuildNode: (re-)registration of a key manager node.
func kmBuildNode(w *World, op TxOp, v TxView, _ signature.Signer, fee *transaction.Fee) (*transaction.Transaction, signature.Signer, error) {
	if !w.K.KeyManager || len(w.KMNodes) == 0 {
		return nil, nil, nil
	}
	rr := c17Rand(op)
	kv := kmReadView(w, v.Tree())
	n := len(w.KMNodes)
	idx := rr.Intn(n)
	// busy: a transaction of the node is waiting in the pool (probably a registration already).
	busy := func(i int) bool {
		pk := w.KMNodes[i].Identity.NodeSigner.Public()
		return v.NextNonce(pk) != v.Account(staking.NewAddress(pk)).General.Nonce
	}
	switch {
	case rr.Chance(1, 4):
	case kv.pending:
		// A committee member that has not replicated the pending proposal yet.
		for j := 0; j < n; j++ {
			if i := (idx + j) % n; kv.member[i] && !kv.replicated(w, i) && !busy(i) {
				idx = i
				break
			}
		}
	case rr.Bool():
		// The node whose registration ends first (unregistered nodes first).
		best := idx
		exp := func(i int) beacon.EpochTime {
			if kv.regs[i] == nil {
				return 0
			}
			return kv.regs[i].Expiration
		}
		for j := 1; j < n; j++ {
			if i := (idx + j) % n; exp(i) < exp(best) {
				best = i
			}
		}
		idx = best
	}
	nk := w.KMNodes[idx]

	checksum := kv.checksum()
	resp := &secrets.InitResponse{Checksum: checksum, PolicyChecksum: kmPolicyChecksum(kv.targetPolicy()), RSK: kmRSK(checksum)}
	if kv.status != nil {
		resp.IsSecure = kv.status.IsSecure
	}
	if kv.pending && !rr.Chance(1, 8) {
		resp.NextChecksum = kv.master.Secret.Secret.Checksum
		resp.NextRSK = kmRSK(resp.NextChecksum)
	}
	rak := kmAPI.TestSigners[0]
	exp := uint64(kv.epoch) + 1 + uint64(rr.Pick([]int{3, 4, 3, 2}))
	rts := []*node.Runtime{{ID: w.KMID, Version: kmVersion}}
	extra := func() []byte { return kmExtraInfo(resp, rak) }
	setExtra := true
	if rr.Chance(1, 5) {
		switch rr.Intn(17) {
		case 0:
			setExtra = false
		case 1:
			rak = kmAPI.TestSigners[1]
		case 2:
			resp.Checksum = kmBytes(32, "wrong checksum", op.Arg)
			if len(checksum) > 0 && rr.Bool() {
				resp.Checksum = nil
			}
		case 3:
			resp.PolicyChecksum = kmBytes(32, "wrong policy checksum", op.Arg)
		case 4:
			resp.PolicyChecksum = kmBytes(5, "short policy checksum", op.Arg)
		case 5:
			resp.IsSecure = !resp.IsSecure
		case 6:
			resp.RSK = kmRSK(kmBytes(8, "other rsk", op.Arg))
		case 7:
			rts[0].ExtraInfo = append([]byte{0xff, 0x00}, kmBytes(rr.Intn(20), "garbage", op.Arg)...)
			setExtra = false
		case 8:
			resp.NextChecksum = kmBytes(32, "wrong next checksum", op.Arg)
			resp.NextRSK = kmRSK(resp.NextChecksum)
		case 9:
			// A second version whose enclave disagrees: the node is skipped as a whole.
			bad := *resp
			bad.Checksum = kmBytes(32, "second version checksum", op.Arg)
			rts = append(rts, &node.Runtime{ID: w.KMID, Version: version.Version{Major: 0, Minor: 2}, ExtraInfo: kmExtraInfo(&bad, rak)})
		case 10:
			// A second version that agrees.
			rts = append(rts, &node.Runtime{ID: w.KMID, Version: version.Version{Major: 0, Minor: 2}, ExtraInfo: kmExtraInfo(resp, rak)})
		case 11:
			// The policy in force now although another one is scheduled.
			if kv.status != nil {
				resp.PolicyChecksum = kmPolicyChecksum(kv.status.Policy)
			}
		case 12:
			rts = nil
		case 13:
			rts[0].ID = kmOtherRuntime(w, rr)
		case 14:
			rts[0].Capabilities.TEE = &node.CapabilityTEE{Hardware: node.TEEHardwareIntelSGX, RAK: kmAPI.InsecureRAK}
		case 15:
			exp = uint64(kv.epoch) // expired on arrival
		case 16:
			// The next runtime signing key disagrees with the node's own next checksum.
			resp.NextRSK = kmRSK(kmBytes(8, "other next rsk", op.Arg))
		}
	}
	if setExtra && len(rts) > 0 {
		rts[0].ExtraInfo = extra()
	}
	sn, err := nk.Sign(registry.RegisterNodeSignatureContext, nk.Descriptor(w, exp, rts))
	if err != nil {
		return nil, nil, err
	}
	signer, nfee, nonce := kmNodeSigner(v, op, nk, fee)
	return registry.NewRegisterNodeTx(nonce, nfee, sn), signer, nil
}

// kmSecretSender picks who sends a secret: mostly a committee node, sometimes a key manager node
// outside the committee or an ordinary account.
func kmSecretSender(w *World, rr *core.Rand, kv *kmView, v TxView, op TxOp, def signature.Signer, fee *transaction.Fee) (signature.Signer, *transaction.Fee, uint64) {
	in, out := kv.members()
	pick := func(l []int) (signature.Signer, *transaction.Fee, uint64) {
		return kmNodeSigner(v, op, w.KMNodes[l[rr.Intn(len(l))]], fee)
	}
	switch c := rr.Intn(10); {
	case c == 0 && len(out) > 0:
		return pick(out)
	case c == 1 || len(w.KMNodes) == 0:
		return def, fee, c17Nonce(v, op, def)
	case len(in) > 0:
		return pick(in)
	default:
		return pick(out)
	}
}

// kmSecret builds the encrypted secret of a proposal; flaw 1 adds a recipient key outside the
// committee, flaw 2 leaves out all recipients.
func kmSecret(rr *core.Rand, flaw int, parts ...interface{}) secrets.EncryptedSecret {
	s := secrets.EncryptedSecret{
		Checksum:    kmBytes(32, append([]interface{}{"checksum"}, parts...)...),
		PubKey:      kmAPI.InsecureREK,
		Ciphertexts: map[x25519.PublicKey][]byte{kmAPI.InsecureREK: kmBytes(16+rr.Intn(32), append([]interface{}{"ciphertext"}, parts...)...)},
	}
	switch flaw {
	case 1:
		var other x25519.PublicKey
		copy(other[:], kmBytes(32, append([]interface{}{"other rek"}, parts...)...))
		s.Ciphertexts[other] = []byte{1, 2, 3}
	case 2:
		s.Ciphertexts = nil
	}
	return s
}

// kmBuildMaster: keymanager.PublishMasterSecret.
func kmBuildMaster(w *World, op TxOp, v TxView, def signature.Signer, fee *transaction.Fee) (*transaction.Transaction, signature.Signer, error) {
	if !w.K.KeyManager {
		return nil, nil, nil
	}
	rr := c17Rand(op)
	kv := kmReadView(w, v.Tree())
	signer, nfee, nonce := kmSecretSender(w, rr, kv, v, op, def, fee)
	gen, ep, id := kv.nextGen, kv.epoch+1, w.KMID
	rak := kmAPI.TestSigners[0]
	flaw, sflaw := -1, 0
	if rr.Chance(1, 4) {
		flaw = rr.Intn(9)
	}
	switch flaw {
	case 0:
		ep = kv.epoch
	case 1:
		ep = kv.epoch + 2
	case 2:
		gen++
	case 3:
		if gen == 0 {
			gen = 7
		} else {
			gen--
		}
	case 4:
		rak = kmAPI.TestSigners[1]
	case 5:
		sflaw = 1
	case 6:
		sflaw = 2
	case 7:
		id = kmOtherRuntime(w, rr)
	}
	sec := secrets.EncryptedMasterSecret{ID: id, Generation: gen, Epoch: ep, Secret: kmSecret(rr, sflaw, "master", w.K.Salt, gen, uint64(ep), op.Arg)}
	sig, err := signature.Sign(rak, secrets.EncryptedMasterSecretSignatureContext, cbor.Marshal(sec))
	if err != nil {
		return nil, nil, err
	}
	body := &secrets.SignedEncryptedMasterSecret{Secret: sec, Signature: sig.Signature}
	if flaw == 8 {
		body.Signature[op.Arg%len(body.Signature)] ^= 1 << uint(op.Arg%8)
	}
	return secrets.NewPublishMasterSecretTx(nonce, nfee, body), signer, nil
}

// kmBuildEphemeral: keymanager.PublishEphemeralSecret.
func kmBuildEphemeral(w *World, op TxOp, v TxView, def signature.Signer, fee *transaction.Fee) (*transaction.Transaction, signature.Signer, error) {
	if !w.K.KeyManager {
		return nil, nil, nil
	}
	rr := c17Rand(op)
	kv := kmReadView(w, v.Tree())
	signer, nfee, nonce := kmSecretSender(w, rr, kv, v, op, def, fee)
	ep, id := kv.epoch+1, w.KMID
	rak := kmAPI.TestSigners[0]
	flaw, sflaw := -1, 0
	if rr.Chance(1, 4) {
		flaw = rr.Intn(7)
	}
	switch flaw {
	case 0:
		ep = kv.epoch
	case 1:
		ep = kv.epoch + 2
	case 2:
		rak = kmAPI.TestSigners[1]
	case 3:
		sflaw = 1
	case 4:
		sflaw = 2
	case 5:
		id = kmOtherRuntime(w, rr)
	}
	sec := secrets.EncryptedEphemeralSecret{ID: id, Epoch: ep, Secret: kmSecret(rr, sflaw, "ephemeral", w.K.Salt, uint64(ep), op.Arg)}
	sig, err := signature.Sign(rak, secrets.EncryptedEphemeralSecretSignatureContext, cbor.Marshal(sec))
	if err != nil {
		return nil, nil, err
	}
	body := &secrets.SignedEncryptedEphemeralSecret{Secret: sec, Signature: sig.Signature}
	if flaw == 6 {
		body.Signature[op.Arg%len(body.Signature)] ^= 1 << uint(op.Arg%8)
	}
	return secrets.NewPublishEphemeralSecretTx(nonce, nfee, body), signer, nil
}

func (w *World) kmOwner() signature.Signer {
	n := len(w.Entities)
	return w.Entities[((w.K.KMOwner%n)+n)%n].Signer
}

func kmEnclave(parts ...interface{}) (id sgx.EnclaveIdentity) {
	copy(id.MrEnclave[:], kmBytes(len(id.MrEnclave), append([]interface{}{"mrenclave"}, parts...)...))
	copy(id.MrSigner[:], kmBytes(len(id.MrSigner), append([]interface{}{"mrsigner"}, parts...)...))
	return
}

// kmBuildPolicy: keymanager.UpdatePolicy.
func kmBuildPolicy(w *World, op TxOp, v TxView, def signature.Signer, fee *transaction.Fee) (*transaction.Transaction, signature.Signer, error) {
	if !w.K.KeyManager {
		return nil, nil, nil
	}
	rr := c17Rand(op)
	kv := kmReadView(w, v.Tree())
	signer := w.kmOwner()
	if rr.Chance(1, 5) {
		signer = def
	}
	serial := uint32(rr.Intn(3))
	if cur := kv.targetPolicy(); cur != nil {
		serial = cur.Policy.Serial + 1
	}
	pol := secrets.PolicySGX{
		Serial:                       serial,
		ID:                           w.KMID,
		MasterSecretRotationInterval: beacon.EpochTime([]uint64{0, 1, 2, 1000, math.MaxUint64}[rr.Pick([]int{2, 8, 4, 1, 1})]),
		MaxEphemeralSecretAge:        beacon.EpochTime(rr.Intn(5)),
	}
	if rr.Chance(1, 4) {
		e := kmEnclave(op.Arg)
		pol.Enclaves = map[sgx.EnclaveIdentity]*secrets.EnclavePolicySGX{e: {MayReplicate: []sgx.EnclaveIdentity{kmEnclave(op.Arg, 1)}}}
		if rr.Bool() {
			pol.Enclaves[e].MayQuery = map[common.Namespace][]sgx.EnclaveIdentity{w.RuntimeID: {kmEnclave(op.Arg, 2)}}
		}
	}
	flaw := -1
	if rr.Chance(1, 4) {
		flaw = rr.Intn(6)
	}
	switch flaw {
	case 0:
		if kv.status != nil && kv.status.Policy != nil {
			pol.Serial = kv.status.Policy.Policy.Serial // not increased
		}
	case 1:
		pol.Serial = 0
	case 2:
		pol.ID = kmOtherRuntime(w, rr)
	}
	sp := kmSignPolicy(pol, rr.Pick([]int{1, 3, 2, 2}))
	switch flaw {
	case 3:
		if len(sp.Signatures) > 0 {
			sp.Signatures[0].Signature[op.Arg%signature.SignatureSize] ^= 1 << uint(op.Arg%8)
		}
	case 4:
		// A signature over another policy.
		other := pol
		other.Serial++
		sp.Signatures = append(sp.Signatures, kmSignPolicy(other, 1).Signatures...)
	case 5:
		sp.Signatures = append(sp.Signatures, signature.Signature{}) // an invalid (all-zero) public key
	}
	return secrets.NewUpdatePolicyTx(c17Nonce(v, op, signer), fee, sp), signer, nil
}

// kmChurpChecksum is the verification matrix checksum that the simulated enclaves agree on.
func kmChurpChecksum(w *World, st *churp.Status, ep beacon.EpochTime) hash.Hash {
	return hash.NewFromBytes([]byte(fmt.Sprintf("verif/km/churp/%s/%d/%d", w.K.Salt, st.ID, ep)))
}

// kmBuildChurp: CHURP Create / Update by the owner, Apply / Confirm by the nodes; the operation is
// chosen from the state of the instances so that handoffs make progress.
func kmBuildChurp(w *World, op TxOp, v TxView, def signature.Signer, fee *transaction.Fee) (*transaction.Transaction, signature.Signer, error) {
	if !w.K.KeyManager {
		return nil, nil, nil
	}
	rr := c17Rand(op)
	ctx := context.Background()
	kv := kmReadView(w, v.Tree())
	statuses, _ := churpState.NewImmutableState(v.Tree()).Statuses(ctx, w.KMID)
	owner := w.kmOwner()
	if rr.Chance(1, 8) {
		owner = def
	}
	rtID := w.KMID
	if rr.Chance(1, 12) {
		rtID = kmOtherRuntime(w, rr)
	}
	rak := kmAPI.TestSigners[0]
	if rr.Chance(1, 12) {
		rak = kmAPI.TestSigners[1]
	}

	create := func(id uint8) (*transaction.Transaction, signature.Signer, error) {
		ident := churp.Identity{ID: id, RuntimeID: rtID}
		req := &churp.CreateRequest{
			Identity:        ident,
			Threshold:       uint8(rr.Pick([]int{12, 3, 1})), // (a dealing phase needs threshold+2 applicants)
			ExtraShares:     uint8(rr.Pick([]int{6, 1})),
			HandoffInterval: beacon.EpochTime([]uint64{0, 1, 2, math.MaxUint64 - 1, math.MaxUint64}[rr.Pick([]int{1, 10, 3, 1, 1})]),
			Policy:          churp.SignedPolicySGX{Policy: churp.PolicySGX{Identity: ident, MayShare: []sgx.EnclaveIdentity{kmEnclave(op.Arg)}, MayJoin: []sgx.EnclaveIdentity{kmEnclave(op.Arg)}}},
		}
		if rr.Chance(1, 3) {
			req.Policy.Policy.MayQuery = map[common.Namespace][]sgx.EnclaveIdentity{w.RuntimeID: {kmEnclave(op.Arg, 2)}}
		}
		switch rr.Intn(16) {
		case 0:
			req.SuiteID = 1
		case 1:
			req.Threshold = 200
		case 2:
			req.Policy.Policy.Serial = 1
		case 3:
			req.Policy.Policy.ID++
		case 4:
			req.Policy.Policy.RuntimeID = kmOtherRuntime(w, rr)
		}
		if err := req.Policy.Sign([]signature.Signer{kmAPI.TestSigners[1]}); err != nil {
			return nil, nil, err
		}
		if rr.Chance(1, 16) {
			req.Policy.Signatures[0].Signature[3] ^= 4
		}
		return churp.NewCreateTx(c17Nonce(v, op, owner), fee, req), owner, nil
	}
	if len(statuses) == 0 || rr.Chance(1, 10) {
		return create(uint8(rr.Intn(3)))
	}
	st := statuses[rr.Intn(len(statuses))]
	busy := func(i int) bool {
		pk := w.KMNodes[i].Identity.NodeSigner.Public()
		return v.NextNonce(pk) != v.Account(staking.NewAddress(pk)).General.Nonce
	}
	applied := func(i int) (churp.Application, bool) {
		a, ok := st.Applications[w.KMNodes[i].Identity.NodeSigner.Public()]
		return a, ok
	}
	// Apply: one epoch before the handoff, a node that has not applied yet.
	if !st.HandoffsDisabled() && st.NextHandoff == kv.epoch+1 && len(w.KMNodes) > 0 && !rr.Chance(1, 6) {
		start := rr.Intn(len(w.KMNodes))
		for j := range w.KMNodes {
			i := (start + j) % len(w.KMNodes)
			if _, ok := applied(i); (ok || busy(i)) && !rr.Chance(1, 10) {
				continue
			}
			ep := st.NextHandoff
			if rr.Chance(1, 12) {
				ep += beacon.EpochTime(rr.Intn(3)) - 1
			}
			app := churp.ApplicationRequest{Identity: churp.Identity{ID: st.ID, RuntimeID: rtID}, Epoch: ep, Checksum: hash.NewFromBytes(kmBytes(8, "matrix", i, op.Arg))}
			sig, err := signature.Sign(rak, churp.ApplicationRequestSignatureContext, cbor.Marshal(app))
			if err != nil {
				return nil, nil, err
			}
			signer, nfee, nonce := kmNodeSigner(v, op, w.KMNodes[i], fee)
			if rr.Chance(1, 16) {
				signer, nfee, nonce = def, fee, c17Nonce(v, op, def)
			}
			return churp.NewApplyTx(nonce, nfee, &churp.SignedApplicationRequest{Application: app, Signature: sig.Signature}), signer, nil
		}
	}
	// Confirm: during the handoff epoch, an applicant that has not confirmed yet.
	if !st.HandoffsDisabled() && st.NextHandoff == kv.epoch && len(w.KMNodes) > 0 && !rr.Chance(1, 6) {
		start := rr.Intn(len(w.KMNodes))
		for j := range w.KMNodes {
			i := (start + j) % len(w.KMNodes)
			a, ok := applied(i)
			if (!ok || a.Reconstructed || busy(i)) && !rr.Chance(1, 10) {
				continue
			}
			sum := kmChurpChecksum(w, st, st.NextHandoff)
			if st.NextChecksum != nil {
				sum = *st.NextChecksum
			}
			if rr.Chance(1, 10) {
				sum = hash.NewFromBytes(kmBytes(8, "other matrix", op.Arg))
			}
			ep := st.NextHandoff
			if rr.Chance(1, 12) {
				ep++
			}
			conf := churp.ConfirmationRequest{Identity: churp.Identity{ID: st.ID, RuntimeID: rtID}, Epoch: ep, Checksum: sum}
			sig, err := signature.Sign(rak, churp.ConfirmationRequestSignatureContext, cbor.Marshal(conf))
			if err != nil {
				return nil, nil, err
			}
			signer, nfee, nonce := kmNodeSigner(v, op, w.KMNodes[i], fee)
			return churp.NewConfirmTx(nonce, nfee, &churp.SignedConfirmationRequest{Confirmation: conf, Signature: sig.Signature}), signer, nil
		}
	}
	if rr.Chance(1, 3) {
		// Another instance (or a duplicate identifier).
		return create(uint8(rr.Intn(3)))
	}
	// Update.
	req := &churp.UpdateRequest{Identity: churp.Identity{ID: st.ID, RuntimeID: rtID}}
	if rr.Chance(1, 12) {
		req.ID += 5 // no such instance
	}
	mask := rr.Intn(8) // (0 = an empty update)
	if mask&1 != 0 {
		e := uint8(rr.Pick([]int{3, 2, 1}))
		req.ExtraShares = &e
	}
	if mask&2 != 0 {
		hi := beacon.EpochTime([]uint64{0, 1, 2, 3, math.MaxUint64}[rr.Pick([]int{2, 6, 3, 1, 1})])
		req.HandoffInterval = &hi
	}
	if mask&4 != 0 {
		np := churp.SignedPolicySGX{Policy: st.Policy.Policy}
		np.Policy.Identity = req.Identity
		np.Policy.Serial++
		if rr.Chance(1, 8) {
			np.Policy.Serial++
		}
		np.Policy.MayJoin = append(append([]sgx.EnclaveIdentity{}, np.Policy.MayJoin...), kmEnclave(op.Arg, 3))
		if err := np.Sign([]signature.Signer{kmAPI.TestSigners[2]}); err != nil {
			return nil, nil, err
		}
		req.Policy = &np
	}
	return churp.NewUpdateTx(c17Nonce(v, op, owner), fee, req), owner, nil
}

// kmProbe is a probe-only oracle of the base properties: it reads the key manager state after
// every block and counts what the epoch transitions did.
type kmProbe struct {
	BaseOracle
	prev     *kmView
	handoffs map[uint8]beacon.EpochTime
}

func kmTreeView(s *Sim, h int64) *kmView {
	ref := s.Ref()
	if ref == nil {
		return nil
	}
	tree, err := ref.TreeAt(h)
	if err != nil {
		return nil
	}
	defer tree.Close()
	return kmReadView(s.W, tree)
}

func (o *kmProbe) Init(s *Sim) *core.Violation {
	if s.K.Gen.KeyManager {
		s.St.Inc("probe.km.runs")
		s.St.Inc(fmt.Sprintf("probe.km.runs_with_%d_nodes", len(s.W.KMNodes)))
		o.prev = kmTreeView(s, s.Height)
		o.handoffs = map[uint8]beacon.EpochTime{}
	}
	return nil
}

func (o *kmProbe) AfterBlock(s *Sim, h int64, _ *cmttypes.Block, _ []*BuiltTx, _ *BlockResult) *core.Violation {
	if !s.K.Gen.KeyManager {
		return nil
	}
	ref := s.Ref()
	if ref == nil {
		return nil
	}
	tree, err := ref.TreeAt(h)
	if err != nil {
		return nil
	}
	defer tree.Close()
	cur := kmReadView(s.W, tree)
	prev := o.prev
	o.prev = cur
	ctx := context.Background()
	// CHURP handoffs complete inside transactions or at epoch transitions.
	if sts, err := churpState.NewImmutableState(tree).Statuses(ctx, s.W.KMID); err == nil {
		for _, st := range sts {
			if last, ok := o.handoffs[st.ID]; ok && st.Handoff != last {
				s.St.Inc("probe.km.churp_handoff_completed")
				s.St.Inc(fmt.Sprintf("probe.km.churp_committee_size_%d", min(len(st.Committee), 3)))
			}
			o.handoffs[st.ID] = st.Handoff
		}
	}
	if prev == nil || cur.epoch == prev.epoch {
		return nil
	}
	s.St.Inc("probe.km.epoch_transitions")
	if _, err := registryState.NewImmutableState(tree).SuspendedRuntime(ctx, s.W.KMID); err == nil {
		s.St.Inc("probe.km.epoch_transition_runtime_suspended")
		return nil
	}
	if cur.status == nil {
		s.St.Inc("probe.km.epoch_transition_without_status")
		return nil
	}
	var raw []byte
	if prev.status != nil {
		raw = cbor.Marshal(prev.status)
	}
	if !bytes.Equal(raw, cbor.Marshal(cur.status)) {
		s.St.Inc("probe.km.status_updated_at_epoch")
	}
	switch n := len(cur.status.Nodes); {
	case n == 0:
		s.St.Inc("probe.km.status_generated_with_0_nodes")
	case n == 1:
		s.St.Inc("probe.km.status_generated_with_1_node")
	default:
		s.St.Inc("probe.km.status_generated_with_2plus_nodes")
	}
	if prev.status != nil && prev.status.NextPolicy != nil && cur.status.Policy != nil && cur.status.Policy.Policy.Serial == prev.status.NextPolicy.Policy.Serial {
		s.St.Inc("probe.km.scheduled_policy_applied")
	}
	// A proposal for exactly this epoch and the next generation was pending when the epoch changed.
	pending := prev.master != nil && prev.master.Secret.Epoch == cur.epoch && prev.master.Secret.Generation == prev.nextGen
	advanced := !bytes.Equal(prev.checksum(), cur.status.Checksum)
	if advanced {
		s.St.Inc("probe.km.master_secret_generation_advanced")
		if cur.status.Generation > 0 {
			s.St.Inc("probe.km.master_secret_rotated_beyond_generation_0")
		}
	}
	if pending {
		s.St.Inc("probe.km.pending_proposal_at_epoch_change")
		switch {
		case len(cur.status.Nodes) == 0:
			s.St.Inc("probe.km.pending_proposal_at_epoch_change_with_empty_committee")
		case !advanced:
			s.St.Inc("probe.km.pending_proposal_not_replicated_by_66_percent")
		}
	}
	if cur.eph != nil && cur.eph.Secret.Epoch == cur.epoch {
		s.St.Inc("probe.km.epoch_with_published_ephemeral_secret")
	}
	return nil
}
