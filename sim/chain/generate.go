package chain

import (
	"bytes"
	"encoding/json"
	"fmt"
	"math"

	"verif/sim/core"
)

var txKinds = []string{"transfer", "burn", "escrow", "reclaim", "allow", "withdraw", "amend", "propose", "vote", "regnode", "deregister", "unknown", "malformed"}

// profileWeights returns tx kind weights per profile.
func profileWeights(profile string, r *core.Rand) []int {
	w := []int{8, 2, 5, 4, 2, 2, 1, 2, 3, 3, 1, 1, 1}
	switch profile {
	case "delegation":
		w = []int{4, 1, 10, 8, 1, 1, 2, 1, 1, 2, 0, 0, 0}
	case "registry":
		w = []int{3, 1, 3, 2, 1, 1, 1, 1, 1, 10, 3, 1, 1}
	case "governance":
		w = []int{4, 1, 4, 2, 1, 1, 1, 8, 10, 3, 0, 1, 1}
	}
	// Swarm: randomly zero a few kinds.
	for i := range w {
		if r.Chance(1, 6) {
			w[i] = 0
		}
	}
	if w[0] == 0 {
		w[0] = 3
	}
	return w
}

func genAmount(r *core.Rand, extremes bool) int {
	if extremes && r.Chance(1, 4) {
		return []int{AmtZero, AmtAll, AmtAllPlus1, AmtMaxU64, Amt2p255, AmtOne, AmtMin, AmtMinLess1}[r.Intn(8)]
	}
	switch r.Intn(6) {
	case 0:
		return AmtAll
	case 1:
		return AmtMin
	case 2:
		return r.Range(900, 1000)
	default:
		return r.Range(1, 500)
	}
}

var mutKinds = []string{"badsig", "flipblob", "wrongkey", "otherchain", "ctx", "nochain", "truncctx", "flipraw", "trunc", "garbage", "oversize"}

// mutKindsC09 adds, for the authenticity check only (so that the scenarios of the other chain
// properties keep their shape), envelopes whose stated signer is a small-order point.
var mutKindsC09 = append(append([]string{}, mutKinds...), "smallorder", "smallorder")

// Workload is a property-specific extension of the transaction mix.
type Workload struct {
	Kinds  []string // extension transaction kinds (registered with RegisterTxKind) or built-in kinds
	Weight int      // total weight relative to the built-in mix (which sums to about 35)
	// Tune may adjust the generated knobs (e.g. force a runtime into genesis).
	Tune func(r *core.Rand, k *ChainKnobs)
	// ArgGen, when set, draws op.Arg of an extension transaction (instead of a uniform 16-bit value).
	ArgGen func(r *core.Rand, kind string) int
	// MinTxRate, when set, is a lower bound of the per-height transaction rate of a run.
	MinTxRate int
	// ExtraHeights, when set, is added to the number of heights of a run.
	ExtraHeights func(k *ChainKnobs) int
}

var workloads = map[string]*Workload{}

// BaseExtra is a group of extension transaction kinds mixed into the runs of the properties
// that have no workload of their own (C01, C05, C08, C09, C10, C15).
type BaseExtra struct {
	Name    string
	Kinds   []string
	WideArg bool // draw op.Arg from 0..65535 instead of 0..63
	Tune    func(r *core.Rand, k *ChainKnobs)
	// ArgGen, when set, draws op.Arg of the extra's transactions.
	ArgGen func(r *core.Rand, kind string) int
	// OwnRand makes the extra draw all its choices (selection, tuning, per-operation use) from a
	// PRNG of its own that is derived from the scenario's salt, instead of the scenario's PRNG:
	// adding such an extra leaves the scenarios of the runs that do not select it unchanged, and
	// changes only the replaced operations in those that do.
	OwnRand bool
	// Share, when set, makes the extra supply about 1/Share of the transactions of a run that
	// selected it (default 6).
	Share int
	// Follow, when set, may return operations that are appended right after a transaction of the
	// extra (a campaign: e.g. a block so that the transaction is committed, then the transactions
	// that react to it). It draws from the same PRNG as the extra's other choices.
	Follow func(r *core.Rand, op *TxOp) []Op
}

var baseExtras []*BaseExtra

// RegisterBaseExtra registers a base extra (call from init; order = registration order, which
// is the lexical order of the file names, so it is stable).
func RegisterBaseExtra(x *BaseExtra) { baseExtras = append(baseExtras, x) }

// RegisterWorkload registers the workload extension of a property.
func RegisterWorkload(prop string, w *Workload) { workloads[prop] = w }

// GenKnobsFor draws genesis knobs.
func GenKnobsFor(r *core.Rand, replicas int, profile string) GenKnobs {
	ents := r.Range(replicas, replicas+3)
	k := GenKnobs{
		Salt:     fmt.Sprintf("%x", r.Uint64()),
		Entities: ents, Accounts: r.Range(2, 7), Anchors: replicas,
		EpochInterval: int64(r.Range(3, 8)), Debonding: uint64(r.Range(1, 3)),
		MaxBlockGas: 0, MinGasPrice: uint64(r.Pick([]int{3, 1}) * r.Range(0, 2)),
		RewardScale: uint64(r.Pick([]int{1, 3}) * r.Range(1, 5000)), RewardFactorSign: uint64(r.Range(0, 3)), RewardFactorProp: uint64(r.Range(0, 3)),
		SignThresholdNum: uint64(r.Range(0, 3)), SignThresholdDen: 4,
		CommonPool:  uint64(r.Pick([]int{1, 1, 6}) * r.Range(0, 2_000_000) / 2),
		SlashAmount: uint64(r.Range(0, 3000)), SlashFreeze: uint64(r.Range(0, 2)),
		ThresholdEntity: uint64(r.Range(0, 200)), ThresholdNode: uint64(r.Range(0, 200)),
		BypassStake:   r.Chance(1, 4),
		MinValidators: 1, MaxValidators: r.Range(replicas, ents+2), MaxValidatorsPerEntity: r.Range(1, 2),
		VotingPeriod: uint64(r.Range(1, 2)), MinDeposit: uint64(r.Range(1, 200)), StakeThreshold: uint8(r.Range(67, 90)),
		GasBase: uint64(r.Range(1, 30)), MinTransfer: uint64(r.Range(0, 20)), MinDelegation: uint64(r.Range(0, 20)), MinTransact: uint64(r.Pick([]int{3, 1}) * r.Range(0, 30)),
		ShortExpiry: uint64(r.Pick([]int{1, 2}) * r.Range(1, 4)),
	}
	if r.Chance(1, 5) {
		k.MaxBlockGas = uint64(r.Range(200, 3000))
	}
	fs := [][3]uint64{{1, 1, 1}, {2, 1, 1}, {0, 1, 1}, {1, 0, 1}, {1, 1, 0}, {1, 0, 0}, {0, 1, 0}, {0, 0, 1}, {5, 3, 2}}
	k.FeeSplit = fs[r.Intn(len(fs))]
	need := k.ThresholdEntity + 2*k.ThresholdNode
	for i := 0; i < ents; i++ {
		n := 1
		if r.Chance(1, 3) {
			n = 2
		}
		k.NodesPerEntity = append(k.NodesPerEntity, n)
		esc := need + uint64(r.Range(0, 5000))
		if i >= replicas {
			switch r.Intn(3) {
			case 0:
				esc = need // exactly at the threshold (below-threshold states arise dynamically)
			case 1:
				esc = need + 1
			}
		} else {
			esc = need + 1_000_000 + uint64(r.Range(0, 5000)) // anchors out-stake everybody else
		}
		k.EntityEscrow = append(k.EntityEscrow, esc)
		k.EntityBalance = append(k.EntityBalance, uint64(r.Range(1000, 50_000)))
	}
	for i := 0; i < k.Accounts; i++ {
		k.AccountBalance = append(k.AccountBalance, uint64(r.Pick([]int{1, 8})*r.Range(0, 50_000)))
	}
	// Boundary nonces: a legal genesis may hold accounts whose nonce is about to wrap.
	for i := 0; i < k.Accounts; i++ {
		var n uint64
		if r.Chance(1, 6) {
			n = math.MaxUint64 - uint64(r.Pick([]int{3, 2, 1, 1}))
		}
		k.AccountNonce = append(k.AccountNonce, n)
	}
	return k
}

// Generate implements core.Engine.
func (e Engine) Generate(r *core.Rand, tier core.Tier) *core.Scenario {
	profile := map[string]string{"C05": "mixed", "C15": "delegation", "C17": "registry", "C14": "registry", "C10": "extremes", "C07": "mixed"}[e.Prop]
	if profile == "" || r.Chance(1, 4) {
		profile = []string{"mixed", "delegation", "registry", "governance", "extremes"}[r.Intn(5)]
	}
	nrep := r.Range(3, 4)
	k := ChainKnobs{Gen: GenKnobsFor(r, nrep, profile), Disk: r.Chance(1, 2), Profile: profile}
	for i := 0; i < nrep; i++ {
		rc := ReplicaConfig{Backend: []string{"badger", "pathbadger"}[r.Intn(2)], MinGasPrice: uint64(r.Pick([]int{2, 1}) * r.Range(0, 3)), ProbeApps: r.Bool()}
		if r.Chance(1, 3) {
			rc.PruneKeep = uint64(r.Range(2, 6))
		}
		k.Replicas = append(k.Replicas, rc)
	}
	k.Gen.Legacy = r.Chance(1, 6)
	// A debonding interval of zero epochs is legal: expired nodes are then removed from the
	// registry at the very epoch transition at which they expire, while they are still part of the
	// commit info of the next blocks (own PRNG: the rest of the scenario is unchanged).
	if core.NewRand(core.Derive(core.Hash64([]byte(k.Gen.Salt)), "zero-debonding", 0)).Chance(1, 5) {
		k.Gen.Debonding = 0
	}
	wl := workloads[e.Prop]
	if wl != nil && wl.Tune != nil {
		wl.Tune(r, &k)
	}
	// Base properties (no workload of their own): each registered base extra (methods of further
	// applications: roothash.SubmitMsg, registry registrations, ...) is enabled in a third of the
	// runs and then supplies about a sixth of the transactions.
	var extras []*BaseExtra
	var extraRand []*core.Rand
	if wl == nil {
		for _, x := range baseExtras {
			num := 1
			if e.Prop == "C08" {
				num = 2 // failed transactions of every method are this property's subject
			}
			xr := r
			if x.OwnRand {
				xr = core.NewRand(core.Derive(core.Hash64([]byte(k.Gen.Salt)), "base-extra/"+x.Name, 0))
			}
			if xr.Chance(num, 3) {
				if x.Tune != nil {
					x.Tune(xr, &k)
				}
				extras = append(extras, x)
				extraRand = append(extraRand, xr)
			}
		}
	}
	// The VRF beacon backend (own PRNG; after all other tuning, see workload_vrf.go).
	vrfRand := tuneVRF(e.Prop, &k)
	vrfEpoch, vrfQuiet := int64(-1), false
	sc := &core.Scenario{Engine: "chain", Knobs: core.MustJSON(k)}
	gasFitRand := core.NewRand(core.Derive(core.Hash64([]byte(k.Gen.Salt)), "gas-fit", 0))
	heights := r.Range(12, 40)
	if tier == core.Thorough {
		heights = r.Range(20, 90)
	}
	if wl != nil && wl.ExtraHeights != nil {
		heights += wl.ExtraHeights(&k)
	}
	extremes := profile == "extremes"
	w := profileWeights(profile, r)
	nsign := k.Gen.Entities + k.Gen.Accounts
	txRate := r.Range(0, 5)
	if wl != nil && txRate < wl.MinTxRate {
		txRate = wl.MinTxRate
	}
	for h := 0; h < heights; h++ {
		for i, n := 0, r.Range(0, txRate); i < n; i++ {
			op := TxOp{Kind: txKinds[r.Pick(w)], From: r.Intn(nsign), To: r.Intn(nsign), Amt: genAmount(r, extremes), Arg: r.Intn(64)}
			if wl != nil && len(wl.Kinds) > 0 && r.Intn(35+wl.Weight) < wl.Weight {
				op.Kind = wl.Kinds[r.Intn(len(wl.Kinds))]
				op.Arg = r.Intn(1 << 16)
				if wl.ArgGen != nil {
					op.Arg = wl.ArgGen(r, op.Kind)
				}
			}
			var follow *BaseExtra
			var followRand *core.Rand
			for xi, x := range extras {
				xr := extraRand[xi]
				share := 6
				if x.Share > 0 {
					share = x.Share
				}
				if e.Prop == "C08" && share > 3 {
					share = 3 // C08: the methods of the further applications get a larger part of the mix
				}
				if xr.Chance(1, share) {
					op.Kind = x.Kinds[xr.Intn(len(x.Kinds))]
					if x.WideArg {
						op.Arg = xr.Intn(1 << 16)
					}
					if x.ArgGen != nil {
						op.Arg = x.ArgGen(xr, op.Kind)
					}
					follow, followRand = x, xr
				}
			}
			if r.Chance(1, 2) {
				op.Fee = uint64(r.Range(0, 50))
			}
			switch r.Intn(12) {
			case 0:
				op.GasMode = 1
			case 1:
				op.GasMode = 2 + r.Range(0, 80)
			}
			if e.Prop == "C08" && gasFitRand.Chance(1, 6) {
				// (C08 only, own PRNG: a limit around what the method charges, see TxOp.GasFit)
				op.GasMode, op.GasFit = 0, 1+gasFitRand.Range(0, int(k.Gen.GasBase)+130)
			}
			if r.Chance(1, 12) {
				op.NonceOff = []int{-1, 1, 2, -5}[r.Intn(4)]
			}
			if r.Chance(1, 15) {
				op.Mut = mutKinds[r.Intn(len(mutKinds))]
				if e.Prop == "C09" {
					// (one more PRNG draw, for this property only)
					op.Mut = mutKindsC09[(r.Intn(1<<16))%len(mutKindsC09)]
				}
				op.MutA = r.Intn(1 << 12)
			}
			if r.Chance(1, 25) {
				op.Replay = r.Range(1, 1000)
			}
			if r.Chance(1, 4) {
				op.Replicas = r.Range(1, (1<<uint(nrep))-1)
			}
			if op.Kind == "escrow" || op.Kind == "reclaim" {
				op.To = r.Intn(k.Gen.Entities + 1) // mostly escrow with entities
			}
			sc.Ops = append(sc.Ops, core.MustJSON(Op{K: "tx", Tx: &op}))
			if follow != nil && follow.Follow != nil {
				for _, f := range follow.Follow(followRand, &op) {
					sc.Ops = append(sc.Ops, core.MustJSON(f))
				}
			}
			if op.Kind == "propose" && op.Mut == "" && r.Chance(2, 3) {
				// Campaign: produce a block so that the proposal exists, then let the validator
				// entities vote (mostly yes) so that proposals actually pass and get executed.
				sc.Ops = append(sc.Ops, core.MustJSON(Op{K: "block", Block: &BlockOp{Proposer: r.Intn(8), Take: 20, Dt: 1}}))
				for e := 0; e < k.Gen.Entities; e++ {
					vote := TxOp{Kind: "vote", From: e, To: 0, Arg: 1000 + r.Intn(3), Fee: uint64(r.Range(0, 5))}
					if r.Chance(1, 8) {
						vote.To = r.Range(1, 2)
					}
					sc.Ops = append(sc.Ops, core.MustJSON(Op{K: "tx", Tx: &vote}))
				}
				sc.Ops = append(sc.Ops, core.MustJSON(Op{K: "block", Block: &BlockOp{Proposer: r.Intn(8), Take: 20, Dt: 1}}))
			}
		}
		vrfTxs := 0
		if vrfRand != nil {
			// About one epoch in four is quiet (drawn once per epoch of the generator's own count).
			if ep := int64(h) / k.Gen.EpochInterval; ep != vrfEpoch {
				vrfEpoch, vrfQuiet = ep, vrfRand.Chance(1, 4)
			}
			for _, op := range genVRFOps(vrfRand, vrfQuiet) {
				op := op
				sc.Ops = append(sc.Ops, core.MustJSON(Op{K: "tx", Tx: &op}))
				vrfTxs++
			}
		}
		if k.Disk && r.Chance(1, 12) {
			sc.Ops = append(sc.Ops, core.MustJSON(Op{K: "restart", Replica: r.Intn(nrep)}))
		}
		b := &BlockOp{Proposer: r.Intn(8), Take: r.Range(0, 8), Dt: r.Pick([]int{6, 2, 1}) * r.Range(1, 3)}
		if r.Chance(1, 40) {
			b.Dt = r.Range(1000, 100_000) // clock jump
		}
		b.Take += vrfTxs // (room for the proofs, so that they do not queue up behind the epoch)
		if r.Chance(1, 3) {
			b.Order = r.Range(1, 1000)
		}
		b.Dup = r.Chance(1, 20)
		for i := 0; i < nrep; i++ {
			b.Paths = append(b.Paths, r.Pick([]int{5, 3, 1, 1}))
		}
		if r.Chance(1, 3) {
			b.Absent = r.Uint64() & r.Uint64()
		}
		if r.Chance(1, 10) {
			b.Absent = ^uint64(0) // everybody absent: only the quorum that is forced back signs
		}
		if r.Chance(1, 2) {
			b.SkewSeed = r.Range(1, 1000)
		}
		for i, n := 0, r.Pick([]int{7, 2, 1}); i < n; i++ {
			b.Failed = append(b.Failed, FailedRound{Proposer: r.Intn(8), Take: r.Range(0, 6), Processors: r.Uint64()})
		}
		if r.Chance(1, 15) {
			b.Evidence = r.Range(1, 64)
		}
		if r.Chance(1, 12) {
			b.Byz = []string{"meta-missing", "meta-duplicate", "meta-wrong-root", "meta-wrong-events", "meta-wrong-signer"}[r.Intn(5)]
		}
		for i, n := 0, r.Pick([]int{4, 3, 2, 1}); i < n; i++ {
			b.Steps = append(b.Steps, Step{Replica: r.Intn(nrep), Call: r.Range(1, 12), Kind: []string{"checktx", "recheck", "query", "prune", "query", "estimate"}[r.Intn(6)], Arg: r.Intn(1000)})
			if e.Prop == "C06" && i == 0 {
				b.Steps[len(b.Steps)-1].Kind = "prune" // chain-level history runs: a pruner step in every block
			}
		}
		sc.Ops = append(sc.Ops, core.MustJSON(Op{K: "block", Block: b}))
	}
	if e.Prop == "C07" {
		addCrashOps(r, sc)
	}
	// Debonding campaigns (delegation-heavy runs): several delegators of one escrow account,
	// among them the escrow account's own entity (and that entity as a delegator elsewhere), reclaim
	// in the same epoch, so that many debonding delegations touching the same accounts from both
	// sides complete at one epoch transition. Own PRNG: the rest of the scenario is unchanged.
	if wl == nil && (profile == "delegation" || e.Prop == "C15" || ((e.Prop == "C10" || e.Prop == "C05") && core.NewRand(core.Derive(core.Hash64([]byte(k.Gen.Salt)), "debond-campaign-sel", 0)).Chance(1, 3))) {
		addDebondCampaigns(core.NewRand(core.Derive(core.Hash64([]byte(k.Gen.Salt)), "debond-campaign", 0)), sc, &k)
	}
	// Nodes that join by state sync (statesync.go). The choices come from a PRNG of their own, so
	// the rest of the scenario is what it would be without them.
	if k.Disk {
		sr := core.NewRand(core.Derive(core.Hash64([]byte(k.Gen.Salt)), "statesync", 0))
		switch {
		case e.Prop == "C12":
			addSyncOps(sr, sc, sr.Range(1, 2), false)
		case e.Prop == "C06" && sr.Chance(1, 2):
			addSyncOps(sr, sc, 1, false)
		case e.Prop == "C07" && sr.Chance(1, 3):
			addSyncOps(sr, sc, 1, true)
		case e.Prop == "C01" && sr.Chance(1, 3):
			addSyncOps(sr, sc, 1, false)
		}
	}
	return sc
}

// addCrashOps inserts one to three crash ops in front of randomly chosen block ops (chain-level
// C07). Hook-hit crashes dominate; Hit is drawn from 1..60 so that every hook of a block commit
// (and of interleaved pruner steps) is reached, with small values favoured since a plain commit
// has 8 (badger) or 12 (pathbadger) hits and a pruned version adds 2 or 3.
func addCrashOps(r *core.Rand, sc *core.Scenario) {
	var blocks []int
	for i, raw := range sc.Ops {
		if bytes.Contains(raw[:min(len(raw), 16)], []byte(`"k":"block"`)) {
			blocks = append(blocks, i)
		}
	}
	if len(blocks) == 0 {
		return
	}
	at := map[int]*CrashOp{}
	for i, n := 0, r.Range(1, 3); i < n; i++ {
		c := &CrashOp{Replica: r.Intn(8), Point: "hook"}
		if r.Chance(1, 4) {
			c.Point = crashPoints[r.Intn(len(crashPoints))]
		} else if r.Chance(1, 4) {
			// Inside a Prune that runs concurrently with the block commit (one pruned version has
			// 2 or 3 hook hits).
			c.Point, c.PruneAt, c.Hit = "prunehook", r.Range(1, 4), r.Pick([]int{6, 3, 1})*3+r.Range(1, 3)
		} else {
			switch r.Intn(6) {
			case 0:
				c.Hit = r.Range(1, 60)
			case 1:
				c.Hit = r.Range(1, 24)
			default:
				c.Hit = r.Range(1, 12)
			}
			if r.Chance(1, 3) {
				c.PruneAt = r.Range(1, 4)
			}
		}
		at[blocks[r.Intn(len(blocks))]] = c
	}
	var ops []json.RawMessage
	for i, raw := range sc.Ops {
		if c := at[i]; c != nil {
			ops = append(ops, core.MustJSON(Op{K: "crash", Crash: c}))
		}
		ops = append(ops, raw)
	}
	sc.Ops = ops
}

// addDebondCampaigns inserts 1-3 debonding campaigns in front of randomly chosen block ops.
func addDebondCampaigns(r *core.Rand, sc *core.Scenario, k *ChainKnobs) {
	var blocks []int
	for i, raw := range sc.Ops {
		if bytes.Contains(raw[:min(len(raw), 16)], []byte(`"k":"block"`)) {
			blocks = append(blocks, i)
		}
	}
	ents, nsign := k.Gen.Entities, k.Gen.Entities+k.Gen.Accounts
	if len(blocks) < 3 || ents <= k.Gen.Anchors || nsign < 3 {
		return
	}
	at := map[int][]Op{}
	for c, n := 0, r.Range(1, 3); c < n; c++ {
		// X: a non-anchor entity (anchor entities never reclaim their own stake); a, b: other signers.
		x := k.Gen.Anchors + r.Intn(ents-k.Gen.Anchors)
		y := r.Intn(ents)
		var ops []Op
		tx := func(kind string, from, to, amt int) {
			ops = append(ops, Op{K: "tx", Tx: &TxOp{Kind: kind, From: from, To: to, Amt: amt, Fee: uint64(r.Range(0, 5))}})
		}
		blk := func() {
			ops = append(ops, Op{K: "block", Block: &BlockOp{Proposer: r.Intn(8), Take: 30, Dt: 1}})
		}
		var ds []int
		for i, m := 0, r.Range(2, 4); i < m; i++ {
			d := r.Intn(nsign)
			if d == x {
				continue
			}
			ds = append(ds, d)
			tx("escrow", d, x, r.Range(50, 600))
		}
		if y != x && r.Chance(1, 2) {
			tx("escrow", x, y, r.Range(50, 400))
		}
		blk()
		// The reclaims of one epoch: the delegators, the entity from itself, the entity elsewhere.
		for _, d := range ds {
			if r.Chance(1, 3) {
				tx("reclaim", d, x, AmtAll) // the whole delegation
				continue
			}
			tx("reclaim", d, x, r.Pick([]int{2, 1, 1})*r.Range(100, 500))
			if r.Chance(1, 3) {
				tx("reclaim", d, x, r.Range(100, 1000)) // a second reclaim in the same epoch
			}
		}
		tx("reclaim", x, x, r.Range(50, 700))
		if y != x {
			tx("reclaim", x, y, r.Range(100, 1000))
		}
		blk()
		if r.Chance(1, 2) {
			// A proposal on which the entity and its (former) delegators vote against each other.
			ops = append(ops, Op{K: "tx", Tx: &TxOp{Kind: "propose", From: r.Intn(ents), Arg: r.Intn(64), Fee: uint64(r.Range(0, 5))}})
			blk()
			ops = append(ops, Op{K: "tx", Tx: &TxOp{Kind: "vote", From: x, To: r.Pick([]int{3, 1, 1}), Arg: 1000}})
			for _, d := range ds {
				ops = append(ops, Op{K: "tx", Tx: &TxOp{Kind: "vote", From: d, To: r.Pick([]int{1, 3, 1}), Arg: 1000}})
			}
			blk()
		}
		at[blocks[r.Intn(len(blocks))]] = ops
	}
	var out = sc.Ops[:0:0]
	for i, raw := range sc.Ops {
		for _, o := range at[i] {
			out = append(out, core.MustJSON(o))
		}
		out = append(out, raw)
	}
	sc.Ops = out
}
