package chain

import (
	"context"
	"fmt"
	"math/big"
	"sort"
	"strings"

	abcitypes "github.com/cometbft/cometbft/abci/types"
	cmttypes "github.com/cometbft/cometbft/types"

	beacon "github.com/oasisprotocol/oasis-core/go/beacon/api"
	"github.com/oasisprotocol/oasis-core/go/consensus/api/events"
	beaconState "github.com/oasisprotocol/oasis-core/go/consensus/cometbft/apps/beacon/state"
	stakingState "github.com/oasisprotocol/oasis-core/go/consensus/cometbft/apps/staking/state"
	staking "github.com/oasisprotocol/oasis-core/go/staking/api"
	"github.com/oasisprotocol/oasis-core/go/storage/mkvs"
	"github.com/oasisprotocol/oasis-core/go/storage/mkvs/node"
	"github.com/oasisprotocol/oasis-core/go/storage/mkvs/syncer"

	"verif/sim/core"
	"verif/sim/store"
)

// ---- iteration support for dumped models ----

type modelIterator struct {
	m    store.Model
	keys []string
	pos  int
}

func (t storeTree) iterator() *modelIterator {
	return &modelIterator{m: t.m, keys: t.m.SortedKeys(), pos: 0}
}
func (it *modelIterator) Valid() bool                           { return it.pos >= 0 && it.pos < len(it.keys) }
func (it *modelIterator) Err() error                            { return nil }
func (it *modelIterator) Rewind()                               { it.pos = 0 }
func (it *modelIterator) Seek(key node.Key)                     { it.pos = sort.SearchStrings(it.keys, string(key)) }
func (it *modelIterator) Next()                                 { it.pos++ }
func (it *modelIterator) Key() node.Key                         { return node.Key(it.keys[it.pos]) }
func (it *modelIterator) Value() []byte                         { return it.m[it.keys[it.pos]] }
func (it *modelIterator) GetProof() (*syncer.Proof, error)      { return nil, fmt.Errorf("not supported") }
func (it *modelIterator) GetProofBuilder() *syncer.ProofBuilder { return nil }
func (it *modelIterator) Close()                                {}

// iterTree is a dumped model with iteration.
type iterTree struct{ storeTree }

func (t iterTree) NewIterator(context.Context, ...mkvs.IteratorOption) mkvs.Iterator {
	return t.iterator()
}

// ---- snapshots ----

type pool struct{ B, S *big.Int }

type debEntry struct {
	shares *big.Int
	end    beacon.EpochTime
}

type escrowSnap struct {
	active, deb pool
	dels        map[staking.Address]*big.Int
	debs        map[staking.Address][]debEntry
}

type stakeSnap struct {
	esc     map[staking.Address]*escrowSnap
	general map[staking.Address]*big.Int
	epoch   beacon.EpochTime
	// debInterval is the staking debonding interval (epochs).
	debInterval beacon.EpochTime
}

func snapStaking(ctx context.Context, tree mkvs.ImmutableKeyValueTree) *stakeSnap {
	st := stakingState.NewImmutableState(tree)
	sn := &stakeSnap{esc: map[staking.Address]*escrowSnap{}, general: map[staking.Address]*big.Int{}}
	addrs, err := st.Addresses(ctx)
	if err != nil {
		core.Harnessf("c15: addresses: %v", err)
	}
	for _, a := range addrs {
		acct, err := st.Account(ctx, a)
		if err != nil {
			core.Harnessf("c15: account: %v", err)
		}
		sn.general[a] = acct.General.Balance.ToBigInt()
		sn.esc[a] = &escrowSnap{
			active: pool{acct.Escrow.Active.Balance.ToBigInt(), acct.Escrow.Active.TotalShares.ToBigInt()},
			deb:    pool{acct.Escrow.Debonding.Balance.ToBigInt(), acct.Escrow.Debonding.TotalShares.ToBigInt()},
			dels:   map[staking.Address]*big.Int{}, debs: map[staking.Address][]debEntry{},
		}
	}
	dels, err := st.Delegations(ctx)
	if err != nil {
		core.Harnessf("c15: delegations: %v", err)
	}
	for e, m := range dels {
		if sn.esc[e] == nil {
			sn.esc[e] = &escrowSnap{active: pool{new(big.Int), new(big.Int)}, deb: pool{new(big.Int), new(big.Int)}, dels: map[staking.Address]*big.Int{}, debs: map[staking.Address][]debEntry{}}
		}
		for d, del := range m {
			sn.esc[e].dels[d] = del.Shares.ToBigInt()
		}
	}
	debs, err := st.DebondingDelegations(ctx)
	if err != nil {
		core.Harnessf("c15: debonding delegations: %v", err)
	}
	for e, m := range debs {
		if sn.esc[e] == nil {
			sn.esc[e] = &escrowSnap{active: pool{new(big.Int), new(big.Int)}, deb: pool{new(big.Int), new(big.Int)}, dels: map[staking.Address]*big.Int{}, debs: map[staking.Address][]debEntry{}}
		}
		for d, list := range m {
			for _, x := range list {
				sn.esc[e].debs[d] = append(sn.esc[e].debs[d], debEntry{x.Shares.ToBigInt(), x.DebondEndTime})
			}
		}
	}
	ep, _, err := beaconState.NewImmutableState(tree).GetEpoch(ctx)
	if err == nil {
		sn.epoch = ep
	}
	if di, err := st.DebondingInterval(ctx); err == nil {
		sn.debInterval = di
	}
	return sn
}

// redeemable = floor(shares * B / S) (0 when S = 0).
func redeemable(shares *big.Int, p pool) *big.Int {
	if p.S.Sign() == 0 {
		return new(big.Int)
	}
	x := new(big.Int).Mul(shares, p.B)
	return x.Quo(x, p.S)
}

// priceFell reports whether the share price of the pool fell: B1/S1 < B0/S0.
func priceFell(p0, p1 pool) bool {
	if p0.S.Sign() == 0 || p1.S.Sign() == 0 {
		return false
	}
	l := new(big.Int).Mul(p1.B, p0.S)
	r := new(big.Int).Mul(p0.B, p1.S)
	return l.Cmp(r) < 0
}

// c15Oracle checks escrow share fairness.
type c15Oracle struct {
	BaseOracle
	txs                                              []*BuiltTx
	before                                           *stakeSnap
	committed                                        *stakeSnap // committed state of the previous height
	viol                                             *core.Violation
	deposits, reclaims, completions, slashes, blocks int
}

func init() {
	RegisterOracle("C15", func() Oracle { return &c15Oracle{} })
}

func c15Viol(kind, detail string) *core.Violation {
	return &core.Violation{Property: "C15", Kind: kind, Fingerprint: kind, Detail: detail}
}

func (o *c15Oracle) Init(s *Sim) *core.Violation {
	s.TxObs = append(s.TxObs, o)
	if ref := s.Ref(); ref != nil && s.Height >= 1 {
		if t, err := ref.TreeAt(s.Height); err == nil {
			o.committed = snapStaking(s.Ctx, t)
			t.Close()
		}
	}
	return nil
}

func (o *c15Oracle) BeforeBlock(s *Sim, h int64, txs []*BuiltTx) *core.Violation {
	o.txs = txs
	return nil
}

func (o *c15Oracle) BlockStart(*Sim, *Replica, int64) {}

func (o *c15Oracle) BeforeTx(s *Sim, r *Replica, idx int, raw []byte, st mkvs.KeyValueTree) {
	if o.viol != nil || idx >= len(o.txs) {
		o.before = nil
		return
	}
	o.before = snapStaking(s.Ctx, iterTree{storeTree{dumpState(s, st)}})
}

func (o *c15Oracle) AfterTx(s *Sim, r *Replica, idx int, raw []byte, st mkvs.KeyValueTree, res abcitypes.ResponseDeliverTx) {
	if o.viol != nil || o.before == nil || idx >= len(o.txs) {
		return
	}
	b := o.txs[idx]
	after := snapStaking(s.Ctx, iterTree{storeTree{dumpState(s, st)}})
	what := fmt.Sprintf("height %d tx %d (%s from signer %d, result %s/%d)", s.Height+1, idx, b.Op.Kind, b.Op.From, res.Codespace, res.Code)
	signer := staking.NewAddress(b.Signer)
	// The accounts that act in this transaction: its signer and the vaults on whose behalf it
	// executed an action (a vault.AuthorizeAction that reaches the threshold dispatches the
	// action's message with the vault as the caller).
	actors := append([]staking.Address{signer}, vaultActors(res.Events)...)
	// Escrow accounts slashed by this very transaction (runtime equivocation evidence, or an
	// executor commitment that finalizes a round with incorrect results): their share price falls
	// by design; the equal-fraction clause is judged from the block's events.
	slashedByTx := map[staking.Address]bool{}
	for _, ev := range res.Events {
		if !strings.HasSuffix(ev.Type, "100_staking") {
			continue
		}
		for _, at := range ev.Attributes {
			if string(at.Key) == (&staking.TakeEscrowEvent{}).EventKind() {
				var te staking.TakeEscrowEvent
				if events.DecodeValue(string(at.Value), &te) == nil {
					slashedByTx[te.Owner] = true
					s.St.Inc("probe.c15.escrow_slashed_by_a_transaction")
				}
			}
		}
	}
	for e, e0 := range o.before.esc {
		e1 := after.esc[e]
		if e1 == nil {
			if e0.active.S.Sign() != 0 || e0.deb.S.Sign() != 0 {
				o.viol = c15Viol("escrow-account-vanished", fmt.Sprintf("%s: escrow account %s with outstanding shares vanished", what, e))
				return
			}
			continue
		}
		// Shares are claims on the pool: the delegations into a pool add up to exactly the shares
		// the pool has issued, after every transaction (a redemption that records more debonding
		// shares for the delegator than the debonding pool minted would be paid from the others).
		sumDels, sumDebs := new(big.Int), new(big.Int)
		for _, sh := range e1.dels {
			sumDels.Add(sumDels, sh)
		}
		for _, list := range e1.debs {
			for _, x := range list {
				sumDebs.Add(sumDebs, x.shares)
			}
		}
		if sumDels.Cmp(e1.active.S) != 0 {
			o.viol = c15Viol("shares-not-backed", fmt.Sprintf("%s: delegations into the active pool of %s add up to %s shares but the pool has issued %s", what, e, sumDels, e1.active.S))
			return
		}
		if sumDebs.Cmp(e1.deb.S) != 0 {
			o.viol = c15Viol("shares-not-backed", fmt.Sprintf("%s: debonding delegations into %s add up to %s shares but the debonding pool has issued %s", what, e, sumDebs, e1.deb.S))
			return
		}
		s.St.Inc("probe.c15.share_backing_checked")
		// No transaction lowers the share price of a pool (only slashing does, at block boundaries).
		if slashedByTx[e] && res.Code == 0 {
			continue
		}
		if priceFell(e0.active, e1.active) {
			o.viol = c15Viol("price-fell-by-transaction", fmt.Sprintf("%s: active pool of %s went from balance %s / %s shares to %s / %s shares: the share price fell", what, e, e0.active.B, e0.active.S, e1.active.B, e1.active.S))
			return
		}
		if priceFell(e0.deb, e1.deb) {
			o.viol = c15Viol("price-fell-by-transaction", fmt.Sprintf("%s: debonding pool of %s went from balance %s / %s shares to %s / %s shares: the share price fell", what, e, e0.deb.B, e0.deb.S, e1.deb.B, e1.deb.S))
			return
		}
		// Nobody's redeemable value falls because of another account's deposit or redemption.
		for d, sh0 := range e0.dels {
			if vaultContains(actors, d) {
				continue
			}
			sh1 := e1.dels[d]
			if sh1 == nil {
				sh1 = new(big.Int)
			}
			v0, v1 := redeemable(sh0, e0.active), redeemable(sh1, e1.active)
			if v1.Cmp(v0) < 0 {
				o.viol = c15Viol("bystander-lost-value", fmt.Sprintf("%s: the redeemable value of delegator %s in pool %s fell from %s to %s although the transaction is not theirs", what, d, e, v0, v1))
				return
			}
		}
		// Deposit mints at most the pro-rata number of shares; redemption pays at most pro rata.
		dS := new(big.Int).Sub(e1.active.S, e0.active.S)
		dB := new(big.Int).Sub(e1.active.B, e0.active.B)
		switch {
		case dS.Sign() > 0 && e0.active.S.Sign() > 0 && e0.active.B.Sign() > 0:
			// minted dS for dB: dS <= dB*S0/B0  <=>  dS*B0 <= dB*S0
			if new(big.Int).Mul(dS, e0.active.B).Cmp(new(big.Int).Mul(dB, e0.active.S)) > 0 {
				o.viol = c15Viol("deposit-minted-too-many-shares", fmt.Sprintf("%s: depositing %s into pool %s (balance %s, %s shares) minted %s shares, more than pro rata", what, dB, e, e0.active.B, e0.active.S, dS))
				return
			}
			o.deposits++
			s.St.Inc("probe.c15.deposits_checked")
		case dS.Sign() < 0 && e0.active.S.Sign() > 0:
			// redeemed k=-dS shares for pay=-dB: pay <= k*B0/S0  <=>  pay*S0 <= k*B0
			k, pay := new(big.Int).Neg(dS), new(big.Int).Neg(dB)
			if new(big.Int).Mul(pay, e0.active.S).Cmp(new(big.Int).Mul(k, e0.active.B)) > 0 {
				o.viol = c15Viol("redemption-paid-too-much", fmt.Sprintf("%s: redeeming %s shares of pool %s (balance %s, %s shares) paid %s, more than pro rata", what, k, e, e0.active.B, e0.active.S, pay))
				return
			}
			// The redeemed stake goes into the debonding pool (nothing is paid out yet).
			ddB := new(big.Int).Sub(e1.deb.B, e0.deb.B)
			if ddB.Cmp(pay) != 0 {
				o.viol = c15Viol("reclaim-not-moved-to-debonding", fmt.Sprintf("%s: %s left the active pool of %s but the debonding pool grew by %s", what, pay, e, ddB))
				return
			}
			o.reclaims++
			s.St.Inc("probe.c15.reclaims_checked")
		}
	}
	// A reclaim pays nothing out immediately: the signer's general balance may only fall (fee).
	if b.Op.Kind == "reclaim" && res.Code == 0 {
		g0, g1 := o.before.general[signer], after.general[signer]
		if g0 != nil && g1 != nil && g1.Cmp(g0) > 0 {
			o.viol = c15Viol("reclaim-paid-before-debonding", fmt.Sprintf("%s: the reclaiming account's general balance rose from %s to %s before the debonding period ended", what, g0, g1))
		}
	}
}

func (o *c15Oracle) AfterBlock(s *Sim, h int64, blk *cmttypes.Block, _ []*BuiltTx, res *BlockResult) *core.Violation {
	if o.viol != nil {
		return o.viol
	}
	ref := s.Ref()
	if ref == nil {
		return nil
	}
	t, err := ref.TreeAt(h)
	if err != nil {
		core.Harnessf("c15: tree: %v", err)
	}
	cur := snapStaking(s.Ctx, t)
	t.Close()
	prev := o.committed
	o.committed = cur
	o.blocks++
	if prev == nil {
		return nil
	}
	// Events of the block.
	slashed := map[staking.Address]bool{}
	type payout struct {
		owner, escrow  staking.Address
		amount, shares *big.Int
	}
	var payouts []payout
	// started: debonding delegations created by reclaims of this block (owner, escrow, shares).
	type started struct {
		owner, escrow staking.Address
		shares        *big.Int
	}
	var starts []started
	// Running pool balances, advanced event by event, so that the pools a slash acted on are
	// known (rewards and fees reach the active pool before evidence is handled in the same
	// BeginBlock; reclaims and completions move stake between and out of the pools).
	type pools struct{ act, deb *big.Int }
	run := map[staking.Address]*pools{}
	poolsOf := func(a staking.Address) *pools {
		if run[a] == nil {
			run[a] = &pools{new(big.Int), new(big.Int)}
			if e0 := prev.esc[a]; e0 != nil {
				run[a].act.Set(e0.active.B)
				run[a].deb.Set(e0.deb.B)
			}
		}
		return run[a]
	}
	type slashRec struct {
		owner                  staking.Address
		act, deb, lossA, lossD *big.Int
	}
	var slashRecs []slashRec
	for _, ev := range res.Events {
		if !strings.HasSuffix(ev.Type, "100_staking") {
			continue
		}
		for _, a := range ev.Attributes {
			switch string(a.Key) {
			case (&staking.AddEscrowEvent{}).EventKind():
				var ae staking.AddEscrowEvent
				if events.DecodeValue(string(a.Value), &ae) == nil {
					pl := poolsOf(ae.Escrow)
					pl.act.Add(pl.act, ae.Amount.ToBigInt())
				}
			case (&staking.DebondingStartEscrowEvent{}).EventKind():
				var de staking.DebondingStartEscrowEvent
				if events.DecodeValue(string(a.Value), &de) == nil {
					pl := poolsOf(de.Escrow)
					pl.act.Sub(pl.act, de.Amount.ToBigInt())
					pl.deb.Add(pl.deb, de.Amount.ToBigInt())
					starts = append(starts, started{de.Owner, de.Escrow, de.DebondingShares.ToBigInt()})
				}
			case (&staking.TakeEscrowEvent{}).EventKind():
				var te staking.TakeEscrowEvent
				if events.DecodeValue(string(a.Value), &te) == nil {
					slashed[te.Owner] = true
					o.slashes++
					s.St.Inc("probe.c15.slash_events")
					pl := poolsOf(te.Owner)
					lossD := te.DebondingAmount.ToBigInt()
					lossA := new(big.Int).Sub(te.Amount.ToBigInt(), lossD)
					slashRecs = append(slashRecs, slashRec{te.Owner, new(big.Int).Set(pl.act), new(big.Int).Set(pl.deb), lossA, lossD})
					pl.act.Sub(pl.act, lossA)
					pl.deb.Sub(pl.deb, lossD)
				}
			case (&staking.ReclaimEscrowEvent{}).EventKind():
				var re staking.ReclaimEscrowEvent
				if events.DecodeValue(string(a.Value), &re) == nil {
					payouts = append(payouts, payout{re.Owner, re.Escrow, re.Amount.ToBigInt(), re.Shares.ToBigInt()})
					pl := poolsOf(re.Escrow)
					pl.deb.Sub(pl.deb, re.Amount.ToBigInt())
				}
			}
		}
	}
	// Slashing takes the same fraction from the active and the debonding pool.  The check is
	// made only when the event-by-event balances reproduce the committed balances of the
	// account (otherwise some balance change of this block is not visible in events and the
	// pools at the moment of the slash are unknown: counted, not judged).
	for _, sr := range slashRecs {
		e1, pl := cur.esc[sr.owner], run[sr.owner]
		if e1 == nil || pl.act.Cmp(e1.active.B) != 0 || pl.deb.Cmp(e1.deb.B) != 0 {
			s.St.Inc("probe.c15.slash_fraction_skipped_untracked_balance_change")
			continue
		}
		s.St.Inc("probe.c15.slash_fraction_checked")
		if sr.act.Sign() > 0 && sr.deb.Sign() > 0 {
			s.St.Inc("probe.c15.slash_hit_both_pools")
		}
		if sr.lossA.Cmp(sr.act) > 0 || sr.lossD.Cmp(sr.deb) > 0 || sr.lossA.Sign() < 0 {
			return c15Viol("slash-exceeds-pool", fmt.Sprintf("height %d: slashing %s took %s from an active pool of %s and %s from a debonding pool of %s", h, sr.owner, sr.lossA, sr.act, sr.lossD, sr.deb))
		}
		// |lossA*deb - lossD*act| < max(act, deb): each loss is the exact fraction rounded down.
		x := new(big.Int).Mul(sr.lossA, sr.deb)
		x.Sub(x, new(big.Int).Mul(sr.lossD, sr.act))
		x.Abs(x)
		tol := sr.act
		if sr.deb.Cmp(tol) > 0 {
			tol = sr.deb
		}
		if x.Cmp(tol) >= 0 {
			return c15Viol("slash-unequal-fractions", fmt.Sprintf("height %d: slashing %s took %s of %s from the active pool but %s of %s from the debonding pool: not the same fraction (beyond rounding)", h, sr.owner, sr.lossA, sr.act, sr.lossD, sr.deb))
		}
	}
	epochChanged := cur.epoch != prev.epoch
	for e, e0 := range prev.esc {
		e1 := cur.esc[e]
		if e1 == nil {
			continue
		}
		// Share price falls only through slashing.
		if !slashed[e] {
			if priceFell(e0.active, e1.active) {
				return c15Viol("price-fell-without-slash", fmt.Sprintf("height %d: the share price of the active pool of %s fell (balance %s / %s shares -> %s / %s shares) in a block without a slash event for it", h, e, e0.active.B, e0.active.S, e1.active.B, e1.active.S))
			}
			if priceFell(e0.deb, e1.deb) {
				return c15Viol("price-fell-without-slash", fmt.Sprintf("height %d: the share price of the debonding pool of %s fell (balance %s / %s shares -> %s / %s shares) in a block without a slash event for it", h, e, e0.deb.B, e0.deb.S, e1.deb.B, e1.deb.S))
			}
		}
		// Debonding delegations: paid out exactly once, at the first epoch transition at or after
		// the end epoch, not before.
		for d, list0 := range e0.debs {
			left := map[beacon.EpochTime]*big.Int{}
			for _, x := range e1.debs[d] {
				if left[x.end] == nil {
					left[x.end] = new(big.Int)
				}
				left[x.end].Add(left[x.end], x.shares)
			}
			had := map[beacon.EpochTime]*big.Int{}
			for _, x := range list0 {
				if had[x.end] == nil {
					had[x.end] = new(big.Int)
				}
				had[x.end].Add(had[x.end], x.shares)
			}
			for end, sh := range had {
				rem, present := left[end]
				if rem == nil {
					rem = new(big.Int)
				}
				switch {
				case present && rem.Cmp(sh) >= 0:
					// still there (possibly grown by a new reclaim with the same end epoch)
					if epochChanged && end <= cur.epoch {
						return c15Viol("debonding-not-completed", fmt.Sprintf("height %d: epoch changed to %d but the debonding delegation of %s in %s with end epoch %d (%s shares) was not paid out", h, cur.epoch, d, e, end, sh))
					}
				default:
					// (partly) gone: must be an epoch transition at or after the end epoch
					if !epochChanged || end > cur.epoch {
						return c15Viol("debonding-completed-early", fmt.Sprintf("height %d (epoch %d, epoch changed=%v): the debonding delegation of %s in %s with end epoch %d shrank from %s to %s shares", h, cur.epoch, epochChanged, d, e, end, sh, rem))
					}
					gone := new(big.Int).Sub(sh, rem)
					// Find the matching payout event and check its price.
					found := false
					for i, p := range payouts {
						if p.owner.Equal(d) && p.escrow.Equal(e) && p.shares.Cmp(gone) == 0 {
							found = true
							payouts = append(payouts[:i], payouts[i+1:]...)
							o.completions++
							s.St.Inc("probe.c15.debonding_completions")
							break
						}
					}
					if !found {
						return c15Viol("debonding-payout-missing", fmt.Sprintf("height %d: %s debonding shares of %s in %s disappeared without a matching reclaim payout", h, gone, d, e))
					}
				}
			}
		}
	}
	// With a debonding interval of zero epochs a reclaim made in an epoch-transition block ends its
	// debonding in the epoch it was made in (end = epoch at execution + 0, computed here, not taken
	// from the recorded end epoch) and is therefore paid out by the same block's end: such a payout
	// matches a debonding start of this block instead of a delegation of the state before it.
	if epochChanged && prev.debInterval == 0 {
		// (Several reclaims of one delegator from one escrow account in that block are merged into
		// one debonding delegation, hence one payout for the sum of their shares.)
		type pair struct{ owner, escrow staking.Address }
		sum := map[pair]*big.Int{}
		var order []pair
		for _, stt := range starts {
			k := pair{stt.owner, stt.escrow}
			if sum[k] == nil {
				sum[k] = new(big.Int)
				order = append(order, k)
			}
			sum[k].Add(sum[k], stt.shares)
		}
		for _, k := range order {
			for i, p := range payouts {
				if p.owner.Equal(k.owner) && p.escrow.Equal(k.escrow) && p.shares.Cmp(sum[k]) == 0 {
					payouts = append(payouts[:i], payouts[i+1:]...)
					s.St.Inc("probe.c15.debonding_started_and_completed_in_one_block")
					break
				}
			}
		}
	}
	// Every payout event corresponds to a debonding delegation that existed (paid exactly once).
	if len(payouts) > 0 {
		p := payouts[0]
		return c15Viol("payout-without-debonding-delegation", fmt.Sprintf("height %d: %s was paid %s for %s debonding shares in %s that the state before the block did not hold (paid twice?)", h, p.owner, p.amount, p.shares, p.escrow))
	}
	return nil
}

func (o *c15Oracle) Finish(s *Sim) (*core.Violation, bool) {
	return o.viol, o.blocks >= 3 && o.deposits+o.reclaims >= 1
}
