package chain

// Joining by state sync (chain level of C12; crash variant for C07; follower divergence for C01).
//
// A "sync" op lets a NEW node join the running chain the way a real node does with state sync
// enabled: a donor replica creates a checkpoint of one of its retained versions (the real
// LocalBackend checkpointer, sequential or parallel chunker), lists it through the real ABCI
// ListSnapshots, and serves its chunks through LoadSnapshotChunk. The joiner starts with an empty
// data directory, WITHOUT the CometBFT handshake (so InitChain never runs), and is driven through
// the real ABCI OfferSnapshot / ApplySnapshotChunk calls — the trusted application hash comes from
// the decided chain (the light client's role), everything else comes from untrusted peers: the
// simulator plays peers that offer snapshots with an altered format, hash, chunk count, metadata
// or root, and that deliver chunks out of order, duplicated, truncated, extended, bit-flipped or
// swapped before the honest bytes arrive. The joiner may be stopped and restarted in the middle
// of the restore (it then starts over, as a real node does), and a crash image of its data
// directory may be taken at a verifhook hit inside the restore and resurrected afterwards.
//
// When the last chunk is in, the real mux finalizes the restored root, switches its state trees
// (doApplyStateSync) and notifies the applications. The joiner must then report the checkpoint
// height and the trusted hash through Info, hold exactly the donor's state of that version (full
// iteration), and — bootstrapped with the CometBFT state of that height like statesync's
// Bootstrap does — replay every later decided block with results identical to the recorded ones
// and stay in lock-step for the rest of the run, pruning with its own window.

import (
	"bytes"
	"fmt"
	"os"
	"strings"

	abcitypes "github.com/cometbft/cometbft/abci/types"
	"github.com/cometbft/cometbft/proxy"
	sm "github.com/cometbft/cometbft/state"

	"github.com/oasisprotocol/oasis-core/go/common/cbor"
	"github.com/oasisprotocol/oasis-core/go/common/crypto/hash"
	"github.com/oasisprotocol/oasis-core/go/common/verifhook"
	cmtapi "github.com/oasisprotocol/oasis-core/go/consensus/cometbft/api"
	storage "github.com/oasisprotocol/oasis-core/go/storage/api"
	"github.com/oasisprotocol/oasis-core/go/storage/mkvs/checkpoint"

	"verif/sim/core"
	"verif/sim/store"
)

// SyncFault is one thing an untrusted peer does during a state sync.
type SyncFault struct {
	Kind string `json:"kind"`
	A    int    `json:"a,omitempty"`
	B    int    `json:"b,omitempty"`
}

// SyncOp makes a new node join by state sync.
type SyncOp struct {
	Donor     int `json:"donor"`                // donor among the up, disk-backed replicas and earlier joiners (modulo)
	Back      int `json:"back,omitempty"`       // checkpoint version = tip - Back, clamped to what the donor retains
	ChunkSize int `json:"chunk_size"`           // bytes
	Threads   int `json:"threads,omitempty"`    // 0 = sequential chunker
	Order     int `json:"order,omitempty"`      // seed of the chunk delivery order (0 = ascending)
	Backend   int `json:"backend,omitempty"`    // joiner: 0 badger, 1 pathbadger
	PruneKeep int `json:"prune_keep,omitempty"` // joiner's pruning window (0 = none)
	// Offers are snapshots offered by lying peers before the honest one.
	Offers []SyncFault `json:"offers,omitempty"`
	// Chunks are chunk-level faults; fault f hits the (f.A mod n)-th delivery.
	Chunks []SyncFault `json:"chunks,omitempty"`
	// Restart > 0: after that many restored chunks the joiner is stopped and started again.
	Restart int `json:"restart,omitempty"`
	// Crash > 0: a crash image of the joiner's data directory is taken at that verifhook hit
	// counted from the honest offer; afterwards a node is started from the image.
	Crash int `json:"crash,omitempty"`
	// CrashIn = "finalize": only the hooks of the final Finalize (and its multipart cleanup) count.
	CrashIn string `json:"crash_in,omitempty"`
}

var syncOfferFaults = []string{"nil", "format", "hash-flip", "hash-short", "chunks-count", "metadata-flip", "metadata-trunc", "wrong-root", "digest-forged", "apphash-other", "chunk-forged", "chunk-forged"}
var syncChunkFaults = []string{"flip", "truncate", "extend", "empty", "swap", "dup", "badindex"}

// syncKinds lists which properties report which statesync violation kinds; in a run of another
// property the sync ends without a verdict (counted).
func (s *Sim) syncViol(kind, detail string) *core.Violation {
	ok := false
	switch s.Prop {
	case "C12":
		ok = true
	case "C06":
		ok = false // chain-level history runs use state sync only to add replicas
	case "C07":
		ok = strings.HasPrefix(kind, "statesync-crash")
	case "C01":
		ok = kind == "statesync-replay-diverged" || kind == "statesync-lockstep-diverged"
	case "C16":
		ok = strings.HasSuffix(kind, "-panic")
	}
	if !ok {
		s.St.Inc("probe.statesync.failure_left_to_other_property." + kind)
		s.Aborted = kind
		return nil
	}
	return cViol(s.Prop, kind, kind, detail)
}

func absInt(n int) int {
	if n < 0 {
		return -n
	}
	return n
}

// stopApp stops a replica that was started with startApp only.
func (r *Replica) stopApp() {
	r.Up = false
	core.Guard(func() {
		if r.conns != nil {
			_ = r.conns.Stop()
		}
		if r.srv != nil {
			r.srv.Stop()
			r.srv.Cleanup()
		}
	})
	if r.cancel != nil {
		r.cancel()
	}
}

// appInfo asks the application where it is.
func (r *Replica) appInfo() (height int64, appHash []byte, err error) {
	res, err := r.conns.Query().InfoSync(proxy.RequestInfo)
	if err != nil {
		return 0, nil, err
	}
	return res.LastBlockHeight, res.LastBlockAppHash, nil
}

// syncCtx is the state of one state sync.
type syncCtx struct {
	op     *SyncOp
	donor  *Replica
	V      int64
	root   storage.Root
	meta   *checkpoint.Metadata
	snap   *abcitypes.Snapshot
	chunks [][]byte // honest chunk bytes as served by the donor
	label  string
	// want is the donor's state of that version (read once: the donor may be retired later).
	want     store.Model
	haveWant bool
}

// stateSync executes a sync op.
func (s *Sim) stateSync(op *SyncOp) *core.Violation {
	if op == nil || !s.K.Disk || s.Height < s.W.Doc.Height {
		return nil
	}
	var donors []*Replica
	for _, r := range s.Reps {
		if r.Up && !r.Cfg.Observer && !r.Cfg.MemoryOnly {
			donors = append(donors, r)
		}
	}
	for _, ph := range s.cc.phoenixes {
		if ph.r.Up && ph.r.State.LastBlockHeight == s.Height {
			donors = append(donors, ph.r)
		}
	}
	if len(donors) == 0 {
		return nil
	}
	d := donors[absInt(op.Donor)%len(donors)]
	if d.State.LastBlockHeight < s.Height {
		if v := s.catchUp(d); v != nil || s.Aborted != "" {
			return v
		}
	}
	sc := &syncCtx{op: op, donor: d}
	s.cc.seq++
	sc.label = fmt.Sprintf("sync%d", s.cc.seq)
	ndb := d.srv.State().Storage().NodeDB()
	lo := int64(ndb.GetEarliestVersion())
	if lo < s.W.Doc.Height {
		lo = s.W.Doc.Height
	}
	sc.V = s.Height - int64(absInt(op.Back))
	if sc.V < lo {
		sc.V = lo
	}
	res := s.Results[sc.V]
	if res == nil || sc.V > s.Height {
		return nil
	}
	if _, ok := s.States[sc.V]; !ok {
		return nil
	}
	sc.root = storage.Root{Version: uint64(sc.V), Type: storage.RootTypeState}
	if err := sc.root.Hash.UnmarshalBinary(res.AppHash); err != nil {
		core.Harnessf("statesync: app hash of height %d: %v", sc.V, err)
	}
	s.St.Inc("probe.statesync.attempt")
	s.St.Event("sync %s donor=r%d version=%d tip=%d chunk=%d threads=%d", sc.label, d.Idx, sc.V, s.Height, op.ChunkSize, op.Threads)
	if sc.V < s.Height {
		s.St.Inc("probe.statesync.version_below_tip")
	}

	// The donor creates (or already has) a checkpoint of that version and lists it.
	if v := s.syncDonorCheckpoint(sc); v != nil || s.Aborted != "" || sc.meta == nil {
		return v
	}

	// The joiner.
	jcfg := ReplicaConfig{Backend: []string{"badger", "pathbadger"}[absInt(op.Backend)%2], PruneKeep: uint64(absInt(op.PruneKeep))}
	j := NewReplica(s.W, 200+s.cc.seq, d.Node, jcfg, fmt.Sprintf("%s/%s", s.base, sc.label), s.GenDoc)
	j.extraApps = func() []cmtapi.Application { return probeAppsFor(s, j) }
	s.St.Inc("probe.statesync.joiner_backend." + jcfg.Backend)
	if jcfg.Backend != d.Cfg.Backend {
		s.St.Inc("probe.statesync.cross_backend")
	}
	if v := s.syncStartJoiner(sc, j, "statesync-start"); v != nil || s.Aborted != "" {
		_ = os.RemoveAll(j.Dir)
		return v
	}
	var imgDir string
	v, done := s.syncRestore(sc, j, true, &imgDir)
	if v != nil || s.Aborted != "" || !done {
		j.stopApp()
		_ = os.RemoveAll(j.Dir)
		if imgDir != "" {
			_ = os.RemoveAll(imgDir)
		}
		return v
	}
	if v := s.syncFinish(sc, j, "statesync"); v != nil || s.Aborted != "" {
		if imgDir != "" {
			_ = os.RemoveAll(imgDir)
		}
		return v
	}
	s.St.Inc("probe.statesync.joined")
	s.ss.joined++
	if imgDir != "" {
		return s.syncResurrect(sc, jcfg, imgDir)
	}
	return nil
}

// syncDonorCheckpoint makes the donor create the checkpoint and fetches everything an honest
// peer would serve for it.
func (s *Sim) syncDonorCheckpoint(sc *syncCtx) *core.Violation {
	d, op := sc.donor, sc.op
	cpr := d.srv.State().Storage().Checkpointer()
	var meta *checkpoint.Metadata
	var cerr error
	pv, stack := core.Guard(func() {
		if m, err := cpr.GetCheckpoint(s.Ctx, 1, sc.root); err == nil && m != nil {
			meta = m
			s.St.Inc("probe.statesync.checkpoint_reused")
			return
		}
		chunk := uint64(absInt(op.ChunkSize))
		if chunk == 0 {
			chunk = 1
		}
		meta, cerr = cpr.CreateCheckpoint(s.Ctx, sc.root, chunk, uint16(absInt(op.Threads)%33))
	})
	if pv != nil {
		return s.syncViol("statesync-create-panic", fmt.Sprintf("replica %d (%s): creating a checkpoint of its version %d panicked: %v\n%s", d.Idx, d.Cfg.Backend, sc.V, pv, trimStack(stack)))
	}
	if cerr != nil {
		return s.syncViol("statesync-create-failed", fmt.Sprintf("replica %d (%s) could not create a checkpoint of version %d, which it retains (earliest %d): %v", d.Idx, d.Cfg.Backend, sc.V, d.srv.State().Storage().NodeDB().GetEarliestVersion(), cerr))
	}
	if meta.Root != sc.root {
		return s.syncViol("statesync-create-wrong-root", fmt.Sprintf("checkpoint metadata names root %v, asked for %v", meta.Root, sc.root))
	}
	var list *abcitypes.ResponseListSnapshots
	pv, stack = core.Guard(func() { list, _ = d.conns.Snapshot().ListSnapshotsSync(abcitypes.RequestListSnapshots{}) })
	if pv != nil {
		return s.syncViol("statesync-list-panic", fmt.Sprintf("ListSnapshots panicked: %v\n%s", pv, trimStack(stack)))
	}
	if list != nil {
		for _, sn := range list.Snapshots {
			if int64(sn.Height) == sc.V {
				sc.snap = sn
			}
		}
	}
	if sc.snap == nil {
		return s.syncViol("statesync-not-listed", fmt.Sprintf("replica %d created a checkpoint of version %d (%d chunks) but ListSnapshots does not offer it", d.Idx, sc.V, len(meta.Chunks)))
	}
	if int(sc.snap.Chunks) != len(meta.Chunks) || sc.snap.Format != 1 {
		return s.syncViol("statesync-listing-wrong", fmt.Sprintf("listed snapshot of version %d: format %d chunks %d; checkpoint has %d chunks", sc.V, sc.snap.Format, sc.snap.Chunks, len(meta.Chunks)))
	}
	for i := range meta.Chunks {
		var rsp *abcitypes.ResponseLoadSnapshotChunk
		pv, stack = core.Guard(func() {
			rsp, _ = d.conns.Snapshot().LoadSnapshotChunkSync(abcitypes.RequestLoadSnapshotChunk{Height: uint64(sc.V), Format: 1, Chunk: uint32(i)})
		})
		if pv != nil {
			return s.syncViol("statesync-load-panic", fmt.Sprintf("LoadSnapshotChunk(%d) panicked: %v\n%s", i, pv, trimStack(stack)))
		}
		if rsp == nil || len(rsp.Chunk) == 0 {
			return s.syncViol("statesync-chunk-not-served", fmt.Sprintf("replica %d lists a snapshot of version %d with %d chunks but serves nothing for chunk %d", d.Idx, sc.V, len(meta.Chunks), i))
		}
		sc.chunks = append(sc.chunks, rsp.Chunk)
	}
	// Peers also ask for chunks the snapshot does not have (and for snapshots the donor does not
	// have): nothing is served and nothing breaks.
	for _, q := range []struct {
		h uint64
		f uint32
		c uint32
	}{{uint64(sc.V), 1, uint32(len(meta.Chunks))}, {uint64(sc.V), 1, uint32(len(meta.Chunks)) + 1}, {uint64(sc.V), 1, 1 << 31}, {uint64(sc.V), 1, ^uint32(0)},
		{uint64(sc.V), 2, 0}, {uint64(sc.V) + 1000, 1, 0}, {0, 1, 0}} {
		var rsp *abcitypes.ResponseLoadSnapshotChunk
		pv, stack = core.Guard(func() {
			rsp, _ = d.conns.Snapshot().LoadSnapshotChunkSync(abcitypes.RequestLoadSnapshotChunk{Height: q.h, Format: q.f, Chunk: q.c})
		})
		if pv != nil {
			return s.syncViol("statesync-load-panic", fmt.Sprintf("LoadSnapshotChunk(height %d, format %d, chunk %d) on a donor whose snapshot of height %d has %d chunks panicked: %v\n%s", q.h, q.f, q.c, sc.V, len(meta.Chunks), pv, trimStack(stack)))
		}
		if rsp != nil && len(rsp.Chunk) > 0 {
			return s.syncViol("statesync-phantom-chunk-served", fmt.Sprintf("LoadSnapshotChunk(height %d, format %d, chunk %d) served %d bytes although the snapshot of height %d has %d chunks of format 1", q.h, q.f, q.c, len(rsp.Chunk), sc.V, len(meta.Chunks)))
		}
		s.St.Inc("fault.statesync.load_request_for_nonexistent_chunk")
	}
	sc.meta = meta
	s.St.Add("probe.statesync.chunks_served", int64(len(meta.Chunks)))
	if len(meta.Chunks) > 1 {
		s.St.Inc("probe.statesync.multi_chunk_checkpoint")
	}
	return nil
}

// syncStartJoiner starts the application of a joiner (no handshake); the node must come up with
// an application that is before genesis.
func (s *Sim) syncStartJoiner(sc *syncCtx, j *Replica, kind string) *core.Violation {
	var serr error
	var pv interface{}
	var stack string
	for attempt := 0; attempt < 2; attempt++ {
		pv, stack = core.Guard(func() { _, serr = j.startApp() })
		if pv == nil && serr != nil && attempt == 0 && strings.Contains(serr.Error(), "Create a new file") {
			store.BadgerNewFileRetries.Add(1)
			s.St.Inc("statesync.badger_new_file_retry")
			j.stopApp()
			continue
		}
		break
	}
	if pv != nil {
		j.stopApp()
		return s.syncViol(kind+"-panic", fmt.Sprintf("%s: starting the node (%s) on its data directory panicked: %v\n%s", sc.label, j.Cfg.Backend, pv, trimStack(stack)))
	}
	if serr != nil {
		j.stopApp()
		return s.syncViol(kind+"-failed", fmt.Sprintf("%s: starting the node (%s) on its data directory failed: %v\nrecent log: %s", sc.label, j.Cfg.Backend, serr, logTail(900)))
	}
	return nil
}

// offerLegit decides independently whether an offered snapshot may be accepted: format 1, the
// hash is the hash of the metadata, the metadata decodes and validates, its chunk count is the
// offered one and its root hash is the trusted application hash.
func offerLegit(req *abcitypes.RequestOfferSnapshot) bool {
	sn := req.Snapshot
	if sn == nil || sn.Format != 1 || len(sn.Hash) != hash.Size {
		return false
	}
	h := hash.NewFromBytes(sn.Metadata)
	if !bytes.Equal(h[:], sn.Hash) {
		return false
	}
	var cp checkpoint.Metadata
	if err := cbor.Unmarshal(sn.Metadata, &cp); err != nil {
		return false
	}
	// (The metadata's own format field and the root's version, type and namespace are not bound
	// to anything the joiner trusts; only the root hash is. Not judged.)
	if int(sn.Chunks) != len(cp.Chunks) || len(cp.Chunks) == 0 {
		return false
	}
	return bytes.Equal(cp.Root.Hash[:], req.AppHash)
}

// badOffer builds the offer of a lying peer (nil = not applicable).
func (s *Sim) badOffer(sc *syncCtx, f SyncFault) *abcitypes.RequestOfferSnapshot {
	sn := *sc.snap
	sn.Hash = append([]byte{}, sc.snap.Hash...)
	sn.Metadata = append([]byte{}, sc.snap.Metadata...)
	req := &abcitypes.RequestOfferSnapshot{Snapshot: &sn, AppHash: append([]byte{}, sc.root.Hash[:]...)}
	rehash := func() {
		h := hash.NewFromBytes(sn.Metadata)
		sn.Hash = h[:]
	}
	switch f.Kind {
	case "nil":
		req.Snapshot = nil
	case "format":
		sn.Format = []uint32{0, 2, 3, 1 << 31}[absInt(f.A)%4]
	case "hash-flip":
		sn.Hash[absInt(f.A)%len(sn.Hash)] ^= 1 << uint(absInt(f.B)%8)
	case "hash-short":
		sn.Hash = sn.Hash[:absInt(f.A)%len(sn.Hash)]
	case "chunks-count":
		if f.A%2 == 0 {
			sn.Chunks++
		} else {
			sn.Chunks--
		}
	case "metadata-flip":
		sn.Metadata[absInt(f.A)%len(sn.Metadata)] ^= 1 << uint(absInt(f.B)%8)
		rehash()
	case "metadata-trunc":
		sn.Metadata = sn.Metadata[:absInt(f.A)%len(sn.Metadata)]
		rehash()
	case "wrong-root":
		// A well-formed checkpoint of some other state.
		cp := *sc.meta
		cp.Root.Hash[absInt(f.A)%hash.Size] ^= 1 << uint(absInt(f.B)%8)
		sn.Metadata = cbor.Marshal(&cp)
		rehash()
	case "digest-forged":
		// The peer controls the manifest: a well-formed checkpoint of the right root whose digest
		// list does not match the chunks. It may be accepted; its chunks are refused later.
		cp := *sc.meta
		cp.Chunks = append([]hash.Hash{}, sc.meta.Chunks...)
		i := absInt(f.A) % len(cp.Chunks)
		cp.Chunks[i][absInt(f.B)%hash.Size] ^= 0x40
		sn.Metadata = cbor.Marshal(&cp)
		rehash()
	case "chunk-forged":
		// The peer controls manifest and chunks: a well-formed checkpoint of the right root in which
		// one chunk was replaced by a well-formed chunk with other contents (an entry dropped, or a
		// byte of an entry altered) and the digest list was adjusted to match. The offer may be
		// accepted; the forged chunk must fail its proof verification.
		i := absInt(f.A) % len(sc.meta.Chunks)
		forged := forgeChunk(sc.chunks[i], f.B)
		if forged == nil {
			return nil
		}
		cp := *sc.meta
		cp.Chunks = append([]hash.Hash{}, sc.meta.Chunks...)
		cp.Chunks[i] = hash.NewFromBytes(forged)
		sn.Metadata = cbor.Marshal(&cp)
		rehash()
	case "apphash-other":
		// The light client trusts another hash for that height than the snapshot's root (the peer
		// offers a snapshot of a fork or of another height).
		req.AppHash[absInt(f.A)%len(req.AppHash)] ^= 1 << uint(absInt(f.B)%8)
	default:
		return nil
	}
	return req
}

// forgeChunk re-encodes an honest chunk with one proof entry dropped or altered (nil = the chunk
// cannot be forged that way).
func forgeChunk(honest []byte, sel int) []byte {
	entries, err := store.DecodeChunk(honest)
	if err != nil || len(entries) == 0 {
		return nil
	}
	sel = absInt(sel)
	i := sel % len(entries)
	out := make([][]byte, 0, len(entries))
	switch (sel / 7) % 3 {
	case 0: // drop an entry
		if len(entries) < 2 {
			return nil
		}
		out = append(append(out, entries[:i]...), entries[i+1:]...)
	case 1: // alter the last byte of an entry (a leaf's value, or a hash)
		if len(entries[i]) == 0 {
			return nil
		}
		e := append([]byte{}, entries[i]...)
		e[len(e)-1] ^= 1
		out = append(append(append(out, entries[:i]...), e), entries[i+1:]...)
	default: // duplicate an entry
		out = append(append(append(out, entries[:i+1]...), entries[i]), entries[i+1:]...)
	}
	forged := store.EncodeChunk(out)
	if bytes.Equal(forged, honest) {
		return nil
	}
	return forged
}

// corruptChunk applies a chunk-level fault to honest bytes (ok=false: not applicable).
func corruptChunk(sc *syncCtx, idx int, f SyncFault) (data []byte, ok bool) {
	src := sc.chunks[idx]
	switch f.Kind {
	case "flip":
		d := append([]byte{}, src...)
		d[absInt(f.B)%len(d)] ^= 1 << uint(absInt(f.A/7)%8)
		return d, true
	case "truncate":
		return append([]byte{}, src[:absInt(f.B)%len(src)]...), true
	case "extend":
		return append(append([]byte{}, src...), byte(f.B), byte(f.B>>8)), true
	case "empty":
		return []byte{}, true
	case "swap":
		o := (idx + 1 + absInt(f.B)%len(sc.chunks)) % len(sc.chunks)
		if o == idx || bytes.Equal(sc.chunks[o], src) {
			return nil, false
		}
		return append([]byte{}, sc.chunks[o]...), true
	}
	return nil, false
}

// syncRestore drives OfferSnapshot / ApplySnapshotChunk on the joiner until the restore is
// complete (done) or cannot go on without a verdict. With faults, the lying peers of the op act.
func (s *Sim) syncRestore(sc *syncCtx, j *Replica, faults bool, imgDir *string) (v *core.Violation, done bool) {
	op := sc.op
	snapConn := func() proxy.AppConnSnapshot { return j.conns.Snapshot() }
	offer := func(req *abcitypes.RequestOfferSnapshot) (*abcitypes.ResponseOfferSnapshot, *core.Violation) {
		var rsp *abcitypes.ResponseOfferSnapshot
		var err error
		pv, stack := core.Guard(func() { rsp, err = snapConn().OfferSnapshotSync(*req) })
		if pv != nil {
			return nil, s.syncViol("statesync-offer-panic", fmt.Sprintf("%s: OfferSnapshot panicked: %v\n%s", sc.label, pv, trimStack(stack)))
		}
		if err != nil || rsp == nil {
			core.Harnessf("statesync: OfferSnapshot transport error: %v", err)
		}
		return rsp, nil
	}
	if faults {
		for _, f := range op.Offers {
			req := s.badOffer(sc, f)
			if req == nil {
				continue
			}
			legit := offerLegit(req)
			rsp, v := offer(req)
			if v != nil || s.Aborted != "" {
				return v, false
			}
			s.St.Inc("fault.statesync.offer_" + f.Kind)
			s.St.Event("sync %s bad offer %s -> %v", sc.label, f.Kind, rsp.Result)
			if rsp.Result != abcitypes.ResponseOfferSnapshot_ACCEPT {
				s.St.Inc("probe.statesync.bad_offer_refused")
				if rsp.Result == abcitypes.ResponseOfferSnapshot_ABORT {
					// The node gives up state sync altogether (the operator restarts it).
					s.St.Inc("probe.statesync.bad_offer_aborted_sync")
					j.stopApp()
					if v := s.syncStartJoiner(sc, j, "statesync-restart"); v != nil || s.Aborted != "" {
						return v, false
					}
				}
				continue
			}
			if !legit {
				var cp checkpoint.Metadata
				derr := cbor.Unmarshal(req.Snapshot.Metadata, &cp)
				return s.syncViol("statesync-bad-offer-accepted", fmt.Sprintf("%s: a snapshot offer altered by %q (trusted application hash %x for height %d) was accepted; offered: format %d, %d chunks, hash %x, metadata decodes to (err=%v) %+v; honest metadata: %+v", sc.label, f.Kind, req.AppHash, sc.V, req.Snapshot.Format, req.Snapshot.Chunks, req.Snapshot.Hash, derr, cp, *sc.meta)), false
			}
			// A well-formed manifest of the right root whose digests are the peer's: every honest
			// chunk with a forged digest must be refused; the node cannot complete this snapshot.
			s.St.Inc("probe.statesync.forged_manifest_accepted")
			var cp checkpoint.Metadata
			_ = cbor.Unmarshal(req.Snapshot.Metadata, &cp)
			if f.Kind == "chunk-forged" {
				cont, v := s.syncForgedChunk(sc, j, f, &cp)
				if v != nil || s.Aborted != "" {
					return v, false
				}
				if cont {
					continue
				}
			}
			for i := range cp.Chunks {
				if i >= len(sc.meta.Chunks) || cp.Chunks[i] == sc.meta.Chunks[i] {
					continue
				}
				res, v := s.syncApply(sc, j, i, sc.chunks[i], "peer-forged")
				if v != nil || s.Aborted != "" {
					return v, false
				}
				if res.Result == abcitypes.ResponseApplySnapshotChunk_ACCEPT {
					return s.syncViol("statesync-chunk-accepted-against-digest", fmt.Sprintf("%s: chunk %d was accepted although the accepted manifest lists another digest for it", sc.label, i)), false
				}
				s.St.Inc("probe.statesync.chunk_refused_against_forged_digest")
			}
			// The node is restarted (a real node gives up on the snapshot after its retries time out).
			j.stopApp()
			if v := s.syncStartJoiner(sc, j, "statesync-restart"); v != nil || s.Aborted != "" {
				return v, false
			}
			if v := s.syncNothingVisible(sc, j, "after a restart in the middle of a restore from a forged manifest"); v != nil || s.Aborted != "" {
				return v, false
			}
		}
	}

	honest := &abcitypes.RequestOfferSnapshot{Snapshot: sc.snap, AppHash: append([]byte{}, sc.root.Hash[:]...)}
	n := len(sc.chunks)
	order := make([]int, n)
	for i := range order {
		order[i] = i
	}
	if op.Order != 0 {
		order = core.NewRand(uint64(absInt(op.Order))).Perm(n)
	}
	restarted := false
	hits := 0
	if faults && op.Crash > 0 && imgDir != nil {
		gid := goid()
		verifhook.SetHandler(func(name string) {
			if goid() != gid {
				return
			}
			if op.CrashIn == "finalize" && !strings.Contains(name, ".Finalize.") && !strings.Contains(name, ".cleanMultipart.") {
				return
			}
			hits++
			if hits == op.Crash && *imgDir == "" {
				dir := fmt.Sprintf("%s/%s-img", s.base, sc.label)
				retries := copyTreeStable(j.Dir, dir)
				if retries > 0 {
					s.St.Add("statesync.image_copy_retries", int64(retries))
				}
				*imgDir = dir
				s.St.Inc("probe.statesync.crash_point." + name)
				s.St.Event("sync %s crash image at hit %d %s", sc.label, hits, name)
			}
		})
		defer func() {
			verifhook.SetHandler(nil)
			s.St.Inc(fmt.Sprintf("probe.statesync.hooks_per_restore.%03d", min(hits/10*10, 500)))
			if *imgDir == "" {
				s.St.Inc("probe.statesync.crash_hit_beyond_last_hook")
			}
		}()
	}
start:
	rsp, v := offer(honest)
	if v != nil || s.Aborted != "" {
		return v, false
	}
	if rsp.Result != abcitypes.ResponseOfferSnapshot_ACCEPT {
		return s.syncViol("statesync-honest-offer-refused", fmt.Sprintf("%s: the donor's snapshot of version %d (root %x = the trusted application hash) was refused: %v\nrecent log: %s", sc.label, sc.V, sc.root.Hash[:], rsp.Result, logTail(600))), false
	}
	restored := map[int]bool{}
	for pos, idx := range order {
		if faults {
			for _, f := range op.Chunks {
				if absInt(f.A)%n != pos {
					continue
				}
				switch f.Kind {
				case "dup":
					// An already restored chunk arrives again.
					var prev []int
					for _, i := range order[:pos] {
						if restored[i] {
							prev = append(prev, i)
						}
					}
					if len(prev) == 0 {
						continue
					}
					i := prev[absInt(f.B)%len(prev)]
					res, v := s.syncApply(sc, j, i, sc.chunks[i], "peer-dup")
					if v != nil || s.Aborted != "" {
						return v, false
					}
					s.St.Inc("fault.statesync.chunk_dup")
					if res.Result != abcitypes.ResponseApplySnapshotChunk_ACCEPT {
						return s.syncViol("statesync-duplicate-chunk-refused", fmt.Sprintf("%s: chunk %d, delivered a second time while the restore is still in progress, was answered with %v", sc.label, i, res.Result)), false
					}
				case "badindex":
					// A chunk index the checkpoint does not have.
					i := n + absInt(f.B)%3
					res, v := s.syncApply(sc, j, i, sc.chunks[idx], "peer-badindex")
					if v != nil || s.Aborted != "" {
						return v, false
					}
					s.St.Inc("fault.statesync.chunk_badindex")
					s.St.Event("sync %s chunk index %d of %d -> %v", sc.label, i, n, res.Result)
					if res.Result == abcitypes.ResponseApplySnapshotChunk_ABORT || res.Result == abcitypes.ResponseApplySnapshotChunk_REJECT_SNAPSHOT {
						s.St.Inc("probe.statesync.bad_index_ended_sync")
						return nil, false
					}
				default:
					data, ok := corruptChunk(sc, idx, f)
					if !ok || bytes.Equal(data, sc.chunks[idx]) {
						continue
					}
					res, v := s.syncApply(sc, j, idx, data, "peer-"+f.Kind)
					if v != nil || s.Aborted != "" {
						return v, false
					}
					s.St.Inc("fault.statesync.chunk_" + f.Kind)
					s.St.Event("sync %s corrupt chunk %d %s -> %v", sc.label, idx, f.Kind, res.Result)
					switch res.Result {
					case abcitypes.ResponseApplySnapshotChunk_ACCEPT:
						return s.syncViol("statesync-corrupt-chunk-accepted", fmt.Sprintf("%s: chunk %d of %d altered by %q (its digest is not the manifest's) was accepted", sc.label, idx, n, f.Kind)), false
					case abcitypes.ResponseApplySnapshotChunk_RETRY:
						s.St.Inc("probe.statesync.corrupt_chunk_refetch_requested")
					default:
						// Rejected in a way that ends this sync attempt.
						s.St.Inc("probe.statesync.corrupt_chunk_ended_sync")
						return nil, false
					}
				}
			}
		}
		res, v := s.syncApply(sc, j, idx, sc.chunks[idx], "donor")
		if v != nil || s.Aborted != "" {
			return v, false
		}
		if res.Result != abcitypes.ResponseApplySnapshotChunk_ACCEPT {
			return s.syncViol("statesync-honest-chunk-refused", fmt.Sprintf("%s (%s <- %s): the donor's chunk %d of %d (delivery %d) of the accepted snapshot was answered with %v\nrecent log: %s", sc.label, j.Cfg.Backend, sc.donor.Cfg.Backend, idx, n, pos, res.Result, logTail(600))), false
		}
		restored[idx] = true
		s.St.Inc("probe.statesync.chunk_restored")
		if pos < n-1 {
			// Nothing of a partial restore is visible.
			if h, _, err := j.appInfo(); err == nil && h >= s.W.Doc.Height {
				return s.syncViol("statesync-partial-visible", fmt.Sprintf("%s: after %d of %d chunks the application reports height %d", sc.label, pos+1, n, h)), false
			}
		}
		if faults && !restarted && op.Restart > 0 && pos+1 == op.Restart && pos < n-1 {
			restarted = true
			s.St.Inc("probe.statesync.restart_during_restore")
			s.St.Event("sync %s restart after %d chunks", sc.label, pos+1)
			j.stopApp()
			if v := s.syncStartJoiner(sc, j, "statesync-restart"); v != nil || s.Aborted != "" {
				return v, false
			}
			if v := s.syncNothingVisible(sc, j, fmt.Sprintf("after a restart in the middle of a restore (%d of %d chunks)", pos+1, n)); v != nil || s.Aborted != "" {
				return v, false
			}
			goto start
		}
	}
	return nil, true
}

// syncForgedChunk plays a peer that controls manifest and chunks: some honest chunks of the
// accepted forged manifest are restored first, then the forged chunk arrives (its digest matches
// the manifest, its proof cannot verify). It returns true when the node rejected the snapshot and
// can go on with the next offer WITHOUT a restart (as CometBFT's syncer does), false when the
// joiner has to be restarted by the caller.
func (s *Sim) syncForgedChunk(sc *syncCtx, j *Replica, f SyncFault, cp *checkpoint.Metadata) (bool, *core.Violation) {
	fi := -1
	for i := range cp.Chunks {
		if i < len(sc.meta.Chunks) && cp.Chunks[i] != sc.meta.Chunks[i] {
			fi = i
		}
	}
	if fi < 0 {
		return false, nil
	}
	forged := forgeChunk(sc.chunks[fi], f.B)
	if forged == nil {
		return false, nil
	}
	// Some honest chunks first (they are part of the forged manifest too).
	n := len(cp.Chunks)
	for k, cnt := 0, absInt(f.A/3)%3; k < n && cnt > 0; k++ {
		if k == fi {
			continue
		}
		res, v := s.syncApply(sc, j, k, sc.chunks[k], "peer-forger")
		if v != nil || s.Aborted != "" {
			return false, v
		}
		if res.Result != abcitypes.ResponseApplySnapshotChunk_ACCEPT {
			return false, s.syncViol("statesync-honest-chunk-refused", fmt.Sprintf("%s: chunk %d, unchanged in the accepted manifest, was answered with %v", sc.label, k, res.Result))
		}
		if k == n-1 || (n == 2) {
			break // never complete the restore here
		}
		cnt--
	}
	res, v := s.syncApply(sc, j, fi, forged, "peer-forger")
	if v != nil || s.Aborted != "" {
		return false, v
	}
	s.St.Inc("fault.statesync.forged_chunk_delivered")
	s.St.Event("sync %s forged chunk %d -> %v", sc.label, fi, res.Result)
	switch res.Result {
	case abcitypes.ResponseApplySnapshotChunk_ACCEPT:
		return false, s.syncViol("statesync-forged-chunk-accepted", fmt.Sprintf("%s: chunk %d of %d, re-encoded with an altered proof (its digest matches the peer's manifest, its contents are not the checkpoint's), was accepted", sc.label, fi, n))
	case abcitypes.ResponseApplySnapshotChunk_REJECT_SNAPSHOT:
		s.St.Inc("probe.statesync.forged_chunk_rejected_snapshot")
		if v := s.syncNothingVisible(sc, j, "after a snapshot was rejected for a chunk with an invalid proof"); v != nil || s.Aborted != "" {
			return false, v
		}
		// The next (honest) offer follows without a restart.
		return true, nil
	default:
		s.St.Inc("probe.statesync.forged_chunk_other_refusal")
		return false, nil
	}
}

// syncApply delivers one chunk.
func (s *Sim) syncApply(sc *syncCtx, j *Replica, idx int, data []byte, sender string) (*abcitypes.ResponseApplySnapshotChunk, *core.Violation) {
	var rsp *abcitypes.ResponseApplySnapshotChunk
	var err error
	pv, stack := core.Guard(func() {
		rsp, err = j.conns.Snapshot().ApplySnapshotChunkSync(abcitypes.RequestApplySnapshotChunk{Index: uint32(idx), Chunk: data, Sender: sender})
	})
	if pv != nil {
		return nil, s.syncViol("statesync-chunk-panic", fmt.Sprintf("%s: ApplySnapshotChunk(index %d, %d bytes from %s) panicked: %v\n%s", sc.label, idx, len(data), sender, pv, trimStack(stack)))
	}
	if err != nil || rsp == nil {
		core.Harnessf("statesync: ApplySnapshotChunk transport error: %v", err)
	}
	return rsp, nil
}

// syncNothingVisible checks that a node (re)started in the middle of a restore shows nothing of it.
func (s *Sim) syncNothingVisible(sc *syncCtx, j *Replica, when string) *core.Violation {
	h, _, err := j.appInfo()
	if err != nil {
		core.Harnessf("statesync: Info: %v", err)
	}
	if h >= s.W.Doc.Height {
		return s.syncViol("statesync-partial-visible", fmt.Sprintf("%s: %s the application reports height %d", sc.label, when, h))
	}
	return s.syncNotFinalized(sc, j, "statesync-partial-visible", when)
}

// syncNotFinalized checks that the node database of a node restarted inside a restore does not
// report the checkpoint's version as finalized. (badger keeps the version's roots-metadata entry
// of an aborted restore, so GetRootsForVersion/HasRoot may still list the root although its nodes
// are gone; the property speaks of finalized roots, so that is counted, not judged.)
func (s *Sim) syncNotFinalized(sc *syncCtx, j *Replica, kind, when string) *core.Violation {
	var roots []storage.Root
	var lv uint64
	var ok bool
	pv, _ := core.Guard(func() {
		ndb := j.srv.State().Storage().NodeDB()
		lv, ok = ndb.GetLatestVersion()
		roots, _ = ndb.GetRootsForVersion(uint64(sc.V))
	})
	if pv != nil {
		return nil
	}
	if ok && lv >= uint64(sc.V) {
		return s.syncViol(kind, fmt.Sprintf("%s: %s the node database reports version %d as its latest finalized version (checkpoint version %d)", sc.label, when, lv, sc.V))
	}
	if len(roots) > 0 {
		s.St.Inc("probe.statesync.unfinalized_root_still_listed_after_restart." + j.Cfg.Backend)
	}
	return nil
}

// syncFinish checks the restored node, bootstraps its CometBFT side and puts it in lock-step.
func (s *Sim) syncFinish(sc *syncCtx, j *Replica, probe string) *core.Violation {
	fail := func(v *core.Violation) *core.Violation {
		j.stopApp()
		_ = os.RemoveAll(j.Dir)
		return v
	}
	h, ah, err := j.appInfo()
	if err != nil {
		core.Harnessf("statesync: Info: %v", err)
	}
	if h != sc.V || !bytes.Equal(ah, sc.root.Hash[:]) {
		return fail(s.syncViol(probe+"-restored-root-wrong", fmt.Sprintf("%s: after the last chunk the application reports height %d hash %x; restored checkpoint: version %d root %x", sc.label, h, ah, sc.V, sc.root.Hash[:])))
	}
	// Exactly the donor's state of that version.
	var want, got store.Model
	var werr, gerr error
	if sc.haveWant {
		want = sc.want
	} else if !sc.donor.Up {
		werr = fmt.Errorf("donor retired")
	} else {
		core.Guard(func() {
			t, err := sc.donor.TreeAt(sc.V)
			if err != nil {
				werr = err
				return
			}
			defer t.Close()
			want, _, werr = store.DumpTree(s.Ctx, t)
		})
		if werr == nil {
			sc.want, sc.haveWant = want, true
		}
	}
	pv, stack := core.Guard(func() {
		t, err := j.TreeAt(sc.V)
		if err != nil {
			gerr = err
			return
		}
		defer t.Close()
		got, _, gerr = store.DumpTree(s.Ctx, t)
	})
	if pv != nil {
		return fail(s.syncViol(probe+"-restored-unreadable", fmt.Sprintf("%s (%s <- %s): reading the restored state of version %d panicked: %v\n%s", sc.label, j.Cfg.Backend, sc.donor.Cfg.Backend, sc.V, pv, trimStack(stack))))
	}
	if gerr != nil {
		return fail(s.syncViol(probe+"-restored-unreadable", fmt.Sprintf("%s (%s <- %s): the restored state of version %d cannot be read: %v", sc.label, j.Cfg.Backend, sc.donor.Cfg.Backend, sc.V, gerr)))
	}
	if werr == nil && !got.Equal(want) {
		return fail(s.syncViol(probe+"-restored-contents-differ", fmt.Sprintf("%s (%s <- %s): the restored state of version %d differs from the donor's: %s", sc.label, j.Cfg.Backend, sc.donor.Cfg.Backend, sc.V, store.DiffModels(got, want))))
	}
	if werr == nil {
		s.St.Inc("probe.statesync.contents_compared")
		s.St.Add("probe.statesync.keys_compared", int64(len(want)))
	}
	// The node database holds that version and nothing else.
	ndb := j.srv.State().Storage().NodeDB()
	var roots []storage.Root
	var lv uint64
	core.Guard(func() {
		roots, _ = ndb.GetRootsForVersion(uint64(sc.V))
		lv, _ = ndb.GetLatestVersion()
	})
	if len(roots) != 1 || roots[0] != sc.root || lv != uint64(sc.V) {
		return fail(s.syncViol(probe+"-restored-root-wrong", fmt.Sprintf("%s: node database after the restore: roots of version %d = %v, latest version %d", sc.label, sc.V, roots, lv)))
	}
	// CometBFT side: what statesync's Bootstrap stores.
	// (The light-client state provider of statesync sets the two "last changed" heights like this.)
	st := s.States[sc.V].Copy()
	st.LastHeightValidatorsChanged = sc.V + 2
	st.LastHeightConsensusParamsChanged = sc.V + 1
	if err := j.stateStore.Bootstrap(st); err != nil {
		core.Harnessf("statesync: bootstrap: %v", err)
	}
	if c := s.Commits[sc.V]; c != nil {
		if err := j.blockStore.SaveSeenCommit(sc.V, c); err != nil {
			core.Harnessf("statesync: save seen commit: %v", err)
		}
	}
	j.State = st
	j.exec = sm.NewBlockExecutor(j.stateStore, nopLogger, j.conns.Consensus(), j.mp, &simEvpool{}, j.blockStore)
	j.Up = true
	ph := &phoenix{r: j, label: sc.label, probe: "statesync", from: sc.V}
	ph.viol = func(kind, detail string) *core.Violation {
		kind = strings.Replace(kind, "phoenix-", "statesync-", 1)
		return s.syncViol(kind, fmt.Sprintf("%s (%s, prune_keep=%d) joined by state sync at version %d from replica %d (%s): %s", sc.label, j.Cfg.Backend, j.Cfg.PruneKeep, sc.V, sc.donor.Idx, sc.donor.Cfg.Backend, detail))
	}
	s.cc.phoenixes = append(s.cc.phoenixes, ph)
	if v := s.phoenixAdvance(ph, "phoenix-replay-diverged"); v != nil || s.Aborted != "" {
		return v
	}
	// Versions before the checkpoint do not exist on the joiner; asking must fail cleanly.
	if sc.V > s.W.Doc.Height {
		pv, stack := core.Guard(func() {
			if t, err := j.TreeAt(sc.V - 1); err == nil {
				defer t.Close()
				_, _, _ = store.DumpTree(s.Ctx, t)
			}
		})
		if pv != nil {
			s.dropPhoenix(ph)
			return s.syncViol(probe+"-earlier-version-panic", fmt.Sprintf("%s: asking the joined node for version %d (before its checkpoint) panicked: %v\n%s", sc.label, sc.V-1, pv, trimStack(stack)))
		}
	}
	if len(s.cc.phoenixes) > maxPhoenixes {
		old := s.cc.phoenixes[0]
		s.cc.phoenixes = s.cc.phoenixes[1:]
		s.retirePhoenix(old)
	}
	return nil
}

// syncResurrect starts a node from the crash image taken inside the restore: it must come up,
// show either nothing of the checkpoint or all of it, and a fresh state sync must then succeed.
func (s *Sim) syncResurrect(sc *syncCtx, jcfg ReplicaConfig, imgDir string) *core.Violation {
	s.cc.seq++
	sc2 := *sc // (carries the donor's state read during the first join)
	sc2.label = fmt.Sprintf("%s-crash", sc.label)
	j := NewReplica(s.W, 300+s.cc.seq, sc.donor.Node, jcfg, imgDir, s.GenDoc)
	j.extraApps = func() []cmtapi.Application { return probeAppsFor(s, j) }
	if v := s.syncStartJoiner(&sc2, j, "statesync-crash-start"); v != nil || s.Aborted != "" {
		_ = os.RemoveAll(imgDir)
		return v
	}
	h, ah, err := j.appInfo()
	if err != nil {
		core.Harnessf("statesync: Info: %v", err)
	}
	switch {
	case h < s.W.Doc.Height:
		s.St.Inc("probe.statesync.crash_recovered_empty")
		if v := s.syncNotFinalized(&sc2, j, "statesync-crash-partial-visible", "restarted from a crash image taken inside the restore, the application is before genesis but"); v != nil || s.Aborted != "" {
			j.stopApp()
			_ = os.RemoveAll(imgDir)
			return v
		}
		// A fresh restore succeeds.
		v, done := s.syncRestore(&sc2, j, false, nil)
		if v == nil && s.Aborted == "" && !done {
			core.Harnessf("statesync: fault-free restore did not complete")
		}
		if v != nil || s.Aborted != "" {
			j.stopApp()
			_ = os.RemoveAll(imgDir)
			if v != nil {
				v.Kind = strings.Replace(v.Kind, "statesync-", "statesync-crash-", 1)
				v.Fingerprint = v.Kind
				v.Detail = "after a crash inside an earlier restore of the same checkpoint: " + v.Detail
			}
			return v
		}
	case h == sc.V && bytes.Equal(ah, sc.root.Hash[:]):
		s.St.Inc("probe.statesync.crash_recovered_complete")
	default:
		j.stopApp()
		_ = os.RemoveAll(imgDir)
		return s.syncViol("statesync-crash-partial-visible", fmt.Sprintf("%s: restarted from a crash image taken inside the restore of version %d (root %x), the application reports height %d hash %x", sc2.label, sc.V, sc.root.Hash[:], h, ah))
	}
	if v := s.syncFinish(&sc2, j, "statesync-crash"); v != nil || s.Aborted != "" {
		return v
	}
	s.St.Inc("probe.statesync.crash_image_checked")
	s.ss.crashChecked++
	return nil
}

// syncState counts what the sync ops of a run achieved.
type syncState struct {
	joined       int
	crashChecked int
}

// syncOracle makes a chainsync run count as non-trivial only when a node joined.
type syncOracle struct{ BaseOracle }

func (syncOracle) Finish(s *Sim) (*core.Violation, bool) {
	for _, ph := range s.cc.phoenixes {
		if ph.probe == "statesync" {
			if ph.r.State.LastBlockHeight != s.Height {
				core.Harnessf("statesync: joiner %s is at height %d, chain at %d", ph.label, ph.r.State.LastBlockHeight, s.Height)
			}
			s.St.Add("probe.statesync.lockstep_blocks", s.Height-ph.from)
		}
	}
	return nil, s.ss.joined > 0
}

// genSyncOp draws a sync op.
func genSyncOp(r *core.Rand, crash bool) *SyncOp {
	op := &SyncOp{Donor: r.Intn(8), Back: r.Pick([]int{4, 3, 2, 1}) * r.Range(0, 2), Backend: r.Intn(2)}
	op.ChunkSize = []int{1, 64, 256, 1024, 4096, 1 << 20}[r.Pick([]int{1, 2, 3, 3, 2, 1})]
	if r.Chance(1, 2) {
		op.Threads = r.Range(1, 8)
	}
	if r.Chance(2, 3) {
		op.Order = r.Range(1, 1<<20)
	}
	if r.Chance(1, 3) {
		op.PruneKeep = r.Range(1, 5)
	}
	for i, n := 0, r.Pick([]int{3, 3, 2, 1}); i < n; i++ {
		op.Offers = append(op.Offers, SyncFault{Kind: syncOfferFaults[r.Intn(len(syncOfferFaults))], A: r.Intn(1 << 16), B: r.Intn(1 << 16)})
	}
	for i, n := 0, r.Pick([]int{2, 3, 2, 2, 1}); i < n; i++ {
		op.Chunks = append(op.Chunks, SyncFault{Kind: syncChunkFaults[r.Intn(len(syncChunkFaults))], A: r.Intn(1 << 16), B: r.Intn(1 << 16)})
	}
	if r.Chance(1, 4) {
		op.Restart = r.Range(1, 6)
	}
	if crash || r.Chance(1, 3) {
		switch r.Intn(4) {
		case 0:
			op.Crash = r.Range(1, 400)
		case 1:
			op.Crash = r.Range(1, 60)
		default:
			op.Crash = r.Range(1, 20)
		}
		if r.Chance(1, 3) {
			op.CrashIn, op.Crash = "finalize", r.Range(1, 12)
		}
	}
	return op
}

// addSyncOps inserts n sync ops behind randomly chosen block ops (not before the third block).
func addSyncOps(r *core.Rand, sc *core.Scenario, n int, crash bool) {
	var blocks []int
	for i, raw := range sc.Ops {
		if bytes.Contains(raw[:min(len(raw), 16)], []byte(`"k":"block"`)) {
			blocks = append(blocks, i)
		}
	}
	if len(blocks) < 4 {
		return
	}
	at := map[int]*SyncOp{}
	for i := 0; i < n; i++ {
		at[blocks[r.Range(2, len(blocks)-2)]] = genSyncOp(r, crash)
	}
	var ops = sc.Ops[:0:0]
	for i, raw := range sc.Ops {
		ops = append(ops, raw)
		if o := at[i]; o != nil {
			ops = append(ops, core.MustJSON(Op{K: "sync", Sync: o}))
		}
	}
	sc.Ops = ops
}

func init() {
	RegisterOracle("C12", func() Oracle { return syncOracle{} })
	RegisterWorkload("C12", &Workload{Tune: func(r *core.Rand, k *ChainKnobs) {
		k.Disk = true
		for i := range k.Replicas {
			if r.Chance(1, 3) {
				k.Replicas[i].PruneKeep = uint64(r.Range(2, 6))
			}
		}
	}})
}
