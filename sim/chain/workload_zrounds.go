package chain

import "verif/sim/core"

// Base extra "rounds": the application-level round transactions of the C11 workload for the base
// properties. Finalized rounds run the runtime message dispatcher (staking messages of the
// runtime account), the incoming message queue, incorrect-result slashing, liveness statistics
// and round-result bookkeeping, none of which the other extras reach.
//
// The file name sorts last on purpose: the extra is registered (hence tuned) after the others, so
// that it sees a runtime another extra has already put into the genesis. It draws from its own
// PRNG (OwnRand), so the scenarios of runs that do not select it are unchanged by its existence.
func init() {
	RegisterBaseExtra(&BaseExtra{
		Name:    "rounds",
		Kinds:   []string{"c11.commit", "c11.commit", "c11.commit", "c11.commit", "c11.commit", "c11.commit", "submitmsg", "c11.fundrt", "c11.evidence"},
		Tune:    func(r *core.Rand, k *ChainKnobs) { c11Runtime(r, k, false) },
		ArgGen:  c11ArgGen,
		OwnRand: true,
		Share:   3,
	})
}
