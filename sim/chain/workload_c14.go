package chain

// Workload extension of C14: a compute runtime with compute-worker nodes in genesis, and
// transactions that keep committees alive and vary what an election sees — compute nodes
// re-registering (right / not-yet-deployed / missing runtime version, mixed roles, short
// expirations), validator nodes opting in to the compute role, runtime descriptor updates
// (group sizes, per-entity caps, minimum pool sizes, validator-set membership, new deployments
// that become active at a later epoch) and unfreeze requests for slashed nodes.

import (
	"context"

	beacon "github.com/oasisprotocol/oasis-core/go/beacon/api"
	"github.com/oasisprotocol/oasis-core/go/common/crypto/signature"
	"github.com/oasisprotocol/oasis-core/go/common/entity"
	"github.com/oasisprotocol/oasis-core/go/common/node"
	"github.com/oasisprotocol/oasis-core/go/common/quantity"
	"github.com/oasisprotocol/oasis-core/go/common/version"
	"github.com/oasisprotocol/oasis-core/go/consensus/api/transaction"
	registryState "github.com/oasisprotocol/oasis-core/go/consensus/cometbft/apps/registry/state"
	registry "github.com/oasisprotocol/oasis-core/go/registry/api"
	scheduler "github.com/oasisprotocol/oasis-core/go/scheduler/api"
	staking "github.com/oasisprotocol/oasis-core/go/staking/api"

	"verif/sim/core"
)

func init() {
	RegisterWorkload("C14", &Workload{
		Kinds:  []string{"c14_regcompute", "c14_regcompute", "c14_regcompute", "c14_regruntime", "c14_unfreeze", "c14_mixroles", "c14_fundnode", "c14_addnode", "c14_addnode"},
		Weight: 24,
		Tune:   c14Tune,
	})
	RegisterTxKind("c14_regcompute", c14RegCompute)
	RegisterTxKind("c14_mixroles", c14MixRoles)
	RegisterTxKind("c14_regruntime", c14RegRuntime)
	RegisterTxKind("c14_unfreeze", c14Unfreeze)
	RegisterTxKind("c14_fundnode", c14FundNode)
	RegisterTxKind("c14_addnode", c14AddNode)
}

func c14Tune(r *core.Rand, k *ChainKnobs) {
	g := &k.Gen
	// Tiny-stake worlds (own PRNG): thresholds of 0-3 base units and non-anchor escrows a few base
	// units above them, i.e. around and below the number of base units per unit of voting power.
	if tr := core.NewRand(core.Derive(core.Hash64([]byte(g.Salt)), "c14-tiny-stake", 0)); tr.Chance(1, 5) {
		g.ThresholdEntity, g.ThresholdNode = uint64(tr.Range(0, 3)), uint64(tr.Range(0, 3))
		need := g.ThresholdEntity + 2*g.ThresholdNode
		for i := g.Anchors; i < len(g.EntityEscrow); i++ {
			g.EntityEscrow[i] = need + uint64(tr.Pick([]int{3, 2, 1})*tr.Range(0, 12))
		}
		g.BypassStake = false
	}
	g.Runtime = true
	g.ComputeNodes = r.Range(2, 6)
	// Genesis compute nodes are extra nodes of the entities (round robin); each carries the global
	// compute-node stake claim, and the runtime owner (entity 0) carries the runtime claim. The
	// entities get exactly that much more escrow, so that "exactly at / just above the threshold"
	// keeps its meaning (the genesis sanity check refuses uncovered claims; states below the
	// threshold arise dynamically from slashing and reclaiming).
	for c := 0; c < g.ComputeNodes; c++ {
		e := c % g.Entities
		if e < len(g.EntityEscrow) {
			g.EntityEscrow[e] += g.ThresholdNode
		}
	}
	if len(g.EntityEscrow) > 0 {
		g.EntityEscrow[0] += g.ThresholdNode
	}
	// Node registrations are signed (and their fees paid) by the node's own account, which starts
	// empty: make fee-less registrations possible in half of the runs (c14_fundnode covers the rest).
	if r.Chance(1, 2) {
		g.MinTransact, g.MinGasPrice = 0, 0
	}
	// More elections per run: shorter epochs, and more often more validators than seats.
	if r.Chance(1, 2) {
		g.EpochInterval = int64(r.Range(2, 4))
	}
	if r.Chance(1, 3) && g.Entities > g.Anchors {
		g.MaxValidators = r.Range(g.Anchors, g.Entities)
	}
}

func c14ComputeNodes(w *World) []*NodeKeys {
	var out []*NodeKeys
	for _, ek := range w.Entities {
		for _, nk := range ek.Nodes {
			if nk.Roles&node.RoleComputeWorker != 0 {
				out = append(out, nk)
			}
		}
	}
	return out
}

func c14NodeTx(w *World, nk *NodeKeys, roles node.RolesMask, exp uint64, rts []*node.Runtime, op TxOp, v TxView, fee *transaction.Fee) (*transaction.Transaction, signature.Signer, error) {
	cp := *nk
	cp.Roles = roles
	sn, err := cp.Sign(registry.RegisterNodeSignatureContext, cp.Descriptor(w, exp, rts))
	if err != nil {
		return nil, nil, err
	}
	signer := nk.Identity.NodeSigner
	nonce := uint64(int64(v.NextNonce(signer.Public())) + int64(op.NonceOff))
	return registry.NewRegisterNodeTx(nonce, fee, sn), signer, nil
}

// c14RegCompute (re-)registers a genesis compute node for the runtime.
func c14RegCompute(w *World, op TxOp, v TxView, _ signature.Signer, fee *transaction.Fee) (*transaction.Transaction, signature.Signer, error) {
	nodes := c14ComputeNodes(w)
	if len(nodes) == 0 {
		return nil, nil, nil
	}
	nk := nodes[op.Arg%len(nodes)]
	exp := uint64(v.Epoch()) + 1 + uint64((op.Arg>>4)%3)
	ver := version.Version{Major: 0, Minor: 1, Patch: 0}
	roles := nk.Roles
	rts := []*node.Runtime{{ID: w.RuntimeID, Version: ver}}
	switch (op.Arg >> 8) % 16 {
	case 0: // a version that may be deployed later (see c14RegRuntime)
		rts[0].Version = version.Version{Major: 0, Minor: 2, Patch: 0}
	case 1: // both versions
		rts = append(rts, &node.Runtime{ID: w.RuntimeID, Version: version.Version{Major: 0, Minor: 2, Patch: 0}})
	case 2: // also a validator
		roles |= node.RoleValidator
	case 3: // a role the node may not have without a runtime
		rts = nil
	case 4: // an observer as well
		roles |= node.RoleObserver
	}
	return c14NodeTx(w, nk, roles, exp, rts, op, v, fee)
}

// c14MixRoles makes a non-anchor validator node opt in to the compute role for the runtime.
func c14MixRoles(w *World, op TxOp, v TxView, _ signature.Signer, fee *transaction.Fee) (*transaction.Transaction, signature.Signer, error) {
	var cands []*NodeKeys
	for i, ek := range w.Entities {
		if i < w.K.Anchors {
			continue
		}
		for _, nk := range ek.Nodes {
			if nk.Roles&node.RoleValidator != 0 {
				cands = append(cands, nk)
			}
		}
	}
	if len(cands) == 0 {
		return nil, nil, nil
	}
	nk := cands[op.Arg%len(cands)]
	exp := uint64(v.Epoch()) + 1 + uint64((op.Arg>>4)%4)
	rts := []*node.Runtime{{ID: w.RuntimeID, Version: version.Version{Major: 0, Minor: 1, Patch: 0}}}
	return c14NodeTx(w, nk, nk.Roles|node.RoleComputeWorker, exp, rts, op, v, fee)
}

// c14RegRuntime updates the runtime descriptor (signed by its owner, entity 0).
func c14RegRuntime(w *World, op TxOp, v TxView, _ signature.Signer, fee *transaction.Fee) (*transaction.Transaction, signature.Signer, error) {
	rt, err := registryState.NewImmutableState(v.Tree()).Runtime(context.Background(), w.RuntimeID)
	if err != nil || rt == nil {
		return nil, nil, nil
	}
	a := op.Arg
	rt.Executor.GroupSize = uint16(1 + a%4)
	rt.Executor.GroupBackupSize = uint16((a >> 2) % 4)
	rt.Executor.AllowedStragglers = 0
	cs := map[scheduler.Role]registry.SchedulingConstraints{}
	for i, role := range []scheduler.Role{scheduler.RoleWorker, scheduler.RoleBackupWorker} {
		b := a >> (4 + 4*i)
		var c registry.SchedulingConstraints
		switch b % 4 {
		case 0:
			c.MaxNodes = &registry.MaxNodesConstraint{Limit: 1}
		case 1:
			c.MaxNodes = &registry.MaxNodesConstraint{Limit: uint16((b >> 2) % 3)}
		}
		switch (b >> 2) % 4 {
		case 0, 1:
			c.MinPoolSize = &registry.MinPoolSizeConstraint{Limit: uint16(1 + (b>>1)%4)}
		}
		if (a>>12)%5 == i {
			c.ValidatorSet = &registry.ValidatorSetConstraint{}
		}
		cs[role] = c
	}
	if a%7 == 0 {
		// Aim at the interplay of the two pool constraints: with MaxNodes = 1 the pool counts one
		// node per entity; put MinPoolSize between that and the raw number of compute nodes, and
		// keep the group small enough to be electable from the de-duplicated pool.
		if nodes, err := registryState.NewImmutableState(v.Tree()).Nodes(context.Background()); err == nil {
			raw := 0
			ents := map[signature.PublicKey]bool{}
			for _, n := range nodes {
				if n.HasRoles(node.RoleComputeWorker) && n.GetRuntime(w.RuntimeID, version.Version{Major: 0, Minor: 1, Patch: 0}) != nil {
					raw++
					ents[n.EntityID] = true
				}
			}
			if dedup := len(ents); raw > dedup && dedup >= 1 {
				c := registry.SchedulingConstraints{
					MaxNodes:    &registry.MaxNodesConstraint{Limit: 1},
					MinPoolSize: &registry.MinPoolSizeConstraint{Limit: uint16(dedup + 1 + (a>>3)%(raw-dedup))},
				}
				rt.Executor.GroupSize = uint16(1 + (a>>5)%dedup)
				rt.Executor.GroupBackupSize = uint16((a >> 7) % 2)
				cs[scheduler.RoleWorker] = c
				cs[scheduler.RoleBackupWorker] = registry.SchedulingConstraints{}
				if (a>>8)%2 == 0 {
					cs[scheduler.RoleBackupWorker] = c
				}
			}
		}
	}
	rt.Constraints = map[scheduler.CommitteeKind]map[scheduler.Role]registry.SchedulingConstraints{scheduler.KindComputeExecutor: cs}
	if (a>>14)%3 == 0 {
		// Deploy version 0.2.0 from a later epoch on (once).
		has := false
		for _, d := range rt.Deployments {
			if d.Version.Minor == 2 {
				has = true
			}
		}
		if !has {
			rt.Deployments = append(rt.Deployments, &registry.VersionInfo{Version: version.Version{Major: 0, Minor: 2, Patch: 0}, ValidFrom: v.Epoch() + 1 + beacon.EpochTime((a>>15)%2)})
		}
	}
	signer := w.Entities[0].Signer
	nonce := uint64(int64(v.NextNonce(signer.Public())) + int64(op.NonceOff))
	return registry.NewRegisterRuntimeTx(nonce, fee, rt), signer, nil
}

// c14Unfreeze asks to unfreeze a non-anchor node (accepted only once the freeze period is over).
func c14Unfreeze(w *World, op TxOp, v TxView, _ signature.Signer, fee *transaction.Fee) (*transaction.Transaction, signature.Signer, error) {
	var cands []*NodeKeys
	for i, ek := range w.Entities {
		if i < w.K.Anchors {
			continue
		}
		cands = append(cands, ek.Nodes...)
	}
	if len(cands) == 0 {
		return nil, nil, nil
	}
	nk := cands[op.Arg%len(cands)]
	signer := w.Entities[nk.Entity].Signer
	nonce := uint64(int64(v.NextNonce(signer.Public())) + int64(op.NonceOff))
	return registry.NewUnfreezeNodeTx(nonce, fee, &registry.UnfreezeNode{NodeID: nk.Identity.NodeSigner.Public()}), signer, nil
}

// c14FundNode transfers a little from the signer to a node's own account, so that the node can
// pay for its registrations.
func c14FundNode(w *World, op TxOp, v TxView, signer signature.Signer, fee *transaction.Fee) (*transaction.Transaction, signature.Signer, error) {
	var all []*NodeKeys
	for i, ek := range w.Entities {
		all = append(all, ek.Nodes...)
		if i >= w.K.Anchors {
			all = append(all, c14ExtraNode(w, i, 0), c14ExtraNode(w, i, 1))
		}
	}
	if len(all) == 0 {
		return nil, nil, nil
	}
	nk := all[op.Arg%len(all)]
	nonce := uint64(int64(v.NextNonce(signer.Public())) + int64(op.NonceOff))
	amt := quantity.NewFromUint64(uint64(200 + (op.Arg>>6)%800))
	return staking.NewTransferTx(nonce, fee, &staking.Transfer{To: staking.NewAddress(nk.Identity.NodeSigner.Public()), Amount: *amt}), signer, nil
}

// c14ExtraNode derives the keys of the j-th additional node (not in genesis) of a non-anchor
// entity: j=0 a validator, j=1 a validator that is also a compute worker.
func c14ExtraNode(w *World, ent, j int) *NodeKeys {
	roles := node.RoleValidator
	if j == 1 {
		roles |= node.RoleComputeWorker
	}
	return NewNodeKeys(w.K.Salt, ent, 200+j, roles)
}

// c14AddNode grows a non-anchor entity: first the entity re-registers with the additional node
// in its node list, then (a later operation) the node itself registers.
func c14AddNode(w *World, op TxOp, v TxView, _ signature.Signer, fee *transaction.Fee) (*transaction.Transaction, signature.Signer, error) {
	n := len(w.Entities) - w.K.Anchors
	if n <= 0 {
		return nil, nil, nil
	}
	ent := w.K.Anchors + op.Arg%n
	j := (op.Arg >> 4) % 2
	nk := c14ExtraNode(w, ent, j)
	id := nk.Identity.NodeSigner.Public()
	e, err := registryState.NewImmutableState(v.Tree()).Entity(context.Background(), w.Entities[ent].Entity.ID)
	if err != nil || e == nil {
		return nil, nil, nil // the entity deregistered
	}
	if !e.HasNode(id) {
		cp := *e
		cp.Nodes = append(append([]signature.PublicKey{}, e.Nodes...), id)
		signer := w.Entities[ent].Signer
		se, err := entity.SignEntity(signer, registry.RegisterEntitySignatureContext, &cp)
		if err != nil {
			return nil, nil, err
		}
		nonce := uint64(int64(v.NextNonce(signer.Public())) + int64(op.NonceOff))
		return registry.NewRegisterEntityTx(nonce, fee, se), signer, nil
	}
	var rts []*node.Runtime
	if j == 1 {
		rts = []*node.Runtime{{ID: w.RuntimeID, Version: version.Version{Major: 0, Minor: 1, Patch: 0}}}
	}
	exp := uint64(v.Epoch()) + 1 + uint64((op.Arg>>5)%4)
	return c14NodeTx(w, nk, nk.Roles, exp, rts, op, v, fee)
}
