package chain

import (
	"bytes"
	"context"
	"encoding/json"
	"fmt"
	"os"
	"regexp"
	"sort"
	"strings"
	"time"

	"github.com/spf13/viper"

	abcitypes "github.com/cometbft/cometbft/abci/types"
	sm "github.com/cometbft/cometbft/state"
	cmttypes "github.com/cometbft/cometbft/types"

	beacon "github.com/oasisprotocol/oasis-core/go/beacon/api"
	"github.com/oasisprotocol/oasis-core/go/common/cbor"
	"github.com/oasisprotocol/oasis-core/go/common/crypto/hash"
	"github.com/oasisprotocol/oasis-core/go/common/crypto/signature"
	commonNode "github.com/oasisprotocol/oasis-core/go/common/node"
	"github.com/oasisprotocol/oasis-core/go/common/verifhook"
	consensusAPI "github.com/oasisprotocol/oasis-core/go/consensus/api"
	"github.com/oasisprotocol/oasis-core/go/consensus/api/transaction"
	"github.com/oasisprotocol/oasis-core/go/consensus/cometbft/abci"
	cmtapi "github.com/oasisprotocol/oasis-core/go/consensus/cometbft/api"
	beaconState "github.com/oasisprotocol/oasis-core/go/consensus/cometbft/apps/beacon/state"
	governanceState "github.com/oasisprotocol/oasis-core/go/consensus/cometbft/apps/governance/state"
	registryState "github.com/oasisprotocol/oasis-core/go/consensus/cometbft/apps/registry/state"
	stakingState "github.com/oasisprotocol/oasis-core/go/consensus/cometbft/apps/staking/state"
	"github.com/oasisprotocol/oasis-core/go/consensus/cometbft/crypto"
	governance "github.com/oasisprotocol/oasis-core/go/governance/api"
	staking "github.com/oasisprotocol/oasis-core/go/staking/api"
	"github.com/oasisprotocol/oasis-core/go/storage/mkvs"
	"github.com/oasisprotocol/oasis-core/go/storage/mkvs/node"

	"verif/sim/core"
	"verif/sim/store"
)

// ChainKnobs are the knobs of a chain run.
type ChainKnobs struct {
	Gen      GenKnobs        `json:"gen"`
	Replicas []ReplicaConfig `json:"replicas"`
	Disk     bool            `json:"disk"`
	Profile  string          `json:"profile"`
}

// FailedRound is an abandoned consensus round: a proposal that was executed by its proposer
// and by some validators and then dropped.
type FailedRound struct {
	Proposer   int    `json:"proposer"`
	Take       int    `json:"take"`
	Processors uint64 `json:"processors"`
}

// BlockOp produces the next height.
type BlockOp struct {
	Proposer int           `json:"proposer"`
	Take     int           `json:"take"`
	Order    int           `json:"order,omitempty"`
	Dup      bool          `json:"dup,omitempty"`
	Paths    []int         `json:"paths,omitempty"` // per replica: 0 process+apply, 1 plain apply, 2 offline, 3 restart then apply
	Absent   uint64        `json:"absent,omitempty"`
	SkewSeed int           `json:"skew,omitempty"`
	Dt       int           `json:"dt,omitempty"`
	Failed   []FailedRound `json:"failed,omitempty"`
	Evidence int           `json:"evidence,omitempty"`
	Byz      string        `json:"byz,omitempty"`
	// Steps are interleaved side activities: at the Call-th ABCI call of replica Replica run Kind.
	Steps []Step `json:"steps,omitempty"`
}

// Step is one interleaved side activity.
type Step struct {
	Replica int    `json:"r"`
	Call    int    `json:"call"`
	Kind    string `json:"kind"` // checktx | recheck | estimate | query | prune | genesis
	Arg     int    `json:"arg,omitempty"`
}

// Op is one scenario operation.
type Op struct {
	K       string   `json:"k"` // tx | block | restart | crash
	Tx      *TxOp    `json:"tx,omitempty"`
	Block   *BlockOp `json:"block,omitempty"`
	Replica int      `json:"replica,omitempty"`
	// Crash arms a crash of one replica inside the next block (chain-level C07, see crash.go).
	Crash *CrashOp `json:"crash,omitempty"`
	// Sync makes a new node join by state sync (statesync.go).
	Sync *SyncOp `json:"sync,omitempty"`
}

// PendingTx is a transaction in the simulated mempools.
type PendingTx struct {
	B *BuiltTx
	// Seen is the set of replicas whose mempool accepted it.
	Seen map[int]bool
}

// Oracle is a property-specific check plugged into the run.
type Oracle interface {
	// Init is called after all replicas have started.
	Init(s *Sim) *core.Violation
	// BeforeBlock is called before a block is executed (txs are the block's client transactions).
	BeforeBlock(s *Sim, height int64, txs []*BuiltTx) *core.Violation
	// AfterBlock is called after every replica that takes part applied the block.
	AfterBlock(s *Sim, height int64, blk *cmttypes.Block, txs []*BuiltTx, res *BlockResult) *core.Violation
	// Finish is called at the end of the run; it returns whether the run was non-trivial.
	Finish(s *Sim) (*core.Violation, bool)
}

// TxObserver observes the in-progress block state of the observer replica immediately before
// and after every DeliverTx call (state is the proposal overlay of the block being executed).
type TxObserver interface {
	BlockStart(s *Sim, r *Replica, height int64)
	BeforeTx(s *Sim, r *Replica, idx int, raw []byte, state mkvs.KeyValueTree)
	AfterTx(s *Sim, r *Replica, idx int, raw []byte, state mkvs.KeyValueTree, res abcitypes.ResponseDeliverTx)
}

// needsObserver lists the properties whose oracles observe per-transaction state.
var needsObserver = map[string]bool{"C08": true, "C09": true, "C15": true}

// Sim is one running simulation.
type Sim struct {
	TxObs        []TxObserver
	obsIdx       int // DeliverTx index within the current block on the observer replica
	Prop         string
	K            ChainKnobs
	W            *World
	St           *core.Stats
	Ctx          context.Context
	Reps         []*Replica
	GenDoc       *cmttypes.GenesisDoc
	Keys         map[string]*NodeKeys
	Blocks       map[int64]*cmttypes.Block
	Commits      map[int64]*cmttypes.Commit
	Height       int64 // last committed height
	Now          time.Time
	Pool         []*PendingTx
	History      []*BuiltTx // every transaction ever built (for replays)
	pendingNonce map[signature.PublicKey]uint64
	// elect holds the election inputs captured by the pre-election probe (C10 runs).
	elect   *c14Oracle
	Oracles []Oracle
	base    string
	txSeq   int
	// Aborted is set when the run cannot continue for a reason that is not a violation of the
	// property being checked (e.g. a panic while checking another property).
	Aborted string
	// Results per height (from the reference replica).
	Results map[int64]*BlockResult
	// callCount per replica within the current block (for interleaved steps).
	callCount map[int]int
	steps     []Step
	histTrees []mkvs.Tree
	// stepViol is a violation found inside an interleaved step (reported after the block).
	stepViol *core.Violation
	// cc is the chain-level crash state (C07 chaincrash batch; nil-valued and inert otherwise).
	cc chainCrash
	// States are the CometBFT states after each height (what a light client would reconstruct
	// for a node that joins by state sync); ss counts what the sync ops achieved.
	States map[int64]sm.State
	ss     syncState
}

// Ref returns a replica that is up and at the tip.
func (s *Sim) Ref() *Replica {
	for _, r := range s.Reps {
		if r.Up && r.State.LastBlockHeight == s.Height {
			return r
		}
	}
	return nil
}

// TreeAt opens the committed state tree of a replica at a height (0 = latest).
func (r *Replica) TreeAt(height int64) (mkvs.Tree, error) {
	ndb := r.srv.State().Storage().NodeDB()
	if height <= 0 {
		height = r.State.LastBlockHeight
	}
	roots, err := ndb.GetRootsForVersion(uint64(height))
	if err != nil {
		return nil, err
	}
	for _, root := range roots {
		if root.Type == node.RootTypeState {
			return mkvs.NewWithRoot(nil, ndb, root, mkvs.WithoutWriteLog()), nil
		}
	}
	return nil, fmt.Errorf("no state root for version %d", height)
}

// simView implements TxView on top of the reference replica's committed state.
type simView struct {
	s    *Sim
	tree mkvs.Tree
}

func (v *simView) Account(addr staking.Address) *staking.Account {
	a, err := stakingState.NewImmutableState(v.tree).Account(v.s.Ctx, addr)
	if err != nil || a == nil {
		return &staking.Account{}
	}
	return a
}

func (v *simView) Tree() mkvs.ImmutableKeyValueTree { return v.tree }

func (v *simView) Height() int64 { return v.s.Height }

func (v *simView) Epoch() beacon.EpochTime {
	e, _, err := beaconState.NewImmutableState(v.tree).GetEpoch(v.s.Ctx)
	if err != nil {
		return 0
	}
	return e
}

func (v *simView) StakingParams() *staking.ConsensusParameters {
	p, err := stakingState.NewImmutableState(v.tree).ConsensusParameters(v.s.Ctx)
	if err != nil {
		return &staking.ConsensusParameters{}
	}
	return p
}

func (v *simView) NextNonce(pk signature.PublicKey) uint64 {
	if n, ok := v.s.pendingNonce[pk]; ok {
		return n
	}
	return v.Account(staking.NewAddress(pk)).General.Nonce
}

func (v *simView) ActiveProposals() []uint64 {
	ps, err := governanceState.NewImmutableState(v.tree).ActiveProposals(v.s.Ctx)
	if err != nil {
		return nil
	}
	var ids []uint64
	for _, p := range ps {
		ids = append(ids, p.ID)
	}
	sort.Slice(ids, func(i, j int) bool { return ids[i] < ids[j] })
	return ids
}

func (v *simView) NodeForRefresh(sel int) (*NodeKeys, uint64) {
	var all []*NodeKeys
	for i, ek := range v.s.W.Entities {
		if i < v.s.W.K.Anchors {
			continue // anchor nodes never expire (documented precondition of C10)
		}
		all = append(all, ek.Nodes...)
	}
	if len(all) == 0 {
		return nil, 0
	}
	nk := all[sel%len(all)]
	return nk, uint64(v.Epoch()) + 2 + uint64(sel%3)
}

// view opens a TxView on the reference replica.
func (s *Sim) view() (*simView, func()) {
	ref := s.Ref()
	if ref == nil {
		return nil, func() {}
	}
	t, err := ref.TreeAt(0)
	if err != nil {
		return nil, func() {}
	}
	return &simView{s: s, tree: t}, t.Close
}

// Engine is the chain engine bound to one property (its oracle set and workload profile).
type Engine struct {
	Prop string
}

func cViol(prop, kind, fp, detail string) *core.Violation {
	return &core.Violation{Property: prop, Kind: kind, Fingerprint: fp, Detail: detail}
}

// Execute implements core.Engine.
func (e Engine) Execute(sc *core.Scenario, st *core.Stats) (*core.Violation, bool) {
	var k ChainKnobs
	if err := json.Unmarshal(sc.Knobs, &k); err != nil {
		core.Harnessf("chain: bad knobs: %v", err)
	}
	viper.Set("debug.dont_blame_oasis", true)
	s := &Sim{Prop: e.Prop, K: k, St: st, Ctx: context.Background(), Blocks: map[int64]*cmttypes.Block{}, Commits: map[int64]*cmttypes.Commit{},
		pendingNonce: map[signature.PublicKey]uint64{}, Results: map[int64]*BlockResult{}, callCount: map[int]int{}, States: map[int64]sm.State{}}
	w, err := BuildWorld(k.Gen)
	if err != nil {
		core.Harnessf("chain: build world: %v", err)
	}
	if err := w.Doc.SanityCheck(); err != nil {
		core.Harnessf("chain: generated genesis fails its sanity check: %v", err)
	}
	s.W = w
	signature.UnsafeResetChainContext()
	signature.SetChainContext(w.Doc.ChainContext())
	genDoc, err := cmtapi.GetCometBFTGenesisDocument(w.Doc)
	if err != nil {
		core.Harnessf("chain: cometbft genesis: %v", err)
	}
	s.GenDoc = genDoc
	s.Keys = w.ValidatorKeys()
	s.Now = w.Doc.Time
	s.base = store.ScratchDir("chain")
	defer os.RemoveAll(s.base)
	s.Oracles = oraclesFor(e.Prop)
	core.Logs.Reset()
	defer func() {
		verifhook.SetHandler(nil)
		for _, t := range s.histTrees {
			t.Close()
		}
		for _, r := range s.Reps {
			if r.Up {
				pv, _ := core.Guard(func() { r.Stop() })
				_ = pv
			}
		}
		s.stopPhoenixes()
	}()
	reps := append([]ReplicaConfig{}, k.Replicas...)
	if needsObserver[e.Prop] {
		reps = append(reps, ReplicaConfig{Backend: "badger", Observer: true})
	}
	for i, rc := range reps {
		rc.MemoryOnly = !k.Disk
		if rc.MemoryOnly {
			rc.PruneKeep = 0 // badger's Sync (called by the pruner) is not available in memory-only mode
		}
		r := NewReplica(w, i, w.Entities[i%len(w.Entities)].Nodes[0], rc, fmt.Sprintf("%s/r%d", s.base, i), genDoc)
		r.extraApps = func() []cmtapi.Application { return probeAppsFor(s, r) }
		var serr error
		pv, stack := core.Guard(func() { serr = r.Start() })
		if pv != nil {
			return s.panicViolation("InitChain", r, pv, stack), true
		}
		if serr != nil && e.Prop == "C14" && strings.Contains(serr.Error(), "validators with no voting power") {
			// The genesis document passed its sanity check, but the validator set derived from it
			// gives a staked validator no voting power (CometBFT refuses such a genesis).
			return cViol("C14", "validator-power", "validator-power zero-at-genesis", fmt.Sprintf("replica %d cannot start from the generated (sanity-checked) genesis: %v", i, serr)), true
		}
		if serr != nil {
			core.Harnessf("chain: replica %d start: %v", i, serr)
		}
		s.Reps = append(s.Reps, r)
		s.installInterposer(r)
	}
	s.Height = s.Reps[0].State.LastBlockHeight
	for _, o := range s.Oracles {
		if v := o.Init(s); v != nil {
			return v, true
		}
	}
	blocks := 0
	for opIdx, raw := range sc.Ops {
		var op Op
		if err := json.Unmarshal(raw, &op); err != nil {
			core.Harnessf("chain: bad op: %v", err)
		}
		var v *core.Violation
		switch op.K {
		case "tx":
			v = s.submitTx(*op.Tx)
		case "block":
			v = s.produceBlock(opIdx, op.Block)
			blocks++
		case "restart":
			v = s.restart(op.Replica%len(s.Reps), opIdx)
		case "crash":
			s.armCrashOp(op.Crash)
		case "sync":
			v = s.stateSync(op.Sync)
		default:
			core.Harnessf("chain: unknown op %q", op.K)
		}
		if v != nil {
			return v, true
		}
		if s.Aborted != "" {
			st.Inc("aborted_runs")
			st.Inc("aborted." + s.Aborted)
			return nil, false
		}
	}
	if e.Prop == "C10" {
		if v := s.liveness(); v != nil {
			return v, true
		}
		if s.Aborted != "" {
			st.Inc("aborted_runs")
			st.Inc("aborted." + s.Aborted)
			return nil, false
		}
	}
	nontrivial := blocks >= 3
	for _, o := range s.Oracles {
		v, nt := o.Finish(s)
		if v != nil {
			return v, true
		}
		nontrivial = nontrivial && nt
	}
	st.SimTime += s.Now.Sub(w.Doc.Time).Seconds()
	st.Add("probe.heights", s.Height)
	st.Sample(1, map[string]interface{}{"profile": k.Profile, "replicas": k.Replicas, "entities": k.Gen.Entities, "accounts": k.Gen.Accounts, "epoch_interval": k.Gen.EpochInterval, "ops": len(sc.Ops), "first_ops": firstOps(sc.Ops, 6)})
	return nil, nontrivial
}

func firstOps(ops []json.RawMessage, n int) []json.RawMessage {
	if len(ops) < n {
		return ops
	}
	return ops[:n]
}

// electionPrecondition reports whether a fatal error is the documented precondition of C10
// (not enough stake-eligible validators to elect a validator set).
func electionPrecondition(msg string) bool {
	return strings.Contains(msg, "failed to elect any validators") || strings.Contains(msg, "insufficient validators")
}

// electionFailure handles a fatal validator election. The documented precondition of C10 is
// that enough stake-eligible validators remain; whether it held is evaluated from the state the
// failed election read (captured by a probe application in C10 runs), independently of the
// scheduler: registered validator nodes that are neither frozen nor expired and whose entity's
// escrow covers its stake claims, counted within the per-entity limit. A failed election with
// enough of them is a halt caused by something else and is a verdict.
func (s *Sim) electionFailure() *core.Violation {
	s.St.Inc("probe.precondition_validator_election_failed")
	s.Aborted = "validator-election-precondition"
	if s.Prop != "C10" || s.elect == nil {
		return nil
	}
	h := s.Height + 1
	var in *c14Input
	for _, r := range s.Reps {
		if c := s.elect.slot(r.Idx, h); c != nil && c.Err == "" && c.In.Sched != nil {
			in = &c.In
			break
		}
	}
	if in == nil {
		s.St.Inc("probe.election_failed_without_captured_input")
		return nil
	}
	e := newC14Elig(in)
	perEntity := map[staking.Address]int{}
	var addrs []staking.Address
	for i, n := range in.Nodes {
		addr := staking.NewAddress(n.EntityID)
		if n.HasRoles(commonNode.RoleValidator) && !e.frozen(i) && !e.expired(i) && e.stakeOK(addr) {
			if perEntity[addr] == 0 {
				addrs = append(addrs, addr)
			}
			perEntity[addr]++
		}
	}
	capacity := 0
	for _, a := range addrs {
		capacity += min(perEntity[a], in.Sched.MaxValidatorsPerEntity)
	}
	need := max(1, in.Sched.MinValidators)
	if capacity < need {
		s.St.Inc("probe.election_failed_precondition_confirmed")
		return nil
	}
	s.Aborted = ""
	return cViol("C10", "election-failed-with-eligible-validators", "election-failed-with-eligible-validators",
		fmt.Sprintf("height %d epoch %d: the validator election failed and halted the chain although %d stake-eligible validator nodes of %d entities are registered (within the per-entity limit %d they fill %d seats; MinValidators %d, MaxValidators %d, beacon backend %s, %d nodes submitted a VRF proof): %s",
			h, in.Epoch, func() int {
				t := 0
				for _, c := range perEntity {
					t += c
				}
				return t
			}(), len(addrs), in.Sched.MaxValidatorsPerEntity, capacity, in.Sched.MinValidators, in.Sched.MaxValidators, in.BeaconBackend, len(in.VRFProvers), lastLogLine(core.Logs.Recent())))
}

var fatalCauseRe = regexp.MustCompile(`fatal error in application: '([^']+)': ([^"\\\n]+)`)

// fatalCause extracts the logged cause of the most recent fatal application error ("<app>:
// <message>", digits normalised), or "".
func fatalCause() string {
	ms := fatalCauseRe.FindAllStringSubmatch(core.Logs.Recent(), -1)
	if len(ms) == 0 {
		return ""
	}
	m := ms[len(ms)-1]
	msg := strings.TrimSpace(m[2])
	if len(msg) > 120 {
		msg = msg[:120]
	}
	msg = regexp.MustCompile(`[0-9]+`).ReplaceAllString(msg, "#")
	return m[1] + ": " + msg
}

// rejectedFingerprint is the fingerprint of a refused honest proposal: the kind plus the logged
// fatal cause, so that a recorded finding does not cover other causes.
func rejectedFingerprint(kind string) string {
	if c := fatalCause(); c != "" {
		return kind + " [" + c + "]"
	}
	return kind
}

func lastLogLine(l string) string {
	l = strings.TrimSpace(l)
	if i := strings.LastIndexByte(l, '\n'); i >= 0 {
		l = l[i+1:]
	}
	if len(l) > 300 {
		l = l[:300]
	}
	return l
}

func (s *Sim) panicViolation(where string, r *Replica, pv interface{}, stack string) *core.Violation {
	if electionPrecondition(fmt.Sprint(pv)) {
		return s.electionFailure()
	}
	if os.Getenv("VERIF_DEBUG") != "" {
		fmt.Fprintf(os.Stderr, "PANIC in %s replica %d height %d: %v\n%s\n", where, r.Idx, s.Height+1, pv, stack)
	}
	if msg := fmt.Sprint(pv); strings.Contains(msg, "supplementarysanity") && !strings.Contains(msg, "checkStaking") {
		// The in-tree checker is registered as a second opinion on the staking ledger only; a
		// failure of one of its other checks (e.g. registry: node expiration above a lowered
		// MaxNodeExpiration) ends the run without a verdict.
		s.St.Inc("probe.sanity_checker_failed_in_other_check")
		s.Aborted = "sanity-checker-other-check"
		return nil
	}
	if s.Prop == "C05" && strings.Contains(fmt.Sprint(pv), "supplementarysanity") {
		return cViol("C05", "in-tree-sanity-check-failed", "in-tree-sanity-check-failed", fmt.Sprintf("replica %d: the in-tree supplementary sanity checker (second opinion) failed at height %d: %v", r.Idx, s.Height+1, pv))
	}
	if s.Prop != "C10" && s.Prop != "C16" {
		s.Aborted = "panic-in-" + where
		return nil
	}
	site := core.PanicSite(stack, "oasis-core/go/consensus/cometbft/apps")
	if site == "unknown" {
		site = core.PanicSite(stack, "oasis-core/go/")
	}
	return cViol(s.Prop, "panic", "panic in "+where+" at "+site, fmt.Sprintf("replica %d: %s panicked at height %d: %v\n%s", r.Idx, where, s.Height+1, pv, stack))
}

// installInterposer wires the interleaving callbacks of a replica.
func (s *Sim) installInterposer(r *Replica) {
	if r.Cfg.Observer {
		withState := func(f func(state mkvs.KeyValueTree)) {
			ctx := r.srv.State().NewContext(cmtapi.ContextDeliverTx)
			defer ctx.Close()
			f(ctx.State())
		}
		r.inter.before = func(call string) {
			if call == "DeliverTx" {
				withState(func(st mkvs.KeyValueTree) {
					for _, o := range s.TxObs {
						o.BeforeTx(s, r, s.obsIdx, r.inter.lastTx, st)
					}
				})
			}
		}
		r.inter.after = func(call string) {
			switch call {
			case "BeginBlock":
				s.obsIdx = 0
				for _, o := range s.TxObs {
					o.BlockStart(s, r, r.State.LastBlockHeight+1)
				}
			case "DeliverTx":
				withState(func(st mkvs.KeyValueTree) {
					for _, o := range s.TxObs {
						o.AfterTx(s, r, s.obsIdx, r.inter.lastTx, st, r.inter.lastDeliver)
					}
				})
				s.obsIdx++
			}
		}
		return
	}
	r.inter.after = func(call string) {
		s.callCount[r.Idx]++
		c := s.callCount[r.Idx]
		for _, stp := range s.steps {
			if stp.Replica%len(s.Reps) == r.Idx && stp.Call == c {
				s.runStep(r, stp, call)
			}
		}
	}
}

// runStep runs one interleaved side activity on a replica (between two ABCI calls).
func (s *Sim) runStep(r *Replica, stp Step, at string) {
	s.St.Inc("probe.step_" + stp.Kind)
	switch stp.Kind {
	case "checktx", "recheck":
		if len(s.Pool) == 0 && len(s.History) == 0 {
			return
		}
		var raw []byte
		if len(s.Pool) > 0 {
			raw = s.Pool[stp.Arg%len(s.Pool)].B.Raw
		} else {
			raw = s.History[stp.Arg%len(s.History)].Raw
		}
		typ := abcitypes.CheckTxType_New
		if stp.Kind == "recheck" {
			typ = abcitypes.CheckTxType_Recheck
		}
		// CheckTx during block execution is serialised by CometBFT's mempool lock in a real
		// node for the Commit call only; between other calls it may run.
		if at == "Commit" {
			return
		}
		// Called on the mux directly: this step runs between two ABCI calls, where the in-process
		// client's mutex (held by the caller of this hook) would be free in a real node.
		_ = r.srv.Mux().CheckTx(abcitypes.RequestCheckTx{Tx: raw, Type: typ})
	case "estimate":
		if len(s.History) == 0 {
			return
		}
		// Gas estimation (simulation context) of a transaction seen earlier; may run in parallel
		// to block execution in a real node.
		b := s.History[stp.Arg%len(s.History)]
		if b.Decodable {
			var stx transaction.SignedTransaction
			var tx transaction.Transaction
			if cbor.Unmarshal(b.Raw, &stx) == nil && cbor.Unmarshal(stx.Blob, &tx) == nil {
				_, _ = r.srv.EstimateGas(stx.Signature.PublicKey, &tx)
				s.St.Inc("probe.estimate_gas_calls")
			}
		}
	case "query":
		if r.State.LastBlockHeight < 1 {
			return
		}
		h := 1 + int64(stp.Arg)%r.State.LastBlockHeight
		t, err := r.TreeAt(h)
		if err != nil {
			return
		}
		_, _ = stakingState.NewImmutableState(t).TotalSupply(s.Ctx)
		_, _ = stakingState.NewImmutableState(t).Account(s.Ctx, s.W.Addr(stp.Arg))
		_, _ = registryState.NewImmutableState(t).Nodes(s.Ctx)
		s.histTrees = append(s.histTrees, t)
		if len(s.histTrees) > 6 {
			s.histTrees[0].Close()
			s.histTrees = s.histTrees[1:]
		}
	case "prune":
		if p, ok := r.srv.Pruner().(abci.StatePruner); ok && r.State.LastBlockHeight > 0 && r.Cfg.PruneKeep > 0 && !r.Cfg.MemoryOnly {
			if s.Prop == "C06" && s.stepViol == nil {
				// The retained height that the application reports to CometBFT (which then discards
				// the blocks below it) may only advance once a prune pass has synced the database:
				// while versions are being pruned, a block commit still has to see the old value.
				before, _ := r.srv.State().LastRetainedVersion()
				// (The pruner initialises its retained version lazily, at the start of its first
				// pass, to the earliest version the database holds: that is not an advance.)
				if e := int64(r.srv.State().Storage().NodeDB().GetEarliestVersion()); e > before {
					before = e
				}
				gid := goid()
				verifhook.SetHandler(func(name string) {
					if goid() != gid || !(strings.Contains(name, ".Prune.") || name == "abci.pruner.beforeSync") || s.stepViol != nil {
						return
					}
					s.St.Inc("probe.chainhistory.retained_height_read_inside_prune_pass")
					if now, _ := r.srv.State().LastRetainedVersion(); now > before {
						s.stepViol = cViol("C06", "retained-height-ahead-of-sync", "retained-height-ahead-of-sync", fmt.Sprintf("replica %d (%s, prune_keep=%d): in the middle of a prune pass (at %s, before the pass synced the database) the application already reports retained height %d to the consensus engine (the earliest version held when the pass began was %d)", r.Idx, r.Cfg.Backend, r.Cfg.PruneKeep, name, now, before))
					}
				})
				_ = p.Prune(uint64(r.State.LastBlockHeight))
				verifhook.SetHandler(nil)
				break
			}
			_ = p.Prune(uint64(r.State.LastBlockHeight))
		}
	}
}

// submitTx resolves a symbolic transaction and hands it to the mempools.
func (s *Sim) submitTx(op TxOp) *core.Violation {
	if op.Replay > 0 && len(s.History) > 0 {
		old := s.History[op.Replay%len(s.History)]
		cp := *old
		s.addPending(&cp, op.Replicas)
		s.St.Inc("probe.tx_replayed")
		return nil
	}
	v, closeView := s.view()
	if v == nil {
		return nil
	}
	defer closeView()
	s.txSeq++
	b, err := s.W.BuildTx(op, v, s.txSeq)
	if err != nil {
		core.Harnessf("chain: build tx: %v", err)
	}
	if b == nil {
		return nil
	}
	if op.NonceOff == 0 && op.Mut == "" {
		s.pendingNonce[b.Signer] = b.Nonce + 1
	}
	s.History = append(s.History, b)
	s.St.Inc("probe.tx_kind." + op.Kind)
	s.St.Event("tx %s from=%d nonce=%d mut=%s", op.Kind, op.From, b.Nonce, op.Mut)
	s.addPending(b, op.Replicas)
	return nil
}

func (s *Sim) addPending(b *BuiltTx, mask int) {
	p := &PendingTx{B: b, Seen: map[int]bool{}}
	for _, r := range s.Reps {
		if !r.Up || (mask != 0 && mask&(1<<uint(r.Idx)) == 0) {
			continue
		}
		var res *abcitypes.ResponseCheckTx
		pv, _ := core.Guard(func() {
			res, _ = r.conns.Mempool().CheckTxSync(abcitypes.RequestCheckTx{Tx: b.Raw, Type: abcitypes.CheckTxType_New})
		})
		if pv != nil {
			s.St.Inc("probe.checktx_panic")
			if s.Prop == "C10" || s.Prop == "C16" {
				s.Aborted = ""
			}
			continue
		}
		if res != nil && res.Code == 0 {
			p.Seen[r.Idx] = true
		}
	}
	// The simulated network may also carry transactions that no honest mempool accepted
	// (a Byzantine proposer includes them directly).
	s.Pool = append(s.Pool, p)
}

// restart stops and starts a replica (only with on-disk storage).
func (s *Sim) restart(idx, opIdx int) *core.Violation {
	r := s.Reps[idx]
	if !s.K.Disk || !r.Up {
		return nil
	}
	s.St.Inc("probe.restart")
	s.St.Event("restart r%d", idx)
	r.Stop()
	var err error
	pv, stack := core.Guard(func() { err = r.Start() })
	if pv != nil {
		return s.panicViolation("restart", r, pv, stack)
	}
	if err != nil {
		return cViol(s.Prop, "restart-failed", "restart-failed", fmt.Sprintf("replica %d failed to restart at height %d: %v", idx, r.State.LastBlockHeight, err))
	}
	s.installInterposer(r)
	return nil
}

// eligibleProposers returns up replicas at the tip whose consensus key is in the validator set.
func (s *Sim) eligibleProposers() []*Replica {
	var out []*Replica
	for _, r := range s.Reps {
		if !r.Up || r.State.LastBlockHeight != s.Height || r.Cfg.Observer {
			continue
		}
		pk := r.Node.Identity.ConsensusSigner.Public()
		addr := crypto.PublicKeyToCometBFT(&pk).Address()
		if r.State.Validators.HasAddress(addr) {
			out = append(out, r)
		}
	}
	return out
}

func (s *Sim) pickTxs(take, order int, dup bool) ([][]byte, []*BuiltTx, []int) {
	idx := make([]int, len(s.Pool))
	for i := range idx {
		idx[i] = i
	}
	if order != 0 {
		core.NewRand(uint64(order)).Perm(0)
		p := core.NewRand(uint64(order)).Perm(len(idx))
		idx = p
	}
	if take > len(idx) {
		take = len(idx)
	}
	idx = idx[:take]
	var raws [][]byte
	var built []*BuiltTx
	for _, i := range idx {
		raws = append(raws, s.Pool[i].B.Raw)
		built = append(built, s.Pool[i].B)
	}
	if dup && len(raws) > 0 {
		raws = append(raws, raws[0])
		built = append(built, built[0])
	}
	return raws, built, idx
}

// catchUp applies missed blocks to a lagging replica (plain path).
func (s *Sim) catchUp(r *Replica) *core.Violation {
	for r.State.LastBlockHeight < s.Height {
		h := r.State.LastBlockHeight + 1
		blk, err := CopyBlock(s.Blocks[h])
		if err != nil {
			core.Harnessf("copy block: %v", err)
		}
		var res *BlockResult
		pv, stack := core.Guard(func() { res = r.Apply(blk, s.Commits[h]) })
		if pv != nil {
			return s.panicViolation("catch-up ApplyBlock", r, pv, stack)
		}
		if v := s.checkResult(r, h, res, "catch-up (plain replay)"); v != nil {
			return v
		}
		s.St.Inc("probe.catch_up_block")
	}
	return nil
}

// checkResult compares a replica's execution of height h with the reference result.
func (s *Sim) checkResult(r *Replica, h int64, res *BlockResult, path string) *core.Violation {
	if res.Err != nil {
		if s.Prop == "C01" || s.Prop == "C10" {
			return cViol(s.Prop, "apply-error", "apply-error", fmt.Sprintf("replica %d (%s, %s) failed to apply block %d that other replicas applied: %v", r.Idx, r.Cfg.Backend, path, h, res.Err))
		}
		s.Aborted = "apply-error"
		return nil
	}
	ref, ok := s.Results[h]
	if !ok {
		s.Results[h] = res
		return nil
	}
	if s.Prop != "C01" {
		return nil
	}
	if d := CompareResults(ref, res); d != "" {
		return cViol("C01", "divergence", "divergence "+strings.Fields(d)[0], fmt.Sprintf("height %d: replica %d (%s, path %s) disagrees with the first replica that executed the block: %s", h, r.Idx, r.Cfg.Backend, path, d))
	}
	return nil
}

// produceBlock runs one height.
func (s *Sim) produceBlock(opIdx int, b *BlockOp) *core.Violation {
	// Lagging replicas that are up may catch up first when they are scheduled to take part.
	props := s.eligibleProposers()
	if len(props) == 0 {
		// Bring everybody up to date and retry once.
		for _, r := range s.Reps {
			if r.Up {
				if v := s.catchUp(r); v != nil {
					return v
				}
			}
		}
		if props = s.eligibleProposers(); len(props) == 0 {
			s.St.Inc("probe.no_eligible_proposer")
			return nil
		}
	}
	h := s.Height + 1
	s.steps = b.Steps
	for k := range s.callCount {
		delete(s.callCount, k)
	}
	lastCommit := s.Commits[s.Height]
	if lastCommit == nil {
		lastCommit = &cmttypes.Commit{}
	}
	dt := b.Dt
	if dt <= 0 {
		dt = 1
	}
	s.Now = s.Now.Add(time.Duration(dt) * time.Second)

	// Abandoned rounds.
	round := int32(0)
	for _, fr := range b.Failed {
		p := props[fr.Proposer%len(props)]
		raws, _, _ := s.pickTxs(fr.Take, fr.Proposer+1, false)
		var blk *cmttypes.Block
		var err error
		pv, stack := core.Guard(func() { blk, err = p.Propose(h, raws, lastCommit, nil) })
		if pv != nil {
			return s.panicViolation("PrepareProposal", p, pv, stack)
		}
		if err != nil && electionPrecondition(err.Error()+core.Logs.Recent()) {
			return s.electionFailure()
		}
		if err != nil {
			if s.Prop == "C10" {
				return cViol("C10", "propose-error", rejectedFingerprint("propose-error"), fmt.Sprintf("replica %d could not build a proposal for height %d: %v", p.Idx, h, err))
			}
			s.Aborted = "propose-error"
			return nil
		}
		for _, r := range s.Reps {
			if r == p || !r.Up || r.Cfg.Observer || r.State.LastBlockHeight != s.Height || fr.Processors&(1<<uint(r.Idx)) == 0 {
				continue // (the observer never processes proposals: it must see one DeliverTx per transaction)
			}
			cp, _ := CopyBlock(blk)
			var ok bool
			pv, stack := core.Guard(func() { ok, err = r.Process(cp) })
			if pv != nil {
				return s.panicViolation("ProcessProposal", r, pv, stack)
			}
			if (!ok || err != nil) && electionPrecondition(core.Logs.Recent()) {
				return s.electionFailure()
			}
			if (!ok || err != nil) && s.Prop == "C10" {
				return cViol("C10", "honest-proposal-rejected", rejectedFingerprint("honest-proposal-rejected"), fmt.Sprintf("replica %d rejected the honest proposal of replica %d for height %d round %d (err=%v)", r.Idx, p.Idx, h, round, err))
			}
		}
		s.St.Inc("probe.abandoned_round")
		round++
	}

	p := props[b.Proposer%len(props)]
	raws, built, poolIdx := s.pickTxs(b.Take, b.Order, b.Dup)
	var evidence []cmttypes.Evidence
	if b.Evidence > 0 {
		if ev := s.makeEvidence(b.Evidence); ev != nil {
			evidence = append(evidence, ev)
		}
	}
	for _, o := range s.Oracles {
		if v := o.BeforeBlock(s, h, built); v != nil {
			return v
		}
	}
	var blk *cmttypes.Block
	var err error
	pv, stack := core.Guard(func() { blk, err = p.Propose(h, raws, lastCommit, evidence) })
	if pv != nil {
		return s.panicViolation("PrepareProposal", p, pv, stack)
	}
	if err != nil {
		if s.Prop == "C10" {
			return cViol("C10", "propose-error", rejectedFingerprint("propose-error"), fmt.Sprintf("replica %d could not build a proposal for height %d: %v", p.Idx, h, err))
		}
		s.Aborted = "propose-error"
		return nil
	}
	if b.Byz != "" {
		if v := s.byzantineProposal(p, blk, lastCommit, h, b.Byz); v != nil {
			return v
		}
		if s.Aborted != "" {
			return nil
		}
	}
	bid, err := BlockIDOf(blk)
	if err != nil {
		core.Harnessf("block id: %v", err)
	}
	// Votes: absent mask with quorum enforced, per-validator clock skew.
	vals := p.State.Validators
	skew := core.NewRand(uint64(b.SkewSeed) + 1)
	skews := make([]int64, len(vals.Validators))
	for i := range skews {
		if b.SkewSeed != 0 {
			skews[i] = int64(skew.Intn(4001)) - 2000
		}
	}
	absent := make([]bool, len(vals.Validators))
	var present int64
	for i, v := range vals.Validators {
		absent[i] = b.Absent&(1<<uint(i%64)) != 0 || s.Keys[string(v.Address)] == nil
		if !absent[i] {
			present += v.VotingPower
		}
	}
	for i, v := range vals.Validators {
		if present*3 > vals.TotalVotingPower()*2 {
			break
		}
		if absent[i] && s.Keys[string(v.Address)] != nil {
			absent[i] = false
			present += v.VotingPower
		}
	}
	if present*3 <= vals.TotalVotingPower()*2 {
		s.St.Inc("probe.no_quorum_possible")
		s.Aborted = "no-quorum"
		return nil
	}
	commit, _, err := MakeCommit(s.GenDoc.ChainID, vals, s.Keys, h, round, bid, s.Now, func(i int) VoteSpec { return VoteSpec{Absent: absent[i], TimeSkewMs: skews[i], NotBefore: blk.Time} })
	if err != nil {
		core.Harnessf("make commit: %v", err)
	}

	// Execution paths.
	var refRes *BlockResult
	nPaths := map[string]bool{}
	crashTarget := s.crashTarget(b, p)
	for _, r := range s.Reps {
		path := pathOf(b, r, p)
		if !r.Up {
			continue
		}
		if path == 2 {
			s.St.Inc("probe.path_offline")
			continue
		}
		if path == 3 && s.K.Disk {
			if v := s.restart(r.Idx, opIdx); v != nil {
				return v
			}
			s.St.Inc("probe.path_restart_before_block")
		}
		if v := s.catchUp(r); v != nil {
			return v
		}
		if s.Aborted != "" {
			return nil
		}
		cp, _ := CopyBlock(blk)
		name := "plain replay"
		if path == 0 || path == 3 {
			name = "process-proposal"
			if r == p {
				name = "propose+cached"
			}
			var ok bool
			var perr error
			pv, stack := core.Guard(func() { ok, perr = r.Process(cp) })
			if pv != nil {
				return s.panicViolation("ProcessProposal", r, pv, stack)
			}
			if (!ok || perr != nil) && electionPrecondition(core.Logs.Recent()) {
				return s.electionFailure()
			}
			if !ok || perr != nil {
				if s.Prop == "C10" || s.Prop == "C01" {
					return cViol(s.Prop, "honest-proposal-rejected", rejectedFingerprint("honest-proposal-rejected"), fmt.Sprintf("replica %d (%s) rejected the honest proposal of replica %d for height %d (err=%v)", r.Idx, name, p.Idx, h, perr))
				}
				s.Aborted = "proposal-rejected"
				return nil
			}
		}
		nPaths[name] = true
		s.St.Inc("probe.path_" + strings.ReplaceAll(name, " ", "_"))
		var res *BlockResult
		if r == crashTarget {
			s.beginCrash(r, h)
		}
		pv, stack := core.Guard(func() { res = r.Apply(cp, commit) })
		if r == crashTarget {
			s.endCrash(r, pv == nil && res != nil && res.Err == nil)
		}
		if pv != nil {
			return s.panicViolation("ApplyBlock", r, pv, stack)
		}
		if v := s.checkResult(r, h, res, name); v != nil {
			return v
		}
		if s.Aborted != "" {
			return nil
		}
		if refRes == nil {
			refRes = res
			st := r.State.Copy()
			// (Copy shares the hash slices, which alias memory of the application.)
			st.AppHash = append([]byte{}, st.AppHash...)
			st.LastResultsHash = append([]byte{}, st.LastResultsHash...)
			s.States[h] = st
		}
	}
	s.Blocks[h], s.Commits[h] = blk, commit
	s.Height = h
	s.steps = nil
	if len(nPaths) >= 2 {
		s.St.Inc("probe.heights_with_two_or_more_paths")
	}
	s.St.Event("block h=%d proposer=%d txs=%d apphash=%x", h, p.Idx, len(blk.Txs), refRes.AppHash)
	s.St.Distinct("app_hashes", core.Hash64(refRes.AppHash))
	if len(refRes.ValUpdates) > 0 {
		s.St.Inc("probe.validator_set_change")
	}
	for k, n := range refRes.EventKinds {
		s.St.Add("probe.event."+k, int64(n))
	}
	// Remove included transactions from the pool; refresh pending nonces from the chain.
	sort.Sort(sort.Reverse(sort.IntSlice(poolIdx)))
	for _, i := range poolIdx {
		s.Pool = append(s.Pool[:i], s.Pool[i+1:]...)
	}
	for i, tr := range refRes.TxResults {
		if i < len(built) {
			if tr.Code == 0 {
				s.St.Inc("probe.tx_ok." + built[i].Op.Kind)
			} else {
				s.St.Inc(fmt.Sprintf("probe.tx_fail.%s.%s.%d", built[i].Op.Kind, tr.Codespace, tr.Code))
				if os.Getenv("VERIF_TXLOG") != "" { // development aid: why transactions failed
					fmt.Fprintf(os.Stderr, "TXLOG %s: %s\n", built[i].Op.Kind, tr.Log)
				}
			}
		}
	}
	for k := range s.pendingNonce {
		delete(s.pendingNonce, k)
	}
	if vw, cl := s.view(); vw != nil {
		for _, pt := range s.Pool {
			if pt.B.Op.NonceOff == 0 && pt.B.Op.Mut == "" {
				n := vw.Account(staking.NewAddress(pt.B.Signer)).General.Nonce
				if pt.B.Nonce >= n {
					if cur, ok := s.pendingNonce[pt.B.Signer]; !ok || pt.B.Nonce+1 > cur {
						s.pendingNonce[pt.B.Signer] = pt.B.Nonce + 1
					}
				}
			}
		}
		cl()
	}
	if s.stepViol != nil {
		return s.stepViol
	}
	for _, o := range s.Oracles {
		if v := o.AfterBlock(s, h, blk, built, refRes); v != nil {
			return v
		}
	}
	return s.phoenixAfterBlock(h, refRes)
}

// pathOf returns the execution path of a replica for a block (0 process+apply, 1 plain apply,
// 2 offline, 3 restart then apply); the proposer always takes part and the observer always
// executes on the plain path.
func pathOf(b *BlockOp, r, proposer *Replica) int {
	path := 0
	if r.Idx < len(b.Paths) {
		path = b.Paths[r.Idx]
	}
	if r == proposer {
		if path == 2 || path == 3 {
			path = 0
		}
	}
	if r.Cfg.Observer {
		path = 1
	}
	return path
}

// makeEvidence builds real duplicate-vote evidence against a validator of the last height.
func (s *Sim) makeEvidence(sel int) cmttypes.Evidence {
	ref := s.Ref()
	if ref == nil || s.Height < 1 {
		return nil
	}
	vals := ref.State.LastValidators
	if vals == nil || len(vals.Validators) == 0 {
		return nil
	}
	// Documented precondition of C10: enough stake-eligible validators remain. Evidence is only
	// produced against validators of non-anchor entities (the anchors back the replicas).
	var cand []int
	for j, v := range vals.Validators {
		if nk := s.Keys[string(v.Address)]; nk != nil && nk.Entity >= s.K.Gen.Anchors {
			cand = append(cand, j)
		}
	}
	if len(cand) == 0 {
		return nil
	}
	i := cand[sel%len(cand)]
	val := vals.Validators[i]
	nk := s.Keys[string(val.Address)]
	mk := func(tag byte) *cmttypes.Vote {
		var bh [32]byte
		bh[0] = tag
		bid := cmttypes.BlockID{Hash: bh[:], PartSetHeader: cmttypes.PartSetHeader{Total: 1, Hash: bh[:]}}
		vote := &cmttypes.Vote{Type: 2, Height: s.Height, Round: 0, BlockID: bid, Timestamp: s.Now, ValidatorAddress: val.Address, ValidatorIndex: int32(i)}
		sb := cmttypes.VoteSignBytes(s.GenDoc.ChainID, vote.ToProto())
		sig, err := crypto.SignerToCometBFT(nk.Identity.ConsensusSigner).Sign(sb)
		if err != nil {
			return nil
		}
		vote.Signature = sig
		return vote
	}
	a, b := mk(1), mk(2)
	if a == nil || b == nil {
		return nil
	}
	ev, err := cmttypes.NewDuplicateVoteEvidence(a, b, s.Blocks[s.Height].Time, vals)
	if err != nil {
		return nil
	}
	s.St.Inc("fault.duplicate_vote_evidence")
	return ev
}

var _ = bytes.Equal
var _ = hash.Hash{}
var _ = governance.ModuleName

// byzantineProposal derives a tampered variant of an honest proposal (the proposer is Byzantine
// for one round) and requires every honest replica to reject it; the round is then abandoned and
// the honest proposal follows, so the replicas carry the rejected proposal's cached state.
func (s *Sim) byzantineProposal(p *Replica, honest *cmttypes.Block, lastCommit *cmttypes.Commit, h int64, kind string) *core.Violation {
	txs := honest.Txs.ToSliceOfBytes()
	if len(txs) == 0 {
		return nil
	}
	meta := txs[len(txs)-1]
	body := append([][]byte{}, txs[:len(txs)-1]...)
	var tampered [][]byte
	switch kind {
	case "meta-missing":
		tampered = body
	case "meta-duplicate":
		tampered = append(append(body, meta), meta)
	case "meta-not-last":
		// A failing transaction after the metadata changes no state, so the roots still match:
		// accepting such a block is not a violation. Not generated.
		return nil
	case "meta-wrong-root", "meta-wrong-events", "meta-wrong-signer":
		var stx transaction.SignedTransaction
		var tx transaction.Transaction
		var bm consensusAPI.BlockMetadata
		if cbor.Unmarshal(meta, &stx) != nil || cbor.Unmarshal(stx.Blob, &tx) != nil || cbor.Unmarshal(tx.Body, &bm) != nil {
			core.Harnessf("byzantine: cannot decode the block metadata transaction")
		}
		signer := p.Node.Identity.ConsensusSigner
		switch kind {
		case "meta-wrong-root":
			bm.StateRoot[0] ^= 1
		case "meta-wrong-events":
			if len(bm.EventsRoot) > 0 {
				bm.EventsRoot[0] ^= 1
			} else {
				bm.EventsRoot = []byte{1}
			}
		case "meta-wrong-signer":
			// a validly formed metadata transaction, but signed by another validator
			for _, r := range s.Reps {
				if r != p && !r.Cfg.Observer {
					signer = r.Node.Identity.ConsensusSigner
					break
				}
			}
		}
		raw, err := SignTx(signer, consensusAPI.NewBlockMetadataTx(&bm))
		if err != nil {
			core.Harnessf("byzantine: sign: %v", err)
		}
		tampered = append(body, raw)
	case "garbage-tx":
		tampered = append(append([][]byte{}, body...), []byte("not-a-transaction"), meta)
		// A garbage transaction before the metadata is an ordinary failing transaction whose
		// effect is not reflected in the proposer's state root only if it changed state; it is
		// legal. Not a Byzantine case: skip.
		return nil
	default:
		return nil
	}
	var ttxs cmttypes.Txs
	for _, t := range tampered {
		ttxs = append(ttxs, cmttypes.Tx(t))
	}
	blk, err := p.State.MakeBlock(h, ttxs, lastCommit, nil, honest.ProposerAddress)
	if err != nil {
		core.Harnessf("byzantine: make block: %v", err)
	}
	s.St.Inc("fault.byzantine_proposal." + kind)
	for _, r := range s.Reps {
		if r == p || !r.Up || r.Cfg.Observer || r.State.LastBlockHeight != s.Height {
			continue
		}
		cp, _ := CopyBlock(blk)
		var ok bool
		var perr error
		pv, stack := core.Guard(func() { ok, perr = r.Process(cp) })
		if pv != nil {
			return s.panicViolation("ProcessProposal (Byzantine proposal)", r, pv, stack)
		}
		if ok && perr == nil {
			if s.Prop == "C01" || s.Prop == "C10" {
				return cViol(s.Prop, "byzantine-proposal-accepted", "byzantine-proposal-accepted "+kind, fmt.Sprintf("replica %d accepted a proposal for height %d whose block metadata was tampered with (%s)", r.Idx, h, kind))
			}
			s.Aborted = "byzantine-proposal-accepted"
			return nil
		}
		s.St.Inc("probe.byzantine_proposal_rejected")
	}
	return nil
}

// liveness is the bounded-liveness part of C10: once faults stop (all replicas up, everybody
// votes, no abandoned rounds, no interleaved activities) the chain must keep making progress for
// two epochs, every replica must reach the same height, and a fresh valid transfer must succeed
// within three blocks.
func (s *Sim) liveness() *core.Violation {
	for _, r := range s.Reps {
		if !r.Up {
			continue
		}
		if v := s.catchUp(r); v != nil || s.Aborted != "" {
			return v
		}
	}
	n := int(2*s.K.Gen.EpochInterval) + 1
	// Drop everything that is still pending: the liveness phase starts from empty mempools.
	s.Pool = nil
	for k := range s.pendingNonce {
		delete(s.pendingNonce, k)
	}
	// A fresh valid transfer from the richest plain account.
	vw, cl := s.view()
	if vw == nil {
		return nil
	}
	best, bestBal := -1, uint64(0)
	for i := 0; i < len(s.W.Accounts); i++ {
		idx := len(s.W.Entities) + i
		a := vw.Account(s.W.Addr(idx))
		if b := a.General.Balance.ToBigInt(); b.IsUint64() && b.Uint64() > bestBal {
			best, bestBal = idx, b.Uint64()
		}
	}
	params := vw.StakingParams()
	cl()
	minX := params.MinTransferAmount.ToBigInt().Uint64()
	needed := minX + 1000 + params.MinTransactBalance.ToBigInt().Uint64()
	sent := false
	if best >= 0 && bestBal > needed && !params.DisableTransfers {
		if v := s.submitTx(TxOp{Kind: "transfer", From: best, To: best + 1, Amt: AmtMin, Fee: 1000}); v != nil {
			return v
		}
		sent = true
	}
	okAt := -1
	for i := 0; i < n; i++ {
		before := s.Height
		if v := s.produceBlock(-1, &BlockOp{Proposer: i, Take: 10, Dt: 1}); v != nil {
			return v
		}
		if s.Aborted != "" {
			return nil
		}
		if s.Height != before+1 && len(s.eligibleProposers()) == 0 {
			// None of the replicas' validators is in the elected set any more (other entities out-staked
			// them); the validators that would propose have no replica in this simulation.
			s.St.Inc("probe.liveness_skipped_no_replica_in_validator_set")
			return nil
		}
		if s.Height != before+1 {
			return cViol("C10", "no-progress-after-faults", "no-progress-after-faults", fmt.Sprintf("with all faults stopped, no block could be produced at height %d", before+1))
		}
		if sent && okAt < 0 {
			res := s.Results[s.Height]
			for j, tr := range res.TxResults {
				_ = j
				if tr.Code == 0 && len(s.Blocks[s.Height].Txs) > 1 {
					okAt = i
				}
			}
		}
		if sent && okAt < 0 && i >= 2 {
			return cViol("C10", "valid-transfer-not-served", "valid-transfer-not-served", fmt.Sprintf("with all faults stopped, a fresh valid transfer submitted before height %d did not succeed within three blocks", s.Height-2))
		}
	}
	for _, r := range s.Reps {
		if r.Up && r.State.LastBlockHeight != s.Height {
			return cViol("C10", "replica-stuck-after-faults", "replica-stuck-after-faults", fmt.Sprintf("replica %d is at height %d while the chain is at %d after the fault-free phase", r.Idx, r.State.LastBlockHeight, s.Height))
		}
	}
	s.St.Inc("probe.liveness_phase_completed")
	if sent {
		s.St.Inc("probe.liveness_transfer_served")
	}
	return nil
}
