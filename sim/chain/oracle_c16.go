package chain

// Live-multiplexer part of property C16 (untrusted bytes are decoded or rejected, never crash the
// node, never corrupt subsequent processing).
//
// Workload: structured corruptions (package decode) of VALID signed transactions resolved against
// the live state of the running simulation:
//   - c16.env    the signed envelope is corrupted (signature usually no longer valid);
//   - c16.blob   the inner transaction encoding is corrupted and RE-SIGNED by the sender, so that
//     the envelope authenticates and the corrupted transaction reaches decoding,
//     sanity checks, fee handling and the method handlers;
//   - c16.body   as c16.blob but confined to the method body;
//   - c16.method any method of any application (staking, registry, governance, roothash, vault,
//     key manager, beacon, consensus meta) with a fully occupied body of its own or of
//     another method's type, corrupted, re-signed.
//
// Every such transaction is fed by the harness itself to CheckTx of a subset of the replicas'
// mempool connections (panic guard, wall-clock and allocation bounds with re-measurement) and put
// into the simulated network's pool, from where the engine includes it in proposals and blocks of
// ALL replicas whatever the CheckTx verdicts were (a Byzantine proposer). The engine (Prop "C16")
// turns a panic escaping InitChain/PrepareProposal/ProcessProposal/ApplyBlock into a violation.
//
// Oracle: no panic; per-call time and allocation bounds (every ABCI call of every replica is
// measured through the interposer; an excess is re-measured with fresh CheckTx calls of the
// block's transactions before it counts); replicas that were and were not fed the garbage through
// CheckTx agree on application state and results hashes after every block; valid transactions
// still take effect afterwards.

import (
	"bytes"
	"encoding/binary"
	"fmt"
	"reflect"
	"strings"
	"time"

	abcitypes "github.com/cometbft/cometbft/abci/types"
	cmttypes "github.com/cometbft/cometbft/types"

	"github.com/oasisprotocol/oasis-core/go/common/cbor"
	"github.com/oasisprotocol/oasis-core/go/common/crypto/hash"
	"github.com/oasisprotocol/oasis-core/go/common/crypto/signature"
	"github.com/oasisprotocol/oasis-core/go/common/entity"
	"github.com/oasisprotocol/oasis-core/go/common/quantity"
	consensus "github.com/oasisprotocol/oasis-core/go/consensus/api"
	"github.com/oasisprotocol/oasis-core/go/consensus/api/transaction"
	registry "github.com/oasisprotocol/oasis-core/go/registry/api"
	staking "github.com/oasisprotocol/oasis-core/go/staking/api"

	"verif/sim/core"
	"verif/sim/decode"
)

// Mux returns the replica's application as the ABCI connection sees it (through the interposer).
func (r *Replica) Mux() abcitypes.Application { return r.inter }

type c16Meta struct {
	kind, mutKind, what string
	// oversized: a valid transaction above MaxTxSize, which must never be accepted.
	oversized bool
}

// c16Session is the per-simulation state shared by the workload and the oracle.
type c16Session struct {
	s       *Sim
	meter   *decode.Meter
	pending *core.Violation
	meta    map[hash.Hash]*c16Meta
	// fed[raw hash] = replicas whose CheckTx saw the transaction.
	garbageFed, garbageInBlocks int
	validAfterGarbage           int
	wrapped                     map[*interposer]bool
	suspects                    [][]byte
	blockTxs                    [][]byte
	maxCall                     time.Duration
	maxAlloc                    uint64
}

var c16cur *c16Session

func c16SessionFor(s *Sim) *c16Session {
	if c16cur != nil && c16cur.s == s {
		return c16cur
	}
	c16cur = &c16Session{s: s, meter: decode.NewMeter(), meta: map[hash.Hash]*c16Meta{}, wrapped: map[*interposer]bool{}}
	return c16cur
}

func c16Rand(op TxOp) *core.Rand {
	var b [40]byte
	binary.LittleEndian.PutUint64(b[0:], uint64(int64(op.Arg)))
	binary.LittleEndian.PutUint64(b[8:], uint64(int64(op.From)))
	binary.LittleEndian.PutUint64(b[16:], uint64(int64(op.To)))
	binary.LittleEndian.PutUint64(b[24:], uint64(int64(op.Amt)))
	binary.LittleEndian.PutUint64(b[32:], op.Fee)
	return core.NewRand(core.Hash64([]byte(op.Kind), b[:]))
}

var c16BaseKinds = []string{"transfer", "transfer", "burn", "escrow", "reclaim", "allow", "withdraw", "amend", "propose", "vote", "regnode", "deregister"}

// c16Violation stashes a violation found while a transaction is being submitted; the oracle
// returns it at the next block.
func (ss *c16Session) violation(v *core.Violation) {
	if ss.pending == nil {
		ss.pending = v
	}
}

// checkTx feeds raw bytes to a replica's mempool connection under measurement.
func (ss *c16Session) checkTx(r *Replica, raw []byte, what string) (code uint32, codespace string) {
	code, codespace, _ = ss.checkTxLog(r, raw, what)
	return
}

func (ss *c16Session) checkTxLog(r *Replica, raw []byte, what string) (code uint32, codespace, log string) {
	var res *abcitypes.ResponseCheckTx
	kind, detail, _ := ss.meter.Call("CheckTx of "+what, len(raw), func() func() {
		return func() {
			res, _ = r.conns.Mempool().CheckTxSync(abcitypes.RequestCheckTx{Tx: raw, Type: abcitypes.CheckTxType_New})
		}
	})
	if kind != "" {
		fp := kind + " in CheckTx"
		if kind == "panic" {
			// The interposer re-raises the panic of the application; the original stack is the one
			// it recorded.
			if r.inter != nil && r.inter.lastPanic != nil && r.inter.lastStack != "" {
				detail += "\noriginal stack of the application's panic:\n" + r.inter.lastStack
				r.inter.lastPanic = nil
			}
			site := core.PanicSite(r.inter.lastStack+detail, "oasis-core/go/consensus/cometbft/apps")
			if site == "unknown" {
				site = core.PanicSite(r.inter.lastStack+detail, "oasis-core/go/")
			}
			fp = "panic in CheckTx at " + site
		}
		ss.violation(cViol("C16", kind, fp, fmt.Sprintf("replica %d at height %d: %s\ntransaction (hex): %x", r.Idx, ss.s.Height+1, detail, clip(raw, 2048))))
		return 1, "verif", ""
	}
	if res == nil {
		return 1, "verif", ""
	}
	return res.Code, res.Codespace, res.Log
}

func clip(b []byte, n int) []byte {
	if len(b) > n {
		return b[:n]
	}
	return b
}

// c16Submit delivers corrupted transaction bytes: CheckTx on the masked replicas, then the pool.
func (ss *c16Session) submit(op TxOp, raw []byte, m *c16Meta, signer signature.PublicKey, nonce uint64, intact, pool bool) {
	s := ss.s
	h := hash.NewFromBytes(raw)
	ss.meta[h] = m
	b := &BuiltTx{Raw: raw, Op: op, Signer: signer, Nonce: nonce}
	if !intact {
		b.Op.Mut = "c16"
	} else if cur, ok := s.pendingNonce[signer]; pool && (!ok || nonce+1 > cur) {
		s.pendingNonce[signer] = nonce + 1
	}
	p := &PendingTx{B: b, Seen: map[int]bool{}}
	for _, r := range s.Reps {
		if !r.Up || (op.Replicas != 0 && op.Replicas&(1<<uint(r.Idx)) == 0) {
			continue
		}
		code, cs := ss.checkTx(r, raw, fmt.Sprintf("%s [%s]", m.kind, m.what))
		ss.garbageFed++
		if code == 0 && m.oversized {
			ss.violation(cViol("C16", "oversized-accepted", "oversized-accepted in CheckTx", fmt.Sprintf("replica %d at height %d: CheckTx accepted a %s", r.Idx, s.Height+1, m.what)))
		}
		if code == 0 {
			p.Seen[r.Idx] = true
			s.St.Inc(fmt.Sprintf("probe.mux.%s.%s.checktx_accepted", m.kind, m.mutKind))
		} else {
			s.St.Inc(fmt.Sprintf("probe.mux.%s.%s.checktx_rejected", m.kind, m.mutKind))
			s.St.Inc("probe.mux.checktx_reject_module." + cs)
		}
		if ss.pending != nil {
			break
		}
	}
	if pool {
		s.History = append(s.History, b)
		s.Pool = append(s.Pool, p)
	} else {
		s.St.Inc("probe.mux.system_method_checktx_only")
	}
	s.St.Inc("fault.mux." + m.kind + "." + m.mutKind)
	s.St.Event("c16 %s [%s] from=%d %d bytes", m.kind, m.what, op.From, len(raw))
}

// c16Build is the builder of all c16 transaction kinds. It delivers the transaction itself and
// returns no transaction to the engine.
func c16Build(w *World, op TxOp, v TxView, def signature.Signer, fee *transaction.Fee) (*transaction.Transaction, signature.Signer, error) {
	sv, ok := v.(*simView)
	if !ok {
		return nil, nil, nil
	}
	ss := c16SessionFor(sv.s)
	if ss.pending != nil {
		return nil, nil, nil
	}
	rr := c16Rand(op)
	goodFee := &transaction.Fee{Amount: *quantity.NewFromUint64(op.Fee), Gas: 100_000}

	if op.Kind == "c16.big" {
		return c16BuildBig(w, op, v, ss, rr)
	}
	// The valid original.
	var signer signature.Signer = def
	var tx *transaction.Transaction
	if op.Kind == "c16.method" {
		methods := decode.AllMethods()
		m := methods[rr.Intn(len(methods))]
		bodyOf := m
		if rr.Chance(1, 4) {
			bodyOf = methods[rr.Intn(len(methods))] // another method's body type
		}
		var body []byte
		if bt := bodyOf.BodyType(); bt != nil {
			body = decode.FilledEncoding(bt, rr.Uint64())
			if body == nil {
				body = cbor.Marshal(reflect.New(reflect.TypeOf(bt)).Interface())
			}
		}
		if body == nil {
			body = []byte{0xf6}
		}
		tx = &transaction.Transaction{Nonce: v.NextNonce(signer.Public()), Fee: goodFee, Method: m, Body: cbor.RawMessage(body)}
	} else {
		base := TxOp{Kind: c16BaseKinds[rr.Intn(len(c16BaseKinds))], From: op.From, To: op.To, Amt: op.Amt, Fee: op.Fee, Arg: rr.Intn(64)}
		if base.Kind == "regnode" {
			nk, _ := v.NodeForRefresh(base.Arg)
			if nk == nil {
				base.Kind = "transfer"
			} else {
				signer = nk.Identity.NodeSigner
			}
		}
		sv.s.txSeq++
		bt, err := w.BuildTx(base, v, sv.s.txSeq)
		if err != nil || bt == nil {
			return nil, nil, err
		}
		var st transaction.SignedTransaction
		if err := cbor.Unmarshal(bt.Raw, &st); err != nil {
			core.Harnessf("c16: the engine built an undecodable valid transaction: %v", err)
		}
		tx = &transaction.Transaction{}
		if err := cbor.Unmarshal(st.Blob, tx); err != nil {
			core.Harnessf("c16: valid transaction blob does not decode: %v", err)
		}
		if !st.Signature.PublicKey.Equal(signer.Public()) {
			core.Harnessf("c16: signer mismatch for base kind %s", base.Kind)
		}
	}
	blob := cbor.Marshal(tx)
	st, err := transaction.Sign(signer, tx)
	if err != nil {
		return nil, nil, err
	}
	valid := cbor.Marshal(st)

	mop := decode.GenMutOp(rr, "cbor")
	meta := &c16Meta{kind: op.Kind, mutKind: mop.K}
	var raw []byte
	intact := false
	switch op.Kind {
	case "c16.env":
		m, what, applied := decode.MutateCBOR(valid, mop)
		if !applied {
			return nil, nil, nil
		}
		raw, meta.what = m, what
	default:
		switch op.Kind {
		case "c16.body":
			mop.Under = "body"
		case "c16.method":
			if rr.Chance(2, 3) {
				mop.Under = "body"
			}
		}
		if op.Kind != "c16.blob" && rr.Chance(1, 3) {
			// Absent optional fields: drop one field of the body (mostly of its top level), so that
			// every optional pointer of a decoded body is nil in some transaction.
			mop = decode.MutOp{K: "drop", Under: "body", Sel: rr.Pick([]int{6, 1, 1, 1, 1}), V: rr.Intn(1 << 10), Seed: mop.Seed}
			meta.mutKind = "dropfield"
		}
		m, what, applied := decode.MutateCBOR(blob, mop)
		if !applied {
			if op.Kind != "c16.method" {
				return nil, nil, nil
			}
			m, what = blob, "uncorrupted filled body"
			meta.mutKind = "none"
		}
		// Optionally a second corruption on top.
		if applied && rr.Chance(1, 5) {
			mop2 := decode.GenMutOp(rr, "cbor")
			if m2, what2, ok := decode.MutateCBOR(m, mop2); ok {
				m, what = m2, what+"; "+mop2.K+": "+what2
			}
		}
		sig, err := signature.Sign(signer, transaction.SignatureContext, m)
		if err != nil {
			return nil, nil, err
		}
		raw = cbor.Marshal(&transaction.SignedTransaction{Signed: signature.Signed{Blob: m, Signature: *sig}})
		meta.what = what + " (re-signed by the sender)"
		var chk transaction.Transaction
		intact = cbor.Unmarshal(m, &chk) == nil && chk.Nonce == tx.Nonce
	}
	if len(raw) == 0 {
		raw = []byte{}
	}
	_ = fee
	// System methods (block metadata) are injected by proposers only: an honest mempool never holds
	// them (CheckTx refuses them) and the engine's own Byzantine-proposal faults cover their
	// delivery; here they are fed to CheckTx only.
	_, system := consensus.SystemMethods[tx.Method]
	ss.submit(op, raw, meta, signer.Public(), tx.Nonce, intact, !system)
	return nil, nil, nil
}

// c16BuildBig builds a VALID, correctly signed transaction that is larger than the consensus
// parameter MaxTxSize: an entity re-registering itself with a long list of node identifiers. It
// must be refused by CheckTx and, when a proposer includes it anyway, fail in the block.
func c16BuildBig(w *World, op TxOp, v TxView, ss *c16Session, rr *core.Rand) (*transaction.Transaction, signature.Signer, error) {
	e := op.From % len(w.Entities)
	if e < w.K.Anchors {
		e = w.K.Anchors % len(w.Entities)
	}
	ek := w.Entities[e]
	max := w.Doc.Consensus.Parameters.MaxTxSize
	if max == 0 {
		return nil, nil, nil
	}
	ent := &entity.Entity{Versioned: cbor.NewVersioned(entity.LatestDescriptorVersion), ID: ek.Signer.Public()}
	ent.Nodes = append(ent.Nodes, ek.Entity.Nodes...)
	extra := int(max)/32 + 1 + rr.Intn(200)
	for i := 0; i < extra; i++ {
		ent.Nodes = append(ent.Nodes, signature.PublicKey(hash.NewFromBytes([]byte(fmt.Sprintf("verif/c16/big/%d/%d", op.Arg, i)))))
	}
	se, err := entity.SignEntity(ek.Signer, registry.RegisterEntitySignatureContext, ent)
	if err != nil {
		return nil, nil, err
	}
	fee := &transaction.Fee{Amount: *quantity.NewFromUint64(op.Fee), Gas: 400_000}
	tx := registry.NewRegisterEntityTx(v.NextNonce(ek.Signer.Public()), fee, se)
	raw, err := SignTx(ek.Signer, tx)
	if err != nil {
		return nil, nil, err
	}
	if uint64(len(raw)) <= max {
		core.Harnessf("c16: oversized transaction is only %d bytes", len(raw))
	}
	meta := &c16Meta{kind: op.Kind, mutKind: "oversized-valid", what: fmt.Sprintf("valid signed entity registration of %d bytes (MaxTxSize %d)", len(raw), max), oversized: true}
	ss.submit(op, raw, meta, ek.Signer.Public(), tx.Nonce, false, true)
	return nil, nil, nil
}

// c16Oracle is the oracle of the live-multiplexer batch.
type c16Oracle struct {
	BaseOracle
}

func (o *c16Oracle) wrap(ss *c16Session) {
	for _, r := range ss.s.Reps {
		if !r.Up || r.inter == nil || ss.wrapped[r.inter] {
			continue
		}
		ss.wrapped[r.inter] = true
		in := r.inter
		prevB, prevA := in.before, in.after
		var t0 time.Time
		var a0 uint64
		failedBefore := 0
		in.before = func(call string) {
			if prevB != nil {
				prevB(call)
			}
			if call == "PrepareProposal" {
				failedBefore = strings.Count(core.Logs.Recent(), "failed to prepare proposal")
			}
			t0, a0 = time.Now(), decodeAlloc()
		}
		in.after = func(call string) {
			d, a := time.Since(t0), decodeAlloc()-a0
			if d > ss.maxCall {
				ss.maxCall = d
			}
			if a > ss.maxAlloc {
				ss.maxAlloc = a
			}
			n := 1
			if call != "DeliverTx" && call != "CheckTx" {
				n = len(ss.blockTxs) + 2
			}
			if d > time.Duration(n)*decode.CallTimeLimit || a > uint64(n)*decode.CallAllocLimit {
				switch call {
				case "DeliverTx":
					ss.suspects = append(ss.suspects, in.lastTx)
				case "PrepareProposal", "ProcessProposal", "BeginBlock", "EndBlock":
					ss.suspects = append(ss.suspects, ss.blockTxs...)
				}
				ss.s.St.Inc("probe.mux.call_over_bound_before_remeasure." + call)
			}
			if call == "PrepareProposal" {
				// The multiplexer recovers a panic while executing a proposal, logs it and proposes an
				// empty block (which every validator then rejects for its missing block metadata).
				if logs := core.Logs.Recent(); strings.Count(logs, "failed to prepare proposal") > failedBefore {
					i := strings.LastIndex(logs, "failed to prepare proposal")
					panic(fmt.Sprintf("verif/c16: the proposer's execution of its own proposal failed and was recovered by the multiplexer, which proposes an empty block instead (block of %d pool transactions): %s", len(ss.blockTxs), clipStr(logs[i:], 3000)))
				}
			}
			if prevA != nil {
				prevA(call)
			}
		}
	}
}

func clipStr(s string, n int) string {
	if len(s) > n {
		return s[:n]
	}
	return s
}

func decodeAlloc() uint64 { return decode.AllocBytes() }

// Init implements Oracle.
func (o *c16Oracle) Init(s *Sim) *core.Violation {
	c16SessionFor(s)
	return nil
}

// BeforeBlock implements Oracle.
func (o *c16Oracle) BeforeBlock(s *Sim, height int64, txs []*BuiltTx) *core.Violation {
	ss := c16SessionFor(s)
	if ss.pending != nil {
		return ss.pending
	}
	o.wrap(ss)
	ss.blockTxs = ss.blockTxs[:0]
	for _, t := range txs {
		ss.blockTxs = append(ss.blockTxs, t.Raw)
	}
	ss.suspects = nil
	return nil
}

// AfterBlock implements Oracle.
func (o *c16Oracle) AfterBlock(s *Sim, height int64, blk *cmttypes.Block, txs []*BuiltTx, res *BlockResult) *core.Violation {
	ss := c16SessionFor(s)
	if ss.pending != nil {
		return ss.pending
	}
	// Replicas that were and were not fed the garbage through CheckTx agree.
	var ref *Replica
	for _, r := range s.Reps {
		if !r.Up || r.State.LastBlockHeight != height {
			continue
		}
		if ref == nil {
			ref = r
			continue
		}
		if !bytes.Equal(ref.State.AppHash, r.State.AppHash) || !bytes.Equal(ref.State.LastResultsHash, r.State.LastResultsHash) {
			return cViol("C16", "replicas-disagree", "replicas-disagree", fmt.Sprintf("after block %d (with %d transactions, %d corrupted ones fed so far) replica %d has application hash %x / results hash %x, replica %d has %x / %x", height, len(txs), ss.garbageFed, ref.Idx, ref.State.AppHash, ref.State.LastResultsHash, r.Idx, r.State.AppHash, r.State.LastResultsHash))
		}
		s.St.Inc("probe.mux.replica_pairs_compared")
	}
	// Reach: what happened to the corrupted transactions that made it into the block.
	for i, t := range txs {
		if i >= len(res.TxResults) {
			break
		}
		m := ss.meta[hash.NewFromBytes(t.Raw)]
		tr := res.TxResults[i]
		if m == nil {
			if ss.garbageInBlocks > 0 && t.Op.Mut == "" && t.Op.NonceOff == 0 && t.Op.Replay == 0 && tr.Code == 0 {
				ss.validAfterGarbage++
				s.St.Inc("probe.mux.valid_tx_ok_after_garbage")
			}
			continue
		}
		ss.garbageInBlocks++
		if tr.Code == 0 && m.oversized {
			return cViol("C16", "oversized-accepted", "oversized-accepted in block", fmt.Sprintf("block %d: a %s took effect (result code 0)", height, m.what))
		}
		if tr.Code == 0 {
			s.St.Inc(fmt.Sprintf("probe.mux.%s.%s.deliver_accepted", m.kind, m.mutKind))
		} else {
			s.St.Inc(fmt.Sprintf("probe.mux.%s.%s.deliver_rejected", m.kind, m.mutKind))
			s.St.Inc("probe.mux.deliver_reject_module." + tr.Codespace)
		}
	}
	// A call over the bound is re-measured with fresh CheckTx calls of the suspected transactions.
	if len(ss.suspects) > 0 {
		if r := s.Ref(); r != nil {
			for _, raw := range ss.suspects {
				if len(raw) > 64*1024 {
					continue
				}
				ss.checkTx(r, raw, "a transaction of a block whose execution exceeded the per-call bound")
				if ss.pending != nil {
					return ss.pending
				}
			}
		}
		ss.suspects = nil
	}
	return nil
}

// Finish implements Oracle.
func (o *c16Oracle) Finish(s *Sim) (*core.Violation, bool) {
	ss := c16SessionFor(s)
	if ss.pending != nil {
		return ss.pending, true
	}
	if v := o.canary(s, ss); v != nil {
		return v, true
	}
	s.St.Add("probe.mux.corrupted_tx_checktx_calls", int64(ss.garbageFed))
	s.St.Add("probe.mux.corrupted_tx_in_blocks", int64(ss.garbageInBlocks))
	s.St.Inc("probe.mux.slowest_abci_call_le_" + durBucket(ss.maxCall))
	s.St.Inc("probe.mux.largest_abci_call_alloc_le_" + sizeBucket(ss.maxAlloc))
	ss.meter.Report(s.St, "mux.checktx")
	c16cur = nil
	return nil, ss.garbageFed >= 1 && ss.garbageInBlocks >= 1
}

// canary submits a valid transfer to CheckTx of every replica after all the garbage: a
// multiplexer whose check state was damaged refuses it for a reason unrelated to the account.
func (o *c16Oracle) canary(s *Sim, ss *c16Session) *core.Violation {
	v, closeView := s.view()
	if v == nil {
		return nil
	}
	defer closeView()
	params := v.StakingParams()
	price := s.K.Gen.MinGasPrice
	for _, rc := range s.K.Replicas {
		if rc.MinGasPrice > price {
			price = rc.MinGasPrice
		}
	}
	gas := uint64(2000)
	if s.K.Gen.MaxBlockGas > 0 && s.K.Gen.MaxBlockGas < gas {
		s.St.Inc("probe.mux.canary_skipped_block_gas_limit")
		return nil
	}
	amount := params.MinTransferAmount.ToBigInt().Uint64()
	if amount == 0 {
		amount = 1
	}
	need := gas*price + amount + params.MinTransactBalance.ToBigInt().Uint64() + 1
	best, bestBal := -1, uint64(0)
	for i := 0; i < s.W.NumSigners(); i++ {
		b := v.Account(s.W.Addr(i)).General.Balance.ToBigInt()
		if b.IsUint64() && b.Uint64() > bestBal {
			best, bestBal = i, b.Uint64()
		}
	}
	if best < 0 || bestBal < need {
		s.St.Inc("probe.mux.canary_skipped_no_funds")
		return nil
	}
	signer := s.W.Signer(best)
	base := v.Account(staking.NewAddress(signer.Public())).General.Nonce
	for _, r := range s.Reps {
		if !r.Up || r.State.LastBlockHeight != s.Height {
			continue
		}
		okd := false
		var lastCode uint32
		var lastCS, lastLog string
		for off := uint64(0); off < 12 && !okd; off++ {
			tx := staking.NewTransferTx(base+off, &transaction.Fee{Amount: *quantity.NewFromUint64(gas * price), Gas: transaction.Gas(gas)}, &staking.Transfer{To: s.W.Addr(best + 1), Amount: *quantity.NewFromUint64(amount)})
			raw, err := SignTx(signer, tx)
			if err != nil {
				core.Harnessf("c16: sign canary: %v", err)
			}
			lastCode, lastCS, lastLog = ss.checkTxLog(r, raw, "the final valid transfer")
			if ss.pending != nil {
				return ss.pending
			}
			if lastCode == 0 {
				okd = true
			} else if !(lastCS == "consensus/transaction" && lastCode == 1) {
				break // not a nonce problem
			}
		}
		switch {
		case okd:
			s.St.Inc("probe.mux.canary_accepted")
		case lastCS == "consensus/transaction" || lastCS == staking.ModuleName || lastCS == "consensus" || benignRefusal(lastLog):
			// State-dependent refusals (fee balance, gas price, limits) are not judged.
			s.St.Inc(fmt.Sprintf("probe.mux.canary_refused.%s.%d", lastCS, lastCode))
		default:
			return cViol("C16", "valid-tx-refused-after-garbage", "valid-tx-refused-after-garbage", fmt.Sprintf("replica %d: after %d CheckTx calls with corrupted transactions a valid transfer from the richest account (balance %d, fee %d, amount %d) is refused with %s/%d (%s)", r.Idx, ss.garbageFed, bestBal, gas*price, amount, lastCS, lastCode, lastLog))
		}
	}
	return nil
}

func benignRefusal(log string) bool {
	for _, w := range []string{"out of gas", "nonce", "balance", "gas price", "fee"} {
		if strings.Contains(log, w) {
			return true
		}
	}
	return false
}

func durBucket(d time.Duration) string {
	for _, b := range []time.Duration{time.Millisecond, 10 * time.Millisecond, 100 * time.Millisecond, time.Second, 2 * time.Second, 10 * time.Second} {
		if d <= b {
			return b.String()
		}
	}
	return "inf"
}

func sizeBucket(n uint64) string {
	for _, b := range []uint64{64 << 10, 1 << 20, 8 << 20, 64 << 20, 256 << 20, 1 << 30} {
		if n <= b {
			if b >= 1<<20 {
				return fmt.Sprintf("%dMiB", b>>20)
			}
			return fmt.Sprintf("%dKiB", b>>10)
		}
	}
	return "inf"
}

func init() {
	for _, k := range []string{"c16.env", "c16.blob", "c16.body", "c16.method", "c16.big"} {
		RegisterTxKind(k, c16Build)
	}
	RegisterOracle("C16", func() Oracle { return &c16Oracle{} })
	RegisterWorkload("C16", &Workload{
		Kinds:  []string{"c16.env", "c16.env", "c16.blob", "c16.blob", "c16.blob", "c16.body", "c16.body", "c16.body", "c16.body", "c16.body", "c16.method", "c16.method", "c16.method", "c16.method", "c16.method", "c16.method", "c16.big"},
		Weight: 50,
		Tune: func(r *core.Rand, k *ChainKnobs) {
			g := &k.Gen
			// Half of the runs have a runtime with compute nodes in genesis, so that the registry,
			// roothash and key manager handlers find something to look up.
			if r.Chance(1, 2) {
				g.Runtime = true
				g.ComputeNodes = r.Range(1, 3)
				for c := 0; c < g.ComputeNodes; c++ {
					g.EntityEscrow[c%g.Entities] += g.ThresholdNode
				}
				g.EntityEscrow[0] += g.ThresholdNode
			}
		},
	})
}
