package chain

// C14 — "Elections are deterministic and elect only eligible nodes".
//
// Two harness probe apps are registered in the mux of every replica. "200_sa_verif_pre" sorts
// after 200_registry and before 200_scheduler, so its BeginBlock sees exactly the beacon,
// staking and registry state the election of that block reads (beacon epoch/entropy update,
// slashing from evidence, fee disbursement, debonding, node expiry/removal have already run).
// "200_sz_verif_post" sorts after the scheduler and reads the election's result (pending
// validators, committees). Neither writes state. The oracle recomputes eligibility, limits,
// stake order and voting power from the captured input, written from the property text, and
// follows the validator updates through CometBFT's validator sets.

import (
	"bytes"
	"encoding/hex"
	"fmt"
	"math/big"
	"sort"
	"strconv"
	"strings"
	"time"

	abcitypes "github.com/cometbft/cometbft/abci/types"
	cmttypes "github.com/cometbft/cometbft/types"

	beacon "github.com/oasisprotocol/oasis-core/go/beacon/api"
	"github.com/oasisprotocol/oasis-core/go/common"
	"github.com/oasisprotocol/oasis-core/go/common/cbor"
	"github.com/oasisprotocol/oasis-core/go/common/crypto/signature"
	"github.com/oasisprotocol/oasis-core/go/common/node"
	"github.com/oasisprotocol/oasis-core/go/common/quantity"
	"github.com/oasisprotocol/oasis-core/go/consensus/api/transaction"
	cmtapi "github.com/oasisprotocol/oasis-core/go/consensus/cometbft/api"
	beaconState "github.com/oasisprotocol/oasis-core/go/consensus/cometbft/apps/beacon/state"
	registryState "github.com/oasisprotocol/oasis-core/go/consensus/cometbft/apps/registry/state"
	schedulerState "github.com/oasisprotocol/oasis-core/go/consensus/cometbft/apps/scheduler/state"
	stakingState "github.com/oasisprotocol/oasis-core/go/consensus/cometbft/apps/staking/state"
	"github.com/oasisprotocol/oasis-core/go/consensus/cometbft/crypto"
	genesis "github.com/oasisprotocol/oasis-core/go/genesis/api"
	registry "github.com/oasisprotocol/oasis-core/go/registry/api"
	scheduler "github.com/oasisprotocol/oasis-core/go/scheduler/api"
	staking "github.com/oasisprotocol/oasis-core/go/staking/api"

	"verif/sim/core"
)

const (
	c14PreName  = "200_sa_verif_pre"
	c14PostName = "200_sz_verif_post"
	// stakingAppName is the name of the staking application (events of which trigger re-elections).
	c14StakingAppName = "100_staking"
)

func init() {
	RegisterOracle("C14", func() Oracle { return newC14Oracle() })
	RegisterProbeApp("C14", func(s *Sim, r *Replica) cmtapi.Application { return c14ProbeFor(s, r, false) })
	RegisterProbeApp("C14", func(s *Sim, r *Replica) cmtapi.Application { return c14ProbeFor(s, r, true) })
	// C10: the state the validator election reads is captured on every replica, so that a failed
	// election can be judged against the documented precondition (Sim.electionFailure).
	RegisterProbeApp("C10", func(s *Sim, r *Replica) cmtapi.Application {
		if s.elect == nil {
			s.elect = newC14Oracle()
		}
		return &c14Probe{o: s.elect, rep: r.Idx}
	})
}

func c14ProbeFor(s *Sim, r *Replica, post bool) cmtapi.Application {
	for _, o := range s.Oracles {
		if co, ok := o.(*c14Oracle); ok {
			return &c14Probe{o: co, rep: r.Idx, post: post}
		}
	}
	return nil
}

// c14Probe is a read-only application that observes the block state right before and right
// after the scheduler's BeginBlock.
type c14Probe struct {
	o    *c14Oracle
	rep  int
	post bool
}

func (p *c14Probe) Name() string {
	if p.post {
		return c14PostName
	}
	return c14PreName
}

func (p *c14Probe) ID() uint8 {
	if p.post {
		return 0xE2
	}
	return 0xE1
}
func (p *c14Probe) Methods() []transaction.MethodName { return nil }
func (p *c14Probe) Blessed() bool                     { return false }
func (p *c14Probe) Dependencies() []string            { return nil }
func (p *c14Probe) Subscribe()                        {}
func (p *c14Probe) OnCleanup()                        {}
func (p *c14Probe) ExecuteTx(*cmtapi.Context, *transaction.Transaction) error {
	return fmt.Errorf("verif probe: unexpected transaction")
}
func (p *c14Probe) InitChain(*cmtapi.Context, abcitypes.RequestInitChain, *genesis.Document) error {
	return nil
}
func (p *c14Probe) EndBlock(*cmtapi.Context) (abcitypes.ResponseEndBlock, error) {
	return abcitypes.ResponseEndBlock{}, nil
}

func (p *c14Probe) BeginBlock(ctx *cmtapi.Context) error {
	if p.post {
		p.o.capturePost(p.rep, ctx)
	} else {
		p.o.capturePre(p.rep, ctx)
	}
	return nil
}

// c14Entity is the staking view of one entity at election time.
type c14Entity struct {
	Escrow quantity.Quantity                               `json:"escrow"`
	Claims map[staking.StakeClaim][]staking.StakeThreshold `json:"claims"`
}

// c14Input is everything the election of one block may depend on.
type c14Input struct {
	Epoch         beacon.EpochTime                             `json:"epoch"`
	EpochHeight   int64                                        `json:"epoch_height"`
	Entropy       []byte                                       `json:"entropy"`
	BeaconBackend string                                       `json:"beacon_backend"`
	Sched         *scheduler.ConsensusParameters               `json:"sched"`
	Thresholds    map[staking.ThresholdKind]quantity.Quantity  `json:"thresholds"`
	Nodes         []*node.Node                                 `json:"nodes"`
	Status        []*registry.NodeStatus                       `json:"status"` // parallel to Nodes
	Entities      map[staking.Address]*c14Entity               `json:"entities"`
	Runtimes      []*registry.Runtime                          `json:"runtimes"`
	PrevVals      map[signature.PublicKey]*scheduler.Validator `json:"prev_vals"`
	Slashed       bool                                         `json:"slashed"`
	// VRF backend: the nodes that submitted a proof during the previous epoch (sorted) and whether
	// that epoch's input was of high quality (committee elections allowed).
	VRFProvers  []signature.PublicKey `json:"vrf_provers,omitempty"`
	VRFCanElect bool                  `json:"vrf_can_elect,omitempty"`
	// PrevCommittees is the number of committees in the state before the election.
	PrevCommittees int `json:"prev_committees,omitempty"`
}

// c14Output is the result of the scheduler's BeginBlock.
type c14Output struct {
	Pending    map[signature.PublicKey]*scheduler.Validator `json:"pending"` // nil = no election
	Committees []*scheduler.Committee                       `json:"committees"`
	// StatusChanged is set when node statuses differ from the input (the before-schedule hook of
	// the roothash application penalised nodes inside the election): the input is then not what
	// the election read.
	StatusChanged bool `json:"status_changed"`
}

// c14Capture is one observed execution of BeginBlock.
type c14Capture struct {
	Height      int64
	Time        time.Time
	Proposer    []byte
	Misbehavior int
	Err         string
	In          c14Input
	HasPost     bool
	Out         c14Output
}

type c14Oracle struct {
	BaseOracle
	s *Sim
	// caps[replica][height] is the most recent BeginBlock execution of that height.
	caps map[int]map[int64]*c14Capture
	// checked[height] maps the digest of an already checked input to the digest of its output.
	checked map[int64]map[string]string
	// model is the validator set obtained by applying every block's validator updates to the
	// genesis set; modelAt[h] is its value after block h.
	model   map[string]int64
	modelAt map[int64]map[string]int64

	elections, valChanges, committees int
}

func newC14Oracle() *c14Oracle {
	return &c14Oracle{caps: map[int]map[int64]*c14Capture{}, checked: map[int64]map[string]string{}, modelAt: map[int64]map[string]int64{}}
}

func c14Viol(kind, what, detail string) *core.Violation {
	fp := kind
	if what != "" {
		fp = kind + " " + what
	}
	return &core.Violation{Property: "C14", Kind: kind, Fingerprint: fp, Detail: detail}
}

func (o *c14Oracle) slot(rep int, h int64) *c14Capture {
	m := o.caps[rep]
	if m == nil {
		m = map[int64]*c14Capture{}
		o.caps[rep] = m
	}
	return m[h]
}

func (o *c14Oracle) capturePre(rep int, ctx *cmtapi.Context) {
	c := &c14Capture{Height: ctx.CurrentHeight()}
	if o.caps[rep] == nil {
		o.caps[rep] = map[int64]*c14Capture{}
	}
	o.caps[rep][c.Height] = c
	if o.s == nil {
		// (stand-alone use by Sim.electionFailure: nothing consumes the captures)
		delete(o.caps[rep], c.Height-3)
	}
	bc := ctx.BlockContext()
	c.Time, c.Proposer, c.Misbehavior = bc.Time, append([]byte{}, bc.ProposerAddress...), len(bc.ValidatorMisbehavior)
	fail := func(what string, err error) { c.Err = fmt.Sprintf("%s: %v", what, err) }
	in := &c.In
	var err error
	bs := beaconState.NewImmutableState(ctx.State())
	if in.Epoch, in.EpochHeight, err = bs.GetEpoch(ctx); err != nil {
		fail("epoch", err)
		return
	}
	if in.Entropy, err = bs.Beacon(ctx); err != nil {
		in.Entropy = nil // no beacon before the first epoch transition
	}
	bp, err := bs.ConsensusParameters(ctx)
	if err != nil {
		fail("beacon parameters", err)
		return
	}
	in.BeaconBackend = bp.Backend
	if bp.Backend == beacon.BackendVRF {
		vs, err := bs.VRFState(ctx)
		if err != nil {
			fail("vrf state", err)
			return
		}
		if vs != nil && vs.PrevState != nil {
			for id, pi := range vs.PrevState.Pi {
				if pi != nil {
					in.VRFProvers = append(in.VRFProvers, id)
				}
			}
			sort.Slice(in.VRFProvers, func(i, j int) bool { return bytes.Compare(in.VRFProvers[i][:], in.VRFProvers[j][:]) < 0 })
			in.VRFCanElect = vs.PrevState.CanElectCommittees
		}
	}
	ss := schedulerState.NewImmutableState(ctx.State())
	if in.Sched, err = ss.ConsensusParameters(ctx); err != nil {
		fail("scheduler parameters", err)
		return
	}
	if in.PrevVals, err = ss.CurrentValidators(ctx); err != nil {
		fail("current validators", err)
		return
	}
	if pc, err := ss.AllCommittees(ctx); err == nil {
		in.PrevCommittees = len(pc)
	}
	st := stakingState.NewImmutableState(ctx.State())
	if in.Thresholds, err = st.Thresholds(ctx); err != nil {
		fail("thresholds", err)
		return
	}
	rs := registryState.NewImmutableState(ctx.State())
	if in.Nodes, err = rs.Nodes(ctx); err != nil {
		fail("nodes", err)
		return
	}
	in.Entities = map[staking.Address]*c14Entity{}
	for _, n := range in.Nodes {
		ns, err := rs.NodeStatus(ctx, n.ID)
		if err != nil {
			fail("node status", err)
			return
		}
		in.Status = append(in.Status, ns)
		addr := staking.NewAddress(n.EntityID)
		if in.Entities[addr] == nil {
			acct, err := st.Account(ctx, addr)
			if err != nil {
				fail("account", err)
				return
			}
			in.Entities[addr] = &c14Entity{Escrow: *acct.Escrow.Active.Balance.Clone(), Claims: acct.Escrow.StakeAccumulator.Claims}
		}
	}
	if in.Runtimes, err = rs.Runtimes(ctx); err != nil {
		fail("runtimes", err)
		return
	}
	in.Slashed = ctx.HasEvent(c14StakingAppName, &staking.TakeEscrowEvent{})
}

func (o *c14Oracle) capturePost(rep int, ctx *cmtapi.Context) {
	c := o.slot(rep, ctx.CurrentHeight())
	if c == nil || c.HasPost || c.Err != "" {
		if c != nil && c.HasPost {
			c.Err = "post probe ran twice for one pre probe"
		}
		return
	}
	c.HasPost = true
	var err error
	ss := schedulerState.NewImmutableState(ctx.State())
	if c.Out.Pending, err = ss.PendingValidators(ctx); err != nil {
		c.Err = fmt.Sprintf("pending validators: %v", err)
		return
	}
	if c.Out.Committees, err = ss.AllCommittees(ctx); err != nil {
		c.Err = fmt.Sprintf("committees: %v", err)
		return
	}
	rs := registryState.NewImmutableState(ctx.State())
	for i, n := range c.In.Nodes {
		ns, err := rs.NodeStatus(ctx, n.ID)
		if err != nil {
			c.Err = fmt.Sprintf("node status (post): %v", err)
			return
		}
		if !bytes.Equal(cbor.Marshal(ns), cbor.Marshal(c.In.Status[i])) {
			c.Out.StatusChanged = true
		}
	}
}

func pkHex(pk signature.PublicKey) string { return hex.EncodeToString(pk[:]) }

func valSetMap(vs *cmttypes.ValidatorSet) map[string]int64 {
	m := map[string]int64{}
	if vs == nil {
		return m
	}
	for _, v := range vs.Validators {
		m[hex.EncodeToString(v.PubKey.Bytes())] = v.VotingPower
	}
	return m
}

func schedValMap(vals map[signature.PublicKey]*scheduler.Validator) map[string]int64 {
	m := map[string]int64{}
	for k, v := range vals {
		m[pkHex(k)] = v.VotingPower
	}
	return m
}

func fmtValMap(m map[string]int64) string {
	var ks []string
	for k := range m {
		ks = append(ks, k)
	}
	sort.Strings(ks)
	var sb strings.Builder
	sb.WriteString("{")
	for i, k := range ks {
		if i > 0 {
			sb.WriteString(" ")
		}
		fmt.Fprintf(&sb, "%s:%d", k[:8], m[k])
	}
	sb.WriteString("}")
	return sb.String()
}

func eqValMap(a, b map[string]int64) bool {
	if len(a) != len(b) {
		return false
	}
	for k, v := range a {
		if w, ok := b[k]; !ok || w != v {
			return false
		}
	}
	return true
}

func copyValMap(a map[string]int64) map[string]int64 {
	m := make(map[string]int64, len(a))
	for k, v := range a {
		m[k] = v
	}
	return m
}

func (o *c14Oracle) Init(s *Sim) *core.Violation {
	o.s = s
	ref := s.Ref()
	if ref == nil {
		core.Harnessf("c14: no reference replica at start")
	}
	// The set CometBFT starts with (from InitChain) is the previous set of the first election.
	o.model = valSetMap(ref.State.Validators)
	if !eqValMap(o.model, valSetMap(ref.State.NextValidators)) {
		core.Harnessf("c14: genesis validator sets differ")
	}
	o.modelAt[s.Height] = copyValMap(o.model)
	// Nodes that the workload may add to non-anchor entities later can vote once elected.
	for i := s.K.Gen.Anchors; i < len(s.W.Entities); i++ {
		for j := 0; j < 2; j++ {
			nk := c14ExtraNode(s.W, i, j)
			pk := nk.Identity.ConsensusSigner.Public()
			s.Keys[string(crypto.PublicKeyToCometBFT(&pk).Address())] = nk
		}
	}
	return nil
}

func (o *c14Oracle) AfterBlock(s *Sim, h int64, blk *cmttypes.Block, _ []*BuiltTx, res *BlockResult) *core.Violation {
	// 1. Elections observed by every replica that executed this (or, catching up, an earlier) height.
	var refCap *c14Capture
	for _, r := range s.Reps {
		m := o.caps[r.Idx]
		var hs []int64
		for ch := range m {
			hs = append(hs, ch)
		}
		sort.Slice(hs, func(i, j int) bool { return hs[i] < hs[j] })
		for _, ch := range hs {
			c := m[ch]
			if !r.Up || ch > r.State.LastBlockHeight {
				if ch < h {
					delete(m, ch) // an execution that was never committed by this replica
				}
				continue
			}
			delete(m, ch)
			b := s.Blocks[ch]
			if ch == h {
				b = blk
			}
			if b == nil {
				continue
			}
			if c.Err != "" {
				core.Harnessf("c14: probe failed on replica %d at height %d: %s", r.Idx, ch, c.Err)
			}
			if !c.Time.Equal(b.Time) || !bytes.Equal(c.Proposer, b.ProposerAddress) || c.Misbehavior != len(b.Evidence.Evidence) || !c.HasPost {
				core.Harnessf("c14: the last BeginBlock replica %d executed for height %d is not the committed block (time %v/%v proposer %x/%x evidence %d/%d post %v)",
					r.Idx, ch, c.Time, b.Time, c.Proposer, b.ProposerAddress, c.Misbehavior, len(b.Evidence.Evidence), c.HasPost)
			}
			if ch == h && refCap == nil {
				refCap = c
			}
			if v := o.checkCapture(s, r, c); v != nil {
				return v
			}
		}
	}
	for ch := range o.checked {
		if ch < h-8 {
			delete(o.checked, ch)
		}
	}

	// 2. The validator updates handed to CometBFT, applied to the previous set.
	prev := copyValMap(o.model)
	for _, u := range res.ValUpdates {
		i := strings.IndexByte(u, '/')
		if i < 0 {
			core.Harnessf("c14: malformed validator update %q", u)
		}
		key := u[:i]
		power, err := strconv.ParseInt(u[i+1:], 10, 64)
		if err != nil {
			core.Harnessf("c14: malformed validator update %q", u)
		}
		if power == 0 {
			if _, ok := o.model[key]; !ok {
				return c14Viol("validator-updates", "remove-nonmember", fmt.Sprintf("height %d: validator update removes %s which is not in the previous set %s", h, key[:8], fmtValMap(prev)))
			}
			delete(o.model, key)
		} else {
			o.model[key] = power
		}
	}
	o.modelAt[h] = copyValMap(o.model)
	delete(o.modelAt, h-4)
	if len(res.ValUpdates) > 0 && !eqValMap(prev, o.model) {
		s.St.Inc("probe.c14.validator_set_changed")
		o.valChanges++
	}
	if refCap != nil {
		switch {
		case refCap.Out.Pending == nil:
			if len(res.ValUpdates) > 0 {
				return c14Viol("validator-updates", "without-election", fmt.Sprintf("height %d: no election ran but validator updates %v were returned", h, res.ValUpdates))
			}
		default:
			want := schedValMap(refCap.Out.Pending)
			if !eqValMap(o.model, want) {
				return c14Viol("validator-updates", "do-not-produce-elected-set", fmt.Sprintf("height %d: previous validator set %s with updates %v applied gives %s, but the newly elected set is %s", h, fmtValMap(prev), res.ValUpdates, fmtValMap(o.model), fmtValMap(want)))
			}
		}
	}
	ref := s.Ref()
	if ref == nil {
		return nil
	}
	// The set CometBFT derived for height h+2, and the set it uses at h+1 (decided at h-1).
	if got := valSetMap(ref.State.NextValidators); !eqValMap(got, o.model) {
		return c14Viol("validator-updates", "cometbft-next-set-differs", fmt.Sprintf("height %d: CometBFT's validator set for height %d is %s but the elected set is %s", h, h+2, fmtValMap(got), fmtValMap(o.model)))
	}
	if m, ok := o.modelAt[h-1]; ok {
		if got := valSetMap(ref.State.Validators); !eqValMap(got, m) {
			return c14Viol("validator-updates", "cometbft-set-differs", fmt.Sprintf("height %d: CometBFT's validator set for height %d is %s but the set elected by height %d is %s", h, h+1, fmtValMap(got), h-1, fmtValMap(m)))
		}
	}
	// The scheduler's committed record of the current set and committees.
	tree, err := ref.TreeAt(h)
	if err != nil {
		core.Harnessf("c14: cannot open state at %d: %v", h, err)
	}
	defer tree.Close()
	ss := schedulerState.NewImmutableState(tree)
	cur, err := ss.CurrentValidators(s.Ctx)
	if err != nil {
		core.Harnessf("c14: current validators: %v", err)
	}
	if got := schedValMap(cur); !eqValMap(got, o.model) {
		return c14Viol("validator-updates", "scheduler-current-set-differs", fmt.Sprintf("height %d: the scheduler records %s as the current validator set but the updates handed to CometBFT produce %s", h, fmtValMap(got), fmtValMap(o.model)))
	}
	if pend, err := ss.PendingValidators(s.Ctx); err != nil || pend != nil {
		return c14Viol("validator-updates", "pending-not-cleared", fmt.Sprintf("height %d: a pending validator set remains in committed state (err=%v)", h, err))
	}
	if refCap != nil {
		comms, err := ss.AllCommittees(s.Ctx)
		if err != nil {
			core.Harnessf("c14: committees: %v", err)
		}
		if a, b := cbor.Marshal(comms), cbor.Marshal(refCap.Out.Committees); !bytes.Equal(a, b) {
			return c14Viol("committee", "changed-outside-election", fmt.Sprintf("height %d: committees in committed state differ from the committees right after the scheduler's BeginBlock", h))
		}
	}
	return nil
}

func (o *c14Oracle) Finish(s *Sim) (*core.Violation, bool) {
	return nil, o.elections >= 2 && (o.valChanges > 0 || o.committees > 0)
}

// checkCapture checks one observed BeginBlock execution.
func (o *c14Oracle) checkCapture(s *Sim, r *Replica, c *c14Capture) *core.Violation {
	in, out := &c.In, &c.Out
	inD := string(cbor.Marshal(in))
	outD := string(cbor.Marshal(out))
	seen := o.checked[c.Height]
	if seen == nil {
		seen = map[string]string{}
		o.checked[c.Height] = seen
	}
	if prevOut, ok := seen[inD]; ok {
		if prevOut != outD {
			return c14Viol("nondeterministic", "", fmt.Sprintf("height %d: replica %d elected a different result than another replica from byte-identical beacon/registry/staking/scheduler input", c.Height, r.Idx))
		}
		return nil
	}
	if len(seen) > 0 {
		// Replicas disagree about the state before the election: not an election matter (C01).
		s.St.Inc("probe.c14.replicas_disagree_on_election_input")
		s.Aborted = "state-divergence-before-election"
		return nil
	}
	seen[inD] = outD

	// An epoch transition in the block right after the initial height is, "for historic reasons"
	// (abci/state.go EpochChanged), not treated as a transition by any application: no election.
	epochChanged := in.EpochHeight == c.Height && in.Epoch != s.W.Doc.Beacon.Base && c.Height > s.W.Doc.Height+1
	if out.Pending == nil {
		if epochChanged {
			return c14Viol("election-missing", "", fmt.Sprintf("height %d: the epoch changed to %d but no validator set was elected", c.Height, in.Epoch))
		}
		if in.Slashed && in.Epoch != s.W.Doc.Beacon.Base {
			s.St.Inc("probe.c14.slashed_without_election")
		}
		return nil
	}
	if !epochChanged && !in.Slashed {
		return c14Viol("election-unexpected", "", fmt.Sprintf("height %d: a validator set was elected although the epoch (%d since height %d) did not change and no stake was slashed", c.Height, in.Epoch, in.EpochHeight))
	}
	if out.StatusChanged {
		s.St.Inc("probe.c14.skipped_status_changed_inside_election")
		return nil
	}
	o.elections++
	s.St.Inc("probe.c14.elections_checked")
	if !epochChanged {
		s.St.Inc("probe.c14.elections_after_slashing")
	}
	if v := c14CheckValidators(s.St, c); v != nil {
		return v
	}
	nc, v := c14CheckCommittees(s.St, c)
	if v != nil {
		return v
	}
	o.committees += nc
	return nil
}

// c14Elig recomputes node and entity eligibility from a captured input.
type c14Elig struct {
	in     *c14Input
	byID   map[signature.PublicKey]int
	bypass bool
}

func newC14Elig(in *c14Input) *c14Elig {
	e := &c14Elig{in: in, byID: map[signature.PublicKey]int{}, bypass: in.Sched.DebugBypassStake}
	for i, n := range in.Nodes {
		e.byID[n.ID] = i
	}
	return e
}

// proved reports whether the node submitted a VRF proof during the previous epoch.
func (e *c14Elig) proved(id signature.PublicKey) bool {
	i := sort.Search(len(e.in.VRFProvers), func(i int) bool { return bytes.Compare(e.in.VRFProvers[i][:], id[:]) >= 0 })
	return i < len(e.in.VRFProvers) && e.in.VRFProvers[i].Equal(id)
}

func (e *c14Elig) vrf() bool { return e.in.BeaconBackend == beacon.BackendVRF }

func (e *c14Elig) expired(i int) bool { return e.in.Nodes[i].Expiration < e.in.Epoch }
func (e *c14Elig) frozen(i int) bool  { return e.in.Status[i].FreezeEndTime > 0 }

// claimsTotal sums every threshold of every stake claim of the entity.
func (e *c14Elig) claimsTotal(addr staking.Address) (*quantity.Quantity, bool) {
	total := quantity.NewQuantity()
	ent := e.in.Entities[addr]
	if ent == nil {
		return total, false
	}
	var claims []string
	for c := range ent.Claims {
		claims = append(claims, string(c))
	}
	sort.Strings(claims)
	for _, c := range claims {
		for _, t := range ent.Claims[staking.StakeClaim(c)] {
			switch {
			case t.Global != nil:
				q := e.in.Thresholds[*t.Global]
				_ = total.Add(&q)
			case t.Constant != nil:
				_ = total.Add(t.Constant)
			default:
				return total, false
			}
		}
	}
	return total, true
}

// stakeOK reports whether the entity's escrow covers all of its stake claims.
func (e *c14Elig) stakeOK(addr staking.Address) bool {
	if e.bypass {
		return true
	}
	total, ok := e.claimsTotal(addr)
	if !ok {
		return false
	}
	return e.in.Entities[addr].Escrow.Cmp(total) >= 0
}

func (e *c14Elig) escrow(addr staking.Address) *quantity.Quantity {
	if ent := e.in.Entities[addr]; ent != nil {
		return &ent.Escrow
	}
	return quantity.NewQuantity()
}

// c14Power is the voting power the scheduler API documents for a stake.
func c14Power(stake *quantity.Quantity, dist scheduler.VotingPowerDistribution) (int64, bool) {
	b := new(big.Int).Set(stake.ToBigInt())
	switch dist {
	case scheduler.VotingPowerDistributionLinear:
		b.Quo(b, scheduler.BaseUnitsPerVotingPower.ToBigInt())
	case scheduler.VotingPowerDistributionSqrt:
		b.Sqrt(b)
	default:
		return 0, false
	}
	if b.Sign() == 0 {
		return 1, true
	}
	if !b.IsInt64() {
		return 0, false
	}
	return b.Int64(), true
}

func c14CheckValidators(st *core.Stats, c *c14Capture) *core.Violation {
	in, out := &c.In, &c.Out
	e := newC14Elig(in)
	h := c.Height
	type entInfo struct {
		addr     staking.Address
		stake    *quantity.Quantity
		eligible int
		elected  int
		// all counts the eligible validator nodes whether or not they submitted a VRF proof.
		all int
	}
	ents := map[staking.Address]*entInfo{}
	get := func(addr staking.Address) *entInfo {
		if ents[addr] == nil {
			ents[addr] = &entInfo{addr: addr, stake: e.escrow(addr)}
		}
		return ents[addr]
	}
	// VRF backend: when at least MinValidators eligible validator nodes submitted a proof during the
	// previous epoch, the validator nodes are ordered by their hashed proofs and only those nodes
	// are candidates; otherwise the election falls back to the per-epoch entropy (ADR 0010).
	vrfPath := false
	if e.vrf() {
		// (the seats the provers can fill: at most MaxValidatorsPerEntity per entity)
		withPi := 0
		perEntity := map[signature.PublicKey]int{}
		for i, n := range in.Nodes {
			if n.HasRoles(node.RoleValidator) && !e.frozen(i) && !e.expired(i) && e.stakeOK(staking.NewAddress(n.EntityID)) && e.proved(n.ID) && perEntity[n.EntityID] < in.Sched.MaxValidatorsPerEntity {
				perEntity[n.EntityID]++
				withPi++
			}
		}
		vrfPath = withPi >= in.Sched.MinValidators
		if vrfPath {
			st.Inc("probe.c14.vrf.validators_ordered_by_hashed_proofs")
		} else {
			st.Inc("probe.c14.vrf.validator_election_fell_back_to_entropy")
		}
	}
	for i, n := range in.Nodes {
		if !n.HasRoles(node.RoleValidator) {
			continue
		}
		addr := staking.NewAddress(n.EntityID)
		switch {
		case e.frozen(i):
			st.Inc("probe.c14.validator_node_excluded_frozen")
		case e.expired(i):
			st.Inc("probe.c14.validator_node_excluded_expired")
		case !e.stakeOK(addr):
			st.Inc("probe.c14.validator_node_excluded_insufficient_stake")
		case vrfPath && !e.proved(n.ID):
			st.Inc("probe.c14.vrf.validator_node_without_proof_not_a_candidate")
			get(addr).all++
		default:
			get(addr).eligible++
			get(addr).all++
		}
	}
	// (1) Every elected validator is eligible.
	var keys []signature.PublicKey
	for k := range out.Pending {
		keys = append(keys, k)
	}
	sort.Slice(keys, func(i, j int) bool { return bytes.Compare(keys[i][:], keys[j][:]) < 0 })
	for _, k := range keys {
		v := out.Pending[k]
		if v == nil {
			return c14Viol("ineligible-validator", "nil-entry", fmt.Sprintf("height %d: elected validator %s has no entry", h, k))
		}
		i, ok := e.byID[v.ID]
		if !ok {
			return c14Viol("ineligible-validator", "not-registered", fmt.Sprintf("height %d epoch %d: elected validator node %s is not registered", h, in.Epoch, v.ID))
		}
		n := in.Nodes[i]
		addr := staking.NewAddress(n.EntityID)
		switch {
		case !n.Consensus.ID.Equal(k):
			return c14Viol("ineligible-validator", "consensus-key-mismatch", fmt.Sprintf("height %d: validator entry %s belongs to node %s whose consensus key is %s", h, k, n.ID, n.Consensus.ID))
		case !n.EntityID.Equal(v.EntityID):
			return c14Viol("ineligible-validator", "entity-mismatch", fmt.Sprintf("height %d: validator node %s is recorded with entity %s but is registered by %s", h, n.ID, v.EntityID, n.EntityID))
		case e.expired(i):
			return c14Viol("ineligible-validator", "expired", fmt.Sprintf("height %d epoch %d: elected validator node %s expired at epoch %d", h, in.Epoch, n.ID, n.Expiration))
		case e.frozen(i):
			return c14Viol("ineligible-validator", "frozen", fmt.Sprintf("height %d epoch %d: elected validator node %s is frozen until epoch %d", h, in.Epoch, n.ID, in.Status[i].FreezeEndTime))
		case !n.HasRoles(node.RoleValidator):
			return c14Viol("ineligible-validator", "no-validator-role", fmt.Sprintf("height %d: elected validator node %s has roles %s", h, n.ID, n.Roles))
		case !e.stakeOK(addr):
			total, _ := e.claimsTotal(addr)
			return c14Viol("ineligible-validator", "insufficient-stake", fmt.Sprintf("height %d epoch %d: elected validator node %s belongs to entity %s whose escrow %s does not cover its stake claims %s", h, in.Epoch, n.ID, addr, e.escrow(addr), total))
		}
		get(addr).elected++
	}
	// (2) Limits.
	p := in.Sched
	if len(out.Pending) > p.MaxValidators {
		return c14Viol("validator-limits", "max-validators", fmt.Sprintf("height %d: %d validators elected, MaxValidators is %d", h, len(out.Pending), p.MaxValidators))
	}
	if len(out.Pending) < p.MinValidators || len(out.Pending) == 0 {
		return c14Viol("validator-limits", "min-validators", fmt.Sprintf("height %d: %d validators elected, MinValidators is %d", h, len(out.Pending), p.MinValidators))
	}
	var list []*entInfo
	for _, ei := range ents {
		list = append(list, ei)
	}
	sort.Slice(list, func(i, j int) bool { return bytes.Compare(list[i].addr[:], list[j].addr[:]) < 0 })
	wantOf := func(ei *entInfo) int { return min(ei.eligible, p.MaxValidatorsPerEntity) }
	capacity := 0
	for _, ei := range list {
		if ei.elected > p.MaxValidatorsPerEntity {
			return c14Viol("validator-limits", "max-validators-per-entity", fmt.Sprintf("height %d: entity %s has %d validators elected, MaxValidatorsPerEntity is %d", h, ei.addr, ei.elected, p.MaxValidatorsPerEntity))
		}
		if ei.eligible > p.MaxValidatorsPerEntity {
			st.Inc("probe.c14.validators_per_entity_cap_hit")
		}
		capacity += wantOf(ei)
	}
	if vrfPath {
		// (A validator without a proof is not a candidate of a proof-ordered election, but the
		// property does not forbid electing it: only the lower bound is judged.)
		capAll := 0
		for _, ei := range list {
			capAll += min(ei.all, p.MaxValidatorsPerEntity)
		}
		if n := len(out.Pending); n > min(capAll, p.MaxValidators) {
			return c14Viol("validator-order", "set-overfull", fmt.Sprintf("height %d epoch %d: %d validators elected although only %d eligible validator nodes (within the per-entity limit %d) exist and MaxValidators is %d", h, in.Epoch, n, capAll, p.MaxValidatorsPerEntity, p.MaxValidators))
		}
	}
	if want := min(capacity, p.MaxValidators); (!vrfPath && len(out.Pending) != want) || (vrfPath && len(out.Pending) < want) {
		return c14Viol("validator-order", "set-not-full", fmt.Sprintf("height %d epoch %d: %d validators elected although %d eligible validator nodes (within the per-entity limit %d) exist and MaxValidators is %d", h, in.Epoch, len(out.Pending), capacity, p.MaxValidatorsPerEntity, p.MaxValidators))
	}
	if capacity > p.MaxValidators {
		st.Inc("probe.c14.max_validators_binding")
	}
	if e.bypass {
		for _, k := range keys {
			if out.Pending[k].VotingPower != 1 {
				return c14Viol("voting-power", "bypass-not-flat", fmt.Sprintf("height %d: stake checks are bypassed but validator %s has power %d", h, k, out.Pending[k].VotingPower))
			}
		}
		return nil
	}
	// (3) Descending entity-stake order: an entity that did not get all the validators it could
	// have means every entity with strictly less escrow got none. Ties may go either way.
	tie := false
	for _, a := range list {
		for _, b := range list {
			cmp := a.stake.Cmp(b.stake)
			if cmp == 0 && a != b {
				tie = true
			}
			if cmp > 0 && a.elected < wantOf(a) && b.elected > 0 {
				return c14Viol("validator-order", "lower-stake-preferred", fmt.Sprintf("height %d epoch %d: entity %s (escrow %s, %d eligible validator nodes) got %d validators while entity %s with less escrow %s got %d", h, in.Epoch, a.addr, a.stake, a.eligible, a.elected, b.addr, b.stake, b.elected))
			}
		}
	}
	if tie {
		st.Inc("probe.c14.escrow_ties_among_eligible_entities")
	}
	// Voting power is a non-decreasing function of stake (and the documented one).
	for _, ka := range keys {
		a := out.Pending[ka]
		sa := e.escrow(staking.NewAddress(a.EntityID))
		if a.VotingPower <= 0 {
			return c14Viol("voting-power", "not-positive", fmt.Sprintf("height %d: validator %s has power %d", h, ka, a.VotingPower))
		}
		for _, kb := range keys {
			b := out.Pending[kb]
			sb := e.escrow(staking.NewAddress(b.EntityID))
			if cmp := sa.Cmp(sb); (cmp < 0 && a.VotingPower > b.VotingPower) || (cmp == 0 && a.VotingPower != b.VotingPower) {
				return c14Viol("voting-power", "not-monotone", fmt.Sprintf("height %d: validator %s (entity escrow %s) has power %d but validator %s (entity escrow %s) has power %d", h, ka, sa, a.VotingPower, kb, sb, b.VotingPower))
			}
		}
		if want, ok := c14Power(sa, p.VotingPowerDistribution); ok && want != a.VotingPower {
			return c14Viol("voting-power", "not-derived-from-stake", fmt.Sprintf("height %d: validator %s has power %d, entity escrow %s gives %d under distribution %d", h, ka, a.VotingPower, sa, want, p.VotingPowerDistribution))
		}
	}
	return nil
}

// c14ActiveVersion is the runtime's deployment in force at the epoch: the latest one that is
// already valid.
func c14ActiveVersion(rt *registry.Runtime, epoch beacon.EpochTime) *registry.VersionInfo {
	var act *registry.VersionInfo
	for _, d := range rt.Deployments {
		if d == nil || d.ValidFrom > epoch {
			continue
		}
		if act == nil || d.ValidFrom > act.ValidFrom {
			act = d
		}
	}
	return act
}

// workerSuitable reports whether node i may serve on the executor committee of rt (stake aside).
// known=false means the case is outside what the oracle models (TEE runtimes).
func (e *c14Elig) workerSuitable(i int, rt *registry.Runtime) (ok bool, why string) {
	n, ns := e.in.Nodes[i], e.in.Status[i]
	switch {
	case e.frozen(i):
		return false, "frozen"
	case e.expired(i):
		return false, "expired"
	case !n.HasRoles(node.RoleComputeWorker):
		return false, "no-compute-role"
	}
	act := c14ActiveVersion(rt, e.in.Epoch)
	if act == nil {
		return false, "no-active-deployment"
	}
	for _, nrt := range n.Runtimes {
		if nrt == nil || !nrt.ID.Equal(&rt.ID) || nrt.Version != act.Version {
			continue
		}
		if f := ns.Faults[rt.ID]; f != nil && f.SuspendedUntil > 0 && e.in.Epoch < f.SuspendedUntil {
			return false, "suspended"
		}
		if nrt.Capabilities.TEE != nil {
			return false, "tee-on-non-tee-runtime"
		}
		return true, ""
	}
	return false, "runtime-version"
}

func c14CheckCommittees(st *core.Stats, c *c14Capture) (int, *core.Violation) {
	in, out := &c.In, &c.Out
	e := newC14Elig(in)
	h := c.Height
	if in.Sched.DebugForceElect != nil || (in.BeaconBackend != beacon.BackendInsecure && in.BeaconBackend != beacon.BackendVRF) {
		st.Inc("probe.c14.committee_checks_skipped_unmodelled")
		return 0, nil
	}
	// VRF backend (ADR 0010): committees are elected only when the previous epoch's input was of
	// high quality, and only among nodes that submitted a proof during the previous epoch and
	// have been registered since before the previous epoch transition.
	vrfBlocked := e.vrf() && !in.VRFCanElect && !in.Sched.DebugAllowWeakAlpha
	if e.vrf() {
		if vrfBlocked && in.PrevCommittees > 0 {
			st.Inc("probe.c14.vrf.weak_alpha_right_after_an_epoch_with_a_committee")
		}
		if vrfBlocked {
			st.Inc("probe.c14.vrf.committee_elections_blocked_by_weak_alpha")
		} else {
			st.Inc("probe.c14.vrf.committee_elections_allowed")
		}
	}
	valEntities := map[staking.Address]bool{}
	for _, v := range out.Pending {
		valEntities[staking.NewAddress(v.EntityID)] = true
	}
	byRuntime := map[common.Namespace][]*scheduler.Committee{}
	for _, cm := range out.Committees {
		byRuntime[cm.RuntimeID] = append(byRuntime[cm.RuntimeID], cm)
	}
	roles := []scheduler.Role{scheduler.RoleWorker, scheduler.RoleBackupWorker}
	elected := 0
	for _, rt := range in.Runtimes {
		if rt.Kind != registry.KindCompute {
			continue
		}
		if rt.TEEHardware != node.TEEHardwareInvalid {
			st.Inc("probe.c14.committee_checks_skipped_unmodelled")
			continue
		}
		sizes := map[scheduler.Role]int{scheduler.RoleWorker: int(rt.Executor.GroupSize), scheduler.RoleBackupWorker: int(rt.Executor.GroupBackupSize)}
		cs := rt.Constraints[scheduler.KindComputeExecutor]
		// Eligible pool per role.
		pool := map[scheduler.Role]map[signature.PublicKey]bool{}
		poolSize := map[scheduler.Role]int{}
		electable := sizes[scheduler.RoleWorker] > 0
		why := ""
		if !electable {
			why = "group size 0"
		}
		for _, role := range roles {
			pool[role] = map[signature.PublicKey]bool{}
			perEntity := map[signature.PublicKey]int{}
			for i, n := range in.Nodes {
				addr := staking.NewAddress(n.EntityID)
				ok, reason := e.workerSuitable(i, rt)
				if ok && !e.stakeOK(addr) {
					ok, reason = false, "insufficient-stake"
				}
				if ok && cs[role].ValidatorSet != nil && !valEntities[addr] {
					ok, reason = false, "entity-not-in-validator-set"
				}
				if ok && e.vrf() && !in.Sched.DebugAllowWeakAlpha && !in.Status[i].IsEligibleForElection(in.Epoch) {
					ok, reason = false, "vrf-registered-too-recently"
				}
				if ok && e.vrf() && !e.proved(n.ID) {
					ok, reason = false, "vrf-no-proof"
				}
				if !ok {
					if role == scheduler.RoleWorker && n.HasRoles(node.RoleComputeWorker) {
						st.Inc("probe.c14.compute_node_excluded_" + reason)
					}
					continue
				}
				pool[role][n.ID] = true
				perEntity[n.EntityID]++
			}
			size := len(pool[role])
			if mn := cs[role].MaxNodes; mn != nil && mn.Limit > 0 {
				size = 0
				for _, cnt := range perEntity {
					if cnt > int(mn.Limit) {
						st.Inc("probe.c14.committee_per_entity_cap_hit")
					}
					size += min(cnt, int(mn.Limit))
				}
			}
			poolSize[role] = size
			if sizes[role] == 0 {
				continue
			}
			minPool := 0
			if cs[role].MinPoolSize != nil {
				minPool = int(cs[role].MinPoolSize.Limit)
			}
			switch {
			case cs[role].MaxNodes != nil && cs[role].MaxNodes.Limit == 0:
				electable, why = false, "max nodes per entity is 0"
			case size < minPool:
				electable, why = false, fmt.Sprintf("%s pool %d below MinPoolSize %d", role, size, minPool)
			case size < sizes[role]:
				electable, why = false, fmt.Sprintf("%s pool %d below group size %d", role, size, sizes[role])
			}
		}
		if vrfBlocked {
			electable, why = false, "weak VRF alpha"
		}
		cms := byRuntime[rt.ID]
		if len(cms) == 0 {
			if electable {
				return 0, c14Viol("committee", "missing", fmt.Sprintf("height %d epoch %d: runtime %s has no executor committee although %d worker / %d backup candidates are eligible for sizes %d / %d", h, in.Epoch, rt.ID, poolSize[scheduler.RoleWorker], poolSize[scheduler.RoleBackupWorker], sizes[scheduler.RoleWorker], sizes[scheduler.RoleBackupWorker]))
			}
			st.Inc("probe.c14.committee_not_elected")
			if strings.Contains(why, "pool") {
				st.Inc("probe.c14.committee_not_elected_for_lack_of_nodes")
			}
			continue
		}
		if len(cms) > 1 {
			return 0, c14Viol("committee", "duplicate", fmt.Sprintf("height %d: runtime %s has %d committees", h, rt.ID, len(cms)))
		}
		cm := cms[0]
		if cm.Kind != scheduler.KindComputeExecutor || cm.ValidFor != in.Epoch {
			return 0, c14Viol("committee", "stale", fmt.Sprintf("height %d epoch %d: runtime %s keeps a committee of kind %s valid for epoch %d after the election", h, in.Epoch, rt.ID, cm.Kind, cm.ValidFor))
		}
		count := map[scheduler.Role]int{}
		perEntity := map[scheduler.Role]map[signature.PublicKey]int{scheduler.RoleWorker: {}, scheduler.RoleBackupWorker: {}}
		seen := map[scheduler.Role]map[signature.PublicKey]bool{scheduler.RoleWorker: {}, scheduler.RoleBackupWorker: {}}
		backupSeen := false
		for _, m := range cm.Members {
			if m == nil || (m.Role != scheduler.RoleWorker && m.Role != scheduler.RoleBackupWorker) {
				return 0, c14Viol("committee", "invalid-role", fmt.Sprintf("height %d: committee of runtime %s has a member with an invalid role", h, rt.ID))
			}
			if m.Role == scheduler.RoleBackupWorker {
				backupSeen = true
			} else if backupSeen {
				return 0, c14Viol("committee", "member-order", fmt.Sprintf("height %d: committee of runtime %s lists a worker after a backup worker", h, rt.ID))
			}
			i, ok := e.byID[m.PublicKey]
			if !ok {
				return 0, c14Viol("ineligible-committee-member", "not-registered", fmt.Sprintf("height %d epoch %d: committee member %s of runtime %s is not registered", h, in.Epoch, m.PublicKey, rt.ID))
			}
			n := in.Nodes[i]
			addr := staking.NewAddress(n.EntityID)
			if ok, reason := e.workerSuitable(i, rt); !ok {
				return 0, c14Viol("ineligible-committee-member", reason, fmt.Sprintf("height %d epoch %d: committee member %s (%s) of runtime %s is not eligible: %s (expiration %d, roles %s)", h, in.Epoch, n.ID, m.Role, rt.ID, reason, n.Expiration, n.Roles))
			}
			if !e.stakeOK(addr) {
				total, _ := e.claimsTotal(addr)
				return 0, c14Viol("ineligible-committee-member", "insufficient-stake", fmt.Sprintf("height %d epoch %d: committee member %s of runtime %s belongs to entity %s whose escrow %s does not cover its stake claims %s", h, in.Epoch, n.ID, rt.ID, addr, e.escrow(addr), total))
			}
			if cs[m.Role].ValidatorSet != nil && !valEntities[addr] {
				return 0, c14Viol("committee-constraints", "validator-set", fmt.Sprintf("height %d: committee member %s (%s) of runtime %s belongs to entity %s which has no validator in the elected set", h, n.ID, m.Role, rt.ID, addr))
			}
			if seen[m.Role][n.ID] {
				return 0, c14Viol("committee", "duplicate-member", fmt.Sprintf("height %d: node %s appears twice as %s in the committee of runtime %s", h, n.ID, m.Role, rt.ID))
			}
			seen[m.Role][n.ID] = true
			count[m.Role]++
			perEntity[m.Role][n.EntityID]++
		}
		for _, role := range roles {
			if count[role] != sizes[role] {
				return 0, c14Viol("committee-size", role.String(), fmt.Sprintf("height %d epoch %d: committee of runtime %s has %d %s members, the runtime requires exactly %d (or no committee)", h, in.Epoch, rt.ID, count[role], role, sizes[role]))
			}
			if sizes[role] == 0 {
				continue
			}
			if mn := cs[role].MaxNodes; mn != nil {
				var ids []signature.PublicKey
				for id := range perEntity[role] {
					ids = append(ids, id)
				}
				sort.Slice(ids, func(i, j int) bool { return bytes.Compare(ids[i][:], ids[j][:]) < 0 })
				for _, id := range ids {
					if perEntity[role][id] > int(mn.Limit) {
						return 0, c14Viol("committee-constraints", "max-nodes", fmt.Sprintf("height %d: entity %s has %d %s members in the committee of runtime %s, MaxNodes is %d", h, id, perEntity[role][id], role, rt.ID, mn.Limit))
					}
				}
			}
			if mp := cs[role].MinPoolSize; mp != nil && poolSize[role] < int(mp.Limit) {
				return 0, c14Viol("committee-constraints", "min-pool-size", fmt.Sprintf("height %d: committee of runtime %s elected from a %s pool of %d eligible nodes, MinPoolSize is %d", h, rt.ID, role, poolSize[role], mp.Limit))
			}
		}
		if sizes[scheduler.RoleWorker] == 0 {
			return 0, c14Viol("committee-size", "empty", fmt.Sprintf("height %d: runtime %s has a committee without workers", h, rt.ID))
		}
		elected++
		st.Inc("probe.c14.committee_elected")
		if e.vrf() {
			st.Inc("probe.c14.vrf.committee_elected_from_proofs")
		}
	}
	return elected, nil
}
