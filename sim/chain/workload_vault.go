package chain

import (
	"context"
	"encoding/binary"
	"fmt"
	"sort"
	"strings"

	abcitypes "github.com/cometbft/cometbft/abci/types"
	cmttypes "github.com/cometbft/cometbft/types"
	"github.com/oasisprotocol/curve25519-voi/primitives/x25519"

	beacon "github.com/oasisprotocol/oasis-core/go/beacon/api"
	"github.com/oasisprotocol/oasis-core/go/common"
	"github.com/oasisprotocol/oasis-core/go/common/cbor"
	"github.com/oasisprotocol/oasis-core/go/common/crypto/hash"
	"github.com/oasisprotocol/oasis-core/go/common/crypto/signature"
	"github.com/oasisprotocol/oasis-core/go/common/quantity"
	consensus "github.com/oasisprotocol/oasis-core/go/consensus/api"
	"github.com/oasisprotocol/oasis-core/go/consensus/api/events"
	"github.com/oasisprotocol/oasis-core/go/consensus/api/transaction"
	stakingState "github.com/oasisprotocol/oasis-core/go/consensus/cometbft/apps/staking/state"
	vaultState "github.com/oasisprotocol/oasis-core/go/consensus/cometbft/apps/vault/state"
	genesis "github.com/oasisprotocol/oasis-core/go/genesis/api"
	governance "github.com/oasisprotocol/oasis-core/go/governance/api"
	"github.com/oasisprotocol/oasis-core/go/keymanager/churp"
	"github.com/oasisprotocol/oasis-core/go/keymanager/secrets"
	registry "github.com/oasisprotocol/oasis-core/go/registry/api"
	roothash "github.com/oasisprotocol/oasis-core/go/roothash/api"
	"github.com/oasisprotocol/oasis-core/go/roothash/api/commitment"
	staking "github.com/oasisprotocol/oasis-core/go/staking/api"
	"github.com/oasisprotocol/oasis-core/go/storage/mkvs"
	vault "github.com/oasisprotocol/oasis-core/go/vault/api"

	"verif/sim/core"
)

// The vault base extra: the vault application's transactions (Create, AuthorizeAction,
// CancelAction), the staking transactions that interact with vault accounts (funding transfers
// and allowances, policy-governed withdrawals through the account hook) and a few always-refused
// transactions of the remaining applications, so that the base chain oracles (C01, C05, C08, C09,
// C10, C15) also see that code.
//
// All builders are pure functions of (world, op, committed state): every choice is drawn from a
// generator seeded with the op's fields (c17Rand), vaults / pending actions / policies are read
// from the committed tree in key order.

func init() {
	RegisterTxKind("vault.create", buildVaultCreate)
	RegisterTxKind("vault.auth", buildVaultAuth)
	RegisterTxKind("vault.cancel", buildVaultCancel)
	RegisterTxKind("vault.fund", buildVaultFund)
	RegisterTxKind("vault.prefund", buildVaultPrefund)
	RegisterTxKind("vault.withdraw", buildVaultWithdraw)
	RegisterTxKind("appjunk", buildAppJunk)
	RegisterBaseExtra(&BaseExtra{
		Name: "vault",
		Kinds: []string{
			"vault.create", "vault.create",
			"vault.auth", "vault.auth", "vault.auth", "vault.auth", "vault.auth", "vault.auth", "vault.auth", "vault.auth", "vault.auth",
			"vault.cancel", "vault.cancel",
			"vault.fund", "vault.fund", "vault.fund", "vault.prefund",
			"vault.withdraw", "vault.withdraw", "vault.withdraw", "vault.withdraw",
			"appjunk", "appjunk",
		},
		WideArg: true,
		// A vault address is a function of its creator and the creator's nonce, so it can hold
		// value before the vault exists: a pre-funding transaction is followed by a block and by a
		// vault.Create of that creator.
		Follow: func(r *core.Rand, op *TxOp) []Op {
			if op.Kind != "vault.prefund" {
				return nil
			}
			return []Op{
				{K: "block", Block: &BlockOp{Proposer: r.Intn(8), Take: 30, Dt: 1}},
				{K: "tx", Tx: &TxOp{Kind: "vault.create", From: op.To, To: op.From, Arg: r.Intn(1 << 16), Fee: uint64(r.Range(0, 3))}},
				{K: "block", Block: &BlockOp{Proposer: r.Intn(8), Take: 30, Dt: 1}},
			}
		},
		Tune: func(r *core.Rand, k *ChainKnobs) {
			// Funded genesis vaults (single- and multi-signature authorities, withdraw policies), so
			// that actions are authorised and executed from the first block on; small distinct gas
			// costs so that the vault methods fit below a small MaxBlockGas.
			k.Gen.Vaults = r.Range(2, 3)
			k.Gen.VaultGas = k.Gen.GasBase + 40
		},
	})
	for _, prop := range []string{"C01", "C05", "C08", "C09", "C10", "C15"} {
		RegisterOracle(prop, func() Oracle { return &vaultProbe{} })
	}
}

// vaultGenesisID is the identifier of the i-th genesis vault (far from any account nonce that a
// Create transaction of the same creator could use).
func vaultGenesisID(i int) uint64 { return 1<<32 + uint64(i) }

// addGenesisVaults puts k.Vaults funded vaults into the genesis document (called by BuildWorld
// before the total supply is fixed; add accounts for the vault balances). Vault i is created by
// signer i; the admin authorities are 1-of-1, 2-of-2, 2-of-3, ... so that both immediately executed
// and multi-step authorisations occur; the suspend authority is a non-admin; signer i+2 has a
// withdraw policy.
func addGenesisVaults(w *World, doc *genesis.Document, st *staking.Genesis, add func(uint64)) {
	k := w.K
	params := vault.DefaultConsensusParameters
	if k.VaultGas > 0 {
		params.GasCosts = transaction.Costs{
			vault.GasOpCreate:          transaction.Gas(k.VaultGas + 1),
			vault.GasOpAuthorizeAction: transaction.Gas(k.VaultGas + 2),
			vault.GasOpCancelAction:    transaction.Gas(k.VaultGas + 3),
		}
	}
	g := &vault.Genesis{Parameters: params}
	n := w.NumSigners()
	for i := 0; i < k.Vaults; i++ {
		nAdm := min(1+i%3, n)
		var adm []staking.Address
		for j := 0; j < nAdm; j++ {
			adm = append(adm, w.Addr(i+j))
		}
		vlt := &vault.Vault{
			Creator:          w.Addr(i),
			ID:               vaultGenesisID(i),
			State:            vault.StateActive,
			AdminAuthority:   vault.Authority{Addresses: adm, Threshold: uint8(min(nAdm, []int{1, 2, 2}[i%3]))},
			SuspendAuthority: vault.Authority{Addresses: []staking.Address{w.Addr(i + 3)}, Threshold: 1}, // (not an admin member)
		}
		addr := vlt.Address()
		bal := uint64(5000*(i+1)) + k.MinTransact
		if i%2 == 1 {
			bal = uint64(40*i) + k.MinTransact // a poor vault: its withdraw policy allows more than it holds
		}
		st.Ledger[addr] = &staking.Account{General: staking.GeneralAccount{
			Balance: q(bal),
			Hooks:   map[staking.HookKind]staking.HookDestination{staking.HookKindWithdraw: {Module: vault.ModuleName}},
		}}
		add(bal)
		g.Vaults = append(g.Vaults, vlt)
		if g.States == nil {
			g.States = map[staking.Address]map[staking.Address]*vault.AddressState{}
		}
		g.States[addr] = map[staking.Address]*vault.AddressState{
			w.Addr(i + 2): {WithdrawPolicy: vault.WithdrawPolicy{LimitAmount: q(uint64(300 * (i + 1))), LimitInterval: uint64(2 + 3*i)}},
		}
	}
	doc.Vault = g
}

// vaultsOf lists the vaults in the committed state (key order).
func vaultsOf(v TxView) []*vault.Vault {
	vs, err := vaultState.NewImmutableState(v.Tree()).Vaults(context.Background())
	if err != nil {
		return nil
	}
	return vs
}

// vaultPick selects a vault of the state; nil (a non-existent vault is to be addressed) when there
// is none or in one of 16 cases.
func vaultPick(rr *core.Rand, vs []*vault.Vault) *vault.Vault {
	if len(vs) == 0 || rr.Chance(1, 16) {
		return nil
	}
	return vs[rr.Intn(len(vs))]
}

// vaultNoSuch is the address of a vault that does not exist.
func vaultNoSuch(w *World, op TxOp) staking.Address {
	return vault.NewVaultAddress(w.Addr(op.From), 1<<40+uint64(op.Arg))
}

// vaultSignerIdx returns the index of the world signer with the given address (-1 if none).
func vaultSignerIdx(w *World, addr staking.Address) int {
	for i := 0; i < w.NumSigners(); i++ {
		if w.Addr(i).Equal(addr) {
			return i
		}
	}
	return -1
}

func vaultContains(list []staking.Address, a staking.Address) bool {
	for _, x := range list {
		if x.Equal(a) {
			return true
		}
	}
	return false
}

// vaultMember picks a world signer that is a member of one of the authorities and not excluded.
func vaultMember(w *World, rr *core.Rand, auths []*vault.Authority, exclude []staking.Address) signature.Signer {
	var cand []int
	seen := map[int]bool{}
	for _, a := range auths {
		for _, addr := range a.Addresses {
			if i := vaultSignerIdx(w, addr); i >= 0 && !seen[i] && !vaultContains(exclude, addr) {
				seen[i] = true
				cand = append(cand, i)
			}
		}
	}
	if len(cand) == 0 {
		return nil
	}
	return w.Signer(cand[rr.Intn(len(cand))])
}

// vaultWrongMember picks a world signer that is a member of one of the vault's authorities but of
// none of the authorities entitled to the action (e.g. a suspend-only member and an admin action).
func vaultWrongMember(w *World, rr *core.Rand, vlt *vault.Vault, entitled []*vault.Authority) signature.Signer {
	var exclude []staking.Address
	for _, a := range entitled {
		exclude = append(exclude, a.Addresses...)
	}
	return vaultMember(w, rr, vlt.Authorities(), exclude)
}

// vaultOutsider picks a world signer that is in none of the authorities.
func vaultOutsider(w *World, rr *core.Rand, auths []*vault.Authority) signature.Signer {
	n := w.NumSigners()
	start := rr.Intn(n)
	for i := 0; i < n; i++ {
		addr := w.Addr(start + i)
		in := false
		for _, a := range auths {
			in = in || a.Contains(addr)
		}
		if !in {
			return w.Signer(start + i)
		}
	}
	return nil
}

// vaultAuthority builds an authority from signer indexes start, start+step, ...; kind selects the
// invalid variants (threshold zero, threshold above the number of members, duplicate member, no
// members).
func vaultAuthority(w *World, rr *core.Rand, start int, invalid bool) vault.Authority {
	n := min(rr.Pick([]int{0, 5, 3, 2})+0, w.NumSigners())
	n = max(n, 1)
	step := 1 + rr.Intn(2)
	var a vault.Authority
	for j := 0; len(a.Addresses) < n && j < 2*w.NumSigners(); j++ {
		addr := w.Addr(start + j*step)
		if !vaultContains(a.Addresses, addr) {
			a.Addresses = append(a.Addresses, addr)
		}
	}
	a.Threshold = uint8(1 + rr.Pick([]int{4, 2, 1})%len(a.Addresses))
	if invalid {
		switch rr.Intn(4) {
		case 0:
			a.Threshold = 0
		case 1:
			a.Threshold = uint8(len(a.Addresses) + 1)
		case 2:
			a.Addresses = append(a.Addresses, a.Addresses[0])
		default:
			a.Addresses = nil
		}
	}
	return a
}

// buildVaultCreate: vault.Create by op.From with authorities drawn from the signers.
func buildVaultCreate(w *World, op TxOp, v TxView, def signature.Signer, fee *transaction.Fee) (*transaction.Transaction, signature.Signer, error) {
	rr := c17Rand(op)
	bad := rr.Intn(10) // 0, 1: an invalid admin / suspend authority
	body := &vault.Create{
		AdminAuthority:   vaultAuthority(w, rr, op.From+rr.Intn(2), bad == 0),
		SuspendAuthority: vaultAuthority(w, rr, op.To, bad == 1),
	}
	return vault.NewCreateTx(c17Nonce(v, op, def), fee, body), def, nil
}

// vaultAmount resolves an amount relative to base: the op's amount code, and in a quarter of the
// cases more than the base.
func vaultAmount(rr *core.Rand, op TxOp, base *quantity.Quantity, min uint64) quantity.Quantity {
	switch rr.Intn(8) {
	case 0:
		return resolveAmount(AmtAllPlus1, base, min)
	case 1:
		x := base.Clone()
		_ = x.Add(base)
		_ = x.Add(quantity.NewFromUint64(7))
		return *x
	}
	return resolveAmount(op.Amt, base, min)
}

// vaultMessage builds the message of an ExecuteMessage action of the vault.
func vaultMessage(w *World, rr *core.Rand, op TxOp, v TxView, vlt *vault.Vault, vs []*vault.Vault) *vault.ActionExecuteMessage {
	ctx := context.Background()
	vaddr := vlt.Address()
	acct := v.Account(vaddr)
	bal := &acct.General.Balance
	params := v.StakingParams()
	minXfer := params.MinTransferAmount.ToBigInt().Uint64()
	minDeleg := params.MinDelegationAmount.ToBigInt().Uint64()
	other := vs[(rr.Intn(len(vs)))]
	msg := func(m transaction.MethodName, body interface{}) *vault.ActionExecuteMessage {
		return &vault.ActionExecuteMessage{Method: m, Body: cbor.Marshal(body)}
	}
	choice := rr.Pick([]int{6, 3, 3, 2, 3, 2, 1, 1, 1, 1, 1, 1, 1, 1, 1})
	if choice == 9 && !w.K.Runtime {
		choice = 0
	}
	switch choice {
	case 0:
		return msg(staking.MethodTransfer, &staking.Transfer{To: w.Addr(op.To), Amount: vaultAmount(rr, op, bal, minXfer)})
	case 1:
		return msg(staking.MethodAddEscrow, &staking.Escrow{Account: w.Addr(rr.Intn(len(w.Entities))), Amount: vaultAmount(rr, op, bal, minDeleg)})
	case 2:
		// Reclaim from an escrow account in which the vault holds shares, when there is one.
		ist := stakingState.NewImmutableState(v.Tree())
		to, shares := w.Addr(op.To), quantity.NewQuantity()
		for i := 0; i < len(w.Entities); i++ {
			if d, err := ist.Delegation(ctx, vaddr, w.Addr(op.To+i)); err == nil && d != nil && !d.Shares.IsZero() {
				to, shares = w.Addr(op.To+i), d.Shares.Clone()
				break
			}
		}
		return msg(staking.MethodReclaimEscrow, &staking.ReclaimEscrow{Account: to, Shares: vaultAmount(rr, op, shares, 1)})
	case 3:
		return msg(staking.MethodAllow, &staking.Allow{Beneficiary: w.Addr(op.To), Negative: rr.Chance(1, 3), AmountChange: vaultAmount(rr, op, bal, 1)})
	case 4:
		// Withdraw from a signer that gave the vault an allowance, when there is one.
		from, allowance := w.Addr(op.To), quantity.NewFromUint64(1)
		for i := 0; i < w.NumSigners(); i++ {
			if a, ok := v.Account(w.Addr(op.To + i)).General.Allowances[vaddr]; ok && !a.IsZero() {
				from, allowance = w.Addr(op.To+i), a.Clone()
				break
			}
		}
		return msg(staking.MethodWithdraw, &staking.Withdraw{From: from, Amount: vaultAmount(rr, op, allowance, minXfer)})
	case 5:
		return msg(staking.MethodBurn, &staking.Burn{Amount: vaultAmount(rr, op, bal, 1)})
	case 6:
		return &vault.ActionExecuteMessage{Method: transaction.MethodName("verif.Nonexistent"), Body: cbor.Marshal("x")}
	case 7:
		return &vault.ActionExecuteMessage{Method: staking.MethodTransfer, Body: cbor.RawMessage{0x83, 0x01, 0x02, 0x03}}
	case 8:
		ids := v.ActiveProposals()
		id := uint64(op.Arg % 7)
		if len(ids) > 0 {
			id = ids[rr.Intn(len(ids))]
		}
		return msg(governance.MethodCastVote, &governance.ProposalVote{ID: id, Vote: governance.Vote(1 + rr.Intn(3))})
	case 9:
		return msg(roothash.MethodSubmitMsg, &roothash.SubmitMsg{ID: w.RuntimeID, Tag: uint64(op.Arg), Fee: q(w.K.RtMinInMsgFee), Tokens: vaultAmount(rr, op, bal, 1), Data: []byte{byte(op.Arg)}})
	case 10:
		// A vault creating a vault (its account nonce never moves, so the second attempt collides).
		auth := vault.Authority{Addresses: []staking.Address{w.Addr(op.From)}, Threshold: 1}
		return msg(vault.MethodCreate, &vault.Create{AdminAuthority: auth, SuspendAuthority: auth})
	case 11:
		// A vault authorising an action of a vault (itself or another one).
		return msg(vault.MethodAuthorizeAction, &vault.AuthorizeAction{Vault: other.Address(), Nonce: other.Nonce, Action: vault.Action{Resume: &vault.ActionResume{}}})
	case 12:
		return &vault.ActionExecuteMessage{Method: "", Body: cbor.Marshal("x")} // refused by Validate
	case 13:
		// A vault withdrawing from a vault (through the other vault's withdraw hook).
		src := other.Address()
		if rr.Chance(1, 3) {
			src = vaddr // ... or from itself (legal when its own policy lists its own address)
		}
		oa := v.Account(src)
		return msg(staking.MethodWithdraw, &staking.Withdraw{From: src, Amount: vaultAmount(rr, op, &oa.General.Balance, minXfer)})
	default:
		// A system method as a subcall.
		return msg(consensus.MethodMeta, &consensus.BlockMetadata{EventsRoot: make([]byte, 32)})
	}
}

// vaultAction builds a fresh action for the vault.
func vaultAction(w *World, rr *core.Rand, op TxOp, v TxView, vlt *vault.Vault, vs []*vault.Vault) vault.Action {
	acct := v.Account(vlt.Address())
	// A vault whose withdraw policy lists its own address may withdraw from itself: aim at it.
	if as, err := vaultState.NewImmutableState(v.Tree()).AddressState(context.Background(), vlt.Address(), vlt.Address()); err == nil && as != nil && !as.WithdrawPolicy.LimitAmount.IsZero() {
		if rr.Chance(1, 2) {
			amt := resolveAmount(op.Amt, &as.WithdrawPolicy.LimitAmount, 1)
			if rr.Bool() && acct.General.Balance.Cmp(&amt) < 0 {
				amt = *acct.General.Balance.Clone()
			}
			return vault.Action{ExecuteMessage: &vault.ActionExecuteMessage{Method: staking.MethodWithdraw, Body: cbor.Marshal(&staking.Withdraw{From: vlt.Address(), Amount: amt})}}
		}
	} else if rr.Chance(1, 10) {
		return vault.Action{UpdateWithdrawPolicy: &vault.ActionUpdateWithdrawPolicy{
			Address: vlt.Address(),
			Policy:  vault.WithdrawPolicy{LimitAmount: q(uint64(20 + rr.Intn(2000))), LimitInterval: []uint64{1, 5, 50, 1 << 40}[rr.Intn(4)]},
		}}
	}
	switch rr.Pick([]int{1, 2, 5, 2, 14, 1}) {
	case 0:
		return vault.Action{Suspend: &vault.ActionSuspend{}}
	case 1:
		return vault.Action{Resume: &vault.ActionResume{}}
	case 2:
		addr := w.Addr(op.To)
		if rr.Chance(1, 8) {
			addr = vs[rr.Intn(len(vs))].Address() // a vault may withdraw from a vault
			if rr.Bool() {
				addr = vlt.Address() // ... including from itself
			}
		}
		limit := resolveAmount(op.Amt, &acct.General.Balance, 1)
		switch rr.Intn(6) {
		case 0, 1:
			limit = q(uint64(1 + rr.Intn(400)))
		case 2, 3:
			// More than the vault holds: the policy then allows withdrawals that the balance checks
			// refuse afterwards.
			_ = limit.Add(&acct.General.Balance)
			_ = limit.Add(quantity.NewFromUint64(uint64(50 + rr.Intn(1000))))
		}
		return vault.Action{UpdateWithdrawPolicy: &vault.ActionUpdateWithdrawPolicy{
			Address: addr,
			Policy:  vault.WithdrawPolicy{LimitAmount: limit, LimitInterval: []uint64{0, 1, 2, 5, 50, 1 << 40}[rr.Pick([]int{1, 3, 3, 3, 2, 1})]},
		}}
	case 3:
		au := &vault.ActionUpdateAuthority{}
		which := rr.Pick([]int{3, 3, 2, 1}) // admin, suspend, both, none (invalid)
		if which == 0 || which == 2 {
			a := vaultAuthority(w, rr, op.To, rr.Chance(1, 6))
			if rr.Chance(1, 6) && len(a.Addresses) > 0 {
				a.Addresses[len(a.Addresses)-1] = vs[rr.Intn(len(vs))].Address() // a vault as an authority member
			}
			au.AdminAuthority = &a
		}
		if which == 1 || which == 2 {
			a := vaultAuthority(w, rr, op.From, rr.Chance(1, 6))
			au.SuspendAuthority = &a
		}
		return vault.Action{UpdateAuthority: au}
	case 4:
		return vault.Action{ExecuteMessage: vaultMessage(w, rr, op, v, vlt, vs)}
	default:
		if rr.Bool() {
			return vault.Action{} // no action set
		}
		return vault.Action{Suspend: &vault.ActionSuspend{}, Resume: &vault.ActionResume{}}
	}
}

// buildVaultAuth: vault.AuthorizeAction. When the vault has a pending action for its current nonce
// the transaction mostly co-signs it (as a member that has not authorised it yet), so that
// multi-signature actions reach their threshold and execute inside a later transaction.
func buildVaultAuth(w *World, op TxOp, v TxView, def signature.Signer, fee *transaction.Fee) (*transaction.Transaction, signature.Signer, error) {
	rr := c17Rand(op)
	vs := vaultsOf(v)
	vlt := vaultPick(rr, vs)
	if vlt == nil {
		body := &vault.AuthorizeAction{Vault: vaultNoSuch(w, op), Action: vault.Action{Resume: &vault.ActionResume{}}}
		return vault.NewAuthorizeActionTx(c17Nonce(v, op, def), fee, body), def, nil
	}
	vaddr := vlt.Address()
	var action vault.Action
	var exclude []staking.Address
	pending, err := vaultState.NewImmutableState(v.Tree()).PendingAction(context.Background(), vaddr, vlt.Nonce)
	if err == nil && pending != nil && rr.Chance(5, 6) {
		action = pending.Action
		if !rr.Chance(1, 8) { // (else possibly a repeated authorisation by the same member)
			exclude = pending.AuthorizedBy
		}
	} else {
		action = vaultAction(w, rr, op, v, vlt, vs)
	}
	auths := action.Authorities(vlt)
	var signer signature.Signer
	switch rr.Intn(8) {
	case 0:
		signer = vaultOutsider(w, rr, vlt.Authorities())
	case 1:
		signer = vaultWrongMember(w, rr, vlt, auths)
	}
	if signer == nil {
		signer = vaultMember(w, rr, auths, exclude)
	}
	if signer == nil {
		signer = def
	}
	nonce := vlt.Nonce
	if rr.Chance(1, 12) {
		nonce += []uint64{1, ^uint64(0), 2}[rr.Intn(3)]
	}
	body := &vault.AuthorizeAction{Vault: vaddr, Nonce: nonce, Action: action}
	return vault.NewAuthorizeActionTx(c17Nonce(v, op, signer), fee, body), signer, nil
}

// buildVaultCancel: vault.CancelAction for the vault's current nonce (with or without a pending
// action), another nonce or a non-existent vault, by an authority member or an outsider.
func buildVaultCancel(w *World, op TxOp, v TxView, def signature.Signer, fee *transaction.Fee) (*transaction.Transaction, signature.Signer, error) {
	rr := c17Rand(op)
	vs := vaultsOf(v)
	vlt := vaultPick(rr, vs)
	if vlt != nil && rr.Chance(3, 4) {
		// Prefer a vault that has a pending action for its current nonce.
		ist := vaultState.NewImmutableState(v.Tree())
		start := rr.Intn(len(vs))
		for i := range vs {
			c := vs[(start+i)%len(vs)]
			if pa, err := ist.PendingAction(context.Background(), c.Address(), c.Nonce); err == nil && pa != nil {
				vlt = c
				break
			}
		}
	}
	if vlt == nil {
		return vault.NewCancelActionTx(c17Nonce(v, op, def), fee, &vault.CancelAction{Vault: vaultNoSuch(w, op)}), def, nil
	}
	auths := vlt.Authorities()
	var signer signature.Signer
	if pending, err := vaultState.NewImmutableState(v.Tree()).PendingAction(context.Background(), vlt.Address(), vlt.Nonce); err == nil && pending != nil {
		auths = pending.Action.Authorities(vlt)
		if rr.Chance(1, 4) {
			// A member of the vault's authorities that is not entitled to this action: passes the first
			// (vault-wide) check and is refused by the action-specific one.
			signer = vaultWrongMember(w, rr, vlt, auths)
		}
	}
	if signer == nil {
		if rr.Chance(1, 8) {
			signer = vaultOutsider(w, rr, vlt.Authorities())
		} else {
			signer = vaultMember(w, rr, auths, nil)
		}
	}
	if signer == nil {
		signer = def
	}
	nonce := vlt.Nonce
	if rr.Chance(1, 6) {
		nonce += []uint64{1, ^uint64(0)}[rr.Intn(2)]
	}
	return vault.NewCancelActionTx(c17Nonce(v, op, signer), fee, &vault.CancelAction{Vault: vlt.Address(), Nonce: nonce}), signer, nil
}

// buildVaultFund: a plain staking.Transfer to a vault's account, or a staking.Allow with the vault
// as the beneficiary (so that the vault can withdraw from the signer).
func buildVaultFund(w *World, op TxOp, v TxView, def signature.Signer, fee *transaction.Fee) (*transaction.Transaction, signature.Signer, error) {
	rr := c17Rand(op)
	to := vaultNoSuch(w, op)
	if vlt := vaultPick(rr, vaultsOf(v)); vlt != nil {
		to = vlt.Address()
	}
	acct := v.Account(staking.NewAddress(def.Public()))
	nonce := c17Nonce(v, op, def)
	if rr.Chance(1, 4) {
		return staking.NewAllowTx(nonce, fee, &staking.Allow{Beneficiary: to, Negative: rr.Chance(1, 6), AmountChange: resolveAmount(op.Amt, &acct.General.Balance, 1)}), def, nil
	}
	minXfer := v.StakingParams().MinTransferAmount.ToBigInt().Uint64()
	return staking.NewTransferTx(nonce, fee, &staking.Transfer{To: to, Amount: resolveAmount(op.Amt, &acct.General.Balance, minXfer)}), def, nil
}

// buildVaultPrefund: a transfer or a delegation to the address the NEXT vault of signer op.To
// will have (creator address and the nonce its account will hold when its next transaction, the
// vault.Create that follows, executes).
func buildVaultPrefund(w *World, op TxOp, v TxView, def signature.Signer, fee *transaction.Fee) (*transaction.Transaction, signature.Signer, error) {
	rr := c17Rand(op)
	creator := w.Signer(op.To).Public()
	id := v.NextNonce(creator) + 1
	if rr.Chance(1, 6) {
		id-- // (the address of the nonce itself: never a vault address of that creator)
	}
	to := vault.NewVaultAddress(staking.NewAddress(creator), id)
	acct := v.Account(staking.NewAddress(def.Public()))
	nonce := c17Nonce(v, op, def)
	params := v.StakingParams()
	amt := rr.Range(20, 300)
	if rr.Chance(1, 3) {
		return staking.NewAddEscrowTx(nonce, fee, &staking.Escrow{Account: to, Amount: resolveAmount(amt, &acct.General.Balance, params.MinDelegationAmount.ToBigInt().Uint64())}), def, nil
	}
	return staking.NewTransferTx(nonce, fee, &staking.Transfer{To: to, Amount: resolveAmount(amt, &acct.General.Balance, params.MinTransferAmount.ToBigInt().Uint64())}), def, nil
}

// buildVaultWithdraw: staking.Withdraw from a vault's account by a signer, mostly one that has a
// withdraw policy there: within the limit, exactly the limit, above it, or relative to the
// vault's balance.
func buildVaultWithdraw(w *World, op TxOp, v TxView, def signature.Signer, fee *transaction.Fee) (*transaction.Transaction, signature.Signer, error) {
	rr := c17Rand(op)
	vlt := vaultPick(rr, vaultsOf(v))
	minXfer := v.StakingParams().MinTransferAmount.ToBigInt().Uint64()
	if vlt == nil {
		return staking.NewWithdrawTx(c17Nonce(v, op, def), fee, &staking.Withdraw{From: vaultNoSuch(w, op), Amount: q(minXfer + 1)}), def, nil
	}
	vaddr := vlt.Address()
	bal := v.Account(vaddr).General.Balance
	signer := def
	base := &bal
	states, _ := vaultState.NewImmutableState(v.Tree()).AddressStates(context.Background(), vaddr)
	var withPolicy []int
	for i := 0; i < w.NumSigners(); i++ { // (signer order, not map order)
		if as, ok := states[w.Addr(i)]; ok && !as.WithdrawPolicy.IsDisabled() {
			withPolicy = append(withPolicy, i)
		}
	}
	if len(withPolicy) > 0 && rr.Chance(5, 6) {
		// Prefer a signer whose remaining limit exceeds what the vault can pay (see below).
		i := withPolicy[rr.Intn(len(withPolicy))]
		for _, c := range withPolicy {
			if rem := vaultRemaining(states[w.Addr(c)]); rr.Chance(1, 2) && rem.Cmp(&bal) > 0 {
				i = c
				break
			}
		}
		signer = w.Signer(i)
		as := states[w.Addr(i)]
		if !rr.Chance(1, 5) {
			base = as.WithdrawPolicy.LimitAmount.Clone()
		}
		// A withdrawal that the policy ALLOWS (the hook authorises it and updates the per-address
		// accounting) but that fails afterwards in staking: more than the vault holds, or an amount
		// that would leave the vault below the minimum transact balance.
		if rr.Chance(2, 5) {
			rem := vaultRemaining(as)
			minTransact := v.StakingParams().MinTransactBalance.ToBigInt().Uint64()
			var cands []quantity.Quantity
			over := bal.Clone()
			_ = over.Add(quantity.NewFromUint64(1 + uint64(rr.Intn(3))))
			cands = append(cands, *over) // vault balance + 1..3
			if minTransact > 0 {
				cands = append(cands, *bal.Clone()) // everything: the vault ends at zero, below the minimum
				if low := bal.Clone(); low.Sub(quantity.NewFromUint64(minTransact-1)) == nil && !low.IsZero() {
					cands = append(cands, *low) // leaves minimum-1
				}
			}
			start := rr.Intn(len(cands))
			for j := range cands {
				c := cands[(start+j)%len(cands)]
				if c.Cmp(rem) <= 0 && c.Cmp(quantity.NewFromUint64(minXfer)) >= 0 && !c.IsZero() {
					return staking.NewWithdrawTx(c17Nonce(v, op, signer), fee, &staking.Withdraw{From: vaddr, Amount: c}), signer, nil
				}
			}
		}
	}
	var amt quantity.Quantity
	switch rr.Intn(6) {
	case 0:
		amt = resolveAmount(AmtAll, base, minXfer)
	case 1:
		amt = resolveAmount(AmtAllPlus1, base, minXfer)
	default:
		amt = resolveAmount(op.Amt, base, minXfer)
	}
	return staking.NewWithdrawTx(c17Nonce(v, op, signer), fee, &staking.Withdraw{From: vaddr, Amount: amt}), signer, nil
}

// vaultRemaining is what the address may still withdraw in its current accounting interval
// (assuming the interval has not rolled over).
func vaultRemaining(as *vault.AddressState) *quantity.Quantity {
	rem := as.WithdrawPolicy.LimitAmount.Clone()
	if rem.Sub(&as.CurrentAmount) != nil {
		return quantity.NewQuantity()
	}
	return rem
}

// appjunkMetaInPool makes the "appjunk" kind also produce client-signed consensus.Meta
// transactions. It is off: system methods are injected by proposers only, CheckTx refuses them so
// no honest mempool ever holds one, and this engine hands the whole pool to honest proposers
// (whose PrepareProposal then deliberately panics, recovers into an empty proposal without block
// metadata, and is rejected by everybody: a false "honest-proposal-rejected"). The engine's own
// Byzantine-proposal faults (meta-*) cover the delivery of bad system transactions.
const appjunkMetaInPool = false

func junkKey(op TxOp, label string) (pk signature.PublicKey) {
	h := hash.NewFromBytes([]byte(fmt.Sprintf("verif/appjunk/%s/%d/%d", label, op.Arg, op.From)))
	copy(pk[:], h[:])
	return
}

func junkSig(op TxOp, label string) (rs signature.RawSignature) {
	h := hash.NewFromBytes([]byte(fmt.Sprintf("verif/appjunk/sig/%s/%d", label, op.Arg)))
	copy(rs[:32], h[:])
	copy(rs[32:], h[:])
	return
}

// buildAppJunk: structurally valid transactions of the other applications that are always
// refused (or, for registry.ProveFreshness, accepted without any effect): key manager secrets and
// CHURP, beacon, roothash commitments and evidence, registry.
func buildAppJunk(w *World, op TxOp, v TxView, def signature.Signer, fee *transaction.Fee) (*transaction.Transaction, signature.Signer, error) {
	rr := c17Rand(op)
	nonce := c17Nonce(v, op, def)
	rtID := w.RuntimeID // (registered only when the genesis has a runtime; a compute runtime, not a key manager)
	if rr.Chance(1, 3) {
		rtID = common.NewTestNamespaceFromSeed([]byte(fmt.Sprintf("verif/appjunk/rt/%d", op.Arg%5)), common.NamespaceTest)
	}
	ep := v.Epoch()
	if rr.Chance(1, 3) {
		ep += beacon.EpochTime(rr.Intn(3)) - 1
	}
	var x25 x25519.PublicKey
	jk := junkKey(op, "x25519")
	copy(x25[:], jk[:])
	secret := secrets.EncryptedSecret{Checksum: jk[:8], PubKey: x25, Ciphertexts: map[x25519.PublicKey][]byte{x25: {byte(op.Arg), 1, 2, 3}}}
	tx := func(m transaction.MethodName, body interface{}) (*transaction.Transaction, signature.Signer, error) {
		return transaction.NewTransaction(nonce, fee, m, body), def, nil
	}
	nodeID := junkKey(op, "node")
	if rr.Bool() {
		nodeID = w.Entities[rr.Intn(len(w.Entities))].Nodes[0].Identity.NodeSigner.Public()
	}
	var h1, h2 hash.Hash
	h1.FromBytes([]byte("verif/appjunk/a"), []byte{byte(op.Arg)})
	h2.FromBytes([]byte("verif/appjunk/b"), []byte{byte(op.Arg >> 8)})
	commit := func(round uint64, root *hash.Hash) commitment.ExecutorCommitment {
		return commitment.ExecutorCommitment{
			NodeID: nodeID,
			Header: commitment.ExecutorCommitmentHeader{
				SchedulerID: nodeID,
				Header:      commitment.ComputeResultsHeader{Round: round, PreviousHash: h1, IORoot: root, StateRoot: root, MessagesHash: root, InMessagesHash: root},
			},
			Signature: junkSig(op, "commit"),
		}
	}
	switch rr.Intn(15) {
	case 0:
		return tx(secrets.MethodUpdatePolicy, &secrets.SignedPolicySGX{Policy: secrets.PolicySGX{Serial: uint32(op.Arg % 3), ID: rtID}})
	case 1:
		return tx(secrets.MethodPublishEphemeralSecret, &secrets.SignedEncryptedEphemeralSecret{
			Secret: secrets.EncryptedEphemeralSecret{ID: rtID, Epoch: ep, Secret: secret}, Signature: junkSig(op, "eph")})
	case 2:
		return tx(secrets.MethodPublishMasterSecret, &secrets.SignedEncryptedMasterSecret{
			Secret: secrets.EncryptedMasterSecret{ID: rtID, Generation: uint64(op.Arg % 2), Epoch: ep, Secret: secret}, Signature: junkSig(op, "master")})
	case 3:
		id := churp.Identity{ID: uint8(op.Arg % 3), RuntimeID: rtID}
		return tx(churp.MethodCreate, &churp.CreateRequest{Identity: id, Threshold: uint8(op.Arg % 4), HandoffInterval: beacon.EpochTime(op.Arg % 2),
			Policy: churp.SignedPolicySGX{Policy: churp.PolicySGX{Identity: id, Serial: uint32(op.Arg % 2)}}})
	case 4:
		return tx(churp.MethodApply, &churp.SignedApplicationRequest{
			Application: churp.ApplicationRequest{Identity: churp.Identity{ID: uint8(op.Arg % 3), RuntimeID: rtID}, Epoch: ep, Checksum: h1}, Signature: junkSig(op, "apply")})
	case 5:
		return tx(churp.MethodConfirm, &churp.SignedConfirmationRequest{
			Confirmation: churp.ConfirmationRequest{Identity: churp.Identity{ID: uint8(op.Arg % 3), RuntimeID: rtID}, Epoch: ep, Checksum: h2}, Signature: junkSig(op, "confirm")})
	case 6:
		return tx(beacon.MethodVRFProve, &beacon.VRFProve{Epoch: ep, Pi: jk[:]})
	case 7:
		return tx(beacon.MethodSetEpoch, ep+1) // (the mock backend is not enabled)
	case 8:
		return tx(roothash.MethodExecutorCommit, &roothash.ExecutorCommit{ID: rtID, Commits: []commitment.ExecutorCommitment{commit(uint64(op.Arg%3), &h1)}})
	case 9:
		return tx(roothash.MethodEvidence, &roothash.Evidence{ID: rtID, EquivocationExecutor: &roothash.EquivocationExecutorEvidence{
			CommitA: commit(uint64(op.Arg%3), &h1), CommitB: commit(uint64(op.Arg%3), &h2)}})
	case 10:
		prop := func(b hash.Hash) commitment.Proposal {
			return commitment.Proposal{NodeID: nodeID, Header: commitment.ProposalHeader{Round: uint64(op.Arg % 3), PreviousHash: h1, BatchHash: b}, Signature: junkSig(op, "prop")}
		}
		return tx(roothash.MethodEvidence, &roothash.Evidence{ID: rtID, EquivocationProposal: &roothash.EquivocationProposalEvidence{ProposalA: prop(h1), ProposalB: prop(h2)}})
	case 11:
		var blob [32]byte
		copy(blob[:], jk[:])
		return tx(registry.MethodProveFreshness, blob)
	case 12:
		// Unfreeze a node of another entity (or an unknown node).
		e := (op.From%w.NumSigners() + 1 + rr.Intn(len(w.Entities)-1)) % len(w.Entities)
		id := w.Entities[e].Nodes[0].Identity.NodeSigner.Public()
		if rr.Chance(1, 4) {
			id = junkKey(op, "unfreeze")
		}
		return tx(registry.MethodUnfreezeNode, &registry.UnfreezeNode{NodeID: id})
	case 13:
		return tx(roothash.MethodExecutorCommit, &roothash.ExecutorCommit{ID: rtID})
	default:
		if !appjunkMetaInPool {
			return tx(secrets.MethodUpdatePolicy, cbor.RawMessage{0x83, 0x01, 0x02, 0x03}) // a malformed body instead
		}
		return tx(consensus.MethodMeta, &consensus.BlockMetadata{StateRoot: h1, EventsRoot: h2[:]})
	}
}

// vaultProbe is a probe-only oracle of the base properties: it counts executed vault actions by
// result (the ActionExecutedEvent carries the result; the transaction itself succeeds either way)
// and, where the property has an observer replica, checks that an action whose execution FAILED
// left no trace besides the bookkeeping of the authorising transaction (see AfterTx).
type vaultProbe struct {
	BaseOracle
	viol *core.Violation
}

func (o *vaultProbe) Init(s *Sim) *core.Violation {
	if s.Prop == "C08" {
		s.TxObs = append(s.TxObs, o)
	}
	return nil
}

// vaultExecuted decodes the ActionExecutedEvents among ABCI events.
func vaultExecuted(evs []abcitypes.Event) (out []vault.ActionExecutedEvent) {
	for _, ev := range evs {
		if !strings.HasSuffix(ev.Type, "400_vault") {
			continue
		}
		for _, a := range ev.Attributes {
			if string(a.Key) != (&vault.ActionExecutedEvent{}).EventKind() {
				continue
			}
			var ee vault.ActionExecutedEvent
			if err := events.DecodeValue(string(a.Value), &ee); err != nil {
				core.Harnessf("vault probe: cannot decode ActionExecutedEvent: %v", err)
			}
			out = append(out, ee)
		}
	}
	return
}

// vaultActors returns the vaults whose actions a transaction executed (the executed message runs
// with the vault as the caller, so the vault is an acting account of the transaction).
func vaultActors(evs []abcitypes.Event) (out []staking.Address) {
	for _, ee := range vaultExecuted(evs) {
		out = append(out, ee.Vault)
	}
	return
}

func vaultExecFailed(ee *vault.ActionExecutedEvent) bool {
	return ee.Result.Module != "" || ee.Result.Code != 0
}

func (o *vaultProbe) AfterBlock(s *Sim, _ int64, _ *cmttypes.Block, _ []*BuiltTx, res *BlockResult) *core.Violation {
	if res != nil {
		for _, ee := range vaultExecuted(res.Events) {
			if vaultExecFailed(&ee) {
				s.St.Inc(fmt.Sprintf("probe.vault.action_executed_failed.%s.%d", ee.Result.Module, ee.Result.Code))
			} else {
				s.St.Inc("probe.vault.action_executed_ok")
			}
		}
	}
	return o.viol
}

// vaultC08Before is the state dump that the C08 oracle took before the current transaction.
func vaultC08Before(s *Sim) map[string][]byte {
	for _, ob := range s.TxObs {
		if c, ok := ob.(*c08Oracle); ok {
			return c.before
		}
	}
	return nil
}

func (o *vaultProbe) Finish(*Sim) (*core.Violation, bool) { return o.viol, true }

func (o *vaultProbe) BlockStart(*Sim, *Replica, int64) {}

func (o *vaultProbe) BeforeTx(*Sim, *Replica, int, []byte, mkvs.KeyValueTree) {}

// AfterTx (C08 only, on the observer replica): a SUCCESSFUL vault.AuthorizeAction whose action
// execution failed (ActionExecutedEvent with a non-zero result) is, for the executed message, a
// failed transaction: compared with the state before the transaction (the dump the C08 oracle
// took) only the signer's account (fee, nonce), the vault's descriptor (action nonce) and the
// vault's pending-action record may differ.
func (o *vaultProbe) AfterTx(s *Sim, r *Replica, idx int, raw []byte, st mkvs.KeyValueTree, res abcitypes.ResponseDeliverTx) {
	if o.viol != nil {
		return
	}
	if res.Code != 0 {
		vaultProbeWithdraw(s, raw, res)
		return
	}
	executed := vaultExecuted(res.Events)
	if c := vaultC08Before(s); c != nil {
		for _, ee := range executed {
			key := append(append([]byte{0x32}, ee.Vault[:]...), make([]byte, 8)...)
			binary.BigEndian.PutUint64(key[len(key)-8:], ee.Nonce)
			if _, ok := c[string(key)]; ok {
				// The action was pending before this transaction: an earlier transaction submitted it and
				// this one supplied the authorisation that reached the threshold.
				s.St.Inc("probe.vault.action_executed_by_later_cosignature")
			}
		}
	}
	// Exactly one executed action (nested authorisations execute actions of further vaults), failed.
	if len(executed) != 1 || !vaultExecFailed(&executed[0]) {
		return
	}
	before := vaultC08Before(s)
	stx, tx := envelopeSigner(raw)
	if before == nil || stx == nil || tx == nil || tx.Method != vault.MethodAuthorizeAction {
		return
	}
	var body vault.AuthorizeAction
	if err := cbor.Unmarshal(tx.Body, &body); err != nil || !body.Vault.Equal(executed[0].Vault) {
		return
	}
	after := dumpState(s, st)
	var changed []string
	for k, v := range before {
		if av, ok := after[k]; !ok || string(av) != string(v) {
			changed = append(changed, k)
		}
	}
	for k := range after {
		if _, ok := before[k]; !ok {
			changed = append(changed, k)
		}
	}
	sort.Strings(changed)
	s.St.Inc("probe.vault.failed_execution_checked")
	signerAddr := staking.NewAddress(stx.Signature.PublicKey)
	var extra []string
	for _, k := range changed {
		kb := []byte(k)
		switch {
		case len(kb) == 1+len(signerAddr) && kb[0] == 0x50 && string(kb[1:]) == string(signerAddr[:]): // staking account of the signer
		case len(kb) == 1+len(body.Vault) && kb[0] == 0x30 && string(kb[1:]) == string(body.Vault[:]): // vault descriptor
		case len(kb) == 1+len(body.Vault)+8 && kb[0] == 0x32 && string(kb[1:1+len(body.Vault)]) == string(body.Vault[:]): // pending action
		default:
			extra = append(extra, fmt.Sprintf("%x", kb))
		}
	}
	if len(extra) > 0 {
		// Counted, not judged: the transaction itself SUCCEEDED (code 0); C08 speaks about failed
		// transactions, not about a failed action execution inside a successful one.
		s.St.Inc("probe.vault.failed_execution_changed_other_state")
	}
}

// vaultProbeWithdraw (reach probe, C08 observer): a staking.Withdraw from an active vault that the
// vault's withdraw policy allowed according to the state before the transaction (so the account
// hook authorised it and updated the per-address accounting) and that failed afterwards on the
// balance checks.
func vaultProbeWithdraw(s *Sim, raw []byte, res abcitypes.ResponseDeliverTx) {
	if res.Codespace != staking.ModuleName || (res.Code != 3 && res.Code != 10) { // insufficient balance, balance too low
		return
	}
	before := vaultC08Before(s)
	stx, tx := envelopeSigner(raw)
	if before == nil || stx == nil || tx == nil || tx.Method != staking.MethodWithdraw {
		return
	}
	var body staking.Withdraw
	if cbor.Unmarshal(tx.Body, &body) != nil {
		return
	}
	to := staking.NewAddress(stx.Signature.PublicKey)
	var vlt vault.Vault
	var as vault.AddressState
	if rawV, ok := before[string(append([]byte{0x30}, body.From[:]...))]; !ok || cbor.Unmarshal(rawV, &vlt) != nil || !vlt.IsActive() {
		return
	}
	if rawS, ok := before[string(append(append([]byte{0x31}, body.From[:]...), to[:]...))]; !ok || cbor.Unmarshal(rawS, &as) != nil {
		return
	}
	if as.AuthorizeWithdrawal(s.Height+1, &body.Amount) {
		s.St.Inc("probe.vault.withdraw_allowed_by_policy_failed_later")
	}
}
