package chain

import (
	"context"

	"github.com/oasisprotocol/curve25519-voi/primitives/ed25519"
	"github.com/oasisprotocol/curve25519-voi/primitives/ed25519/extra/ecvrf"

	beacon "github.com/oasisprotocol/oasis-core/go/beacon/api"
	"github.com/oasisprotocol/oasis-core/go/common/crypto/signature"
	"github.com/oasisprotocol/oasis-core/go/common/node"
	"github.com/oasisprotocol/oasis-core/go/consensus/api/transaction"
	beaconState "github.com/oasisprotocol/oasis-core/go/consensus/cometbft/apps/beacon/state"
	registryState "github.com/oasisprotocol/oasis-core/go/consensus/cometbft/apps/registry/state"

	"verif/sim/core"
)

// The VRF beacon backend (knob GenKnobs.BeaconVRF, drawn from a PRNG of its own for a part of the
// runs of every chain property except the C11 application batch): epochs advance by block
// height as with the insecure backend, but validator tie-breaks and runtime committees are
// elected from the VRF proofs the registered nodes submitted during the previous epoch
// (beacon.VRFProve transactions, accepted only after the proof submission delay), committees
// only when the previous alpha was of high quality (enough proofs in the epoch before), and only
// among nodes that have been registered for a full epoch.  Which proofs reach a block is block
// content: the generator lets most known nodes prove in most epochs, and leaves some out, lets
// some prove late, early, twice, for another epoch, over another input, with a truncated proof,
// or signed by somebody who is not a node.

// VRFKnobs configures the VRF beacon backend.
type VRFKnobs struct {
	HQThreshold uint64 `json:"hq_threshold"`
	Delay       int64  `json:"delay"`
}

const (
	vrfValid     = 0
	vrfNextEpoch = 1
	vrfPrevEpoch = 2
	vrfOtherIn   = 3
	vrfTruncated = 4
	vrfByEntity  = 5
	vrfOtherKey  = 6
	vrfAgain     = 7
	vrfEarly     = 8
)

func init() {
	RegisterTxKind("vrf.prove", buildVRFProve)
}

// tuneVRF decides whether a run uses the VRF beacon backend and adjusts the knobs (called when
// all other tuning is done; own PRNG derived from the salt).
func tuneVRF(prop string, k *ChainKnobs) *core.Rand {
	if prop == "C11" {
		return nil
	}
	vr := core.NewRand(core.Derive(core.Hash64([]byte(k.Gen.Salt)), "beacon-vrf", 0))
	num := 1
	if prop == "C14" || prop == "C10" {
		num = 2
	}
	if !vr.Chance(num, 4) {
		return nil
	}
	g := &k.Gen
	if g.EpochInterval < 3 {
		g.EpochInterval = 3 // (with an interval of 2 no block accepts proofs)
	}
	v := &VRFKnobs{Delay: int64(vr.Range(1, int(g.EpochInterval)-2)), HQThreshold: uint64(vr.Pick([]int{3, 3, 1}) + 1)}
	if vr.Chance(1, 6) {
		v.Delay = g.EpochInterval - 1
	}
	if v.HQThreshold == 3 {
		v.HQThreshold = uint64(vr.Range(3, 8))
	}
	if prop == "C14" && vr.Chance(2, 3) {
		// Election runs: mostly nodes that stay registered (a node that re-registers after its
		// expiry is not eligible for a full epoch) and a low threshold, so that committees are
		// elected from proofs in many epochs and weak epochs follow strong ones.
		g.ShortExpiry = 0
		// (a committee elected in one epoch and a weak alpha in the next need a threshold above
		// what a committee needs and a number of proofs that moves around it)
		v.HQThreshold = uint64(vr.Range(1, 2))
		if vr.Chance(1, 2) {
			v.HQThreshold = uint64(vr.Range(3, 7))
		}
	}
	g.BeaconVRF = v
	if vr.Chance(3, 4) {
		g.MinGasPrice = 0 // (node accounts hold nothing to pay fees with)
		g.MinTransact = 0
	}
	return vr
}

// genVRFOps draws the proof submissions of one height.
func genVRFOps(vr *core.Rand, quiet bool) []TxOp {
	var ops []TxOp
	for slot := 0; slot < 14; slot++ {
		// (in a quiet epoch few nodes prove: the next alpha is weak, or too few candidates proved)
		if (quiet && !vr.Chance(1, 10)) || (!quiet && !vr.Chance(2, 5)) {
			continue
		}
		op := TxOp{Kind: "vrf.prove", Arg: slot}
		if vr.Chance(1, 6) {
			op.Amt = vr.Range(1, 8)
		}
		if vr.Chance(1, 30) {
			op.NonceOff = []int{-1, 1}[vr.Intn(2)]
		}
		ops = append(ops, op)
	}
	return ops
}

// knownNodeKeys maps node identity keys to the keys the harness holds.
func (w *World) knownNodeKeys() map[signature.PublicKey]*NodeKeys {
	m := map[signature.PublicKey]*NodeKeys{}
	add := func(nk *NodeKeys) { m[nk.Identity.NodeSigner.Public()] = nk }
	for i, ek := range w.Entities {
		for _, nk := range ek.Nodes {
			add(nk)
		}
		if i >= w.K.Anchors {
			add(c14ExtraNode(w, i, 0))
			add(c14ExtraNode(w, i, 1))
		}
	}
	for _, nk := range w.KMNodes {
		add(nk)
	}
	return m
}

// vrfSignerFor returns the signer whose public key is the node's registered VRF key.
func vrfSignerFor(n *node.Node, nk *NodeKeys) signature.Signer {
	for _, s := range []signature.Signer{nk.Identity.VRFSigner, nk.Identity.TLSSigner, nk.Identity.P2PSigner, nk.Identity.ConsensusSigner} {
		if s != nil && s.Public().Equal(n.VRF.ID) {
			return s
		}
	}
	return nk.Identity.VRFSigner
}

func buildVRFProve(w *World, op TxOp, v TxView, _ signature.Signer, fee *transaction.Fee) (*transaction.Transaction, signature.Signer, error) {
	ctx := context.Background()
	vs, err := beaconState.NewImmutableState(v.Tree()).VRFState(ctx)
	if err != nil || vs == nil {
		return nil, nil, nil
	}
	nodes, err := registryState.NewImmutableState(v.Tree()).Nodes(ctx)
	if err != nil {
		return nil, nil, nil
	}
	known := w.knownNodeKeys()
	type cand struct {
		n  *node.Node
		nk *NodeKeys
	}
	var cands []cand
	for _, n := range nodes {
		if nk := known[n.ID]; nk != nil {
			cands = append(cands, cand{n, nk})
		}
	}
	if op.Arg >= len(cands) {
		return nil, nil, nil
	}
	c := cands[op.Arg]
	if op.Amt == vrfValid && (vs.Pi[c.n.ID] != nil || v.Height()+1 <= vs.SubmitAfter) {
		return nil, nil, nil // already proved in this epoch, or the next block is still too early
	}
	alpha, epoch := vs.Alpha, vs.Epoch
	vrfSigner := vrfSignerFor(c.n, c.nk)
	var signer signature.Signer = c.nk.Identity.NodeSigner
	switch op.Amt {
	case vrfNextEpoch:
		epoch++
	case vrfPrevEpoch:
		if epoch > 0 {
			epoch--
		}
	case vrfOtherIn:
		alpha = append(append([]byte{}, alpha...), 'x')
	case vrfByEntity:
		signer = w.Entities[c.nk.Entity%len(w.Entities)].Signer
	case vrfOtherKey:
		o := cands[(op.Arg+1)%len(cands)]
		vrfSigner = vrfSignerFor(o.n, o.nk)
	}
	// (test signers carry no role, so the proof is made with the raw key)
	us, ok := vrfSigner.(signature.UnsafeSigner)
	if !ok {
		return nil, nil, nil
	}
	pi := ecvrf.Prove(ed25519.PrivateKey(us.UnsafeBytes()), alpha)
	if op.Amt == vrfTruncated {
		pi = pi[:len(pi)-1]
	}
	nonce := uint64(int64(v.NextNonce(signer.Public())) + int64(op.NonceOff))
	tx := transaction.NewTransaction(nonce, fee, beacon.MethodVRFProve, &beacon.VRFProve{Epoch: epoch, Pi: pi})
	return tx, signer, nil
}
