package chain

// Chain level of C06 (batch "chainhistory"): while the replicated consensus application runs with
// pruning replicas (window 1-6), interleaved pruner steps, restarts, catch-ups and nodes that join
// by state sync, every version a replica's node database still retains must stay completely
// readable and hold exactly the state every other replica holds for that version; a version the
// database no longer claims must be reported absent or still read back its own contents.

import (
	"fmt"
	"sort"

	cmttypes "github.com/cometbft/cometbft/types"

	"verif/sim/core"
	"verif/sim/store"
)

type historyOracle struct {
	BaseOracle
	// canon is the first dump obtained for a height (from whichever replica served it first).
	canon   map[int64]store.Model
	from    map[int64]int
	checked int
	below   int
}

func (o *historyOracle) AfterBlock(s *Sim, h int64, _ *cmttypes.Block, _ []*BuiltTx, _ *BlockResult) *core.Violation {
	if h%4 != 0 {
		return nil
	}
	return o.check(s)
}

func (o *historyOracle) Finish(s *Sim) (*core.Violation, bool) {
	if v := o.check(s); v != nil {
		return v, true
	}
	return nil, o.checked >= 3
}

func (o *historyOracle) check(s *Sim) *core.Violation {
	if o.canon == nil {
		o.canon, o.from = map[int64]store.Model{}, map[int64]int{}
	}
	var reps []*Replica
	for _, r := range s.Reps {
		if r.Up && !r.Cfg.Observer {
			reps = append(reps, r)
		}
	}
	for _, ph := range s.cc.phoenixes {
		if ph.r.Up {
			reps = append(reps, ph.r)
		}
	}
	for _, r := range reps {
		var earliest uint64
		if pv, _ := core.Guard(func() { earliest = r.srv.State().Storage().NodeDB().GetEarliestVersion() }); pv != nil {
			continue
		}
		last := r.State.LastBlockHeight
		lo := int64(earliest)
		if lo < s.W.Doc.Height {
			lo = s.W.Doc.Height
		}
		if last < lo {
			continue
		}
		seen := map[int64]bool{}
		var hs []int64
		for _, h := range []int64{lo, lo + 1, (lo + last) / 2, last - 1, last} {
			if h >= lo && h <= last && !seen[h] {
				seen[h] = true
				hs = append(hs, h)
			}
		}
		sort.Slice(hs, func(i, j int) bool { return hs[i] < hs[j] })
		for _, h := range hs {
			var got store.Model
			var gerr error
			pv, stack := core.Guard(func() {
				t, err := r.TreeAt(h)
				if err != nil {
					gerr = err
					return
				}
				defer t.Close()
				got, _, gerr = store.DumpTree(s.Ctx, t)
			})
			where := fmt.Sprintf("replica %d (%s, prune_keep=%d; earliest version %d, at height %d)", r.Idx, r.Cfg.Backend, r.Cfg.PruneKeep, earliest, last)
			if pv != nil {
				return cViol("C06", "retained-version-unreadable", "retained-version-unreadable chain "+r.Cfg.Backend, fmt.Sprintf("%s: reading the state of retained version %d panicked: %v\n%s", where, h, pv, trimStack(stack)))
			}
			if gerr != nil {
				return cViol("C06", "retained-version-unreadable", "retained-version-unreadable chain "+r.Cfg.Backend, fmt.Sprintf("%s: the state of retained version %d cannot be read: %v", where, h, gerr))
			}
			if want, ok := o.canon[h]; ok {
				if !got.Equal(want) {
					return cViol("C06", "retained-version-differs", "retained-version-differs chain "+r.Cfg.Backend, fmt.Sprintf("%s: the state of retained version %d differs from what replica %d served for it: %s", where, h, o.from[h], store.DiffModels(got, want)))
				}
				s.St.Inc("probe.chainhistory.version_compared_across_replicas")
			} else {
				o.canon[h], o.from[h] = got, r.Idx
			}
			o.checked++
			s.St.Inc("probe.chainhistory.retained_version_read")
			if h < last-1 {
				s.St.Inc("probe.chainhistory.older_retained_version_read")
			}
		}
		// A version below the earliest one: absent, or still exactly its own contents.
		if lo > s.W.Doc.Height {
			h := lo - 1
			var got store.Model
			var gerr error
			pv, stack := core.Guard(func() {
				t, err := r.TreeAt(h)
				if err != nil {
					gerr = err
					return
				}
				defer t.Close()
				got, _, gerr = store.DumpTree(s.Ctx, t)
			})
			switch {
			case pv != nil:
				return cViol("C06", "pruned-version-panic", "pruned-version-panic chain "+r.Cfg.Backend, fmt.Sprintf("replica %d (%s): asking for pruned version %d panicked: %v\n%s", r.Idx, r.Cfg.Backend, h, pv, trimStack(stack)))
			case gerr != nil:
				s.St.Inc("probe.chainhistory.pruned_version_reported_absent")
			default:
				if want, ok := o.canon[h]; ok && !got.Equal(want) {
					return cViol("C06", "pruned-version-wrong-contents", "pruned-version-wrong-contents chain "+r.Cfg.Backend, fmt.Sprintf("replica %d (%s): pruned version %d (earliest %d) is still served, with other contents than it had: %s", r.Idx, r.Cfg.Backend, h, earliest, store.DiffModels(got, want)))
				}
				s.St.Inc("probe.chainhistory.pruned_version_still_readable")
			}
			o.below++
		}
	}
	// Forget heights nobody can serve any more.
	if len(o.canon) > 64 {
		var ks []int64
		for k := range o.canon {
			ks = append(ks, k)
		}
		sort.Slice(ks, func(i, j int) bool { return ks[i] < ks[j] })
		for _, k := range ks[:len(ks)-48] {
			delete(o.canon, k)
			delete(o.from, k)
		}
	}
	return nil
}

func init() {
	RegisterOracle("C06", func() Oracle { return &historyOracle{} })
	RegisterWorkload("C06", &Workload{Tune: func(r *core.Rand, k *ChainKnobs) {
		k.Disk = true
		for i := range k.Replicas {
			if r.Chance(3, 4) {
				k.Replicas[i].PruneKeep = uint64(r.Range(1, 6))
			}
		}
	}})
}
