package store

import (
	"bytes"
	"context"
	"encoding/json"
	"errors"
	"fmt"
	"os"
	"sort"
	"strings"

	"github.com/oasisprotocol/oasis-core/go/common/crypto/hash"
	"github.com/oasisprotocol/oasis-core/go/common/verifhook"
	"github.com/oasisprotocol/oasis-core/go/storage/mkvs"
	dbapi "github.com/oasisprotocol/oasis-core/go/storage/mkvs/db/api"
	"github.com/oasisprotocol/oasis-core/go/storage/mkvs/node"
	"github.com/oasisprotocol/oasis-core/go/storage/mkvs/syncer"
	"github.com/oasisprotocol/oasis-core/go/storage/mkvs/writelog"

	"verif/sim/core"
)

// NDKnobs are the knobs of a NodeDB-level history.
type NDKnobs struct {
	Backends     []string `json:"backends"` // one or two of badger, pathbadger (two = differential)
	Keys         []string `json:"keys"`
	StartVersion uint64   `json:"start_version"`
	Readers      int      `json:"readers"`       // inline concurrent readers at writer hooks
	ReaderSteps  int      `json:"reader_steps"`  // gets per reader per hook hit
	CheckWL      bool     `json:"check_wl"`      // check served write logs (C13 honest oracle)
	CheckEvery   int      `json:"check_every"`   // full read-back after every n-th mutating op (1 = always)
	ProofSamples int      `json:"proof_samples"` // SyncGet proofs verified per root per full check
	// OnlyWL restricts the oracle to the write-log checks (C13 batch): the C06 read-back oracle
	// (and its known findings) is not evaluated.
	OnlyWL bool `json:"only_wl,omitempty"`
}

// NDWrite is one write of a batch.
type NDWrite struct {
	Key int  `json:"key"`
	Len int  `json:"len,omitempty"`
	ID  int  `json:"id,omitempty"`
	Rm  bool `json:"rm,omitempty"`
}

// NDOp is one symbolic operation.
type NDOp struct {
	K      string    `json:"k"` // commit | finalize | prune | reopen
	Type   uint8     `json:"type,omitempty"`
	Parent int       `json:"parent,omitempty"`
	SameV  bool      `json:"samev,omitempty"`
	// Ahead: the candidate is committed for the version AFTER the pending one, derived from a
	// candidate of the pending version (which the next Finalize then has to choose): the storage
	// layer applies the diff of round r+1 before round r is finalized.
	Ahead bool `json:"ahead,omitempty"`
	// Refused > 0: after the first half of the writes the tree is first committed into a version
	// the database must refuse (1: the latest finalized version, 2: the finalized version before it); the second half of the writes and the real commit follow on the same tree.
	Refused int `json:"refused,omitempty"`
	Writes []NDWrite `json:"w,omitempty"`
	Choice []int     `json:"choice,omitempty"`
}

type mRoot struct {
	root      node.Root
	contents  Model
	finalized bool
	discarded bool
	parent    *mRoot // same-version parent (badger only)
	parentAny *mRoot // parent root (any version), nil = empty
}

// ndModel is the version/roots reference model.
type ndModel struct {
	versions map[uint64][]*mRoot
	earliest uint64
	latest   uint64
	haveAny  bool
	start    uint64
	// forced is the state candidate of the pending version that ahead-commits were derived from.
	forced *mRoot
}

func (m *ndModel) pending() uint64 {
	if !m.haveAny {
		return m.start
	}
	return m.latest + 1
}

func (m *ndModel) find(v uint64, t node.RootType, h hash.Hash) *mRoot {
	for _, r := range m.versions[v] {
		if r.root.Type == t && r.root.Hash == h {
			return r
		}
	}
	return nil
}

func (m *ndModel) ofType(v uint64, t node.RootType, finalizedOnly bool) []*mRoot {
	var out []*mRoot
	for _, r := range m.versions[v] {
		if r.root.Type == t && !r.discarded && (!finalizedOnly || r.finalized) {
			out = append(out, r)
		}
	}
	return out
}

func (m *ndModel) retainedFinalized() []*mRoot {
	var out []*mRoot
	if !m.haveAny {
		return nil
	}
	for v := m.earliest; v <= m.latest; v++ {
		for _, r := range m.versions[v] {
			if r.finalized {
				out = append(out, r)
			}
		}
	}
	return out
}

func ndViol(prop, kind, fp, detail string) *core.Violation {
	return &core.Violation{Property: prop, Kind: kind, Fingerprint: fp, Detail: detail}
}

// ndRun is one execution of a history against one backend.
type ndRun struct {
	prop    string
	backend string
	dir     string
	ndb     dbapi.NodeDB
	keys    [][]byte
	k       NDKnobs
	m       *ndModel
	st      *core.Stats
	ctx     context.Context
	obs     []string // observation log for the differential comparison
	readers []*ndReader
	opIdx   int
	mutN    int
	// hookViol is set by the inline readers.
	hookViol *core.Violation
	// rejected: the backend did not accept the history (documented limitation); the run stops.
	rejected bool
	// pruned: roots of versions pruned so far (for attributing failures to the shared-node finding).
	pruned []*mRoot
	// modelOnly: apply operations to the model only (the database already holds their effect).
	modelOnly bool
}

// sharedWithLonePrunedRoot reports whether the pair (key, val) is also held by a root of a
// pruned version that had no derived root ("lone" root: Prune deletes the nodes it created).
func (r *ndRun) sharedWithLonePrunedRoot(key string, val []byte, victim *mRoot) bool {
	for _, p := range r.pruned {
		if p == victim {
			continue
		}
		lone := true
		for _, rs := range r.m.versions {
			for _, x := range rs {
				if x.parentAny == p {
					lone = false
				}
			}
		}
		for _, x := range r.pruned {
			if x.parentAny == p {
				lone = false
			}
		}
		if !lone {
			continue
		}
		if pv, ok := p.contents[key]; ok && bytes.Equal(pv, val) {
			return true
		}
	}
	return false
}

// classifyUnreadable attributes an unreadable retained root to the shared-node prune finding
// when every failing key holds a pair that a lone root of a pruned version also held.
func (r *ndRun) classifyUnreadable(x *mRoot) (bool, string) {
	t := r.openAt(x.root)
	defer t.Close()
	failing, shared := 0, 0
	var ex string
	for _, ks := range x.contents.SortedKeys() {
		g, err := t.Get(r.ctx, []byte(ks))
		if err == nil && bytes.Equal(g, x.contents[ks]) {
			continue
		}
		failing++
		if r.sharedWithLonePrunedRoot(ks, x.contents[ks], x) {
			shared++
			ex = fmt.Sprintf("key %x", ks)
		}
	}
	return failing > 0 && failing == shared, ex
}

func (r *ndRun) versionHasEmptyRoot(v uint64) bool {
	for _, x := range r.m.versions[v] {
		if x.root.Hash.IsEmpty() && !x.discarded {
			return true
		}
	}
	return false
}

type ndReader struct {
	r    *mRoot
	tree mkvs.Tree
	next int
}

func newNDRun(prop, backend, dir string, k NDKnobs, st *core.Stats) *ndRun {
	r := &ndRun{prop: prop, backend: backend, dir: dir, keys: UnhexKeys(k.Keys), k: k, st: st, ctx: context.Background(),
		m: &ndModel{versions: map[uint64][]*mRoot{}, start: k.StartVersion}}
	r.ndb = OpenDB(backend, dir)
	return r
}

func (r *ndRun) close() {
	r.dropReaders(nil)
	if r.ndb != nil {
		r.ndb.Close()
		r.ndb = nil
	}
}

func (r *ndRun) obsf(format string, a ...interface{}) {
	r.obs = append(r.obs, fmt.Sprintf(format, a...))
}

func (r *ndRun) openAt(root node.Root, opts ...mkvs.Option) mkvs.Tree {
	if root.Hash.IsEmpty() {
		return mkvs.New(nil, r.ndb, root.Type, opts...)
	}
	return mkvs.NewWithRoot(nil, r.ndb, root, opts...)
}

// dropReaders closes readers for which pred is true (nil = all).
func (r *ndRun) dropReaders(pred func(*ndReader) bool) {
	var keep []*ndReader
	for _, rd := range r.readers {
		if pred == nil || pred(rd) {
			rd.tree.Close()
		} else {
			keep = append(keep, rd)
		}
	}
	r.readers = keep
}

// ensureReaders opens inline readers on retained finalized roots (deterministically chosen).
func (r *ndRun) ensureReaders(exclude func(*mRoot) bool) {
	if r.k.Readers == 0 {
		return
	}
	roots := r.m.retainedFinalized()
	var cand []*mRoot
	for _, x := range roots {
		if !x.root.Hash.IsEmpty() && (exclude == nil || !exclude(x)) {
			cand = append(cand, x)
		}
	}
	for i := 0; len(r.readers) < r.k.Readers && len(cand) > 0 && i < r.k.Readers; i++ {
		x := cand[(r.opIdx*7+i*3)%len(cand)]
		d := TrieDepth(x.contents)
		t := r.openAt(x.root, mkvs.Capacity(uint64(d+PathSlack+1), uint64((d+PathSlack+1)*MaxLeafBytes)))
		r.readers = append(r.readers, &ndReader{r: x, tree: t, next: r.opIdx})
	}
}

// hook is the verifhook handler while a writer operation is in progress: it runs reader steps
// on the writer's goroutine (readers take none of the writer's locks, so this is a concurrent
// interleaving at exactly this point).
func (r *ndRun) hook(name string, latestBefore uint64, haveBefore bool, latestAfter uint64) {
	if r.hookViol != nil {
		return
	}
	r.st.Inc("probe.hook." + name)
	for _, rd := range r.readers {
		if !r.ndb.HasRoot(rd.r.root) {
			r.hookViol = ndViol(r.prop, "concurrent-read", "concurrent-read hasroot", fmt.Sprintf("%s: at hook %s inside operation %d HasRoot(v%d %s) turned false for a retained finalized root", r.backend, name, r.opIdx, rd.r.root.Version, rd.r.root.Hash))
			return
		}
		for s := 0; s < r.k.ReaderSteps; s++ {
			key := r.keys[rd.next%len(r.keys)]
			rd.next++
			got, err := rd.tree.Get(r.ctx, key)
			want, ok := rd.r.contents[string(key)]
			r.st.Inc("probe.reader_steps_inside_writer")
			if err != nil {
				shared := ok && r.sharedWithLonePrunedRoot(string(key), want, rd.r)
				if !shared {
					shared, _ = r.classifyUnreadable(rd.r)
				}
				if shared {
					r.hookViol = ndViol(r.prop, "prune-deletes-shared-node", "prune-deletes-shared-node "+r.backend, fmt.Sprintf("%s: at hook %s inside operation %d a read of key %x at retained finalized root v%d %s failed (%v); the same key/value pair was held by a lone root of a pruned version", r.backend, name, r.opIdx, key, rd.r.root.Version, rd.r.root.Hash, err))
					return
				}
				r.hookViol = ndViol(r.prop, "concurrent-read", "concurrent-read error", fmt.Sprintf("%s: at hook %s inside operation %d a read of key %x at retained finalized root v%d %s failed: %v", r.backend, name, r.opIdx, key, rd.r.root.Version, rd.r.root.Hash, err))
				return
			}
			if (got != nil) != ok || !bytes.Equal(got, want) {
				r.hookViol = ndViol(r.prop, "concurrent-read", "concurrent-read wrong", fmt.Sprintf("%s: at hook %s inside operation %d a read of key %x at retained finalized root v%d %s returned %x, expected %x (present=%v)", r.backend, name, r.opIdx, key, rd.r.root.Version, rd.r.root.Hash, got, want, ok))
				return
			}
		}
	}
	if lv, ok := r.ndb.GetLatestVersion(); ok {
		if lv != latestAfter && !(haveBefore && lv == latestBefore) {
			r.hookViol = ndViol(r.prop, "concurrent-read", "concurrent-read latest", fmt.Sprintf("%s: at hook %s GetLatestVersion returned %d, neither the old (%d) nor the new (%d) value", r.backend, name, lv, latestBefore, latestAfter))
		}
	}
}

func (r *ndRun) withHooks(latestAfter uint64, f func()) {
	lb, hb := r.m.latest, r.m.haveAny
	if len(r.readers) > 0 {
		verifhook.SetHandler(func(name string) {
			if strings.HasPrefix(name, "badger.") || strings.HasPrefix(name, "pathbadger.") {
				r.hook(name, lb, hb, latestAfter)
			}
		})
		defer verifhook.SetHandler(nil)
	}
	f()
}

// apply executes one operation against the database and the model.
func (r *ndRun) apply(op NDOp) *core.Violation {
	m := r.m
	switch op.K {
	case "commit":
		v := m.pending()
		typ := node.RootTypeState
		if op.Type == 2 {
			typ = node.RootTypeIO
		}
		var parent *mRoot
		ahead := false
		if op.Ahead && typ == node.RootTypeState && !op.SameV {
			if c := m.ofType(v, typ, false); len(c) > 0 && len(m.ofType(v+1, typ, false)) < 3 {
				if m.forced == nil {
					// The FIRST candidate: pathbadger accepts a batch derived from a pending non-first
					// candidate but resolves the parent's nodes in the finalized key space (wrong
					// contents or a panic). The property quantifies over candidates derived from the
					// previous finalized root, so that is recorded as an observation, not generated.
					m.forced = c[0]
				}
				parent, ahead = m.forced, true
				v++
				r.st.Inc("probe.commit_ahead_of_finalization")
			}
		}
		if len(m.ofType(v, typ, false)) >= 4 {
			return nil
		}
		sameV := false
		if op.SameV && len(r.k.Backends) == 1 && r.backend == "badger" {
			if c := m.ofType(v, typ, false); len(c) > 0 {
				parent = c[op.Parent%len(c)]
				sameV = true
			}
		}
		if parent == nil && !ahead && typ == node.RootTypeState && m.haveAny {
			if c := m.ofType(m.latest, typ, true); len(c) > 0 {
				parent = c[op.Parent%len(c)]
			}
		}
		parentRoot := node.Root{Namespace: Namespace, Version: v, Type: typ}
		parentRoot.Hash.Empty()
		contents := Model{}
		if parent != nil {
			parentRoot = parent.root
			contents = parent.contents.Clone()
		}
		if r.modelOnly {
			for _, w := range op.Writes {
				key := r.keys[w.Key%len(r.keys)]
				if w.Rm {
					delete(contents, string(key))
				} else {
					contents[string(key)] = Value(w.ID, w.Len)
				}
			}
			h := CanonicalRoot(r.ctx, contents, typ)
			if m.find(v, typ, h) == nil {
				m.versions[v] = append(m.versions[v], &mRoot{root: node.Root{Namespace: Namespace, Version: v, Type: typ, Hash: h}, contents: contents, parentAny: parent})
			}
			return nil
		}
		tree := r.openAt(parentRoot)
		defer tree.Close()
		refuseAt := -1
		if op.Refused > 0 && len(op.Writes) > 0 && !ahead && m.haveAny {
			refuseAt = len(op.Writes) / 2
		}
		for wi, w := range op.Writes {
			if wi == refuseAt {
				// (1: the latest finalized version; 2: an earlier finalized version when there is one.)
				bad := m.latest
				if op.Refused == 2 && m.latest > m.earliest {
					bad = m.latest - 1
				}
				if _, _, err := tree.Commit(r.ctx, Namespace, bad); err == nil {
					// The database accepted it (e.g. nothing finalized yet): not the case aimed at,
					// and the history has left the model; it is not accepted further.
					r.st.Inc("probe.history_rejected_commit_into_unexpected_version_accepted")
					r.rejected = true
					return nil
				}
				r.st.Inc("probe.commit_refused_then_retried_on_same_tree")
			}
			key := r.keys[w.Key%len(r.keys)]
			if w.Rm {
				if err := tree.Remove(r.ctx, key); err != nil {
					if refuseAt >= 0 && wi >= refuseAt {
						r.st.Inc("probe.history_rejected_commit_after_refused_commit_failed")
						r.rejected = true
						return nil
					}
					return ndViol(r.prop, "op-error", "op-error remove", fmt.Sprintf("%s: op %d: remove on a tree at v%d %s failed: %v", r.backend, r.opIdx, parentRoot.Version, parentRoot.Hash, err))
				}
				delete(contents, string(key))
			} else {
				val := Value(w.ID, w.Len)
				if err := tree.Insert(r.ctx, key, val); err != nil {
					if refuseAt >= 0 && wi >= refuseAt {
						r.st.Inc("probe.history_rejected_commit_after_refused_commit_failed")
						r.rejected = true
						return nil
					}
					return ndViol(r.prop, "op-error", "op-error insert", fmt.Sprintf("%s: op %d: insert on a tree at v%d %s failed: %v", r.backend, r.opIdx, parentRoot.Version, parentRoot.Hash, err))
				}
				contents[string(key)] = val
			}
		}
		var h hash.Hash
		var wl writelog.WriteLog
		var err error
		r.ensureReaders(nil)
		r.withHooks(m.latest, func() { wl, h, err = tree.Commit(r.ctx, Namespace, v) })
		if err != nil && refuseAt >= 0 {
			// A tree whose commit was refused need not be committable afterwards (pathbadger: "no new
			// root node, but new root hash not equal to old"); an error is not a wrong answer. The
			// history is not accepted further.
			r.st.Inc("probe.history_rejected_commit_after_refused_commit_failed")
			r.rejected = true
			return nil
		}
		if err != nil {
			return ndViol(r.prop, "op-error", "op-error commit", fmt.Sprintf("%s: op %d: commit of a %s candidate for version %d derived from v%d %s failed: %v", r.backend, r.opIdx, typ, v, parentRoot.Version, parentRoot.Hash, err))
		}
		if want := CanonicalRoot(r.ctx, contents, typ); want != h {
			return ndViol(r.prop, "root-mismatch", "root-mismatch", fmt.Sprintf("%s: op %d: committed root %s differs from the canonical root %s of its contents", r.backend, r.opIdx, h, want))
		}
		r.obsf("commit v=%d type=%d root=%s", v, typ, h)
		r.st.Event("%s commit v=%d type=%d root=%s parent=%s n=%d", r.backend, v, typ, h, parentRoot.Hash, len(op.Writes))
		if h == parentRoot.Hash {
			r.st.Inc("probe.root_unchanged_by_batch")
		}
		if len(contents) == 0 {
			r.st.Inc("probe.empty_root_committed")
		}
		if m.find(v, typ, h) == nil {
			nr := &mRoot{root: node.Root{Namespace: Namespace, Version: v, Type: typ, Hash: h}, contents: contents, parentAny: parent}
			if sameV {
				nr.parent = parent
				r.st.Inc("probe.same_version_child_root")
			}
			m.versions[v] = append(m.versions[v], nr)
			if len(m.ofType(v, typ, false)) > 1 {
				r.st.Inc("probe.competing_candidate_roots")
			}
			if r.k.CheckWL {
				if vv := r.checkWriteLog(parentRoot, nr, wl, "after commit"); vv != nil {
					return vv
				}
			}
		} else {
			r.st.Inc("probe.duplicate_root_committed")
		}
	case "finalize":
		v := m.pending()
		var roots []node.Root
		var chosen []*mRoot
		sc := m.ofType(v, node.RootTypeState, false)
		if len(sc) == 0 {
			return nil
		}
		pick := func(i int, c []*mRoot) *mRoot {
			x := 0
			if i < len(op.Choice) {
				x = op.Choice[i]
			}
			return c[x%len(c)]
		}
		cs := pick(0, sc)
		if m.forced != nil {
			cs = m.forced // later versions were already derived from this candidate
			r.st.Inc("probe.finalize_with_children_committed_ahead")
		}
		m.forced = nil
		chosen = append(chosen, cs)
		if ic := m.ofType(v, node.RootTypeIO, false); len(ic) > 0 && (len(op.Choice) < 3 || op.Choice[2]%4 != 0) {
			chosen = append(chosen, pick(1, ic))
		}
		for _, c := range chosen {
			roots = append(roots, c.root)
		}
		if cs != sc[0] {
			r.st.Inc("probe.finalized_non_first_candidate")
		}
		r.ensureReaders(nil)
		var err error
		if !r.modelOnly {
			r.withHooks(v, func() { err = r.ndb.Finalize(roots) })
		}
		if err != nil {
			return ndViol(r.prop, "op-error", "op-error finalize", fmt.Sprintf("%s: op %d: Finalize(version %d, %d roots) failed: %v", r.backend, r.opIdx, v, len(roots), err))
		}
		// Only the roots passed to Finalize are finalized. (badger additionally keeps their
		// same-version ancestors listed; those fall under the "not finalized" clause: absent, or
		// readable with exactly their own contents.)
		for _, c := range chosen {
			c.finalized = true
		}
		nd := 0
		for _, x := range m.versions[v] {
			if !x.finalized {
				x.discarded = true
				nd++
			}
		}
		if nd > 0 {
			r.st.Inc("probe.finalize_discarded_roots")
		}
		if !m.haveAny {
			m.haveAny, m.earliest = true, v
		}
		m.latest = v
		r.obsf("finalize v=%d n=%d", v, len(roots))
		r.st.Event("%s finalize v=%d roots=%d discarded=%d", r.backend, v, len(roots), nd)
		if r.k.CheckWL {
			for _, c := range m.versions[v] {
				if c.finalized {
					pr := node.Root{Namespace: Namespace, Version: v, Type: c.root.Type}
					pr.Hash.Empty()
					if c.parentAny != nil {
						pr = c.parentAny.root
						if !c.parentAny.finalized {
							// The first root is a same-version ancestor that was not itself finalized
							// (badger only); whether it stays readable is C06's concern.
							continue
						}
					}
					if vv := r.checkWriteLog(pr, c, nil, "after finalize"); vv != nil {
						return vv
					}
				}
			}
		}
	case "prune":
		if !m.haveAny || m.earliest >= m.latest {
			return nil
		}
		v := m.earliest
		for _, x := range m.versions[v] {
			if x.finalized {
				r.pruned = append(r.pruned, x)
			}
		}
		r.dropReaders(func(rd *ndReader) bool { return rd.r.root.Version == v })
		r.ensureReaders(func(x *mRoot) bool { return x.root.Version == v })
		var err error
		if !r.modelOnly {
			r.withHooks(m.latest, func() { err = r.ndb.Prune(v) })
		}
		if err != nil && r.versionHasEmptyRoot(v) {
			// Known limitation outside the property: badger's Prune visits every root of the version
			// through the node database and fails on an explicitly committed empty root. The
			// property does not require Prune to succeed; the history is not accepted further.
			r.st.Inc("probe.history_rejected_prune_of_committed_empty_root")
			r.rejected = true
			return nil
		}
		if err != nil {
			return ndViol(r.prop, "op-error", "op-error prune", fmt.Sprintf("%s: op %d: Prune(%d) failed (earliest %d, latest %d): %v", r.backend, r.opIdx, v, m.earliest, m.latest, err))
		}
		delete(m.versions, v)
		m.earliest = v + 1
		r.obsf("prune v=%d", v)
		r.st.Event("%s prune v=%d", r.backend, v)
		r.st.Inc("probe.prune")
	case "reopen":
		if r.dir == "" {
			return nil
		}
		r.dropReaders(nil)
		r.ndb.Close()
		ndb, err := TryOpenDB(r.backend, r.dir)
		if err != nil {
			r.ndb = nil
			return ndViol(r.prop, "reopen-error", "reopen-error", fmt.Sprintf("%s: op %d: reopening the database failed: %v", r.backend, r.opIdx, err))
		}
		r.ndb = ndb
		// Every other reopen is followed by an explicit compaction (the storage compaction command
		// of the node): whatever the database told its LSM tree to discard at open is dropped now,
		// and every retained version must still read back (checked after the operation as usual).
		if r.opIdx%2 == 1 {
			if err := r.ndb.Compact(); err != nil {
				return ndViol(r.prop, "compact-error", "compact-error", fmt.Sprintf("%s: op %d: Compact after reopen failed: %v", r.backend, r.opIdx, err))
			}
			r.st.Inc("probe.compacted_after_reopen")
		}
		// Candidates of the pending version survive a clean reopen (they are committed durably).
		r.obsf("reopen")
		r.st.Event("%s reopen", r.backend)
		r.st.Inc("probe.reopen")
	default:
		core.Harnessf("nodedb: unknown op %q", op.K)
	}
	if r.hookViol != nil {
		return r.hookViol
	}
	return nil
}

// checkWriteLog: the write log served for (parent -> child), applied to a tree at the parent,
// produces exactly the child root (C13 honest oracle). direct is the log returned by Commit.
func (r *ndRun) checkWriteLog(parent node.Root, child *mRoot, direct writelog.WriteLog, when string) *core.Violation {
	if parent.Version != child.root.Version && parent.Version+1 != child.root.Version {
		return nil
	}
	it, err := r.ndb.GetWriteLog(r.ctx, parent, child.root)
	if err != nil && parent.Hash == child.root.Hash {
		// Unchanged root: the batch was empty and no log is stored; nothing is served.
		r.st.Inc("probe.writelog_not_served_for_unchanged_root")
		return nil
	}
	if err != nil && !child.finalized && errors.Is(err, dbapi.ErrWriteLogNotFound) {
		// A not yet finalized candidate need not serve a log (pathbadger serves logs only for the
		// first candidate of a version until finalization).
		r.st.Inc("probe.writelog_not_served_for_pending_root")
		return nil
	}
	if err != nil {
		// No log is served (an error is not a wrong log): the property quantifies over served
		// logs, so this is counted, not alarmed on.
		r.st.Inc("probe.writelog_not_served_error")
		if os.Getenv("VERIF_C13_STRICT") == "" {
			return nil
		}
		return ndViol("C13", "writelog-missing", "writelog-missing", fmt.Sprintf("%s: op %d (%s): GetWriteLog(v%d %s -> v%d %s) failed: %v", r.backend, r.opIdx, when, parent.Version, parent.Hash, child.root.Version, child.root.Hash, err))
	}
	var wl writelog.WriteLog
	for {
		more, err := it.Next()
		if err != nil {
			return ndViol("C13", "writelog-iter-error", "writelog-iter-error", fmt.Sprintf("%s: op %d (%s): write log iterator failed: %v", r.backend, r.opIdx, when, err))
		}
		if !more {
			break
		}
		e, err := it.Value()
		if err != nil {
			return ndViol("C13", "writelog-iter-error", "writelog-iter-error", fmt.Sprintf("%s: op %d (%s): write log iterator value failed: %v", r.backend, r.opIdx, when, err))
		}
		wl = append(wl, writelog.LogEntry{Key: append([]byte{}, e.Key...), Value: append([]byte(nil), e.Value...)})
		if e.Value != nil && len(e.Value) == 0 {
			wl[len(wl)-1].Value = []byte{}
		}
	}
	r.st.Inc("probe.writelog_served")
	if len(wl) == 0 {
		r.st.Inc("probe.writelog_neutral")
	}
	t := r.openAt(parent)
	defer t.Close()
	if err := t.ApplyWriteLog(r.ctx, writelog.NewStaticIterator(wl)); err != nil {
		return ndViol("C13", "writelog-apply-error", "writelog-apply-error", fmt.Sprintf("%s: op %d (%s): applying the served write log failed: %v", r.backend, r.opIdx, when, err))
	}
	_, h, err := t.Commit(r.ctx, Namespace, child.root.Version, mkvs.NoPersist())
	if err != nil {
		return ndViol("C13", "writelog-apply-error", "writelog-apply-error", fmt.Sprintf("%s: op %d (%s): committing after the served write log failed: %v", r.backend, r.opIdx, when, err))
	}
	if h != child.root.Hash {
		return ndViol("C13", "writelog-wrong-root", "writelog-wrong-root", fmt.Sprintf("%s: op %d (%s): the write log served for v%d %s -> v%d %s (%d entries) applied to the first root gives %s", r.backend, r.opIdx, when, parent.Version, parent.Hash, child.root.Version, child.root.Hash, len(wl), h))
	}
	return nil
}

func rootsSet(rs []node.Root) []string {
	var out []string
	for _, x := range rs {
		if x.Hash.IsEmpty() {
			continue
		}
		out = append(out, fmt.Sprintf("%d/%s", x.Type, x.Hash))
	}
	sort.Strings(out)
	return out
}

// fullCheck evaluates the C06 oracle on the whole database.
func (r *ndRun) fullCheck() *core.Violation {
	if r.k.OnlyWL {
		return nil
	}
	m := r.m
	lv, ok := r.ndb.GetLatestVersion()
	if ok != m.haveAny || (ok && lv != m.latest) {
		return ndViol(r.prop, "metadata", "metadata latest", fmt.Sprintf("%s: after op %d GetLatestVersion = (%d,%v), model (%d,%v)", r.backend, r.opIdx, lv, ok, m.latest, m.haveAny))
	}
	if m.haveAny {
		if ev := r.ndb.GetEarliestVersion(); ev != m.earliest {
			return ndViol(r.prop, "metadata", "metadata earliest", fmt.Sprintf("%s: after op %d GetEarliestVersion = %d, model %d", r.backend, r.opIdx, ev, m.earliest))
		}
	}
	r.obsf("meta latest=%d/%v earliest=%d", lv, ok, r.ndb.GetEarliestVersion())
	lo, hi := m.earliest, m.pending()
	if !m.haveAny {
		lo = hi
	}
	if len(m.versions[hi+1]) > 0 {
		hi++ // candidates committed ahead of the pending version's finalization
	}
	listed := map[uint64]map[string]bool{}
	for v := lo; v <= hi; v++ {
		got, err := r.ndb.GetRootsForVersion(v)
		if err != nil {
			return ndViol(r.prop, "roots-for-version", "roots-for-version error", fmt.Sprintf("%s: after op %d GetRootsForVersion(%d) failed: %v", r.backend, r.opIdx, v, err))
		}
		var want []node.Root
		for _, x := range m.versions[v] {
			if !x.discarded {
				want = append(want, x.root)
			}
		}
		gs, ws := rootsSet(got), rootsSet(want)
		r.obsf("roots v=%d %v", v, gs)
		gsm := map[string]bool{}
		for _, g := range gs {
			gsm[g] = true
		}
		for _, w := range ws {
			if !gsm[w] {
				return ndViol(r.prop, "roots-for-version", "roots-for-version missing", fmt.Sprintf("%s: after op %d GetRootsForVersion(%d) = %v does not list %s", r.backend, r.opIdx, v, gs, w))
			}
		}
		// Surplus entries may only be non-finalized roots of this version; those are "claimed" by
		// the database and must then be readable with exactly their own contents (checked below).
		known := map[string]bool{}
		for _, x := range m.versions[v] {
			known[fmt.Sprintf("%d/%s", x.root.Type, x.root.Hash)] = true
		}
		for _, g := range gs {
			if !known[g] {
				return ndViol(r.prop, "roots-for-version", "roots-for-version unknown", fmt.Sprintf("%s: after op %d GetRootsForVersion(%d) lists %s which was never committed in this version", r.backend, r.opIdx, v, g))
			}
		}
		listed[v] = gsm
	}
	// Every retained finalized root and every pending candidate is fully readable.
	var readable []*mRoot
	readable = append(readable, m.retainedFinalized()...)
	for _, x := range m.versions[m.pending()] {
		readable = append(readable, x)
	}
	for _, x := range m.versions[m.pending()+1] {
		readable = append(readable, x)
	}
	var pv syncer.ProofVerifier
	for _, x := range readable {
		what := "retained finalized root"
		if !x.finalized {
			what = "pending candidate root"
		}
		if !r.ndb.HasRoot(x.root) {
			return ndViol(r.prop, "finalized-root-missing", "finalized-root-missing hasroot", fmt.Sprintf("%s: after op %d HasRoot is false for %s v%d %s", r.backend, r.opIdx, what, x.root.Version, x.root.Hash))
		}
		if x.root.Hash.IsEmpty() {
			continue
		}
		t := r.openAt(x.root)
		if err := CompareDump(r.ctx, t, x.contents); err != nil {
			t.Close()
			if shared, ex := r.classifyUnreadable(x); shared {
				return ndViol(r.prop, "prune-deletes-shared-node", "prune-deletes-shared-node "+r.backend, fmt.Sprintf("%s: after op %d %s v%d type %d %s is no longer completely readable (%v); every failing key (e.g. %s) holds a key/value pair that a lone root of a pruned version also held", r.backend, r.opIdx, what, x.root.Version, x.root.Type, x.root.Hash, err, ex))
			}
			return ndViol(r.prop, "finalized-root-unreadable", "finalized-root-unreadable "+strings.Fields(what)[0], fmt.Sprintf("%s: after op %d %s v%d type %d %s: %v", r.backend, r.opIdx, what, x.root.Version, x.root.Type, x.root.Hash, err))
		}
		ks := x.contents.SortedKeys()
		for i := 0; i < r.k.ProofSamples && len(ks) > 0; i++ {
			key := []byte(ks[(r.opIdx+i*5)%len(ks)])
			rsp, err := t.SyncGet(r.ctx, &syncer.GetRequest{Tree: syncer.TreeID{Root: x.root, Position: x.root.Hash}, Key: key, ProofVersion: uint16(i % 2)})
			if err != nil {
				t.Close()
				return ndViol(r.prop, "proof-error", "proof-error", fmt.Sprintf("%s: after op %d SyncGet(%x) at %s v%d %s failed: %v", r.backend, r.opIdx, key, what, x.root.Version, x.root.Hash, err))
			}
			wl, err := pv.VerifyProofToWriteLog(r.ctx, x.root.Hash, &rsp.Proof)
			if err != nil {
				t.Close()
				return ndViol(r.prop, "proof-error", "proof-error", fmt.Sprintf("%s: after op %d proof for %x at v%d %s does not verify: %v", r.backend, r.opIdx, key, x.root.Version, x.root.Hash, err))
			}
			found := false
			for _, e := range wl {
				if bytes.Equal(e.Key, key) && bytes.Equal(e.Value, x.contents[string(key)]) {
					found = true
				}
			}
			if !found {
				t.Close()
				return ndViol(r.prop, "proof-error", "proof-error", fmt.Sprintf("%s: after op %d proof for %x at v%d %s does not contain the pair", r.backend, r.opIdx, key, x.root.Version, x.root.Hash))
			}
		}
		t.Close()
	}
	// Discarded roots: absent, or readable with exactly their own contents.
	if m.haveAny {
		for v := m.earliest; v <= m.latest; v++ {
			for _, x := range m.versions[v] {
				if !x.discarded || x.root.Hash.IsEmpty() {
					continue
				}
				has := r.ndb.HasRoot(x.root)
				if listed[v][fmt.Sprintf("%d/%s", x.root.Type, x.root.Hash)] {
					has = true // listed by GetRootsForVersion = claimed
				}
				r.obsf("discarded v=%d %s claimed=%v", v, x.root.Hash, has)
				t := r.openAt(x.root)
				var got Model
				var err error
				if pval, _ := core.Guard(func() { got, _, err = DumpTree(r.ctx, t) }); pval != nil {
					t.Close()
					return ndViol(r.prop, "discarded-root-foreign-contents", "discarded-root-foreign-contents "+r.backend,
						fmt.Sprintf("%s: after op %d reading the non-finalized root v%d %s (claimed=%v) panics (%v): the nodes found under it are not its own", r.backend, r.opIdx, v, x.root.Hash, has, pval))
				}
				if err == nil {
					r.st.Inc("probe.discarded_root_still_readable")
					if !got.Equal(x.contents) {
						t.Close()
						return ndViol(r.prop, "discarded-root-foreign-contents", "discarded-root-foreign-contents "+r.backend,
							fmt.Sprintf("%s: after op %d the non-finalized root v%d %s (HasRoot=%v) reads back contents that are not its own: %s", r.backend, r.opIdx, v, x.root.Hash, has, DiffModels(got, x.contents)))
					}
				} else {
					r.st.Inc("probe.discarded_root_unreadable")
					// Individual keys: each either fails or returns the root's own value.
					for _, ks := range x.contents.SortedKeys() {
						g, gerr := t.Get(r.ctx, []byte(ks))
						if gerr == nil && !bytes.Equal(g, x.contents[ks]) {
							t.Close()
							return ndViol(r.prop, "discarded-root-foreign-contents", "discarded-root-foreign-contents "+r.backend,
								fmt.Sprintf("%s: after op %d Get(%x) at the non-finalized root v%d %s (HasRoot=%v) returned %x, the root's own value is %x", r.backend, r.opIdx, ks, v, x.root.Hash, has, g, x.contents[ks]))
						}
					}
				}
				t.Close()
				if has && err != nil {
					return ndViol(r.prop, "discarded-root-claimed", "discarded-root-claimed "+r.backend, fmt.Sprintf("%s: after op %d the database still claims (HasRoot/GetRootsForVersion) the non-finalized root v%d %s but it cannot be read completely: %v", r.backend, r.opIdx, v, x.root.Hash, err))
				}
			}
		}
		// Pruned versions are gone.
		if m.earliest > 0 {
			for _, v := range []uint64{m.earliest - 1} {
				if v >= r.m.start {
					if rs, _ := r.ndb.GetRootsForVersion(v); len(rootsSet(rs)) > 0 {
						return ndViol(r.prop, "pruned-version-listed", "pruned-version-listed", fmt.Sprintf("%s: after op %d GetRootsForVersion(%d) still lists roots of a pruned version", r.backend, r.opIdx, v))
					}
				}
			}
		}
	}
	return nil
}

// runOps executes ops[from:to] with periodic full checks.
func (r *ndRun) runOps(ops []NDOp, from, to int) *core.Violation {
	for i := from; i < to; i++ {
		r.opIdx = i
		var v *core.Violation
		pv, stack := core.Guard(func() {
			v = r.apply(ops[i])
			if v == nil && !r.modelOnly {
				r.mutN++
				if r.k.CheckEvery <= 1 || r.mutN%r.k.CheckEvery == 0 || i == to-1 {
					v = r.fullCheck()
				}
			}
		})
		if pv != nil {
			verifhook.SetHandler(nil)
			return ndViol(r.prop, "panic", "panic "+r.backend, fmt.Sprintf("%s: op %d (%s): panic: %v\n%s", r.backend, i, ops[i].K, pv, stack))
		}
		if v != nil {
			return v
		}
		if r.rejected {
			return nil
		}
	}
	return nil
}

// NodeDBEngine decides C06 (and, with CheckWL, the honest half of C13).
type NodeDBEngine struct {
	Prop    string
	CheckWL bool
}

func genWrites(r *core.Rand, nk, id0 int) []NDWrite {
	n := r.Pick([]int{1, 3, 4, 2})
	switch n {
	case 0:
		n = 0
	case 1:
		n = r.Range(1, 3)
	case 2:
		n = r.Range(3, 12)
	default:
		n = r.Range(12, 40)
	}
	var ws []NDWrite
	for i := 0; i < n; i++ {
		w := NDWrite{Key: r.Intn(nk)}
		if r.Chance(1, 3) {
			w.Rm = true
		} else {
			w.ID = id0*100 + i
			w.Len = []int{0, 1, 5, 20, 40}[r.Intn(5)]
		}
		ws = append(ws, w)
	}
	return ws
}

// GenNodeDBHistory generates a history (shared by the crash engine).
func GenNodeDBHistory(r *core.Rand, tier core.Tier, k *NDKnobs, nops int) []json.RawMessage {
	nk := len(k.Keys)
	var ops []json.RawMessage
	// Swarm weights.
	wCommit, wFinal, wPrune, wReopen := r.Range(4, 10), r.Range(2, 6), r.Range(0, 3), r.Range(0, 2)
	ioChance := r.Range(0, 3)
	for i := 0; i < nops; i++ {
		var op NDOp
		switch r.Pick([]int{wCommit, wFinal, wPrune, wReopen}) {
		case 0:
			op = NDOp{K: "commit", Type: 1, Parent: r.Intn(8), SameV: r.Chance(1, 4), Writes: genWrites(r, nk, i+1)}
			if r.Chance(ioChance, 6) {
				op.Type = 2
			}
		case 1:
			op = NDOp{K: "finalize", Choice: []int{r.Intn(8), r.Intn(8), r.Intn(8)}}
		case 2:
			op = NDOp{K: "prune"}
		case 3:
			op = NDOp{K: "reopen"}
		}
		ops = append(ops, core.MustJSON(op))
	}
	return ops
}

// Generate implements core.Engine.
func (e NodeDBEngine) Generate(r *core.Rand, tier core.Tier) *core.Scenario {
	k := NDKnobs{StartVersion: uint64(r.Pick([]int{3, 1, 1}) * r.Range(0, 5)), CheckWL: e.CheckWL, OnlyWL: e.CheckWL, CheckEvery: 1, ProofSamples: r.Range(0, 3)}
	switch r.Pick([]int{3, 3, 2}) {
	case 0:
		k.Backends = []string{"badger"}
	case 1:
		k.Backends = []string{"pathbadger"}
	default:
		k.Backends = []string{"badger", "pathbadger"}
	}
	nk := r.Range(2, 30)
	if r.Chance(1, 5) {
		nk = r.Range(30, 60)
	}
	k.Keys = HexKeys(GenKeys(r, nk, 48))
	if r.Chance(2, 3) {
		k.Readers = r.Range(1, 3)
		k.ReaderSteps = r.Range(1, 4)
	}
	nops := r.Range(4, 40)
	if tier == core.Thorough {
		nops = r.Range(4, 90)
	}
	if e.CheckWL {
		k.Readers = 0
	}
	sc := &core.Scenario{Engine: "nodedb", Knobs: core.MustJSON(k)}
	sc.Ops = GenNodeDBHistory(r, tier, &k, nops)
	if !e.CheckWL {
		// Commit-ahead (own PRNG, the history is otherwise unchanged): in a third of the histories
		// some commits go to the version after the pending one.
		ar := core.NewRand(core.Hash64(core.MustJSON(k)) ^ 0xa4ead)
		if ar.Chance(1, 3) {
			for i, raw := range sc.Ops {
				var op NDOp
				_ = json.Unmarshal(raw, &op)
				if op.K == "commit" && op.Type != 2 && ar.Chance(1, 3) {
					op.Ahead, op.SameV = true, false
					sc.Ops[i] = core.MustJSON(op)
				}
			}
		}
	}
	if e.CheckWL {
		// Refused commits (own PRNG): a quarter of the commits are first attempted into a version
		// the database refuses, on the tree that is then committed properly.
		rr := core.NewRand(core.Hash64(core.MustJSON(k)) ^ 0x7ef05ed)
		for i, raw := range sc.Ops {
			var op NDOp
			_ = json.Unmarshal(raw, &op)
			// (badger only: on pathbadger a tree whose commit was refused cannot be committed
			// completely afterwards — later reads of that root fail with "node not found" — so the
			// usage is not supported there; recorded as an observation.)
			if op.K == "commit" && len(op.Writes) >= 2 && rr.Chance(1, 4) && len(k.Backends) == 1 && k.Backends[0] == "badger" {
				op.Refused = rr.Range(1, 2)
				sc.Ops[i] = core.MustJSON(op)
			}
		}
		// The write-log batch stays out of the territory of the C06 known findings: no
		// same-version child roots, and I/O values never coincide with state values.
		for i, raw := range sc.Ops {
			var op NDOp
			_ = json.Unmarshal(raw, &op)
			op.SameV = false
			if op.Type == 2 {
				for j := range op.Writes {
					if !op.Writes[j].Rm && op.Writes[j].Len < 5 {
						op.Writes[j].Len = 5
					}
				}
			}
			sc.Ops[i] = core.MustJSON(op)
		}
	}
	return sc
}

// DecodeNDOps decodes the op list.
func DecodeNDOps(raw []json.RawMessage) []NDOp {
	ops := make([]NDOp, len(raw))
	for i, x := range raw {
		if err := json.Unmarshal(x, &ops[i]); err != nil {
			core.Harnessf("nodedb: bad op: %v", err)
		}
	}
	return ops
}

// Execute implements core.Engine.
func (e NodeDBEngine) Execute(sc *core.Scenario, st *core.Stats) (*core.Violation, bool) {
	var k NDKnobs
	if err := json.Unmarshal(sc.Knobs, &k); err != nil {
		core.Harnessf("nodedb: bad knobs: %v", err)
	}
	prop := e.Prop
	if prop == "" {
		prop = "C06"
	}
	ops := DecodeNDOps(sc.Ops)
	var logs [][]string
	kinds := map[string]bool{}
	for _, op := range ops {
		kinds[op.K] = true
	}
	for _, be := range k.Backends {
		dir := ScratchDir("nodedb")
		run := newNDRun(prop, be, dir, k, st)
		v := run.runOps(ops, 0, len(ops))
		logs = append(logs, run.obs)
		versions := len(run.m.versions)
		if run.rejected {
			logs = logs[:len(logs)-1] // not accepted by this backend: nothing to compare
		}
		run.close()
		os.RemoveAll(dir)
		if v != nil {
			return v, true
		}
		st.Distinct("db_histories", core.Hash64([]byte(strings.Join(run.obs, "\n"))))
		st.Add("probe.versions_finalized", int64(versions))
	}
	if len(logs) == 2 {
		st.Inc("probe.differential_runs")
		a, b := logs[0], logs[1]
		for i := 0; i < len(a) && i < len(b); i++ {
			if a[i] != b[i] {
				fp := "backend-divergence"
				if strings.HasPrefix(a[i], "discarded") || strings.HasPrefix(a[i], "roots ") {
					fp = "backend-divergence " + strings.Fields(a[i])[0]
				}
				return ndViol(prop, "backend-divergence", fp, fmt.Sprintf("the two backends answer differently on the same history: %s says %q, %s says %q (observation %d)", k.Backends[0], a[i], k.Backends[1], b[i], i)), true
			}
		}
		if len(a) != len(b) {
			return ndViol(prop, "backend-divergence", "backend-divergence length", fmt.Sprintf("observation logs differ in length: %d vs %d", len(a), len(b))), true
		}
	}
	st.Sample(2, map[string]interface{}{"backends": k.Backends, "keys": len(k.Keys), "readers": k.Readers, "ops": firstN(sc.Ops, 5), "n_ops": len(sc.Ops)})
	return nil, kinds["commit"] && kinds["finalize"] && len(ops) >= 4
}
