package store

import (
	"bytes"
	"context"
	"encoding/json"
	"errors"
	"fmt"
	"io"
	"os"
	"path/filepath"
	"sync"
	"sync/atomic"
	"time"

	"github.com/golang/snappy"

	"github.com/oasisprotocol/oasis-core/go/common/cbor"
	"github.com/oasisprotocol/oasis-core/go/common/crypto/hash"
	"github.com/oasisprotocol/oasis-core/go/common/verifhook"
	"github.com/oasisprotocol/oasis-core/go/storage/mkvs"
	"github.com/oasisprotocol/oasis-core/go/storage/mkvs/checkpoint"
	dbapi "github.com/oasisprotocol/oasis-core/go/storage/mkvs/db/api"
	"github.com/oasisprotocol/oasis-core/go/storage/mkvs/node"

	"verif/sim/core"
)

// CheckpointEngine decides C12.
type CheckpointEngine struct{}

// CPKnobs are the knobs of a checkpoint run.
type CPKnobs struct {
	Src       string     `json:"src"`
	Dst       string     `json:"dst"`
	Keys      []string   `json:"keys"`
	Contents  []RHTarget `json:"contents"`
	Other     []RHTarget `json:"other"` // a second tree (source of foreign chunks)
	ChunkSize uint64     `json:"chunk_size"`
	Threads   uint16     `json:"threads"`
	Version   uint64     `json:"version"`
	RootType  uint8      `json:"root_type"`
	SchedSeed uint64     `json:"sched_seed"`
	Repeats   int        `json:"repeats"`
	CrossBE   bool       `json:"cross_backend"` // also create the checkpoint on the other backend and compare metadata
	// After lists what happens to the destination database after the restored root was finalized
	// (the database lives on): "commit" (a further version derived from the latest root is
	// committed and finalized), "abort" (a later restore is started at the next version and
	// aborted), "partial" (the same with some chunks of another checkpoint restored before the
	// abort), "reopen". Every finalized root must stay readable with its contents.
	After []string `json:"after,omitempty"`
	// StaleChunkSize > 0: before the checkpoint is created its directory already holds the chunk
	// files (but no metadata file) of a creation of the same root with these other parameters
	// that died before it wrote the metadata (or of a DeleteCheckpoint that died after removing it).
	StaleChunkSize uint64 `json:"stale_chunk_size,omitempty"`
	StaleThreads   uint16 `json:"stale_threads,omitempty"`
	// Hist: the source database has a history. The checkpointed version is reached through Pre
	// earlier versions (each changing part of the keys, so that the checkpointed tree consists of
	// nodes created in different versions), Post later versions exist when the creation starts,
	// the Prune earliest versions were pruned before it, and while the chunks are being created
	// the source lives on: at up to Live of the chunker's step hooks a further version is
	// committed and finalized or the earliest version below the checkpointed one is pruned.
	Hist *CPHist `json:"hist,omitempty"`
	// Fallback: the restore is given up after some chunks (abort) and the node reaches the same
	// version the ordinary way instead: the same contents are committed as a regular batch, which
	// gives the same root, and finalized. The root must then be completely readable.
	Fallback bool `json:"fallback,omitempty"`
}

// CPHist describes the history of the checkpoint source (see CPKnobs.Hist).
type CPHist struct {
	Seed  uint64 `json:"seed"`
	Pre   int    `json:"pre"`
	Post  int    `json:"post"`
	Prune int    `json:"prune"`
	Live  int    `json:"live"`
}

// CPCorrupt describes a chunk corruption.
type CPCorrupt struct {
	Kind string `json:"kind"` // flip | truncate | extend | swapchunk | foreign | baddigest | dropentry | empty
	A    int    `json:"a"`
	B    int    `json:"b"`
}

// CPOp is one restore operation.
type CPOp struct {
	K       string     `json:"k"` // chunk | abort | reopen | concurrent
	Idx     int        `json:"idx,omitempty"`
	Idx2    int        `json:"idx2,omitempty"`
	At      string     `json:"at,omitempty"` // hook at which the second call is interleaved
	Corrupt *CPCorrupt `json:"corrupt,omitempty"`
}

var cpCorruptKinds = []string{"flip", "truncate", "extend", "swapchunk", "foreign", "baddigest", "dropentry", "empty"}

// Generate implements core.Engine.
func (CheckpointEngine) Generate(r *core.Rand, tier core.Tier) *core.Scenario {
	be := []string{"badger", "pathbadger"}
	k := CPKnobs{Src: be[r.Intn(2)], Dst: be[r.Intn(2)], Version: uint64(r.Range(1, 6)), RootType: uint8(r.Pick([]int{3, 1}) + 1), SchedSeed: r.Uint64(), Repeats: r.Range(1, 3), CrossBE: r.Chance(1, 4)}
	var nk int
	switch r.Pick([]int{1, 1, 4, 3, 1}) {
	case 0:
		nk = 0
	case 1:
		nk = 1
	case 2:
		nk = r.Range(2, 30)
	case 3:
		nk = r.Range(30, 300)
	default:
		nk = r.Range(300, 1500)
		if tier == core.Thorough && r.Chance(1, 4) {
			nk = r.Range(1500, 4000)
		}
	}
	var keys [][]byte
	if nk >= 300 || r.Chance(1, 3) {
		// many random keys (realistic fixed-length keys) or a deep prefix chain
		seen := map[string]bool{}
		chain := r.Chance(1, 4)
		for len(keys) < nk {
			var key []byte
			if chain {
				key = bytes.Repeat([]byte{0xAA}, len(keys)%60+1)
				key = append(key, byte(len(keys)/60))
			} else {
				key = r.Bytes(r.Range(4, 20))
			}
			if !seen[string(key)] {
				seen[string(key)] = true
				keys = append(keys, key)
			}
		}
		if nk == 0 {
			keys = [][]byte{{1}}
		}
	} else {
		keys = GenKeys(r, max(nk, 1), 48)
	}
	k.Keys = HexKeys(keys)
	for i := range keys {
		if nk > 0 {
			k.Contents = append(k.Contents, RHTarget{Key: i, Len: []int{0, 1, 5, 20, 40}[r.Intn(5)], ID: i + 1})
		}
		if r.Chance(1, 2) {
			k.Other = append(k.Other, RHTarget{Key: i, Len: 5, ID: 100000 + i})
		}
	}
	switch r.Pick([]int{2, 3, 3, 1}) {
	case 0:
		k.ChunkSize = uint64(r.Range(1, 64))
	case 1:
		k.ChunkSize = uint64(r.Range(64, 1024))
	case 2:
		k.ChunkSize = uint64(r.Range(1024, 16384))
	default:
		k.ChunkSize = 8 * 1024 * 1024
	}
	if nk > 300 && k.ChunkSize < 256 {
		k.ChunkSize = uint64(r.Range(256, 4096))
	}
	switch r.Pick([]int{3, 3, 2, 1}) {
	case 0:
		k.Threads = 0
	case 1:
		k.Threads = uint16(r.Range(1, 4))
	case 2:
		k.Threads = uint16(r.Range(4, 16))
	default:
		k.Threads = uint16(r.Range(16, 32))
	}
	if r.Chance(1, 4) {
		// Leftovers of an interrupted creation with a different chunk layout (mostly larger chunks,
		// i.e. longer files under the same names).
		k.StaleChunkSize = k.ChunkSize * uint64(r.Range(2, 9))
		if r.Chance(1, 4) {
			k.StaleChunkSize = uint64(r.Range(1, int(k.ChunkSize)))
		}
		k.StaleThreads = uint16(r.Pick([]int{2, 2, 1}) * r.Range(0, 4))
	}
	if r.Chance(1, 2) {
		ar := core.NewRand(k.SchedSeed ^ 0xaf7e4)
		for i, n := 0, ar.Range(2, 7); i < n; i++ {
			k.After = append(k.After, []string{"commit", "commit", "abort", "partial", "reopen"}[ar.Intn(5)])
		}
	}
	if hr := core.NewRand(k.SchedSeed ^ 0x11fe50); nk > 0 && k.RootType == 1 && hr.Chance(1, 2) {
		h := &CPHist{Seed: hr.Uint64(), Pre: hr.Range(0, int(k.Version)-1), Post: hr.Range(0, 3)}
		if h.Pre > 0 && hr.Chance(1, 2) {
			h.Prune = hr.Range(1, h.Pre)
		}
		if hr.Chance(2, 3) {
			h.Live = hr.Range(1, 8)
		}
		k.Hist = h
	}
	if k.Hist == nil && nk > 0 && core.NewRand(k.SchedSeed^0xfa11bac).Chance(1, 5) {
		k.Fallback = true
	}
	sc := &core.Scenario{Engine: "checkpoint", Knobs: core.MustJSON(k)}
	nops := r.Range(0, 12)
	for i := 0; i < nops; i++ {
		var op CPOp
		switch r.Pick([]int{8, 1, 1, 3}) {
		case 0:
			op = CPOp{K: "chunk", Idx: r.Intn(1 << 16)}
			if r.Chance(1, 3) {
				op.Corrupt = &CPCorrupt{Kind: cpCorruptKinds[r.Intn(len(cpCorruptKinds))], A: r.Intn(1 << 16), B: r.Intn(1 << 16)}
			}
		case 1:
			op = CPOp{K: "abort"}
		case 2:
			op = CPOp{K: "reopen"}
		case 3:
			op = CPOp{K: "concurrent", Idx: r.Intn(1 << 16), Idx2: r.Intn(1 << 16), At: []string{"checkpoint.RestoreChunk.beforeImport", "checkpoint.RestoreChunk.afterImport", "parallel-lock"}[r.Intn(3)]}
		}
		sc.Ops = append(sc.Ops, core.MustJSON(op))
	}
	return sc
}

func cpViol(kind, detail string) *core.Violation {
	return &core.Violation{Property: "C12", Kind: kind, Fingerprint: kind, Detail: detail}
}

// chunkSched releases the parallel chunker's goroutines one at a time in an order drawn from
// the scenario's schedule seed: only the token holder runs between hooks.
type chunkSched struct {
	mu       sync.Mutex
	rng      *core.Rand
	expected int
	parked   map[int]chan struct{}
	current  int
	started  bool
	switches int64
	rounds   int64
	// live, when set, is called at every step hook by the goroutine that holds the token (the
	// source database lives on while the checkpoint is created).
	live func()
}

func newChunkSched(seed uint64) *chunkSched {
	return &chunkSched{rng: core.NewRand(seed), parked: map[int]chan struct{}{}, current: -1}
}

func (s *chunkSched) install() {
	verifhook.SetHandlerN(func(name string, n int) {
		switch name {
		case "checkpoint.createChunks.tasks":
			s.mu.Lock()
			s.expected, s.started, s.current = n, false, -1
			s.parked = map[int]chan struct{}{}
			s.rounds++
			s.mu.Unlock()
		case "checkpoint.chunkTask.start":
			s.park(n, true)
		}
	})
	verifhook.SetHandler(func(name string) {
		switch name {
		case "checkpoint.subtree.step":
			if s.live != nil {
				s.live()
			}
			s.yield(false)
		case "checkpoint.chunkTask.done":
			s.yield(true)
		}
	})
}

func (s *chunkSched) uninstall() {
	verifhook.SetHandler(nil)
	verifhook.SetHandlerN(nil)
}

func (s *chunkSched) wait(ch chan struct{}) {
	select {
	case <-ch:
	case <-time.After(120 * time.Second):
		core.Harnessf("chunk scheduler: a parked chunker goroutine was never released (token lost)")
	}
}

// pickLocked chooses the next goroutine among the parked ones (sorted ids) and releases it.
func (s *chunkSched) pickLocked() {
	if len(s.parked) == 0 {
		s.current = -1
		return
	}
	ids := make([]int, 0, len(s.parked))
	for id := range s.parked {
		ids = append(ids, id)
	}
	sortInts(ids)
	id := ids[s.rng.Intn(len(ids))]
	ch := s.parked[id]
	delete(s.parked, id)
	s.current = id
	close(ch)
}

func sortInts(a []int) {
	for i := 1; i < len(a); i++ {
		for j := i; j > 0 && a[j] < a[j-1]; j-- {
			a[j], a[j-1] = a[j-1], a[j]
		}
	}
}

func (s *chunkSched) park(id int, first bool) {
	s.mu.Lock()
	ch := make(chan struct{})
	s.parked[id] = ch
	if first && !s.started && len(s.parked) == s.expected {
		// Everybody has arrived: start the round.
		s.started = true
		s.pickLocked()
	}
	s.mu.Unlock()
	s.wait(ch)
}

// yield is called by the token holder at a hook: with some probability (or always when done)
// the token moves to another parked goroutine.
func (s *chunkSched) yield(done bool) {
	s.mu.Lock()
	if !s.started {
		s.mu.Unlock()
		return
	}
	self := s.current
	if done {
		s.pickLocked()
		s.mu.Unlock()
		return
	}
	if len(s.parked) == 0 || s.rng.Intn(3) != 0 {
		s.mu.Unlock()
		return
	}
	s.switches++
	ch := make(chan struct{})
	// Choose the next runner among the others, then park self.
	s.pickLocked()
	s.parked[self] = ch
	s.mu.Unlock()
	s.wait(ch)
}

// decodeChunk decodes a chunk into its proof entries (snappy stream of CBOR byte strings).
func decodeChunk(data []byte) ([][]byte, error) {
	dec := cbor.NewDecoder(snappy.NewReader(bytes.NewReader(data)))
	var entries [][]byte
	for {
		var e []byte
		if err := dec.Decode(&e); err != nil {
			if errors.Is(err, io.EOF) {
				return entries, nil
			}
			return nil, err
		}
		entries = append(entries, e)
	}
}

// encodeChunk is the inverse of decodeChunk.
func encodeChunk(entries [][]byte) []byte {
	var buf bytes.Buffer
	sw := snappy.NewBufferedWriter(&buf)
	enc := cbor.NewEncoder(sw)
	for _, e := range entries {
		if err := enc.Encode(e); err != nil {
			core.Harnessf("encodeChunk: %v", err)
		}
	}
	_ = sw.Close()
	return buf.Bytes()
}

// DecodeChunk / EncodeChunk are exported for the chain-level state-sync simulation.
func DecodeChunk(data []byte) ([][]byte, error) { return decodeChunk(data) }

// EncodeChunk is the inverse of DecodeChunk.
func EncodeChunk(entries [][]byte) []byte { return encodeChunk(entries) }

func bytesReader(b []byte) io.Reader { return bytes.NewReader(b) }

func chunkBytes(ctx context.Context, cr checkpoint.Creator, cm *checkpoint.ChunkMetadata) ([]byte, error) {
	var buf bytes.Buffer
	if err := cr.GetCheckpointChunk(ctx, cm, &buf); err != nil {
		return nil, err
	}
	return buf.Bytes(), nil
}

func metaEqual(a, b *checkpoint.Metadata) bool {
	if a.Version != b.Version || a.Root != b.Root || len(a.Chunks) != len(b.Chunks) {
		return false
	}
	for i := range a.Chunks {
		if a.Chunks[i] != b.Chunks[i] {
			return false
		}
	}
	return true
}

// Execute implements core.Engine.
func (CheckpointEngine) Execute(sc *core.Scenario, st *core.Stats) (*core.Violation, bool) {
	var k CPKnobs
	if err := json.Unmarshal(sc.Knobs, &k); err != nil {
		core.Harnessf("checkpoint: bad knobs: %v", err)
	}
	keys := UnhexKeys(k.Keys)
	ctx := context.Background()
	rootType := node.RootType(k.RootType)
	base := ScratchDir("cp")
	defer os.RemoveAll(base)

	var buildAt func(backend, name string, ts []RHTarget, version uint64) (dbapi.NodeDB, node.Root, Model)
	build := func(backend, name string, ts []RHTarget) (dbapi.NodeDB, node.Root, Model) {
		return buildAt(backend, name, ts, k.Version)
	}
	buildAt = func(backend, name string, ts []RHTarget, version uint64) (dbapi.NodeDB, node.Root, Model) {
		dir := filepath.Join(base, name)
		_ = os.MkdirAll(dir, 0o755)
		ndb := OpenDB(backend, dir)
		m := Model{}
		t := mkvs.New(nil, ndb, rootType)
		for _, x := range ts {
			key := keys[x.Key%len(keys)]
			val := Value(x.ID, x.Len)
			m[string(key)] = val
			if err := t.Insert(ctx, key, val); err != nil {
				core.Harnessf("checkpoint: build insert: %v", err)
			}
		}
		_, h, err := t.Commit(ctx, Namespace, version)
		if err != nil {
			core.Harnessf("checkpoint: build commit: %v", err)
		}
		t.Close()
		root := node.Root{Namespace: Namespace, Version: version, Type: rootType, Hash: h}
		if err := ndb.Finalize([]node.Root{root}); err != nil {
			core.Harnessf("checkpoint: build finalize: %v", err)
		}
		return ndb, root, m
	}
	// buildHist is build for a source database with a history (k.Hist).
	buildHist := func(backend, name string) (dbapi.NodeDB, node.Root, Model, *cpSource) {
		dir := filepath.Join(base, name)
		_ = os.MkdirAll(dir, 0o755)
		ndb := OpenDB(backend, dir)
		m := Model{}
		for _, x := range k.Contents {
			m[string(keys[x.Key%len(keys)])] = Value(x.ID, x.Len)
		}
		hs := buildCPSource(ctx, ndb, keys, m, k.Version, rootType, k.Hist, st)
		st.Inc("probe.source_with_history")
		if hs.earliest < k.Version {
			st.Inc("probe.source_tree_has_nodes_of_earlier_versions")
		}
		return ndb, hs.roots[k.Version], m, hs
	}
	var src dbapi.NodeDB
	var root node.Root
	var contents Model
	var srcHist *cpSource
	if k.Hist != nil && len(k.Contents) > 0 && rootType == node.RootTypeState {
		src, root, contents, srcHist = buildHist(k.Src, "src")
	} else {
		src, root, contents = build(k.Src, "src", k.Contents)
	}
	defer src.Close()
	// liveSrc is the source whose database advances at the step hooks of the creation in progress.
	var liveSrc *cpSource

	create := func(ndb dbapi.NodeDB, name string, r node.Root, seed uint64) (checkpoint.Creator, *checkpoint.Metadata, error, *chunkSched) {
		cr, err := checkpoint.NewFileCreator(filepath.Join(base, name), ndb)
		if err != nil {
			core.Harnessf("checkpoint: NewFileCreator: %v", err)
		}
		sched := newChunkSched(seed)
		if ls := liveSrc; ls != nil && ls.ndb == ndb {
			sched.live = func() { ls.liveStep(ctx) }
		}
		if k.Threads > 0 {
			sched.install()
			defer sched.uninstall()
		} else if sched.live != nil {
			verifhook.SetHandler(func(name string) {
				if name == "checkpoint.subtree.step" {
					sched.live()
				}
			})
			defer verifhook.SetHandler(nil)
		}
		meta, err := cr.CreateCheckpoint(ctx, r, k.ChunkSize, k.Threads)
		return cr, meta, err, sched
	}

	var v *core.Violation
	var meta *checkpoint.Metadata
	var creator checkpoint.Creator
	pv, stack := core.Guard(func() {
		var err error
		var sched *chunkSched
		if k.StaleChunkSize > 0 && !root.Hash.IsEmpty() {
			stale, serr := checkpoint.NewFileCreator(filepath.Join(base, "cp0"), src)
			if serr != nil {
				core.Harnessf("checkpoint: NewFileCreator: %v", serr)
			}
			if sm, serr := stale.CreateCheckpoint(ctx, root, k.StaleChunkSize, k.StaleThreads); serr == nil {
				metaPath := filepath.Join(base, "cp0", fmt.Sprint(root.Version), root.Hash.String(), "meta")
				if rerr := os.Remove(metaPath); rerr != nil {
					core.Harnessf("checkpoint: cannot remove the stale metadata file: %v", rerr)
				}
				st.Inc("probe.stale_chunk_files_left_behind")
				st.Event("stale creation chunks=%d", len(sm.Chunks))
			}
		}
		liveSrc = srcHist
		creator, meta, err, sched = create(src, "cp0", root, k.SchedSeed)
		if err != nil {
			if root.Hash.IsEmpty() {
				st.Inc("probe.empty_root_checkpoint_refused")
				return
			}
			v = cpViol("create-error", fmt.Sprintf("CreateCheckpoint(root %s, chunk size %d, threads %d) failed: %v", root.Hash, k.ChunkSize, k.Threads, err))
			return
		}
		st.Add("probe.chunker_goroutine_switches", sched.switches)
		st.Add("probe.chunker_rounds", sched.rounds)
		st.Add("probe.chunks_created", int64(len(meta.Chunks)))
		st.Event("create chunks=%d size=%d threads=%d", len(meta.Chunks), k.ChunkSize, k.Threads)
		if meta.Root != root {
			v = cpViol("metadata-root", fmt.Sprintf("checkpoint metadata root %v differs from the requested root %v", meta.Root, root))
			return
		}
		// Same root and parameters => same metadata, whatever the goroutine interleaving.
		for i := 0; i < k.Repeats; i++ {
			_, m2, err, _ := create(src, fmt.Sprintf("cprep%d", i), root, core.Derive(k.SchedSeed, "repeat", uint64(i)))
			if err != nil {
				v = cpViol("create-error", fmt.Sprintf("repeated CreateCheckpoint failed: %v", err))
				return
			}
			if !metaEqual(meta, m2) {
				v = cpViol("metadata-nondeterministic", fmt.Sprintf("two CreateCheckpoint calls for the same root %s, chunk size %d and %d threads under different goroutine interleavings produced different metadata (%d vs %d chunks)", root.Hash, k.ChunkSize, k.Threads, len(meta.Chunks), len(m2.Chunks)))
				return
			}
			st.Inc("probe.metadata_repeat_equal")
		}
		if k.CrossBE {
			ob := "badger"
			if k.Src == "badger" {
				ob = "pathbadger"
			}
			var odb dbapi.NodeDB
			var oroot node.Root
			if srcHist != nil {
				odb, oroot, _, liveSrc = buildHist(ob, "srcother")
			} else {
				odb, oroot, _ = build(ob, "srcother", k.Contents)
			}
			_, m3, err, _ := create(odb, "cpx", oroot, core.Derive(k.SchedSeed, "cross", 0))
			if err == nil && srcHist != nil {
				if v = liveSrc.check(ctx); v != nil {
					odb.Close()
					return
				}
			}
			liveSrc = nil
			odb.Close()
			if err != nil || oroot != root {
				v = cpViol("create-error", fmt.Sprintf("CreateCheckpoint on backend %s failed or root differs: %v", ob, err))
				return
			}
			if !metaEqual(meta, m3) {
				v = cpViol("metadata-backend-dependent", fmt.Sprintf("the same root %s, chunk size %d and %d threads give different checkpoint metadata on %s and %s", root.Hash, k.ChunkSize, k.Threads, k.Src, ob))
				return
			}
			st.Inc("probe.metadata_cross_backend_equal")
		}
		liveSrc = nil
		if srcHist != nil {
			// The source lived on while its checkpoint was created: all of its retained versions
			// must still read back.
			v = srcHist.check(ctx)
		}
	})
	if pv != nil {
		verifhook.SetHandler(nil)
		verifhook.SetHandlerN(nil)
		return cpViol("panic", fmt.Sprintf("create: panic: %v\n%s", pv, stack)), true
	}
	if v != nil || meta == nil {
		return v, v != nil
	}

	// Foreign checkpoint (chunks of another tree) as a corruption source.
	var otherChunks [][]byte
	if len(k.Other) > 0 {
		odb, oroot, _ := build(k.Src, "other", k.Other)
		ocr, ometa, err, _ := create(odb, "cpother", oroot, k.SchedSeed^1)
		if err == nil {
			for i := range ometa.Chunks {
				cm, _ := ometa.GetChunkMetadata(uint64(i))
				if b, err := chunkBytes(ctx, ocr, cm); err == nil {
					otherChunks = append(otherChunks, b)
				}
			}
		}
		odb.Close()
	}
	var chunks [][]byte
	for i := range meta.Chunks {
		cm, _ := meta.GetChunkMetadata(uint64(i))
		b, err := chunkBytes(ctx, creator, cm)
		if err != nil {
			return cpViol("chunk-read-error", fmt.Sprintf("GetCheckpointChunk(%d) failed: %v", i, err)), true
		}
		chunks = append(chunks, b)
	}
	n := len(chunks)

	// A destination that already holds the older part of the source's history (and therefore
	// shares nodes with the checkpointed tree): the checkpoint is restored on top of it and
	// finalized, then the older versions are pruned one by one; the restored root must stay
	// completely readable.
	if srcHist != nil && k.Hist.Pre > 0 && k.Version > 1 && core.NewRand(k.Hist.Seed^0x0d57).Chance(1, 2) {
		var ov *core.Violation
		pv, stack := core.Guard(func() {
			d2dir := filepath.Join(base, "dstold")
			_ = os.MkdirAll(d2dir, 0o755)
			d2 := OpenDB(k.Dst, d2dir)
			defer d2.Close()
			old := buildCPSourceUpTo(ctx, d2, keys, contents, k.Version, rootType, &CPHist{Seed: k.Hist.Seed, Pre: k.Hist.Pre}, st, true)
			if old.latest == 0 || old.latest >= k.Version {
				return
			}
			where := fmt.Sprintf("%s holding versions %d..%d of the source's history, checkpoint of version %d restored on top", k.Dst, old.earliest, old.latest, k.Version)
			if err := d2.StartMultipartInsert(k.Version); err != nil {
				ov = cpViol("restore-over-history-failed", fmt.Sprintf("%s: StartMultipartInsert failed: %v", where, err))
				return
			}
			rs, _ := checkpoint.NewRestorer(d2)
			if err := rs.StartRestore(ctx, meta); err != nil {
				ov = cpViol("restore-over-history-failed", fmt.Sprintf("%s: StartRestore failed: %v", where, err))
				return
			}
			for i := range chunks {
				if _, err := rs.RestoreChunk(ctx, uint64(i), bytesReader(chunks[i])); err != nil {
					ov = cpViol("restore-over-history-failed", fmt.Sprintf("%s: honest chunk %d rejected: %v", where, i, err))
					return
				}
			}
			if err := d2.Finalize([]node.Root{root}); err != nil {
				ov = cpViol("restore-over-history-failed", fmt.Sprintf("%s: Finalize failed: %v", where, err))
				return
			}
			readBack := func(when string) *core.Violation {
				t := mkvs.NewWithRoot(nil, d2, root)
				err := CompareDump(ctx, t, contents)
				t.Close()
				if err != nil {
					return cpViol("restored-over-history-unreadable", fmt.Sprintf("%s, %s: the finalized restored root does not read back: %v", where, when, err))
				}
				return nil
			}
			if ov = readBack("after Finalize"); ov != nil {
				return
			}
			for v := old.earliest; v <= old.latest; v++ {
				if err := d2.Prune(v); err != nil {
					st.Inc("probe.prune_below_restored_version_refused")
					return
				}
				if ov = readBack(fmt.Sprintf("after Prune(%d)", v)); ov != nil {
					return
				}
			}
			st.Inc("probe.restored_over_older_history_and_pruned_below")
		})
		if pv != nil {
			return cpViol("panic", fmt.Sprintf("restore over an older history: panic: %v\n%s", pv, stack)), true
		}
		if ov != nil {
			return ov, true
		}
	}

	// Restore.
	dstDir := filepath.Join(base, "dst")
	_ = os.MkdirAll(dstDir, 0o755)
	dst := OpenDB(k.Dst, dstDir)
	defer func() { dst.Close() }()
	var restorer checkpoint.Restorer
	done := map[int]bool{}
	finished := false
	start := func(m *checkpoint.Metadata) *core.Violation {
		if err := dst.StartMultipartInsert(k.Version); err != nil {
			return cpViol("restore-start-error", fmt.Sprintf("StartMultipartInsert failed: %v", err))
		}
		var err error
		if restorer, err = checkpoint.NewRestorer(dst); err != nil {
			core.Harnessf("NewRestorer: %v", err)
		}
		if err := restorer.StartRestore(ctx, m); err != nil {
			return cpViol("restore-start-error", fmt.Sprintf("StartRestore failed: %v", err))
		}
		done = map[int]bool{}
		return nil
	}
	abort := func() *core.Violation {
		_ = restorer.AbortRestore(ctx)
		if err := dst.AbortMultipartInsert(); err != nil {
			return cpViol("abort-error", fmt.Sprintf("AbortMultipartInsert failed: %v", err))
		}
		return nil
	}
	nothingVisible := func(when string) *core.Violation {
		if root.Hash.IsEmpty() {
			return nil
		}
		if lv, ok := dst.GetLatestVersion(); ok && lv >= k.Version {
			return cpViol("partial-restore-visible", fmt.Sprintf("%s: GetLatestVersion reports %d although the restore has not been finalized", when, lv))
		}
		return nil
	}
	restoreOne := func(idx int, data []byte, m *checkpoint.Metadata) (bool, error) {
		_ = m
		return restorer.RestoreChunk(ctx, uint64(idx), bytes.NewReader(data))
	}
	corrupt := func(idx int, c *CPCorrupt) ([]byte, *checkpoint.Metadata, bool) {
		data := append([]byte{}, chunks[idx]...)
		switch c.Kind {
		case "flip":
			if len(data) > 0 {
				data[c.A%len(data)] ^= 1 << uint(c.B%8)
			}
		case "truncate":
			if len(data) > 0 {
				data = data[:c.A%len(data)]
			}
		case "extend":
			data = append(data, byte(c.A), byte(c.B))
		case "swapchunk":
			if n > 1 {
				j := (idx + 1 + c.A%(n-1)) % n
				data = append([]byte{}, chunks[j]...)
			}
		case "foreign":
			if len(otherChunks) > 0 {
				data = append([]byte{}, otherChunks[c.A%len(otherChunks)]...)
			}
		case "empty":
			data = nil
		case "baddigest", "dropentry":
			// The attacker also controls the digest list: a chunk of another tree, or this chunk
			// with one proof entry dropped, presented with a matching digest must fail the proof
			// check against the checkpoint's root.
			var bad []byte
			if c.Kind == "baddigest" {
				if len(otherChunks) == 0 {
					return data, nil, false
				}
				bad = append([]byte{}, otherChunks[c.A%len(otherChunks)]...)
			} else {
				entries, err := decodeChunk(chunks[idx])
				if err != nil || len(entries) == 0 {
					return data, nil, false
				}
				i := c.A % len(entries)
				entries = append(entries[:i:i], entries[i+1:]...)
				bad = encodeChunk(entries)
			}
			if bytes.Equal(bad, chunks[idx]) {
				return data, nil, false
			}
			m2 := *meta
			m2.Chunks = append([]hash.Hash{}, meta.Chunks...)
			m2.Chunks[idx] = hash.NewFromBytes(bad)
			return bad, &m2, true
		}
		return data, nil, !bytes.Equal(data, chunks[idx])
	}

	if v := start(meta); v != nil {
		return v, true
	}
	effectiveCorrupt, interleaved := 0, 0
	for stepIdx, raw := range sc.Ops {
		if finished {
			break
		}
		var op CPOp
		if err := json.Unmarshal(raw, &op); err != nil {
			core.Harnessf("checkpoint: bad op: %v", err)
		}
		var v *core.Violation
		pv, stack := core.Guard(func() {
			switch op.K {
			case "chunk":
				idx := op.Idx % n
				if op.Corrupt == nil {
					fin, err := restoreOne(idx, chunks[idx], meta)
					st.Event("chunk %d dup=%v err=%v fin=%v", idx, done[idx], err != nil, fin)
					if done[idx] {
						st.Inc("probe.duplicate_chunk")
						if err == nil || !errors.Is(err, checkpoint.ErrChunkAlreadyRestored) {
							v = cpViol("duplicate-chunk", fmt.Sprintf("step %d: restoring chunk %d a second time returned %v (expected 'already restored')", stepIdx, idx, err))
						}
						return
					}
					if err != nil {
						v = cpViol("honest-chunk-rejected", fmt.Sprintf("step %d: honest chunk %d of %d rejected: %v", stepIdx, idx, n, err))
						return
					}
					done[idx] = true
					if fin != (len(done) == n) {
						v = cpViol("restore-done-flag", fmt.Sprintf("step %d: RestoreChunk reported done=%v with %d of %d chunks restored", stepIdx, fin, len(done), n))
						return
					}
					finished = fin
					return
				}
				if done[idx] {
					return
				}
				data, m2, changed := corrupt(idx, op.Corrupt)
				if !changed {
					return
				}
				effectiveCorrupt++
				st.Inc("fault.chunk_" + op.Corrupt.Kind)
				if m2 != nil {
					// Restart the restore with the attacker's digest list.
					if v = abort(); v != nil {
						return
					}
					if v = start(m2); v != nil {
						return
					}
				}
				fin, err := restoreOne(idx, data, meta)
				st.Event("corrupt chunk %d kind=%s err=%v", idx, op.Corrupt.Kind, err != nil)
				if err == nil {
					v = cpViol("corrupt-chunk-accepted", fmt.Sprintf("step %d: chunk %d corrupted by %q (attacker digest list: %v) was accepted (done=%v)", stepIdx, idx, op.Corrupt.Kind, m2 != nil, fin))
					return
				}
				if errors.Is(err, checkpoint.ErrChunkCorrupted) {
					st.Inc("probe.chunk_rejected_by_digest")
				} else if errors.Is(err, checkpoint.ErrChunkProofVerificationFailed) {
					st.Inc("probe.chunk_rejected_by_proof")
				} else {
					st.Inc("probe.chunk_rejected_other")
				}
				if v = nothingVisible(fmt.Sprintf("step %d after a rejected chunk", stepIdx)); v != nil {
					return
				}
				if m2 != nil || restorer.GetCurrentCheckpoint() == nil {
					// The restore was aborted (proof failure) or runs on the attacker's metadata:
					// start over with the real checkpoint; a clean restore must still succeed.
					if v = abort(); v != nil {
						return
					}
					v = start(meta)
				}
			case "abort":
				st.Inc("probe.abort_and_restart")
				st.Event("abort")
				if v = abort(); v != nil {
					return
				}
				if v = nothingVisible("after abort"); v != nil {
					return
				}
				v = start(meta)
			case "reopen":
				st.Inc("probe.reopen_mid_restore")
				st.Event("reopen")
				dst.Close()
				ndb, err := TryOpenDB(k.Dst, dstDir)
				if err != nil {
					v = cpViol("reopen-error", fmt.Sprintf("step %d: reopening the destination in the middle of a restore failed: %v", stepIdx, err))
					dst = OpenDB(k.Dst, ScratchDir("cpdummy"))
					return
				}
				dst = ndb
				if v = nothingVisible("after reopen in the middle of a restore"); v != nil {
					return
				}
				v = start(meta)
			case "concurrent":
				i1, i2 := op.Idx%n, op.Idx2%n
				if op.Idx%3 == 0 && n >= 2 {
					// Aim at the end game: first restore everything else, so that the two
					// interleaved calls are the last two pending chunks.
					for j := 0; j < n; j++ {
						if j == i1 || j == i2 || done[j] {
							continue
						}
						fin, err := restoreOne(j, chunks[j], meta)
						if err != nil {
							v = cpViol("honest-chunk-rejected", fmt.Sprintf("step %d: honest chunk %d rejected: %v", stepIdx, j, err))
							return
						}
						done[j] = true
						if fin {
							finished = true
							return
						}
					}
					st.Inc("probe.interleaved_last_two_chunks")
				}
				if done[i1] || done[i2] || i1 == i2 {
					return
				}
				var fin1, fin2 bool
				var err1, err2 error
				fired := false
				parallel := op.At == "parallel-lock" && k.Dst == "pathbadger"
				at := op.At
				if op.At == "parallel-lock" && !parallel {
					at = "checkpoint.RestoreChunk.beforeImport" // (the backend has no insert lock to wait for)
				}
				if parallel {
					// A second caller on a goroutine of its own, as the storage worker's parallel chunk
					// fetchers do: it is started while the first caller's batch holds the multipart
					// insert lock (just acquired, nothing imported yet) and runs until it
					// is about to wait for that lock -- it has read whatever a batch reads before the
					// wait. Then the first caller commits and releases the lock, and the second caller
					// proceeds. The lock fixes the order of the two imports; only the two callers'
					// bookkeeping after their imports overlaps, and nothing is logged from there.
					var stage atomic.Int32
					atLock := make(chan struct{}, 1)
					done2 := make(chan struct{})
					verifhook.SetHandler(func(name string) {
						switch {
						case name == "pathbadger.NewBatch.afterMultipartLock" && stage.CompareAndSwap(0, 1):
							go func() {
								defer close(done2)
								defer func() {
									if p := recover(); p != nil {
										err2 = fmt.Errorf("panic in the second caller: %v", p)
									}
								}()
								fin2, err2 = restoreOne(i2, chunks[i2], meta)
							}()
							select {
							case <-atLock:
							case <-done2:
							}
						case name == "pathbadger.NewBatch.beforeMultipartLock" && stage.CompareAndSwap(1, 2):
							atLock <- struct{}{}
						}
					})
					fin1, err1 = restoreOne(i1, chunks[i1], meta)
					if stage.Load() > 0 {
						fired = true
						<-done2
						st.Inc("probe.second_caller_waited_for_insert_lock")
					}
					verifhook.SetHandler(nil)
				} else {
					verifhook.SetHandler(func(name string) {
						if name == at && !fired {
							fired = true
							verifhook.SetHandler(nil)
							fin2, err2 = restoreOne(i2, chunks[i2], meta)
						}
					})
					fin1, err1 = restoreOne(i1, chunks[i1], meta)
					verifhook.SetHandler(nil)
				}
				st.Event("concurrent %d,%d at=%s err=%v,%v", i1, i2, op.At, err1 != nil, err2 != nil)
				if !fired && err1 != nil {
					// The first call was refused before it reached the hook: an honest chunk rejected.
					v = cpViol("honest-chunk-rejected", fmt.Sprintf("step %d: honest chunk %d rejected: %v", stepIdx, i1, err1))
					return
				}
				if !fired {
					core.Harnessf("checkpoint: hook %s did not fire", at)
				}
				interleaved++
				st.Inc("probe.interleaved_restore_calls")
				if fin2 && fin1 {
					v = cpViol("restore-done-flag", fmt.Sprintf("step %d: both of two overlapping RestoreChunk calls (%d, %d) reported the restore complete", stepIdx, i1, i2))
					return
				}
				if fin2 && !parallel {
					// The inner call returned while the outer call's chunk was still in flight (parked
					// at the hook, not yet marked restored): reporting completion now makes callers
					// finalize a restore that is still importing.
					v = cpViol("restore-done-while-chunk-in-flight", fmt.Sprintf("step %d: RestoreChunk(%d) reported the restore complete while RestoreChunk(%d) was still in flight at %s", stepIdx, i2, i1, op.At))
					return
				}
				if err1 != nil || err2 != nil {
					v = cpViol("honest-chunk-rejected", fmt.Sprintf("step %d: concurrent RestoreChunk(%d) and RestoreChunk(%d) interleaved at %s failed: %v / %v", stepIdx, i1, i2, op.At, err1, err2))
					return
				}
				done[i1], done[i2] = true, true
				if (fin1 || fin2) != (len(done) == n) {
					v = cpViol("restore-done-flag", fmt.Sprintf("step %d: concurrent calls reported done=%v/%v with %d of %d chunks restored", stepIdx, fin1, fin2, len(done), n))
					return
				}
				finished = fin1 || fin2
			default:
				core.Harnessf("checkpoint: unknown op %q", op.K)
			}
		})
		if pv != nil {
			verifhook.SetHandler(nil)
			return cpViol("panic", fmt.Sprintf("step %d (%s): panic: %v\n%s", stepIdx, op.K, pv, stack)), true
		}
		if v != nil {
			return v, true
		}
	}
	if k.Fallback && !finished && n >= 2 && !root.Hash.IsEmpty() {
		pv, stack = core.Guard(func() {
			pr := core.NewRand(k.SchedSeed ^ 0xfa11)
			// Some chunks have been restored (at least one, never all of them) ...
			for _, idx := range pr.Perm(n) {
				if len(done) >= 1 && (len(done) >= n-1 || pr.Chance(1, 2)) {
					break
				}
				if done[idx] {
					continue
				}
				if _, err := restoreOne(idx, chunks[idx], meta); err != nil {
					v = cpViol("honest-chunk-rejected", fmt.Sprintf("fallback: honest chunk %d of %d rejected: %v", idx, n, err))
					return
				}
				done[idx] = true
			}
			// ... the restore is given up ...
			if v = abort(); v != nil {
				return
			}
			if v = nothingVisible("after the abort"); v != nil {
				return
			}
			// ... and the version arrives the ordinary way.
			t := mkvs.New(nil, dst, rootType)
			defer t.Close()
			for _, kk := range contents.SortedKeys() {
				if err := t.Insert(ctx, []byte(kk), contents[kk]); err != nil {
					v = cpViol("fallback-commit-error", fmt.Sprintf("insert into a fresh tree on the database of the aborted restore failed: %v", err))
					return
				}
			}
			_, h, err := t.Commit(ctx, Namespace, k.Version)
			if err != nil {
				v = cpViol("fallback-commit-error", fmt.Sprintf("after a restore of version %d was aborted with %d of %d chunks restored, the regular commit of the same contents at that version failed: %v", k.Version, len(done), n, err))
				return
			}
			if !h.Equal(&root.Hash) {
				core.Harnessf("checkpoint: the regular commit of the checkpointed contents gives root %s, the checkpoint has %s", h, root.Hash)
			}
			if err := dst.Finalize([]node.Root{root}); err != nil {
				v = cpViol("fallback-commit-error", fmt.Sprintf("Finalize of the regularly committed root after an aborted restore failed: %v", err))
				return
			}
			st.Inc("probe.regular_commit_of_the_same_root_after_aborted_restore")
			if !dst.HasRoot(root) {
				v = cpViol("fallback-root-unreadable", "after an aborted restore, a regular commit of the same root and Finalize, HasRoot(root) is false")
				return
			}
			t2 := mkvs.NewWithRoot(nil, dst, root)
			err = CompareDump(ctx, t2, contents)
			t2.Close()
			if err != nil {
				v = cpViol("fallback-root-unreadable", fmt.Sprintf("%s: a restore of version %d was aborted with %d of %d chunks restored, then the same contents were committed as a regular batch (same root %s) and finalized: the finalized root does not read back: %v", k.Dst, k.Version, len(done), n, root.Hash, err))
			}
		})
		if pv != nil {
			verifhook.SetHandler(nil)
			return cpViol("panic", fmt.Sprintf("fallback: panic: %v\n%s", pv, stack)), true
		}
		return v, true
	}
	// Complete the restore honestly, in a seeded order.
	pv, stack = core.Guard(func() {
		pr := core.NewRand(k.SchedSeed ^ 0xc0ffee)
		for _, idx := range pr.Perm(n) {
			if finished {
				break
			}
			if done[idx] {
				continue
			}
			fin, err := restoreOne(idx, chunks[idx], meta)
			if err != nil {
				v = cpViol("honest-chunk-rejected", fmt.Sprintf("completion: honest chunk %d of %d rejected: %v", idx, n, err))
				return
			}
			done[idx] = true
			finished = fin
		}
		if !finished {
			v = cpViol("restore-done-flag", fmt.Sprintf("all %d chunks restored but RestoreChunk never reported completion", n))
			return
		}
		if v = nothingVisible("before Finalize"); v != nil {
			return
		}
		if err := dst.Finalize([]node.Root{root}); err != nil {
			v = cpViol("finalize-error", fmt.Sprintf("Finalize of the restored root failed: %v", err))
			return
		}
		if !dst.HasRoot(root) {
			v = cpViol("restored-root-missing", "after restore and Finalize HasRoot(root) is false")
			return
		}
		if lv, ok := dst.GetLatestVersion(); !ok || lv != k.Version {
			v = cpViol("restored-root-missing", fmt.Sprintf("after restore and Finalize GetLatestVersion = (%d,%v), expected %d", lv, ok, k.Version))
			return
		}
		if !root.Hash.IsEmpty() {
			t := mkvs.NewWithRoot(nil, dst, root)
			err := CompareDump(ctx, t, contents)
			t.Close()
			if err != nil {
				v = cpViol("restored-contents-wrong", fmt.Sprintf("restored database (%s from %s, %d chunks of %d bytes, %d threads): %v", k.Dst, k.Src, n, k.ChunkSize, k.Threads, err))
				return
			}
		}
		// A restored database can be checkpointed again with the same result.
		cr2, err := checkpoint.NewFileCreator(filepath.Join(base, "cpdst"), dst)
		if err == nil {
			sched := newChunkSched(k.SchedSeed ^ 7)
			if k.Threads > 0 {
				sched.install()
			}
			m4, err := cr2.CreateCheckpoint(ctx, root, k.ChunkSize, k.Threads)
			sched.uninstall()
			if err != nil {
				v = cpViol("create-error", fmt.Sprintf("CreateCheckpoint on the restored database failed: %v", err))
				return
			}
			if !metaEqual(meta, m4) {
				v = cpViol("metadata-backend-dependent", fmt.Sprintf("checkpoint of the restored database (%s) differs from the original checkpoint (%s) for the same root and parameters", k.Dst, k.Src))
				return
			}
		}
		if v != nil || root.Hash.IsEmpty() {
			return
		}
		// The database lives on.
		type fin struct {
			root node.Root
			m    Model
		}
		finals := []fin{{root, contents}}
		cur, curM := root, contents
		ar := core.NewRand(k.SchedSeed ^ 0x11fe)
		for ai, a := range k.After {
			if a == "commit" && rootType != node.RootTypeState {
				continue // (I/O roots are derived from the empty root, not from each other)
			}
			switch a {
			case "commit":
				nm := Model{}
				for kk, vv := range curM {
					nm[kk] = vv
				}
				tr := mkvs.NewWithRoot(nil, dst, cur)
				for j, m := 0, ar.Range(1, 3); j < m; j++ {
					key := keys[ar.Intn(len(keys))]
					val := Value(200000+ai*10+j, ar.Range(1, 20))
					nm[string(key)] = val
					if err := tr.Insert(ctx, key, val); err != nil {
						tr.Close()
						v = cpViol("afterlife-commit-error", fmt.Sprintf("afterlife step %d: insert into a tree at the latest finalized root failed: %v", ai, err))
						return
					}
				}
				_, h, err := tr.Commit(ctx, Namespace, cur.Version+1)
				tr.Close()
				if err != nil {
					v = cpViol("afterlife-commit-error", fmt.Sprintf("afterlife step %d: commit of version %d on top of the restored database failed: %v", ai, cur.Version+1, err))
					return
				}
				nr := node.Root{Namespace: Namespace, Version: cur.Version + 1, Type: rootType, Hash: h}
				if err := dst.Finalize([]node.Root{nr}); err != nil {
					v = cpViol("afterlife-commit-error", fmt.Sprintf("afterlife step %d: finalize of version %d failed: %v", ai, nr.Version, err))
					return
				}
				cur, curM = nr, nm
				finals = append(finals, fin{nr, nm})
				st.Inc("probe.afterlife_commit")
			case "abort", "partial":
				if err := dst.StartMultipartInsert(cur.Version + 1); err != nil {
					v = cpViol("afterlife-restore-start-error", fmt.Sprintf("afterlife step %d: StartMultipartInsert(%d) on a database whose latest version is %d failed: %v", ai, cur.Version+1, cur.Version, err))
					return
				}
				if a == "partial" && len(k.Other) > 0 {
					// Some chunks of a checkpoint of another tree at that version.
					odb, oroot, _ := buildAt(k.Src, fmt.Sprintf("after%d", ai), k.Other, cur.Version+1)
					ocr, oerr := checkpoint.NewFileCreator(filepath.Join(base, fmt.Sprintf("cpafter%d", ai)), odb)
					if oerr != nil {
						core.Harnessf("checkpoint: NewFileCreator: %v", oerr)
					}
					if ometa, err := ocr.CreateCheckpoint(ctx, oroot, k.ChunkSize, 0); err == nil {
						rs, _ := checkpoint.NewRestorer(dst)
						if err := rs.StartRestore(ctx, ometa); err == nil {
							for ci, cnt := 0, ar.Range(1, 3); ci < len(ometa.Chunks)-1 && cnt > 0; ci, cnt = ci+1, cnt-1 {
								cm, _ := ometa.GetChunkMetadata(uint64(ci))
								if b, err := chunkBytes(ctx, ocr, cm); err == nil {
									if _, err := rs.RestoreChunk(ctx, uint64(ci), bytesReader(b)); err == nil {
										st.Inc("probe.afterlife_foreign_chunk_restored")
									}
								}
							}
							_ = rs.AbortRestore(ctx)
						}
					}
					odb.Close()
				}
				if err := dst.AbortMultipartInsert(); err != nil {
					v = cpViol("abort-error", fmt.Sprintf("afterlife step %d: AbortMultipartInsert failed: %v", ai, err))
					return
				}
				st.Inc("probe.afterlife_later_restore_aborted")
			case "reopen":
				dst.Close()
				dst = OpenDB(k.Dst, dstDir)
				st.Inc("probe.afterlife_reopen")
			}
			for _, f := range finals {
				tr := mkvs.NewWithRoot(nil, dst, f.root)
				err := CompareDump(ctx, tr, f.m)
				tr.Close()
				if err != nil {
					v = cpViol("finalized-unreadable-after-later-operation", fmt.Sprintf("restored database (%s, %d chunks, %d pairs): after afterlife step %d (%s; steps %v) the finalized root of version %d (restored at version %d) is no longer readable with its contents: %v", k.Dst, n, len(contents), ai, a, k.After[:ai+1], f.root.Version, root.Version, err))
					return
				}
			}
			st.Inc("probe.afterlife_step_checked")
		}
	})
	if pv != nil {
		verifhook.SetHandler(nil)
		verifhook.SetHandlerN(nil)
		return cpViol("panic", fmt.Sprintf("completion: panic: %v\n%s", pv, stack)), true
	}
	st.Distinct("checkpoints", core.Hash64(core.MustJSON(meta)))
	st.Sample(2, map[string]interface{}{"src": k.Src, "dst": k.Dst, "pairs": len(contents), "chunk_size": k.ChunkSize, "threads": k.Threads, "chunks": n, "ops": sc.Ops})
	return v, n >= 1 && len(contents) >= 1
}
