package store

import (
	"context"
	"encoding/json"
	"fmt"
	"os"
	"os/exec"
	"path/filepath"
	"sort"
	"strings"

	"github.com/oasisprotocol/oasis-core/go/common/verifhook"
	"github.com/oasisprotocol/oasis-core/go/storage/mkvs"
	"github.com/oasisprotocol/oasis-core/go/storage/mkvs/checkpoint"
	dbapi "github.com/oasisprotocol/oasis-core/go/storage/mkvs/db/api"
	"github.com/oasisprotocol/oasis-core/go/storage/mkvs/node"

	"verif/sim/core"
)

// CrashEngine decides C07 at the NodeDB level: the writer runs in a child process that exits
// abruptly at the k-th hook hit (a point between two durable writes) of one operation; the
// parent reopens the directory and checks the recovery contract. For the sampled operation
// EVERY hook hit is enumerated.
type CrashEngine struct{}

// CRKnobs are the knobs of a crash run.
type CRKnobs struct {
	ND NDKnobs `json:"nd"`
	// Target selects the operation to interrupt (index modulo the number of mutating ops).
	Target int `json:"target"`
	// Second, if set, crashes again (at hit SecondHit) during the retry of the interrupted operation.
	Second    bool `json:"second"`
	SecondHit int  `json:"second_hit"`
	// Restore makes the run a checkpoint-restore crash run instead of a history crash run.
	Restore *CPKnobs `json:"restore,omitempty"`
	// RestoreCrashOp selects the restore step to interrupt.
	RestoreCrashOp int `json:"restore_crash_op"`
}

const crashExit = 77

// Generate implements core.Engine.
func (CrashEngine) Generate(r *core.Rand, tier core.Tier) *core.Scenario {
	if r.Chance(1, 4) {
		// checkpoint restore crash run
		sc := CheckpointEngine{}.Generate(r, tier)
		var cp CPKnobs
		_ = json.Unmarshal(sc.Knobs, &cp)
		cp.Threads = 0
		cp.Repeats, cp.CrossBE = 0, false
		if len(cp.Keys) > 200 {
			cp.Keys, cp.Contents = cp.Keys[:200], filterTargets(cp.Contents, 200)
		}
		cp.Other = nil
		k := CRKnobs{Restore: &cp, RestoreCrashOp: r.Intn(1 << 16)}
		return &core.Scenario{Engine: "crash", Knobs: core.MustJSON(k)}
	}
	nd := NDKnobs{StartVersion: uint64(r.Range(0, 3)), CheckEvery: 1, ProofSamples: 0}
	nd.Backends = []string{[]string{"badger", "pathbadger"}[r.Intn(2)]}
	nk := r.Range(2, 24)
	nd.Keys = HexKeys(GenKeys(r, nk, 32))
	nops := r.Range(3, 24)
	k := CRKnobs{ND: nd, Target: r.Intn(1 << 16), Second: r.Chance(1, 4), SecondHit: r.Range(1, 4)}
	sc := &core.Scenario{Engine: "crash", Knobs: core.MustJSON(k)}
	sc.Ops = GenNodeDBHistory(r, tier, &nd, nops)
	if r.Chance(1, 2) {
		// Bias towards pruning: finalize a few versions, then interleave prunes.
		for i := range sc.Ops {
			if i%4 == 3 {
				sc.Ops[i] = core.MustJSON(NDOp{K: "prune"})
			} else if i%4 == 1 {
				sc.Ops[i] = core.MustJSON(NDOp{K: "finalize", Choice: []int{i, i + 1, i + 2}})
			}
		}
	}
	// Stay out of the territory of the C06 known findings (same-version child roots, I/O values
	// coinciding with state values) and do not reopen (the crash is the reopen).
	for i, raw := range sc.Ops {
		var op NDOp
		_ = json.Unmarshal(raw, &op)
		op.SameV = false
		if op.K == "reopen" {
			op = NDOp{K: "finalize", Choice: []int{i, i + 1, i + 2}}
		}
		if op.Type == 2 {
			for j := range op.Writes {
				if !op.Writes[j].Rm && op.Writes[j].Len < 5 {
					op.Writes[j].Len = 5
				}
			}
		}
		sc.Ops[i] = core.MustJSON(op)
	}
	return sc
}

func filterTargets(ts []RHTarget, n int) []RHTarget {
	var out []RHTarget
	for _, t := range ts {
		if t.Key < n {
			out = append(out, t)
		}
	}
	return out
}

func crViol(kind, fp, detail string) *core.Violation {
	return &core.Violation{Property: "C07", Kind: kind, Fingerprint: fp, Detail: detail}
}

// childResult is what the crash child reports on stdout.
type childResult struct {
	Hits  int      `json:"hits"`
	Names []string `json:"names"`
	Err   string   `json:"err,omitempty"`
}

// runChild spawns the crash child.
func runChild(scFile, dir string, opIdx, crashAt int, retry bool) (*childResult, int) {
	self, _ := os.Executable()
	args := []string{"crashchild", "--scenario", scFile, "--dir", dir, "--op", fmt.Sprint(opIdx), "--crash-at", fmt.Sprint(crashAt)}
	if retry {
		args = append(args, "--retry")
	}
	cmd := exec.Command(self, args...)
	cmd.Stderr = nil
	out, err := cmd.Output()
	code := 0
	if err != nil {
		if ee, ok := err.(*exec.ExitError); ok {
			code = ee.ExitCode()
		} else {
			core.Harnessf("crash child could not be started: %v", err)
		}
	}
	var res childResult
	if code == 0 {
		if jerr := json.Unmarshal(lastLine(out), &res); jerr != nil {
			core.Harnessf("crash child output does not parse: %v (%q)", jerr, string(out))
		}
	}
	return &res, code
}

func lastLine(b []byte) []byte {
	s := strings.TrimSpace(string(b))
	if i := strings.LastIndexByte(s, '\n'); i >= 0 {
		s = s[i+1:]
	}
	return []byte(s)
}

// CrashChildMain is the entry point of the child process: it replays the history up to the
// target operation and exits abruptly at the requested hook hit inside it.
func CrashChildMain(args []string) {
	var scFile, dir string
	var opIdx, crashAt int
	retry := false
	for i := 0; i < len(args); i++ {
		switch args[i] {
		case "--scenario":
			scFile = args[i+1]
			i++
		case "--dir":
			dir = args[i+1]
			i++
		case "--op":
			fmt.Sscanf(args[i+1], "%d", &opIdx)
			i++
		case "--crash-at":
			fmt.Sscanf(args[i+1], "%d", &crashAt)
			i++
		case "--retry":
			retry = true
		}
	}
	b, err := os.ReadFile(scFile)
	if err != nil {
		os.Exit(3)
	}
	var sc core.Scenario
	if err := json.Unmarshal(b, &sc); err != nil {
		os.Exit(3)
	}
	var k CRKnobs
	if err := json.Unmarshal(sc.Knobs, &k); err != nil {
		os.Exit(3)
	}
	hits := 0
	var names []string
	arm := func() {
		verifhook.SetHandler(func(name string) {
			if !(strings.HasPrefix(name, "badger.") || strings.HasPrefix(name, "pathbadger.") || strings.HasPrefix(name, "checkpoint.RestoreChunk")) {
				return
			}
			hits++
			names = append(names, name)
			if crashAt > 0 && hits == crashAt {
				os.Exit(crashExit)
			}
		})
	}
	report := func(errStr string) {
		verifhook.SetHandler(nil)
		out, _ := json.Marshal(childResult{Hits: hits, Names: names, Err: errStr})
		fmt.Println(string(out))
	}
	if k.Restore != nil {
		childRestore(&k, dir, opIdx, arm, report)
		return
	}
	st := core.NewStats()
	k.ND.OnlyWL = true // no read-back in the child
	k.ND.Readers = 0
	run := newNDRun("C07", k.ND.Backends[0], dir, k.ND, st)
	ops := DecodeNDOps(sc.Ops)
	if retry {
		// The directory already holds the state after a first crash inside this operation; the
		// child rebuilds the model by replaying the earlier operations model-only.
		run.modelOnly = true
		if v := run.runOps(ops, 0, opIdx); v != nil {
			report("replay: " + v.Detail)
			os.Exit(4)
		}
		run.modelOnly = false
	} else if v := run.runOps(ops, 0, opIdx); v != nil {
		report("replay: " + v.Detail)
		os.Exit(4)
	}
	arm()
	run.opIdx = opIdx
	v := run.apply(ops[opIdx])
	if v != nil {
		report(v.Detail)
		os.Exit(5)
	}
	report("")
	run.close()
	os.Exit(0)
}

// Execute implements core.Engine.
func (e CrashEngine) Execute(sc *core.Scenario, st *core.Stats) (*core.Violation, bool) {
	var k CRKnobs
	if err := json.Unmarshal(sc.Knobs, &k); err != nil {
		core.Harnessf("crash: bad knobs: %v", err)
	}
	base := ScratchDir("crash")
	defer os.RemoveAll(base)
	scFile := filepath.Join(base, "scenario.json")
	if err := os.WriteFile(scFile, core.MustJSON(sc), 0o644); err != nil {
		core.Harnessf("crash: cannot write scenario: %v", err)
	}
	if k.Restore != nil {
		return e.executeRestore(sc, &k, base, scFile, st)
	}
	ops := DecodeNDOps(sc.Ops)
	if len(ops) == 0 {
		return nil, false
	}
	backend := k.ND.Backends[0]
	target := k.Target % len(ops)

	// Reference (uncrashed) run in this process: yields the model before and after the target op.
	refDir := filepath.Join(base, "ref")
	_ = os.MkdirAll(refDir, 0o755)
	ref := newNDRun("C07", backend, refDir, k.ND, st)
	defer ref.close()
	if v := ref.runOps(ops, 0, target); v != nil {
		// The history itself violates C06/C13 territory: not this engine's business.
		st.Inc("probe.reference_run_failed")
		return nil, false
	}
	before := ref.m.clone()

	// Dry run in a child: number of hook hits inside the target operation.
	dryDir := filepath.Join(base, "dry")
	_ = os.MkdirAll(dryDir, 0o755)
	dry, code := runChild(scFile, dryDir, target, 0, false)
	if code != 0 {
		st.Inc("probe.dry_run_failed")
		return nil, false
	}
	st.Event("target op=%d kind=%s hits=%d", target, ops[target].K, dry.Hits)
	if dry.Hits == 0 {
		st.Inc("probe.target_op_without_durable_write")
		return nil, false
	}
	st.Inc("probe.target_" + ops[target].K)

	for hit := 1; hit <= dry.Hits; hit++ {
		dir := filepath.Join(base, fmt.Sprintf("k%d", hit))
		_ = os.MkdirAll(dir, 0o755)
		_, code := runChild(scFile, dir, target, hit, false)
		if code != crashExit {
			core.Harnessf("crash child did not crash at hit %d of %d (exit %d): hook hits are not deterministic", hit, dry.Hits, code)
		}
		where := fmt.Sprintf("%s: crash at hit %d/%d (%s) of operation %d (%s)", backend, hit, dry.Hits, dry.Names[hit-1], target, ops[target].K)
		st.Inc("fault.crash_at." + dry.Names[hit-1])
		st.Add("probe.crash_points", 1)

		if k.Second {
			// Crash a second time during the retry.
			_, code2 := runChild(scFile, dir, target, k.SecondHit, true)
			if code2 == crashExit {
				st.Inc("fault.second_crash_during_retry")
				where += fmt.Sprintf(" and again at hit %d of the retry", k.SecondHit)
			} else if code2 != 0 {
				// The retry in the child failed; the parent's retry below will report it.
				st.Inc("probe.child_retry_failed")
			}
		}
		if v := e.recover(backend, dir, k.ND, ops, target, before, where, st); v != nil {
			return v, true
		}
		os.RemoveAll(dir)
	}
	st.Sample(2, map[string]interface{}{"backend": backend, "target_op": ops[target], "hits": dry.Names, "history_ops": len(ops)})
	return nil, true
}

// recover reopens the crashed directory and checks the recovery contract.
func (e CrashEngine) recover(backend, dir string, nd NDKnobs, ops []NDOp, target int, before *ndModel, where string, st *core.Stats) (v *core.Violation) {
	ndb, err := TryOpenDB(backend, dir)
	if err != nil {
		return crViol("reopen-failed", "reopen-failed "+backend, fmt.Sprintf("%s: reopening the database failed: %v", where, err))
	}
	nd.Readers = 0
	run := &ndRun{prop: "C07", backend: backend, dir: dir, ndb: ndb, keys: UnhexKeys(nd.Keys), k: nd, st: st, ctx: context.Background(), m: before.clone()}
	defer run.close()
	pv, stack := core.Guard(func() {
		// (1) Every previously finalized version is intact and fully readable.
		for _, x := range run.m.retainedFinalized() {
			if ops[target].K == "prune" && x.root.Version == run.m.earliest {
				continue // the version being pruned may already be gone
			}
			if !run.ndb.HasRoot(x.root) {
				v = crViol("finalized-lost-after-crash", "finalized-lost-after-crash "+backend, fmt.Sprintf("%s: after reopen HasRoot is false for the previously finalized root v%d %s", where, x.root.Version, x.root.Hash))
				return
			}
			if x.root.Hash.IsEmpty() {
				continue
			}
			t := run.openAt(x.root)
			err := CompareDump(run.ctx, t, x.contents)
			t.Close()
			if err != nil {
				v = crViol("finalized-lost-after-crash", "finalized-lost-after-crash "+backend, fmt.Sprintf("%s: after reopen the previously finalized root v%d %s: %v", where, x.root.Version, x.root.Hash, err))
				return
			}
		}
		// (2) The interrupted operation took full effect or can simply be repeated.
		op := ops[target]
		run.opIdx = target
		took := false
		switch op.K {
		case "finalize":
			if lv, ok := run.ndb.GetLatestVersion(); ok && lv == run.m.pending() && len(run.m.ofType(run.m.pending(), node.RootTypeState, false)) > 0 {
				took = true
			}
		case "prune":
			if run.m.haveAny && run.m.earliest < run.m.latest && run.ndb.GetEarliestVersion() == run.m.earliest+1 {
				took = true
			}
		}
		if took {
			st.Inc("probe.interrupted_op_took_full_effect")
			run.modelOnly = true
		} else {
			st.Inc("probe.interrupted_op_repeated")
		}
		if vv := run.apply(op); vv != nil {
			v = crViol("retry-failed", "retry-failed "+op.K+" "+backend, fmt.Sprintf("%s: repeating the interrupted operation failed: %s", where, vv.Detail))
			return
		}
		run.modelOnly = false
		if vv := run.fullCheck(); vv != nil {
			v = crViol("state-differs-after-retry", "state-differs-after-retry "+vv.Kind+" "+backend, fmt.Sprintf("%s: after repeating the interrupted operation the database differs from an uninterrupted run: %s", where, vv.Detail))
			return
		}
		// (3) Continued operation keeps matching the model.
		if vv := run.runOps(ops, target+1, len(ops)); vv != nil {
			v = crViol("diverges-after-recovery", "diverges-after-recovery "+vv.Kind+" "+backend, fmt.Sprintf("%s: continuing the history after recovery: %s", where, vv.Detail))
			return
		}
	})
	if pv != nil {
		verifhook.SetHandler(nil)
		return crViol("panic", "panic "+backend, fmt.Sprintf("%s: panic during recovery: %v\n%s", where, pv, stack))
	}
	return v
}

func (m *ndModel) clone() *ndModel {
	c := &ndModel{versions: map[uint64][]*mRoot{}, earliest: m.earliest, latest: m.latest, haveAny: m.haveAny, start: m.start}
	mp := map[*mRoot]*mRoot{}
	for v, rs := range m.versions {
		for _, r := range rs {
			nr := *r
			mp[r] = &nr
			c.versions[v] = append(c.versions[v], &nr)
		}
	}
	for _, rs := range c.versions {
		for _, r := range rs {
			if r.parent != nil {
				if p, ok := mp[r.parent]; ok {
					r.parent = p
				}
			}
			if r.parentAny != nil {
				if p, ok := mp[r.parentAny]; ok {
					r.parentAny = p
				}
			}
		}
	}
	return c
}

// ---- checkpoint restore crash runs ----

type restoreStep struct {
	kind string // start | chunk | finalize | abort
	idx  int
}

// restorePlan is the sequence of restore steps of a crash run. A third of the plans (own PRNG)
// end with the restore being given up after some of the chunks (abort) instead of finalized.
func restorePlan(n int, seed uint64) []restoreStep {
	plan := []restoreStep{{kind: "start"}}
	perm := core.NewRand(seed).Perm(n)
	if ar := core.NewRand(seed ^ 0xab027); n >= 1 && ar.Chance(1, 3) {
		for _, i := range perm[:ar.Range(1, n)] {
			plan = append(plan, restoreStep{kind: "chunk", idx: i})
		}
		return append(plan, restoreStep{kind: "abort"})
	}
	for _, i := range perm {
		plan = append(plan, restoreStep{kind: "chunk", idx: i})
	}
	return append(plan, restoreStep{kind: "finalize"})
}

// buildCheckpoint builds the source tree and its checkpoint under dir (deterministic).
func buildCheckpoint(cp *CPKnobs, dir string) (dbapi.NodeDB, node.Root, Model, *checkpoint.Metadata, [][]byte) {
	ctx := context.Background()
	keys := UnhexKeys(cp.Keys)
	srcDir := filepath.Join(dir, "src")
	_ = os.MkdirAll(srcDir, 0o755)
	ndb := OpenDB(cp.Src, srcDir)
	m := Model{}
	rootType := node.RootType(cp.RootType)
	t := mkvs.New(nil, ndb, rootType)
	for _, x := range cp.Contents {
		key := keys[x.Key%len(keys)]
		val := Value(x.ID, x.Len)
		m[string(key)] = val
		_ = t.Insert(ctx, key, val)
	}
	_, h, err := t.Commit(ctx, Namespace, cp.Version)
	if err != nil {
		core.Harnessf("crash/restore: build commit: %v", err)
	}
	t.Close()
	root := node.Root{Namespace: Namespace, Version: cp.Version, Type: rootType, Hash: h}
	if err := ndb.Finalize([]node.Root{root}); err != nil {
		core.Harnessf("crash/restore: build finalize: %v", err)
	}
	cr, err := checkpoint.NewFileCreator(filepath.Join(dir, "cp"), ndb)
	if err != nil {
		core.Harnessf("crash/restore: creator: %v", err)
	}
	meta, err := cr.CreateCheckpoint(ctx, root, cp.ChunkSize, 0)
	if err != nil {
		return ndb, root, m, nil, nil
	}
	var chunks [][]byte
	for i := range meta.Chunks {
		cm, _ := meta.GetChunkMetadata(uint64(i))
		b, err := chunkBytes(ctx, cr, cm)
		if err != nil {
			core.Harnessf("crash/restore: chunk read: %v", err)
		}
		chunks = append(chunks, b)
	}
	return ndb, root, m, meta, chunks
}

// childRestore performs the restore plan in the child, crashing inside step opIdx.
func childRestore(k *CRKnobs, dir string, opIdx int, arm func(), report func(string)) {
	ctx := context.Background()
	src, root, _, meta, chunks := buildCheckpoint(k.Restore, dir)
	defer src.Close()
	if meta == nil {
		report("no checkpoint")
		os.Exit(6)
	}
	plan := restorePlan(len(chunks), k.Restore.SchedSeed)
	dstDir := filepath.Join(dir, "dst")
	_ = os.MkdirAll(dstDir, 0o755)
	dst := OpenDB(k.Restore.Dst, dstDir)
	var rs checkpoint.Restorer
	for i, s := range plan {
		if i == opIdx {
			arm()
		}
		var err error
		switch s.kind {
		case "start":
			if err = dst.StartMultipartInsert(k.Restore.Version); err == nil {
				rs, _ = checkpoint.NewRestorer(dst)
				err = rs.StartRestore(ctx, meta)
			}
		case "chunk":
			_, err = rs.RestoreChunk(ctx, uint64(s.idx), bytesReader(chunks[s.idx]))
		case "finalize":
			err = dst.Finalize([]node.Root{root})
		case "abort":
			_ = rs.AbortRestore(ctx)
			err = dst.AbortMultipartInsert()
		}
		if err != nil {
			report(fmt.Sprintf("restore step %d (%s) failed: %v", i, s.kind, err))
			os.Exit(5)
		}
		if i == opIdx {
			break
		}
	}
	report("")
	dst.Close()
	os.Exit(0)
}

func (e CrashEngine) executeRestore(sc *core.Scenario, k *CRKnobs, base, scFile string, st *core.Stats) (*core.Violation, bool) {
	ctx := context.Background()
	refDir := filepath.Join(base, "ref")
	src, root, contents, meta, chunks := buildCheckpoint(k.Restore, refDir)
	defer src.Close()
	if meta == nil || root.Hash.IsEmpty() {
		return nil, false
	}
	plan := restorePlan(len(chunks), k.Restore.SchedSeed)
	target := k.RestoreCrashOp % len(plan)
	dry, code := runChild(scFile, filepath.Join(base, "dry"), target, 0, false)
	if code != 0 {
		st.Inc("probe.dry_run_failed")
		return nil, false
	}
	st.Event("restore target step=%d kind=%s hits=%d chunks=%d", target, plan[target].kind, dry.Hits, len(chunks))
	if dry.Hits == 0 {
		return nil, false
	}
	st.Inc("probe.target_restore_" + plan[target].kind)
	backend := k.Restore.Dst
	for hit := 1; hit <= dry.Hits; hit++ {
		dir := filepath.Join(base, fmt.Sprintf("k%d", hit))
		_, code := runChild(scFile, dir, target, hit, false)
		if code != crashExit {
			core.Harnessf("restore crash child did not crash at hit %d of %d (exit %d)", hit, dry.Hits, code)
		}
		where := fmt.Sprintf("%s: crash at hit %d/%d (%s) of restore step %d (%s) of %d chunks", backend, hit, dry.Hits, dry.Names[hit-1], target, plan[target].kind, len(chunks))
		st.Inc("fault.crash_at." + dry.Names[hit-1])
		st.Add("probe.crash_points", 1)
		var v *core.Violation
		pv, stack := core.Guard(func() {
			dst, err := TryOpenDB(backend, filepath.Join(dir, "dst"))
			if err != nil {
				v = crViol("reopen-failed", "reopen-failed "+backend, fmt.Sprintf("%s: reopening the database failed: %v", where, err))
				return
			}
			defer func() {
				if dst != nil {
					dst.Close()
				}
			}()
			lv, ok := dst.GetLatestVersion()
			if ok && lv == k.Restore.Version {
				// Only legitimate if the crash came after the finalization took full effect.
				if plan[target].kind != "finalize" {
					v = crViol("partial-restore-finalized", "partial-restore-finalized "+backend, fmt.Sprintf("%s: after reopen the restored version %d is reported finalized although Finalize was never called", where, lv))
					return
				}
				st.Inc("probe.restore_finalize_took_effect")
				t := mkvs.NewWithRoot(nil, dst, root)
				err := CompareDump(ctx, t, contents)
				t.Close()
				if err != nil {
					v = crViol("restored-root-unreadable-after-crash", "restored-root-unreadable-after-crash "+backend, fmt.Sprintf("%s: the restored version is reported finalized after reopen but: %v", where, err))
					return
				}
				var detail string
				if dst, detail = restoreAfterlife(ctx, backend, filepath.Join(dir, "dst"), dst, root, contents, k.Restore.SchedSeed+uint64(hit), st); detail != "" {
					v = crViol("finalized-lost-after-crash-and-later-operations", "finalized-lost-after-crash-and-later-operations "+backend, fmt.Sprintf("%s: the restore took full effect; %s", where, detail))
				}
				return
			}
			if (k.Restore.SchedSeed+uint64(hit))%2 == 1 {
				// Not finalized, and the node gives the checkpoint up: the version arrives the
				// ordinary way (the same contents committed as a regular batch give the same root)
				// and must be completely readable once finalized.
				rootType := node.RootType(k.Restore.RootType)
				t := mkvs.New(nil, dst, rootType)
				for _, kk := range contents.SortedKeys() {
					if err := t.Insert(ctx, []byte(kk), contents[kk]); err != nil {
						t.Close()
						v = crViol("regular-commit-after-interrupted-restore-failed", "regular-commit-after-interrupted-restore-failed "+backend, fmt.Sprintf("%s: insert into a fresh tree after reopen failed: %v", where, err))
						return
					}
				}
				_, h, err := t.Commit(ctx, Namespace, k.Restore.Version)
				t.Close()
				if err != nil {
					v = crViol("regular-commit-after-interrupted-restore-failed", "regular-commit-after-interrupted-restore-failed "+backend, fmt.Sprintf("%s: the regular commit of the checkpointed contents at version %d after reopen failed: %v", where, k.Restore.Version, err))
					return
				}
				if !h.Equal(&root.Hash) {
					core.Harnessf("crash/restore: the regular commit of the checkpointed contents gives root %s, the checkpoint has %s", h, root.Hash)
				}
				if err := dst.Finalize([]node.Root{root}); err != nil {
					v = crViol("regular-commit-after-interrupted-restore-failed", "regular-commit-after-interrupted-restore-failed "+backend, fmt.Sprintf("%s: Finalize of the regularly committed root after reopen failed: %v", where, err))
					return
				}
				t2 := mkvs.NewWithRoot(nil, dst, root)
				err = CompareDump(ctx, t2, contents)
				t2.Close()
				if err != nil {
					v = crViol("regular-commit-after-interrupted-restore-unreadable", "regular-commit-after-interrupted-restore-unreadable "+backend, fmt.Sprintf("%s: after reopen the same contents were committed as a regular batch (same root) and finalized, but: %v", where, err))
					return
				}
				st.Inc("probe.regular_commit_after_interrupted_restore_ok")
				var detail string
				if dst, detail = restoreAfterlife(ctx, backend, filepath.Join(dir, "dst"), dst, root, contents, k.Restore.SchedSeed+uint64(hit), st); detail != "" {
					v = crViol("finalized-lost-after-crash-and-later-operations", "finalized-lost-after-crash-and-later-operations "+backend, fmt.Sprintf("%s: a regular commit after reopen succeeded; %s", where, detail))
				}
				return
			}
			// Not finalized: a fresh restore must succeed completely.
			if err := dst.StartMultipartInsert(k.Restore.Version); err != nil {
				v = crViol("fresh-restore-failed", "fresh-restore-failed "+backend, fmt.Sprintf("%s: StartMultipartInsert after reopen failed: %v", where, err))
				return
			}
			rs, _ := checkpoint.NewRestorer(dst)
			if err := rs.StartRestore(ctx, meta); err != nil {
				v = crViol("fresh-restore-failed", "fresh-restore-failed "+backend, fmt.Sprintf("%s: StartRestore after reopen failed: %v", where, err))
				return
			}
			for i := range chunks {
				if _, err := rs.RestoreChunk(ctx, uint64(i), bytesReader(chunks[i])); err != nil {
					v = crViol("fresh-restore-failed", "fresh-restore-failed "+backend, fmt.Sprintf("%s: chunk %d of a fresh restore after reopen was rejected: %v", where, i, err))
					return
				}
			}
			if err := dst.Finalize([]node.Root{root}); err != nil {
				v = crViol("fresh-restore-failed", "fresh-restore-failed "+backend, fmt.Sprintf("%s: Finalize of a fresh restore after reopen failed: %v", where, err))
				return
			}
			t := mkvs.NewWithRoot(nil, dst, root)
			err = CompareDump(ctx, t, contents)
			t.Close()
			if err != nil {
				v = crViol("fresh-restore-wrong", "fresh-restore-wrong "+backend, fmt.Sprintf("%s: a fresh restore after reopen finalized but: %v", where, err))
				return
			}
			st.Inc("probe.fresh_restore_after_crash_ok")
			var detail string
			if dst, detail = restoreAfterlife(ctx, backend, filepath.Join(dir, "dst"), dst, root, contents, k.Restore.SchedSeed+uint64(hit), st); detail != "" {
				v = crViol("finalized-lost-after-crash-and-later-operations", "finalized-lost-after-crash-and-later-operations "+backend, fmt.Sprintf("%s: a fresh restore after reopen succeeded; %s", where, detail))
			}
		})
		if pv != nil {
			return crViol("panic", "panic "+backend, fmt.Sprintf("%s: panic during recovery: %v\n%s", where, pv, stack)), true
		}
		if v != nil {
			return v, true
		}
		os.RemoveAll(dir)
	}
	st.Sample(2, map[string]interface{}{"restore": true, "dst": backend, "chunks": len(chunks), "step": plan[target], "hits": dry.Names})
	return nil, true
}

// restoreAfterlife lets a database whose restored root has been finalized live on: further
// versions are committed on top of it, a later restore is started and aborted, the database is
// reopened — after every step every finalized root must read back its contents. It returns the
// (possibly reopened) database and a description of the first failure ("" = none).
func restoreAfterlife(ctx context.Context, backend, dir string, dst dbapi.NodeDB, root node.Root, contents Model, seed uint64, st *core.Stats) (dbapi.NodeDB, string) {
	if root.Type != node.RootTypeState || root.Hash.IsEmpty() {
		return dst, ""
	}
	type fin struct {
		root node.Root
		m    Model
	}
	var keys []string
	for k := range contents {
		keys = append(keys, k)
	}
	sort.Strings(keys)
	finals := []fin{{root, contents}}
	cur, curM := root, contents
	r := core.NewRand(seed ^ 0xaf7e11fe)
	steps := []string{"commit", "abort", "commit", "reopen", "abort", "commit"}
	perm := r.Perm(len(steps))
	shuffled := make([]string, 0, len(steps))
	for _, i := range perm {
		shuffled = append(shuffled, steps[i])
	}
	steps = shuffled[:r.Range(3, len(shuffled))]
	for si, s := range steps {
		switch s {
		case "commit":
			nm := Model{}
			for kk, vv := range curM {
				nm[kk] = vv
			}
			tr := mkvs.NewWithRoot(nil, dst, cur)
			for j, m := 0, r.Range(1, 3); j < m; j++ {
				key := []byte(fmt.Sprintf("afterlife-%d-%d", si, j))
				if len(keys) > 0 && r.Chance(2, 3) {
					key = []byte(keys[r.Intn(len(keys))])
				}
				val := Value(300000+si*10+j, r.Range(1, 20))
				nm[string(key)] = val
				if err := tr.Insert(ctx, key, val); err != nil {
					tr.Close()
					return dst, fmt.Sprintf("afterlife step %d (%v): insert on top of the latest finalized root failed: %v", si, steps[:si+1], err)
				}
			}
			_, h, err := tr.Commit(ctx, Namespace, cur.Version+1)
			tr.Close()
			if err != nil {
				return dst, fmt.Sprintf("afterlife step %d (%v): commit of version %d failed: %v", si, steps[:si+1], cur.Version+1, err)
			}
			nr := node.Root{Namespace: Namespace, Version: cur.Version + 1, Type: root.Type, Hash: h}
			if err := dst.Finalize([]node.Root{nr}); err != nil {
				return dst, fmt.Sprintf("afterlife step %d (%v): finalize of version %d failed: %v", si, steps[:si+1], nr.Version, err)
			}
			cur, curM = nr, nm
			finals = append(finals, fin{nr, nm})
		case "abort":
			if err := dst.StartMultipartInsert(cur.Version + 1); err != nil {
				return dst, fmt.Sprintf("afterlife step %d (%v): StartMultipartInsert(%d) failed: %v", si, steps[:si+1], cur.Version+1, err)
			}
			if err := dst.AbortMultipartInsert(); err != nil {
				return dst, fmt.Sprintf("afterlife step %d (%v): AbortMultipartInsert failed: %v", si, steps[:si+1], err)
			}
		case "reopen":
			dst.Close()
			ndb, err := TryOpenDB(backend, dir)
			if err != nil {
				return nil, fmt.Sprintf("afterlife step %d (%v): reopening the database failed: %v", si, steps[:si+1], err)
			}
			dst = ndb
		}
		for _, f := range finals {
			tr := mkvs.NewWithRoot(nil, dst, f.root)
			err := CompareDump(ctx, tr, f.m)
			tr.Close()
			if err != nil {
				return dst, fmt.Sprintf("after afterlife step %d (%v) the finalized root of version %d (restored at version %d) is no longer readable with its contents: %v", si, steps[:si+1], f.root.Version, root.Version, err)
			}
		}
		st.Inc("probe.restore_afterlife_step_checked")
	}
	return dst, ""
}
