package store

import (
	"bytes"
	"context"
	"fmt"

	"github.com/oasisprotocol/oasis-core/go/storage/mkvs"
	dbapi "github.com/oasisprotocol/oasis-core/go/storage/mkvs/db/api"
	"github.com/oasisprotocol/oasis-core/go/storage/mkvs/node"

	"verif/sim/core"
)

// cpSource is a checkpoint source database with a history (CPKnobs.Hist): the checkpointed
// version is one of several finalized versions, its tree consists of nodes created in different
// versions, earlier versions may have been pruned, and the database lives on (further versions,
// pruning) while the checkpoint is being created.
type cpSource struct {
	ndb      dbapi.NodeDB
	keys     [][]byte
	rootType node.RootType
	models   map[uint64]Model
	roots    map[uint64]node.Root
	earliest uint64
	latest   uint64
	cpv      uint64
	gen      int
	live     *core.Rand
	liveLeft int
	st       *core.Stats
}

var cpHistLens = []int{0, 1, 5, 20, 40}

// perturb derives another version's contents: a few keys removed, added or overwritten. The
// result is never empty and never equal to m.
func (s *cpSource) perturb(m Model, r *core.Rand) Model {
	s.gen++
	out := m.Clone()
	n := r.Range(1, 1+len(s.keys)/4)
	if n > 12 {
		n = r.Range(1, 12)
	}
	for i := 0; i < n; i++ {
		idx := r.Intn(len(s.keys))
		key := string(s.keys[idx])
		if _, ok := out[key]; ok && len(out) > 1 && r.Chance(1, 3) {
			delete(out, key)
			continue
		}
		out[key] = Value(1000000*s.gen+idx, cpHistLens[r.Intn(len(cpHistLens))])
	}
	if out.Equal(m) {
		idx := r.Intn(len(s.keys))
		out[string(s.keys[idx])] = Value(1000000*s.gen+500000+idx, 7)
	}
	return out
}

// commit derives version v with contents m from version v-1 (or from the empty tree when there
// is none) and finalizes it.
func (s *cpSource) commit(ctx context.Context, v uint64, m Model) {
	var t mkvs.Tree
	prev, ok := s.models[v-1]
	if ok {
		t = mkvs.NewWithRoot(nil, s.ndb, s.roots[v-1])
	} else {
		t = mkvs.New(nil, s.ndb, s.rootType)
		prev = Model{}
	}
	defer t.Close()
	for _, k := range prev.SortedKeys() {
		if _, still := m[k]; !still {
			if err := t.Remove(ctx, []byte(k)); err != nil {
				core.Harnessf("checkpoint source: remove in version %d: %v", v, err)
			}
		}
	}
	for _, k := range m.SortedKeys() {
		if pv, had := prev[k]; had && bytes.Equal(pv, m[k]) {
			continue
		}
		if err := t.Insert(ctx, []byte(k), m[k]); err != nil {
			core.Harnessf("checkpoint source: insert in version %d: %v", v, err)
		}
	}
	_, h, err := t.Commit(ctx, Namespace, v)
	if err != nil {
		core.Harnessf("checkpoint source: commit of version %d: %v", v, err)
	}
	root := node.Root{Namespace: Namespace, Version: v, Type: s.rootType, Hash: h}
	if err := s.ndb.Finalize([]node.Root{root}); err != nil {
		core.Harnessf("checkpoint source: finalize of version %d: %v", v, err)
	}
	s.models[v], s.roots[v] = m, root
	s.latest = v
}

func (s *cpSource) prune(v uint64) {
	if err := s.ndb.Prune(v); err != nil {
		core.Harnessf("checkpoint source: prune of version %d (earliest %d, latest %d, checkpointed %d): %v", v, s.earliest, s.latest, s.cpv, err)
	}
	delete(s.models, v)
	delete(s.roots, v)
	s.earliest = v + 1
}

// buildCPSource builds the source database: versions cpv-Pre .. cpv+Post, the contents of
// version cpv being `contents`, the Prune earliest ones pruned.
func buildCPSource(ctx context.Context, ndb dbapi.NodeDB, keys [][]byte, contents Model, cpv uint64, rootType node.RootType, h *CPHist, st *core.Stats) *cpSource {
	return buildCPSourceUpTo(ctx, ndb, keys, contents, cpv, rootType, h, st, false)
}

// buildCPSourceUpTo is buildCPSource; with below set only the versions before the checkpointed
// one are committed (the same ones as in the full history: a database that holds the older part
// of the source's history).
func buildCPSourceUpTo(ctx context.Context, ndb dbapi.NodeDB, keys [][]byte, contents Model, cpv uint64, rootType node.RootType, h *CPHist, st *core.Stats, below bool) *cpSource {
	s := &cpSource{ndb: ndb, keys: keys, rootType: rootType, models: map[uint64]Model{}, roots: map[uint64]node.Root{}, cpv: cpv, st: st,
		live: core.NewRand(core.Derive(h.Seed, "live", 0)), liveLeft: h.Live}
	r := core.NewRand(h.Seed)
	pre := h.Pre
	if uint64(pre) >= cpv {
		pre = int(cpv) - 1
	}
	ms := map[uint64]Model{cpv: contents}
	for j := 1; j <= pre; j++ {
		ms[cpv-uint64(j)] = s.perturb(ms[cpv-uint64(j)+1], r)
	}
	for j := 1; j <= h.Post; j++ {
		ms[cpv+uint64(j)] = s.perturb(ms[cpv+uint64(j)-1], r)
	}
	s.earliest = cpv - uint64(pre)
	for v := s.earliest; v <= cpv+uint64(h.Post); v++ {
		if below && v >= cpv {
			break
		}
		s.commit(ctx, v, ms[v])
	}
	if below {
		return s
	}
	for i := 0; i < h.Prune && s.earliest < cpv; i++ {
		s.prune(s.earliest)
	}
	return s
}

// liveStep is called at the chunker's step hooks (by the only goroutine that runs): now and then
// the source database advances.
func (s *cpSource) liveStep(ctx context.Context) {
	if s == nil || s.liveLeft <= 0 || !s.live.Chance(1, 4) {
		return
	}
	s.liveLeft--
	if s.earliest < s.cpv && s.live.Chance(1, 2) {
		s.st.Inc("probe.source_version_pruned_during_creation")
		s.st.Event("live prune %d", s.earliest)
		s.prune(s.earliest)
		return
	}
	s.st.Inc("probe.source_version_committed_during_creation")
	s.st.Event("live commit %d", s.latest+1)
	s.commit(ctx, s.latest+1, s.perturb(s.models[s.latest], s.live))
}

// check reads every retained version of the source back (after the creation).
func (s *cpSource) check(ctx context.Context) *core.Violation {
	for v := s.earliest; v <= s.latest; v++ {
		t := mkvs.NewWithRoot(nil, s.ndb, s.roots[v])
		err := CompareDump(ctx, t, s.models[v])
		t.Close()
		if err != nil {
			return cpViol("source-version-damaged", fmt.Sprintf("after the checkpoint of version %d was created, version %d of the source database (earliest %d, latest %d) no longer reads back its contents: %v", s.cpv, v, s.earliest, s.latest, err))
		}
	}
	return nil
}
