package store

import (
	"context"
	"encoding/json"
	"fmt"
	"strings"

	"github.com/oasisprotocol/oasis-core/go/common/crypto/hash"
	"github.com/oasisprotocol/oasis-core/go/storage/mkvs"
	"github.com/oasisprotocol/oasis-core/go/storage/mkvs/node"
	"github.com/oasisprotocol/oasis-core/go/storage/mkvs/writelog"

	"verif/sim/core"
)

// RootHashEngine decides C02: groups of independently generated histories constructed to end
// in the same contents must yield the same root, equal to the canonical build, and single-pair
// perturbations of the contents must change the root.
type RootHashEngine struct{}

// RHTarget is one key/value pair of the target contents.
type RHTarget struct {
	Key int `json:"key"`
	Len int `json:"len"`
	ID  int `json:"id"`
}

// RHHistory configures one history.
type RHHistory struct {
	Backend  string `json:"backend"`
	NodeCap  uint64 `json:"node_cap"`
	ValueCap uint64 `json:"value_cap"`
	// Replay additionally replays the write logs returned by this history's commits into a fresh
	// in-memory tree, whose root must be the same.
	Replay bool `json:"replay"`
	// CommitEvery commits after every n-th mutating operation of the fix-up phase (0 = only at the end).
	CommitEvery int `json:"commit_every"`
	// Decoy (real backends): before every commit a competing candidate for the same version is
	// committed from another tree (the same parent with other values under some of the keys), so
	// that the history's own root is a later candidate of its version; it is read back from the
	// database before it is finalized (the decoy is discarded by the finalization).
	Decoy bool `json:"decoy,omitempty"`
}

// RHKnobs are the knobs of a run.
type RHKnobs struct {
	Keys      []string    `json:"keys"`
	Target    []RHTarget  `json:"target"`
	Histories []RHHistory `json:"histories"`
	PermSeed  uint64      `json:"perm_seed"`
	RootType  uint8       `json:"root_type"`
	Perturb   int         `json:"perturb"`
}

// RHOp is one symbolic operation of one history.
type RHOp struct {
	H   int    `json:"h"`
	K   string `json:"k"` // ins | rm | rmx | commit | reopen | push | popc | popx
	Key int    `json:"key,omitempty"`
	Len int    `json:"len,omitempty"`
	ID  int    `json:"id,omitempty"`
}

// Generate implements core.Engine.
func (RootHashEngine) Generate(r *core.Rand, tier core.Tier) *core.Scenario {
	nk := r.Range(1, 30)
	if r.Chance(1, 6) {
		nk = r.Range(30, 120)
	}
	if tier == core.Thorough && r.Chance(1, 10) {
		nk = r.Range(100, 200)
	}
	keys := GenKeys(r, nk, 64)
	nk = len(keys)
	k := RHKnobs{Keys: HexKeys(keys), PermSeed: r.Uint64(), RootType: uint8(node.RootTypeState), Perturb: r.Range(1, 6)}
	vlen := func() int {
		switch r.Intn(5) {
		case 0:
			return 0
		case 1:
			return 1
		default:
			return r.Range(1, 40)
		}
	}
	id := 1
	for i := 0; i < nk; i++ {
		if r.Chance(3, 5) {
			k.Target = append(k.Target, RHTarget{Key: i, Len: vlen(), ID: id})
			id++
		}
	}
	nh := r.Range(2, 6)
	for h := 0; h < nh; h++ {
		hc := RHHistory{Backend: GenTreeBackend(r.Pick), Replay: r.Chance(1, 3)}
		hc.NodeCap, hc.ValueCap = GenCapacities(r, keys, hc.Backend)
		if r.Bool() {
			hc.CommitEvery = r.Range(1, 8)
		}
		if (hc.Backend == "badger" || hc.Backend == "pathbadger") && core.NewRand(core.Hash64([]byte(strings.Join(k.Keys, ",")), []byte{byte(h)})^0xdec01).Chance(1, 2) {
			hc.Decoy = true // (own PRNG: the rest of the scenario is unchanged)
		}
		k.Histories = append(k.Histories, hc)
	}
	sc := &core.Scenario{Engine: "roothash", Knobs: core.MustJSON(k)}
	nops := r.Range(0, 40*nh/2+1)
	if tier == core.Thorough {
		nops = r.Range(0, 100*nh/2+1)
	}
	w := []int{r.Range(4, 12), r.Range(1, 6), r.Range(1, 4), r.Range(0, 3), r.Range(0, 2), r.Range(0, 2), r.Range(0, 2), r.Range(0, 1)}
	for i := 0; i < nops; i++ {
		op := RHOp{H: r.Intn(nh)}
		switch r.Pick(w) {
		case 0:
			op.K, op.Key, op.Len, op.ID = "ins", r.Intn(nk), vlen(), 100000+i
		case 1:
			op.K, op.Key = "rm", r.Intn(nk)
		case 2:
			op.K, op.Key = "rmx", r.Intn(nk)
		case 3:
			op.K = "commit"
		case 4:
			op.K = "reopen"
		case 5:
			op.K = "push"
		case 6:
			op.K = "popc"
		case 7:
			op.K = "popx"
		}
		sc.Ops = append(sc.Ops, core.MustJSON(op))
	}
	return sc
}

func rhViol(kind, fp, detail string) *core.Violation {
	return &core.Violation{Property: "C02", Kind: kind, Fingerprint: fp, Detail: detail}
}

// Execute implements core.Engine.
func (e RootHashEngine) Execute(sc *core.Scenario, st *core.Stats) (*core.Violation, bool) {
	var k RHKnobs
	if err := json.Unmarshal(sc.Knobs, &k); err != nil {
		core.Harnessf("roothash: bad knobs: %v", err)
	}
	keys := UnhexKeys(k.Keys)
	ctx := context.Background()
	rootType := node.RootType(k.RootType)
	target := Model{}
	for _, t := range k.Target {
		target[string(keys[t.Key%len(keys)])] = Value(t.ID, t.Len)
	}
	var ops []RHOp
	for _, raw := range sc.Ops {
		var op RHOp
		if err := json.Unmarshal(raw, &op); err != nil {
			core.Harnessf("roothash: bad op: %v", err)
		}
		ops = append(ops, op)
	}
	canonical := CanonicalRoot(ctx, target, rootType)
	st.Event("canonical %s n=%d", canonical, len(target))
	depth := TrieDepthKeys(keys)

	for h, hc := range k.Histories {
		v := e.runHistory(ctx, h, hc, k, keys, ops, target, canonical, rootType, st)
		if v != nil && CapacityBelowPath(hc.NodeCap, hc.ValueCap, depth) {
			hc2 := hc
			hc2.NodeCap, hc2.ValueCap = 0, 0
			if v2 := e.runHistory(ctx, h, hc2, k, keys, ops, target, canonical, rootType, core.NewStats()); v2 == nil {
				v = rhViol("active-path-eviction", "active-path-eviction cache-capacity-below-active-path",
					fmt.Sprintf("history %d: cache capacity (nodes=%d, value bytes=%d) is below what the longest root-to-leaf path of the key alphabet needs (%d internal nodes); the same history passes with an unlimited cache. Original violation: [%s] %s", h, hc.NodeCap, hc.ValueCap, depth, v.Kind, v.Detail))
			}
		}
		if v != nil {
			return v, true
		}
	}

	// Sensitivity of the root: single-pair perturbations must change it.
	pr := core.NewRand(k.PermSeed ^ 0x5eed)
	for i := 0; i < k.Perturb; i++ {
		p := target.Clone()
		var what string
		tk := target.SortedKeys()
		switch c := pr.Intn(4); {
		case c == 0 || len(tk) == 0: // add one key
			var cand []byte
			for _, key := range keys {
				if _, ok := target[string(key)]; !ok {
					cand = key
					break
				}
			}
			if cand == nil {
				cand = append(append([]byte{}, keys[pr.Intn(len(keys))]...), 0x7e, byte(i))
			}
			p[string(cand)] = Value(900000+i, pr.Intn(3))
			what = fmt.Sprintf("added key %x", cand)
		case c == 1: // remove one key
			key := tk[pr.Intn(len(tk))]
			delete(p, key)
			what = fmt.Sprintf("removed key %x", key)
		case c == 2: // flip one value bit / empty <-> one byte
			key := tk[pr.Intn(len(tk))]
			val := append([]byte{}, p[key]...)
			if len(val) == 0 {
				val = []byte{0}
				what = fmt.Sprintf("value of %x changed from empty to one zero byte", key)
			} else {
				pos := pr.Intn(len(val))
				val[pos] ^= 1 << uint(pr.Intn(8))
				what = fmt.Sprintf("one bit of byte %d of the value of %x flipped", pos, key)
			}
			p[key] = val
		default: // change the value length keeping a prefix
			key := tk[pr.Intn(len(tk))]
			val := append([]byte{}, p[key]...)
			if len(val) > 0 && pr.Bool() {
				val = val[:len(val)-1]
				what = fmt.Sprintf("value of %x truncated by one byte", key)
			} else {
				val = append(val, 0)
				what = fmt.Sprintf("value of %x extended by one zero byte", key)
			}
			p[key] = val
		}
		st.Inc("probe.perturbation")
		if pr := CanonicalRoot(ctx, p, rootType); pr == canonical {
			return rhViol("root-insensitive", "root-insensitive", fmt.Sprintf("contents changed (%s) but the root hash stayed %s", what, canonical)), true
		}
	}
	st.Distinct("target_contents", target.Digest())
	st.Sample(2, map[string]interface{}{"knobs_without_keys": map[string]interface{}{"histories": k.Histories, "target_pairs": len(k.Target), "keys": len(k.Keys)}, "ops": len(sc.Ops), "first_ops": firstN(sc.Ops, 8)})
	return nil, len(k.Histories) >= 2 && len(target) >= 1 && len(ops) >= 2
}

func firstN(ops []json.RawMessage, n int) []json.RawMessage {
	if len(ops) < n {
		return ops
	}
	return ops[:n]
}

func (e RootHashEngine) runHistory(ctx context.Context, h int, hc RHHistory, k RHKnobs, keys [][]byte, ops []RHOp,
	target Model, canonical hash.Hash, rootType node.RootType, st *core.Stats,
) (v *core.Violation) {
	ndb := OpenTreeDB(hc.Backend)
	if ndb != nil {
		defer ndb.Close()
	}
	var opts []mkvs.Option
	if hc.NodeCap > 0 || hc.ValueCap > 0 {
		opts = append(opts, mkvs.Capacity(hc.NodeCap, hc.ValueCap))
	}
	tree := mkvs.New(nil, ndb, rootType, opts...)
	defer func() { tree.Close() }()
	model := Model{}
	var committed Model
	var committedRoot node.Root
	haveRoot := false
	version := uint64(0)
	var overlay mkvs.OverlayTree
	var layer map[string][]byte
	var logs []writelog.WriteLog
	var logModels []Model // model after each commit (for write-log replay)

	cur := func() mkvs.KeyValueTree {
		if overlay != nil {
			return overlay
		}
		return tree
	}
	read := func(key string) ([]byte, bool) {
		if layer != nil {
			if v, ok := layer[key]; ok {
				return v, v != nil
			}
		}
		v, ok := model[key]
		return v, ok
	}
	write := func(key string, val []byte) {
		if layer != nil {
			layer[key] = val
		} else if val == nil {
			delete(model, key)
		} else {
			model[key] = val
		}
	}
	commit := func(what string) *core.Violation {
		version++
		decoyed := false
		if hc.Decoy && ndb != nil && rootType == node.RootTypeState {
			var dt mkvs.Tree
			if haveRoot {
				dt = mkvs.NewWithRoot(nil, ndb, committedRoot)
			} else {
				dt = mkvs.New(nil, ndb, rootType)
			}
			n := 0
			for _, key := range model.SortedKeys() {
				if n++; n > 4 {
					break
				}
				_ = dt.Insert(ctx, []byte(key), []byte(fmt.Sprintf("decoy %d", version)))
			}
			_ = dt.Insert(ctx, []byte("decoy"), []byte{byte(version)})
			if _, _, err := dt.Commit(ctx, Namespace, version); err == nil {
				decoyed = true
				st.Inc("probe.competing_candidate_committed_first")
			}
			dt.Close()
		}
		wl, root, err := tree.Commit(ctx, Namespace, version)
		if err != nil {
			return rhViol("op-error", "op-error", fmt.Sprintf("history %d: commit (%s) failed: %v", h, what, err))
		}
		r := node.Root{Namespace: Namespace, Version: version, Type: rootType, Hash: root}
		if decoyed {
			// The history's root is a later candidate of its version: what the database serves
			// under it, before it is finalized, must be the history's contents.
			ft := mkvs.NewWithRoot(nil, ndb, r)
			err := CompareDump(ctx, ft, model)
			ft.Close()
			if err != nil {
				return rhViol("candidate-contents-wrong", "candidate-contents-wrong", fmt.Sprintf("history %d (%s): commit %d (%s) produced root %s as the second candidate of its version; read back from the database before finalization: %v", h, hc.Backend, version, what, root, err))
			}
		}
		if ndb != nil {
			if err := ndb.Finalize([]node.Root{r}); err != nil {
				return rhViol("op-error", "op-error", fmt.Sprintf("history %d: finalize failed: %v", h, err))
			}
		}
		committed, committedRoot, haveRoot = model.Clone(), r, true
		logs = append(logs, wl)
		logModels = append(logModels, model.Clone())
		st.Inc("probe.commit")
		st.Event("h%d commit v=%d root=%s", h, version, root)
		if want := CanonicalRoot(ctx, model, rootType); want != root {
			diag := ""
			if ndb != nil {
				// Diagnosis only: what does the committed root hold when read through a fresh,
				// unlimited cache?
				ft := mkvs.NewWithRoot(nil, ndb, r)
				if err := CompareDump(ctx, ft, model); err != nil {
					diag = "; contents under the committed root: " + err.Error()
				} else {
					diag = "; the committed root holds exactly the model's pairs (structure differs)"
				}
				ft.Close()
			}
			what += diag
			return rhViol("root-mismatch", "root-mismatch intermediate", fmt.Sprintf("history %d (%s, nodes=%d, values=%d): commit %d (%s) produced root %s but the canonical build of the same %d pairs gives %s", h, hc.Backend, hc.NodeCap, hc.ValueCap, version, what, root, len(model), want))
		}
		return nil
	}
	mutate := func(kind string, key []byte, val []byte) *core.Violation {
		var err error
		st.Event("h%d %s %x len=%d", h, kind, key, len(val))
		switch kind {
		case "ins":
			err = cur().Insert(ctx, key, val)
			write(string(key), val)
		case "rm":
			err = cur().Remove(ctx, key)
			write(string(key), nil)
		case "rmx":
			var prev []byte
			prev, err = cur().RemoveExisting(ctx, key)
			if err == nil {
				want, ok := read(string(key))
				if (prev != nil) != ok || string(prev) != string(want) {
					return rhViol("rmx-mismatch", "rmx-mismatch", fmt.Sprintf("history %d: RemoveExisting(%x) returned %x, model holds %x (present=%v)", h, key, prev, want, ok))
				}
			}
			write(string(key), nil)
		}
		if err != nil {
			return rhViol("op-error", "op-error", fmt.Sprintf("history %d: %s(%x) failed: %v", h, kind, key, err))
		}
		return nil
	}
	popc := func() *core.Violation {
		if overlay == nil {
			return nil
		}
		if _, err := overlay.Commit(ctx); err != nil {
			return rhViol("op-error", "op-error", fmt.Sprintf("history %d: overlay commit failed: %v", h, err))
		}
		overlay.Close()
		overlay = nil
		for key, val := range layer {
			if val == nil {
				delete(model, key)
			} else {
				model[key] = val
			}
		}
		layer = nil
		return nil
	}

	pv, stack := core.Guard(func() {
		for _, op := range ops {
			if op.H%len(k.Histories) != h {
				continue
			}
			switch op.K {
			case "ins":
				v = mutate("ins", keys[op.Key%len(keys)], Value(op.ID, op.Len))
			case "rm", "rmx":
				v = mutate(op.K, keys[op.Key%len(keys)], nil)
			case "commit":
				v = commit("mid-history")
			case "reopen":
				if ndb == nil || !haveRoot {
					continue
				}
				if overlay != nil {
					overlay.Close()
					overlay, layer = nil, nil
				}
				tree.Close()
				tree = mkvs.NewWithRoot(nil, ndb, committedRoot, opts...)
				model = committed.Clone()
				st.Inc("probe.reopen")
			case "push":
				if overlay == nil {
					overlay = mkvs.NewOverlay(tree)
					layer = map[string][]byte{}
				}
			case "popc":
				v = popc()
			case "popx":
				if overlay != nil {
					overlay.Close()
					overlay, layer = nil, nil
				}
			}
			if v != nil {
				return
			}
		}
		// Fix-up phase: reach the target contents in an order derived from the knobs.
		if v = popc(); v != nil {
			return
		}
		pr := core.NewRand(core.Derive(k.PermSeed, "fixup", uint64(h)))
		n := 0
		for _, i := range pr.Perm(len(keys)) {
			key := keys[i]
			want, inTarget := target[string(key)]
			have, present := model[string(key)]
			switch {
			case inTarget && (!present || string(have) != string(want)):
				v = mutate("ins", key, want)
			case !inTarget && present:
				if pr.Bool() {
					v = mutate("rm", key, nil)
				} else {
					v = mutate("rmx", key, nil)
				}
			default:
				continue
			}
			if v != nil {
				return
			}
			n++
			if hc.CommitEvery > 0 && n%hc.CommitEvery == 0 {
				if v = commit("fix-up"); v != nil {
					return
				}
			}
		}
		if v = commit("final"); v != nil {
			return
		}
		if !model.Equal(target) {
			core.Harnessf("roothash: fix-up did not reach the target contents")
		}
		if committedRoot.Hash != canonical {
			v = rhViol("root-mismatch", "root-mismatch final", fmt.Sprintf("history %d (%s, nodes=%d, values=%d, %d commits): final root %s differs from the canonical root %s of the same %d pairs", h, hc.Backend, hc.NodeCap, hc.ValueCap, version, committedRoot.Hash, canonical, len(target)))
			return
		}
		if hc.Replay {
			// Contents produced by replaying the write logs of this history.
			rt := mkvs.New(nil, nil, rootType)
			defer rt.Close()
			for i, wl := range logs {
				if err := rt.ApplyWriteLog(ctx, writelog.NewStaticIterator(wl)); err != nil {
					v = rhViol("op-error", "op-error", fmt.Sprintf("history %d: ApplyWriteLog %d failed: %v", h, i, err))
					return
				}
				_, rh, err := rt.Commit(ctx, Namespace, uint64(i+1), mkvs.NoPersist())
				if err != nil {
					v = rhViol("op-error", "op-error", fmt.Sprintf("history %d: replay commit failed: %v", h, err))
					return
				}
				if want := CanonicalRoot(ctx, logModels[i], rootType); rh != want {
					v = rhViol("root-mismatch", "root-mismatch writelog-replay", fmt.Sprintf("history %d: replaying write logs 1..%d gives root %s, canonical root of the contents after commit %d is %s", h, i+1, rh, i+1, want))
					return
				}
			}
			st.Inc("probe.writelog_replay")
		}
	})
	if pv != nil {
		return rhViol("panic", "panic", fmt.Sprintf("history %d (%s, nodes=%d, values=%d): panic: %v\n%s", h, hc.Backend, hc.NodeCap, hc.ValueCap, pv, stack))
	}
	return v
}
