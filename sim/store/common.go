// Package store is engine E2 (simstore): MKVS trees and node databases under operation
// histories, cache pressure, storage errors, crashes and concurrent readers.
package store

import (
	"bytes"
	"context"
	"encoding/hex"
	"errors"
	"fmt"
	"os"
	"path/filepath"
	"sort"
	"strings"
	"sync/atomic"

	"github.com/oasisprotocol/oasis-core/go/common"
	"github.com/oasisprotocol/oasis-core/go/common/crypto/hash"
	"github.com/oasisprotocol/oasis-core/go/storage/mkvs"
	dbapi "github.com/oasisprotocol/oasis-core/go/storage/mkvs/db/api"
	badgerdb "github.com/oasisprotocol/oasis-core/go/storage/mkvs/db/badger"
	"github.com/oasisprotocol/oasis-core/go/storage/mkvs/db/pathbadger"
	"github.com/oasisprotocol/oasis-core/go/storage/mkvs/node"
	"github.com/oasisprotocol/oasis-core/go/storage/mkvs/writelog"

	"verif/sim/core"
)

// Namespace used by all store simulations.
var Namespace = common.NewTestNamespaceFromSeed([]byte("verif/sim/store"), 0)

var scratchSeq atomic.Uint64

// ScratchDir returns a fresh scratch directory (under VERIF_SCRATCH, tmpfs by default).
func ScratchDir(tag string) string {
	base := os.Getenv("VERIF_SCRATCH")
	if base == "" {
		base = fmt.Sprintf("/dev/shm/verif-%d", os.Getpid())
	}
	d := filepath.Join(base, fmt.Sprintf("%s-%d-%d", tag, os.Getpid(), scratchSeq.Add(1)))
	if err := os.MkdirAll(d, 0o755); err != nil {
		core.Harnessf("cannot create scratch dir %s: %v", d, err)
	}
	return d
}

// OpenDB opens a node database of the given backend ("badger" | "pathbadger"). With dir == ""
// the database is memory-only.
func OpenDB(backend, dir string) dbapi.NodeDB {
	cfg := &dbapi.Config{DB: dir, Namespace: Namespace, MaxCacheSize: 16 * 1024 * 1024, NoFsync: true, MemoryOnly: dir == ""}
	var (
		ndb dbapi.NodeDB
		err error
	)
	switch backend {
	case "badger":
		ndb, err = badgerdb.New(cfg)
	case "pathbadger":
		ndb, err = pathbadger.New(cfg)
	default:
		core.Harnessf("unknown backend %q", backend)
	}
	if err != nil {
		core.Harnessf("cannot open %s database at %q: %v", backend, dir, err)
	}
	return ndb
}

// TryOpenDB is OpenDB returning the error (used after crashes, where failing to open is a finding).
//
// One dependency quirk is retried: when the child was killed while a badger background
// goroutine was creating a new memtable file, the zero-length .mem file makes the first
// badger.Open fail with "Create a new file" (and size the file), and the next Open succeeds.
// This depends on unscheduled badger goroutines, does not replay, and is not oasis-core code.
func TryOpenDB(backend, dir string) (dbapi.NodeDB, error) {
	ndb, err := tryOpenDB(backend, dir)
	if err != nil && strings.Contains(err.Error(), "Create a new file") {
		BadgerNewFileRetries.Add(1)
		ndb, err = tryOpenDB(backend, dir)
	}
	return ndb, err
}

// BadgerNewFileRetries counts reopen retries caused by the badger memtable quirk.
var BadgerNewFileRetries atomic.Int64

func tryOpenDB(backend, dir string) (dbapi.NodeDB, error) {
	cfg := &dbapi.Config{DB: dir, Namespace: Namespace, MaxCacheSize: 16 * 1024 * 1024, NoFsync: true}
	switch backend {
	case "badger":
		return badgerdb.New(cfg)
	case "pathbadger":
		return pathbadger.New(cfg)
	}
	return nil, fmt.Errorf("unknown backend %q", backend)
}

// GenKeys generates an adversarial key alphabet: empty key, proper prefixes, keys differing in
// the last bit, shared long prefixes, lengths 0..maxLen.
func GenKeys(r *core.Rand, n, maxLen int) [][]byte {
	seen := map[string]bool{}
	var keys [][]byte
	add := func(k []byte) {
		if len(k) > maxLen {
			k = k[:maxLen]
		}
		if !seen[string(k)] {
			seen[string(k)] = true
			keys = append(keys, append([]byte{}, k...))
		}
	}
	if r.Chance(1, 3) {
		add([]byte{})
	}
	style := r.Intn(4)
	for tries := 0; len(keys) < n && tries < n*20; tries++ {
		switch {
		case len(keys) > 0 && r.Chance(1, 4): // proper prefix of an existing key
			k := keys[r.Intn(len(keys))]
			if len(k) > 0 {
				add(k[:r.Intn(len(k))])
			}
		case len(keys) > 0 && r.Chance(1, 4): // extension of an existing key
			k := keys[r.Intn(len(keys))]
			ext := r.Bytes(r.Range(1, 3))
			if r.Bool() {
				ext = []byte{0}
			}
			add(append(append([]byte{}, k...), ext...))
		case len(keys) > 0 && r.Chance(1, 4): // differ in one (often the last) bit
			k := append([]byte{}, keys[r.Intn(len(keys))]...)
			if len(k) > 0 {
				bit := uint(0)
				if r.Chance(1, 3) {
					bit = uint(r.Intn(8))
				}
				idx := len(k) - 1
				if r.Chance(1, 4) {
					idx = r.Intn(len(k))
				}
				k[idx] ^= 1 << bit
				add(k)
			}
		default:
			var k []byte
			switch style {
			case 0: // short binary
				k = r.Bytes(r.Range(0, 3))
			case 1: // tiny alphabet
				l := r.Range(0, 5)
				k = make([]byte, l)
				for i := range k {
					k[i] = []byte{0x00, 0x01, 0x80, 0xff}[r.Intn(4)]
				}
			case 2: // long shared prefix
				k = append(bytes.Repeat([]byte{0xAB}, r.Range(8, 40)), r.Bytes(r.Range(0, 4))...)
			default:
				k = r.Bytes(r.Range(0, maxLen))
			}
			add(k)
		}
	}
	if len(keys) == 0 {
		add([]byte{0x01})
	}
	return keys
}

// HexKeys encodes keys for knobs.
func HexKeys(keys [][]byte) []string {
	out := make([]string, len(keys))
	for i, k := range keys {
		out[i] = hex.EncodeToString(k)
	}
	return out
}

// UnhexKeys decodes knob keys.
func UnhexKeys(hs []string) [][]byte {
	out := make([][]byte, len(hs))
	for i, h := range hs {
		b, err := hex.DecodeString(h)
		if err != nil {
			core.Harnessf("bad hex key: %v", err)
		}
		if b == nil {
			b = []byte{}
		}
		out[i] = b
	}
	return out
}

// Value builds a deterministic value of the given length from an id (unique per op so every
// read is attributable to one write). Length 0 yields an empty, non-nil value.
func Value(id, length int) []byte {
	v := make([]byte, length)
	seed := []byte(fmt.Sprintf("v%d/", id))
	for i := range v {
		v[i] = seed[i%len(seed)] ^ byte(i/len(seed))
	}
	return v
}

// Model is an ordered-map reference model.
type Model map[string][]byte

// Clone copies the model.
func (m Model) Clone() Model {
	c := make(Model, len(m))
	for k, v := range m {
		c[k] = v
	}
	return c
}

// SortedKeys returns the live keys in byte order.
func (m Model) SortedKeys() []string {
	ks := make([]string, 0, len(m))
	for k := range m {
		ks = append(ks, k)
	}
	sort.Strings(ks)
	return ks
}

// Equal compares two models.
func (m Model) Equal(o Model) bool {
	if len(m) != len(o) {
		return false
	}
	for k, v := range m {
		ov, ok := o[k]
		if !ok || !bytes.Equal(v, ov) {
			return false
		}
	}
	return true
}

// Digest is a short fingerprint of the contents.
func (m Model) Digest() uint64 {
	var parts [][]byte
	for _, k := range m.SortedKeys() {
		parts = append(parts, []byte(k), m[k])
	}
	return core.Hash64(parts...)
}

// DumpTree reads the complete contents of a tree through its iterator.
func DumpTree(ctx context.Context, t mkvs.ImmutableKeyValueTree) (Model, []string, error) {
	it := t.NewIterator(ctx)
	defer it.Close()
	m := Model{}
	var order []string
	for it.Rewind(); it.Valid(); it.Next() {
		k := string(it.Key())
		v := append([]byte{}, it.Value()...)
		m[k] = v
		order = append(order, k)
	}
	if err := it.Err(); err != nil {
		return nil, nil, err
	}
	return m, order, nil
}

// CompareDump checks that a full iteration yields exactly the model, in ascending byte order.
func CompareDump(ctx context.Context, t mkvs.ImmutableKeyValueTree, want Model) error {
	got, order, err := DumpTree(ctx, t)
	if err != nil {
		return fmt.Errorf("iteration failed: %w", err)
	}
	if !sort.StringsAreSorted(order) {
		return fmt.Errorf("iteration not in ascending byte order: %x", order)
	}
	for i := 1; i < len(order); i++ {
		if order[i] == order[i-1] {
			return fmt.Errorf("iteration yielded key %x twice", order[i])
		}
	}
	if !got.Equal(want) {
		return fmt.Errorf("contents differ: %s", DiffModels(got, want))
	}
	return nil
}

// DiffModels describes the first differences between got and want.
func DiffModels(got, want Model) string {
	var out []string
	for _, k := range want.SortedKeys() {
		g, ok := got[k]
		if !ok {
			out = append(out, fmt.Sprintf("missing key %x (want value %x)", k, want[k]))
		} else if !bytes.Equal(g, want[k]) {
			out = append(out, fmt.Sprintf("key %x has value %x, want %x", k, g, want[k]))
		}
		if len(out) >= 4 {
			break
		}
	}
	for _, k := range got.SortedKeys() {
		if _, ok := want[k]; !ok {
			out = append(out, fmt.Sprintf("unexpected key %x (value %x)", k, got[k]))
			if len(out) >= 6 {
				break
			}
		}
	}
	return fmt.Sprintf("%d keys vs %d expected; %v", len(got), len(want), out)
}

// CanonicalRoot builds the contents in a fresh in-memory tree with sorted inserts.
func CanonicalRoot(ctx context.Context, m Model, rootType node.RootType) hash.Hash {
	t := mkvs.New(nil, nil, rootType)
	defer t.Close()
	for _, k := range m.SortedKeys() {
		if err := t.Insert(ctx, []byte(k), m[k]); err != nil {
			core.Harnessf("canonical insert failed: %v", err)
		}
	}
	_, h, err := t.Commit(ctx, Namespace, 0, mkvs.NoPersist())
	if err != nil {
		core.Harnessf("canonical commit failed: %v", err)
	}
	return h
}

// ErrInjected is the error injected by FaultyNodeDB.
var ErrInjected = errors.New("verif: injected storage read error")

// FaultyNodeDB wraps a NodeDB and fails the k-th GetNode after Arm(k).
type FaultyNodeDB struct {
	dbapi.NodeDB
	countdown int
	Fired     int
	Gets      int
}

// Arm makes the n-th next GetNode (1-based) fail once.
func (f *FaultyNodeDB) Arm(n int) { f.countdown = n }

// Disarm clears a pending fault and reports whether it was still pending.
func (f *FaultyNodeDB) Disarm() bool {
	p := f.countdown > 0
	f.countdown = 0
	return p
}

// GetNode implements NodeDB.
func (f *FaultyNodeDB) GetNode(root node.Root, ptr *node.Pointer) (node.Node, error) {
	f.Gets++
	if f.countdown > 0 {
		f.countdown--
		if f.countdown == 0 {
			f.Fired++
			return nil, ErrInjected
		}
	}
	return f.NodeDB.GetNode(root, ptr)
}

// WriteLogModel applies a write log to a model.
func WriteLogModel(m Model, wl writelog.WriteLog) Model {
	c := m.Clone()
	for _, e := range wl {
		if e.Value == nil {
			delete(c, string(e.Key))
		} else {
			c[string(e.Key)] = e.Value
		}
	}
	return c
}

// TrieDepth returns the number of internal nodes on the longest root-to-leaf path of the
// compressed binary radix trie holding the model's keys (computed from the keys alone).
func TrieDepth(m Model) int {
	keys := make([][]byte, 0, len(m))
	for _, k := range m.SortedKeys() {
		keys = append(keys, []byte(k))
	}
	return trieDepth(keys, 0)
}

// TrieDepthKeys is TrieDepth for a key list.
func TrieDepthKeys(keys [][]byte) int {
	m := Model{}
	for _, k := range keys {
		m[string(k)] = []byte{}
	}
	return TrieDepth(m)
}

func bitAt(k []byte, i int) int {
	return int(k[i/8]>>(7-uint(i%8))) & 1
}

// trieDepth: keys are distinct and all share their first `from` bits.
func trieDepth(keys [][]byte, from int) int {
	if len(keys) <= 1 {
		return 0
	}
	// Keys ending exactly at the current position become the internal node's leaf.
	// Find the first bit position >= from where the keys diverge or one ends.
	pos := from
	for {
		ended := false
		first := -1
		diverge := false
		for _, k := range keys {
			if len(k)*8 <= pos {
				ended = true
				break
			}
			b := bitAt(k, pos)
			if first == -1 {
				first = b
			} else if b != first {
				diverge = true
			}
		}
		if ended || diverge {
			break
		}
		pos++
	}
	var left, right [][]byte
	for _, k := range keys {
		if len(k)*8 <= pos {
			continue // leaf of this internal node
		}
		if bitAt(k, pos) == 0 {
			left = append(left, k)
		} else {
			right = append(right, k)
		}
	}
	d := trieDepth(left, pos+1)
	if r := trieDepth(right, pos+1); r > d {
		d = r
	}
	return 1 + d
}

// PathSlack is the number of cache slots beyond the longest path below which a failure is
// attributed to eviction of the active path (known finding).
const PathSlack = 2

// MaxLeafBytes bounds the cache size of one leaf generated by the store engines
// (node.LeafNodeSize overhead + key <= 72 bytes + value <= 48 bytes).
const MaxLeafBytes = 256

// CapacityBelowPath reports whether a cache capacity cannot hold the active root-to-leaf path
// (depth internal nodes). Only the node capacity counts: a value capacity below the size of the
// leaves on the path (even below one leaf) does not reproduce the finding on the unchanged tree, so
// a failure under a tiny value capacity alone is a violation of its own.
func CapacityBelowPath(nodeCap, valueCap uint64, depth int) bool {
	if nodeCap > 0 && nodeCap < uint64(depth+PathSlack) {
		return true
	}
	_ = valueCap
	return false
}

// GenCapacities draws node/value cache capacities relative to the longest path of the key
// alphabet: mostly capacities that force eviction while holding the active path, some tiny
// ones (below the path), some unlimited.
func GenCapacities(r *core.Rand, keys [][]byte, backend string) (nodeCap, valueCap uint64) {
	if backend == "none" {
		return 0, 0 // without a node database evicted nodes cannot be re-fetched
	}
	d := TrieDepthKeys(keys)
	if r.Chance(1, 10) { // tiny: below the active path (known-finding territory)
		if r.Bool() {
			return uint64(r.Range(1, d+1)), 0
		}
		return 0, uint64(r.Range(1, (d+PathSlack)*MaxLeafBytes-1))
	}
	switch r.Pick([]int{5, 2, 2}) {
	case 0:
		nodeCap = uint64(d + PathSlack + r.Range(0, 4))
	case 1:
		nodeCap = uint64(d + PathSlack + r.Range(4, 60))
	default:
		nodeCap = 0
	}
	switch r.Pick([]int{4, 2, 3}) {
	case 0:
		valueCap = uint64((d+PathSlack)*MaxLeafBytes + r.Range(0, 512))
	case 1:
		valueCap = uint64((d+PathSlack)*MaxLeafBytes + r.Range(512, 8192))
	default:
		valueCap = 0
	}
	return
}
