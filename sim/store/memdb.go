package store

import (
	"context"
	"sync"

	dbapi "github.com/oasisprotocol/oasis-core/go/storage/mkvs/db/api"
	"github.com/oasisprotocol/oasis-core/go/storage/mkvs/node"
	"github.com/oasisprotocol/oasis-core/go/storage/mkvs/writelog"
)

// MemDB is a harness stub of the NodeDB interface: a content-addressed map of serialized
// nodes. It exists so that tree-level runs (cache eviction, lazy loading, reopen) cost
// microseconds; the real badger/pathbadger backends are used by a fraction of tree-level runs
// and by all NodeDB-level runs. Nodes are stored serialized, so a re-fetched node is a fresh
// object exactly as with a real database.
type MemDB struct {
	mu     sync.Mutex
	nodes  map[string][]byte
	roots  map[string]bool
	latest uint64
	have   bool
}

// NewMemDB creates the stub.
func NewMemDB() *MemDB { return &MemDB{nodes: map[string][]byte{}, roots: map[string]bool{}} }

func rootKey(r node.Root) string {
	th := dbapi.TypedHashFromRoot(r)
	return string(th[:])
}

func (d *MemDB) GetNode(root node.Root, ptr *node.Pointer) (node.Node, error) {
	d.mu.Lock()
	defer d.mu.Unlock()
	if !d.roots[rootKey(root)] {
		return nil, dbapi.ErrRootNotFound
	}
	b, ok := d.nodes[string(ptr.Hash[:])]
	if !ok {
		return nil, dbapi.ErrNodeNotFound
	}
	return node.UnmarshalBinary(append([]byte{}, b...))
}

func (d *MemDB) GetWriteLog(context.Context, node.Root, node.Root) (writelog.Iterator, error) {
	return nil, dbapi.ErrWriteLogNotFound
}
func (d *MemDB) GetLatestVersion() (uint64, bool) { return d.latest, d.have }
func (d *MemDB) GetEarliestVersion() uint64       { return 0 }
func (d *MemDB) GetRootsForVersion(uint64) ([]node.Root, error) {
	return nil, nil
}
func (d *MemDB) StartMultipartInsert(uint64) error { return nil }
func (d *MemDB) AbortMultipartInsert() error       { return nil }
func (d *MemDB) HasRoot(root node.Root) bool {
	d.mu.Lock()
	defer d.mu.Unlock()
	return root.Hash.IsEmpty() || d.roots[rootKey(root)]
}
func (d *MemDB) Finalize(roots []node.Root) error {
	if len(roots) > 0 {
		d.latest, d.have = roots[0].Version, true
	}
	return nil
}
func (d *MemDB) Prune(uint64) error   { return nil }
func (d *MemDB) Compact() error       { return nil }
func (d *MemDB) Size() (int64, error) { return 0, nil }
func (d *MemDB) Sync() error          { return nil }
func (d *MemDB) Close()               {}

func (d *MemDB) NewBatch(node.Root, uint64, bool) (dbapi.Batch, error) {
	return &memBatch{db: d, pending: map[string][]byte{}}, nil
}

type memBatch struct {
	dbapi.BaseBatch
	db      *MemDB
	pending map[string][]byte
}

func (b *memBatch) PutNode(ptr *node.Pointer) error {
	data, err := ptr.Node.MarshalBinary()
	if err != nil {
		return err
	}
	h := ptr.Node.GetHash()
	b.pending[string(h[:])] = data
	return nil
}
func (b *memBatch) PutWriteLog(writelog.WriteLog, writelog.Annotations) error { return nil }
func (b *memBatch) RemoveNodes([]*node.Pointer) error                         { return nil }
func (b *memBatch) VisitCleanNode(*node.Pointer, *node.Pointer) error         { return nil }
func (b *memBatch) VisitDirtyNode(*node.Pointer, *node.Pointer) error         { return nil }
func (b *memBatch) Reset()                                                    { b.pending = map[string][]byte{} }
func (b *memBatch) Commit(root node.Root) error {
	b.db.mu.Lock()
	for k, v := range b.pending {
		b.db.nodes[k] = v
	}
	b.db.roots[rootKey(root)] = true
	b.db.mu.Unlock()
	b.pending = map[string][]byte{}
	return b.BaseBatch.Commit(root)
}

// OpenTreeDB opens the NodeDB for a tree-level run: "none" (nil), "memdb" (stub), or a real
// memory-only backend.
func OpenTreeDB(backend string) dbapi.NodeDB {
	switch backend {
	case "none":
		return nil
	case "memdb":
		return NewMemDB()
	default:
		return OpenDB(backend, "")
	}
}

// GenTreeBackend draws the backend of a tree-level run.
func GenTreeBackend(pick func([]int) int) string {
	return []string{"none", "memdb", "badger", "pathbadger"}[pick([]int{4, 9, 2, 1})]
}
