package store

import (
	"bytes"
	"context"
	"encoding/json"
	"errors"
	"fmt"
	"os"
	"sort"

	"github.com/oasisprotocol/oasis-core/go/common/crypto/hash"
	storageapi "github.com/oasisprotocol/oasis-core/go/storage/api"
	"github.com/oasisprotocol/oasis-core/go/storage/database"
	"github.com/oasisprotocol/oasis-core/go/storage/mkvs"
	"github.com/oasisprotocol/oasis-core/go/storage/mkvs/node"
	"github.com/oasisprotocol/oasis-core/go/storage/mkvs/writelog"

	"verif/sim/core"
)

// SyncEngine decides the fault half of C13: a node applying a received (possibly corrupted)
// write log persists the result only if it hashes to the expected root.
type SyncEngine struct{}

// SYKnobs are the knobs of a sync run.
type SYKnobs struct {
	Source   string   `json:"source"`   // source backend
	Receiver string   `json:"receiver"` // receiver backend
	Keys     []string `json:"keys"`
	FromDB   bool     `json:"from_db"` // serve logs from the source database (GetWriteLog) rather than from Commit's return value
}

// SYMut is one write log corruption.
type SYMut struct {
	Kind string `json:"kind"` // drop | dup | value | key | swap | empty | toggle | extra | truncate
	A    int    `json:"a"`
	B    int    `json:"b"`
}

// SYOp is one operation.
type SYOp struct {
	K      string    `json:"k"` // step | sync
	IO     bool      `json:"io,omitempty"`
	Writes []NDWrite `json:"w,omitempty"`
	Muts   []SYMut   `json:"muts,omitempty"`
}

var syMutKinds = []string{"drop", "dup", "value", "key", "swap", "empty", "toggle", "extra", "truncate"}

// Generate implements core.Engine.
func (SyncEngine) Generate(r *core.Rand, tier core.Tier) *core.Scenario {
	be := []string{"badger", "pathbadger"}
	k := SYKnobs{Source: be[r.Intn(2)], Receiver: be[r.Intn(2)], FromDB: r.Chance(2, 3)}
	nk := r.Range(2, 30)
	k.Keys = HexKeys(GenKeys(r, nk, 48))
	nk = len(k.Keys)
	sc := &core.Scenario{Engine: "syncapply", Knobs: core.MustJSON(k)}
	nops := r.Range(4, 30)
	if tier == core.Thorough {
		nops = r.Range(4, 60)
	}
	for i := 0; i < nops; i++ {
		var op SYOp
		if r.Chance(1, 2) {
			op = SYOp{K: "step", IO: r.Chance(1, 4), Writes: genWrites(r, nk, i+1)}
		} else {
			op = SYOp{K: "sync"}
			for j, n := 0, r.Pick([]int{3, 5, 2, 1}); j < n; j++ {
				op.Muts = append(op.Muts, SYMut{Kind: syMutKinds[r.Intn(len(syMutKinds))], A: r.Intn(1 << 16), B: r.Intn(1 << 16)})
			}
		}
		sc.Ops = append(sc.Ops, core.MustJSON(op))
	}
	return sc
}

func syViol(kind, detail string) *core.Violation {
	return &core.Violation{Property: "C13", Kind: kind, Fingerprint: kind, Detail: detail}
}

type syStep struct {
	parent, child node.Root
	before, after Model
	log           writelog.WriteLog // as returned by Commit
	io            bool
}

func cloneLog(wl writelog.WriteLog) writelog.WriteLog {
	out := make(writelog.WriteLog, len(wl))
	for i, e := range wl {
		out[i].Key = append([]byte{}, e.Key...)
		if e.Value != nil {
			out[i].Value = append([]byte{}, e.Value...)
		}
	}
	return out
}

func mutateLog(wl writelog.WriteLog, m SYMut, keys [][]byte) writelog.WriteLog {
	out := cloneLog(wl)
	n := len(out)
	switch m.Kind {
	case "drop":
		if n > 0 {
			i := m.A % n
			out = append(out[:i:i], out[i+1:]...)
		}
	case "dup":
		if n > 0 {
			i := m.A % n
			out = append(out[:i+1:i+1], out[i:]...)
		}
	case "value":
		if n > 0 {
			i := m.A % n
			if out[i].Value != nil {
				if len(out[i].Value) > 0 && m.B%2 == 0 {
					out[i].Value[m.B%len(out[i].Value)] ^= 1 << uint(m.B%8)
				} else {
					out[i].Value = append(out[i].Value, byte(m.B))
				}
			}
		}
	case "key":
		if n > 0 {
			i := m.A % n
			out[i].Key = append([]byte{}, keys[m.B%len(keys)]...)
		}
	case "swap":
		if n > 1 {
			i, j := m.A%n, m.B%n
			out[i], out[j] = out[j], out[i]
		}
	case "empty":
		if n > 0 {
			i := m.A % n
			if out[i].Value != nil {
				out[i].Value = []byte{}
			}
		}
	case "toggle":
		if n > 0 {
			i := m.A % n
			if out[i].Value == nil {
				out[i].Value = []byte{byte(m.B)}
			} else {
				out[i].Value = nil
			}
		}
	case "extra":
		e := writelog.LogEntry{Key: append([]byte{}, keys[m.A%len(keys)]...)}
		if m.B%3 != 0 {
			e.Value = []byte{byte(m.B), byte(m.A)}
		}
		pos := 0
		if n > 0 {
			pos = m.B % (n + 1)
		}
		out = append(out[:pos:pos], append(writelog.WriteLog{e}, out[pos:]...)...)
	case "truncate":
		if n > 0 {
			out = out[:m.A%n]
		}
	}
	return out
}

func logsEqual(a, b writelog.WriteLog) bool {
	if len(a) != len(b) {
		return false
	}
	for i := range a {
		if !bytes.Equal(a[i].Key, b[i].Key) || (a[i].Value == nil) != (b[i].Value == nil) || !bytes.Equal(a[i].Value, b[i].Value) {
			return false
		}
	}
	return true
}

// Execute implements core.Engine.
func (SyncEngine) Execute(sc *core.Scenario, st *core.Stats) (*core.Violation, bool) {
	var k SYKnobs
	if err := json.Unmarshal(sc.Knobs, &k); err != nil {
		core.Harnessf("syncapply: bad knobs: %v", err)
	}
	keys := UnhexKeys(k.Keys)
	ctx := context.Background()
	srcDir := ScratchDir("syncsrc")
	defer os.RemoveAll(srcDir)
	src := OpenDB(k.Source, srcDir)
	defer src.Close()
	rcvDir := ScratchDir("syncrcv")
	defer os.RemoveAll(rcvDir)
	rcv, err := database.New(&storageapi.Config{Backend: k.Receiver, DB: rcvDir, Namespace: Namespace, MaxCacheSize: 16 << 20, NoFsync: true})
	if err != nil {
		core.Harnessf("syncapply: cannot create receiver backend: %v", err)
	}
	defer rcv.Cleanup()

	var steps []*syStep // source history; steps[i] belongs to version versions[i]
	var stepVersion []uint64
	version := uint64(0)
	stateRoot := node.Root{Namespace: Namespace, Version: 0, Type: node.RootTypeState}
	stateRoot.Hash.Empty()
	stateContents := Model{}
	synced := 0 // number of steps applied on the receiver
	rcvFinalized := uint64(0)
	haveRcvFinal := false
	effective, honestApplied := 0, 0

	finalizeRcv := func(upTo int) *core.Violation {
		// Finalize on the receiver every version whose steps have all been applied.
		for {
			v := rcvFinalized + 1
			if !haveRcvFinal {
				v = 1
			}
			var roots []node.Root
			all := true
			found := false
			for i, s := range steps {
				if stepVersion[i] != v {
					continue
				}
				found = true
				if i >= upTo {
					all = false
				}
				roots = append(roots, s.child)
			}
			if !found || !all || v > version-0 {
				return nil
			}
			// Only finalize versions that are complete on the source as well (version < current).
			if v >= version+1 {
				return nil
			}
			if err := rcv.NodeDB().Finalize(roots); err != nil {
				return syViol("receiver-finalize-error", fmt.Sprintf("receiver Finalize(version %d) failed after successful applies: %v", v, err))
			}
			rcvFinalized, haveRcvFinal = v, true
		}
	}

	for stepIdx, raw := range sc.Ops {
		var op SYOp
		if err := json.Unmarshal(raw, &op); err != nil {
			core.Harnessf("syncapply: bad op: %v", err)
		}
		var v *core.Violation
		pv, stack := core.Guard(func() {
			switch op.K {
			case "step":
				// A version consists of one state root (derived from the previous one) and
				// optionally an I/O root (from empty). A state step closes the version.
				var parent node.Root
				var before Model
				if op.IO {
					parent = node.Root{Namespace: Namespace, Version: version + 1, Type: node.RootTypeIO}
					parent.Hash.Empty()
					before = Model{}
					// at most one I/O root per version
					for i := range steps {
						if stepVersion[i] == version+1 && steps[i].io {
							return
						}
					}
				} else {
					parent, before = stateRoot, stateContents
				}
				t := mkvs.NewWithRoot(nil, src, parent)
				if parent.Hash.IsEmpty() {
					t.Close()
					t = mkvs.New(nil, src, parent.Type)
				}
				defer t.Close()
				after := before.Clone()
				for _, w := range op.Writes {
					key := keys[w.Key%len(keys)]
					if w.Rm {
						_ = t.Remove(ctx, key)
						delete(after, string(key))
					} else {
						val := Value(w.ID, w.Len)
						_ = t.Insert(ctx, key, val)
						after[string(key)] = val
					}
				}
				wl, h, err := t.Commit(ctx, Namespace, version+1)
				if err != nil {
					v = syViol("source-commit-error", fmt.Sprintf("step %d: source commit failed: %v", stepIdx, err))
					return
				}
				child := node.Root{Namespace: Namespace, Version: version + 1, Type: parent.Type, Hash: h}
				s := &syStep{parent: parent, child: child, before: before, after: after, log: cloneLog(wl), io: op.IO}
				steps = append(steps, s)
				stepVersion = append(stepVersion, version+1)
				st.Event("step v=%d io=%v root=%s n=%d", version+1, op.IO, h, len(wl))
				if !op.IO {
					// Close the version on the source.
					var roots []node.Root
					for i := range steps {
						if stepVersion[i] == version+1 {
							roots = append(roots, steps[i].child)
						}
					}
					if err := src.Finalize(roots); err != nil {
						v = syViol("source-finalize-error", fmt.Sprintf("step %d: source finalize failed: %v", stepIdx, err))
						return
					}
					version++
					stateRoot, stateContents = child, after
				}
			case "sync":
				if synced >= len(steps) {
					return
				}
				s := steps[synced]
				// Only sync steps of versions already closed on the source.
				if stepVersion[synced] > version {
					return
				}
				var served writelog.WriteLog
				if k.FromDB {
					it, err := src.GetWriteLog(ctx, s.parent, s.child)
					if err != nil && s.parent.Hash == s.child.Hash {
						// Unchanged root: no log is stored, the receiver applies an empty one.
						st.Inc("probe.writelog_not_served_for_unchanged_root")
						it, err = writelog.NewStaticIterator(nil), nil
					}
					if err != nil {
						// The source cannot serve this log (not a wrong log): fall back to the log
						// returned by the commit.
						st.Inc("probe.writelog_not_served_error")
						it = writelog.NewStaticIterator(cloneLog(s.log))
					}
					for {
						more, err := it.Next()
						if err != nil || !more {
							break
						}
						e, _ := it.Value()
						le := writelog.LogEntry{Key: append([]byte{}, e.Key...)}
						if e.Value != nil {
							le.Value = append([]byte{}, e.Value...)
						}
						served = append(served, le)
					}
				} else {
					served = cloneLog(s.log)
				}
				// The order of entries inside a served log is unspecified (it follows Go map
				// iteration in the committer); bring it into key order so that the corruption
				// operators are a pure function of the scenario.
				sort.SliceStable(served, func(i, j int) bool { return bytes.Compare(served[i].Key, served[j].Key) < 0 })
				corrupted := served
				for _, m := range op.Muts {
					corrupted = mutateLog(corrupted, m, keys)
				}
				changed := !logsEqual(corrupted, served)
				if changed {
					effective++
					for _, m := range op.Muts {
						st.Inc("fault.writelog_" + m.Kind)
					}
				}
				expect := WriteLogModel(s.before, corrupted)
				shouldSucceed := expect.Equal(s.after)
				req := &storageapi.ApplyRequest{Namespace: Namespace, RootType: s.child.Type, SrcRound: s.parent.Version, SrcRoot: s.parent.Hash, DstRound: s.child.Version, DstRoot: s.child.Hash, WriteLog: corrupted}
				hadBefore := rcv.NodeDB().HasRoot(s.child)
				err := rcv.Apply(ctx, req)
				st.Event("sync step=%d changed=%v shouldSucceed=%v err=%v", synced, changed, shouldSucceed, err != nil)
				switch {
				case shouldSucceed && err != nil:
					v = syViol("apply-rejected-correct-log", fmt.Sprintf("step %d: Apply of a write log (%d entries, corrupted=%v) whose effect on the first root's contents is exactly the expected second root was rejected: %v", stepIdx, len(corrupted), changed, err))
					return
				case !shouldSucceed && err == nil && !hadBefore && !s.child.Hash.IsEmpty():
					v = syViol("apply-accepted-wrong-log", fmt.Sprintf("step %d: Apply accepted a corrupted write log (%v) that does not lead to the expected root %s", stepIdx, op.Muts, s.child.Hash))
					return
				case !shouldSucceed && err != nil:
					st.Inc("probe.corrupt_log_rejected")
					if !errors.Is(err, storageapi.ErrExpectedRootMismatch) {
						st.Inc("probe.corrupt_log_rejected_other_error")
					}
					if !hadBefore && !s.child.Hash.IsEmpty() && rcv.NodeDB().HasRoot(s.child) {
						v = syViol("root-appeared-after-failed-apply", fmt.Sprintf("step %d: Apply failed (%v) but the expected root %s now exists in the receiver's database", stepIdx, err, s.child.Hash))
						return
					}
					// The retry with the honest log must succeed.
					req.WriteLog = served
					if err := rcv.Apply(ctx, req); err != nil {
						v = syViol("apply-rejected-correct-log", fmt.Sprintf("step %d: after a rejected corrupted log, Apply of the honest log failed: %v", stepIdx, err))
						return
					}
				default:
					if changed {
						st.Inc("probe.corrupt_log_neutral_accepted")
					}
				}
				honestApplied++
				// The receiver now holds exactly the second root's contents.
				if !s.child.Hash.IsEmpty() {
					if !rcv.NodeDB().HasRoot(s.child) {
						v = syViol("root-missing-after-apply", fmt.Sprintf("step %d: Apply succeeded but HasRoot(%s) is false on the receiver", stepIdx, s.child.Hash))
						return
					}
					t := mkvs.NewWithRoot(nil, rcv.NodeDB(), s.child)
					err := CompareDump(ctx, t, s.after)
					t.Close()
					if err != nil {
						v = syViol("receiver-contents-wrong", fmt.Sprintf("step %d: after Apply the receiver's tree at %s: %v", stepIdx, s.child.Hash, err))
						return
					}
				}
				synced++
				v = finalizeRcv(synced)
			default:
				core.Harnessf("syncapply: unknown op %q", op.K)
			}
		})
		if pv != nil {
			return syViol("panic", fmt.Sprintf("step %d (%s): panic: %v\n%s", stepIdx, op.K, pv, stack)), true
		}
		if v != nil {
			return v, true
		}
	}
	var zero hash.Hash
	_ = zero
	st.Sample(2, map[string]interface{}{"source": k.Source, "receiver": k.Receiver, "from_db": k.FromDB, "ops": firstN(sc.Ops, 4)})
	return nil, honestApplied >= 1 && effective >= 1
}
