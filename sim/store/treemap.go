package store

import (
	"bytes"
	"context"
	"encoding/json"
	"errors"
	"fmt"
	"os"
	"sort"

	"github.com/oasisprotocol/oasis-core/go/storage/mkvs"
	dbapi "github.com/oasisprotocol/oasis-core/go/storage/mkvs/db/api"
	"github.com/oasisprotocol/oasis-core/go/storage/mkvs/node"

	"verif/sim/core"
)

// TreeMapEngine decides C03: a tree plus a stack of overlays against an ordered-map model.
type TreeMapEngine struct {
	// Faults enables injected GetNode errors (separate batch so that the relaxation cannot
	// mask ordinary bugs).
	Faults bool
}

// TMKnobs are the knobs of a tree-map run.
type TMKnobs struct {
	Backend  string   `json:"backend"` // none | badger | pathbadger
	NodeCap  uint64   `json:"node_cap"`
	ValueCap uint64   `json:"value_cap"`
	Keys     []string `json:"keys"`
	RootType uint8    `json:"root_type"`
}

// TMOp is one symbolic operation.
type TMOp struct {
	K    string `json:"k"`
	Key  int    `json:"key,omitempty"`
	Len  int    `json:"len,omitempty"`
	ID   int    `json:"id,omitempty"`
	H    int    `json:"h,omitempty"`
	N    int    `json:"n,omitempty"`
	Seek int    `json:"seek,omitempty"`
	Keep bool   `json:"keep,omitempty"`
}

// Generate implements core.Engine.
func (e TreeMapEngine) Generate(r *core.Rand, tier core.Tier) *core.Scenario {
	k := TMKnobs{RootType: uint8(node.RootTypeState)}
	k.Backend = GenTreeBackend(r.Pick)
	if e.Faults && k.Backend == "none" {
		k.Backend = "memdb"
	}
	nk := r.Range(2, 24)
	if r.Chance(1, 5) || (e.Faults && r.Chance(2, 3)) {
		nk = r.Range(24, 80)
	}
	gk := GenKeys(r, nk, 64)
	k.Keys = HexKeys(gk)
	nk = len(k.Keys)
	k.NodeCap, k.ValueCap = GenCapacities(r, gk, k.Backend)
	nops := r.Range(5, 60)
	if tier == core.Thorough {
		nops = r.Range(5, 150)
	}
	w := []int{r.Range(4, 12), r.Range(1, 6), r.Range(1, 5), r.Range(2, 8), r.Range(1, 5), r.Range(0, 3), r.Range(0, 3), r.Range(0, 2), r.Range(0, 2), r.Range(0, 3), r.Range(0, 2), 0}
	if e.Faults {
		w[11] = r.Range(2, 6)
		w[9] += 2  // commits, so that clean nodes exist to be evicted
		w[10] += 2 // reopens, so that nodes must be fetched lazily
	}
	sc := &core.Scenario{Engine: "treemap", Knobs: core.MustJSON(k)}
	vlen := func() int {
		switch r.Intn(5) {
		case 0:
			return 0
		case 1:
			return 1
		default:
			return r.Range(1, 40)
		}
	}
	for i := 0; i < nops; i++ {
		var op TMOp
		switch r.Pick(w) {
		case 0:
			op = TMOp{K: "ins", Key: r.Intn(nk), Len: vlen(), ID: i + 1}
		case 1:
			op = TMOp{K: "rm", Key: r.Intn(nk)}
		case 2:
			op = TMOp{K: "rmx", Key: r.Intn(nk)}
		case 3:
			op = TMOp{K: "get", Key: r.Intn(nk), H: r.Intn(4)}
		case 4:
			op = TMOp{K: "iter", Seek: r.Range(-1, nk-1), N: r.Range(1, 12), H: r.Intn(4)}
			if r.Chance(1, 4) {
				op.N = 1000
			}
		case 5:
			op = TMOp{K: "push"}
		case 6:
			op = TMOp{K: "popc"}
		case 7:
			op = TMOp{K: "popx"}
		case 8:
			op = TMOp{K: "copy", Keep: r.Bool()}
		case 9:
			op = TMOp{K: "commit"}
		case 10:
			op = TMOp{K: "reopen"}
		case 11:
			op = TMOp{K: "fault", N: r.Range(1, 6)}
		}
		sc.Ops = append(sc.Ops, core.MustJSON(op))
	}
	return sc
}

type tmLayer map[string][]byte // nil value = tombstone (key removed in this layer)

type tmState struct {
	base    Model
	layers  []tmLayer
	handles []mkvs.OverlayTree
}

func (s *tmState) read(level int, key string) ([]byte, bool) {
	for l := level; l >= 1; l-- {
		if v, ok := s.layers[l-1][key]; ok {
			if v == nil {
				return nil, false
			}
			return v, true
		}
	}
	v, ok := s.base[key]
	return v, ok
}

func (s *tmState) view(level int) Model {
	m := s.base.Clone()
	for l := 1; l <= level; l++ {
		for k, v := range s.layers[l-1] {
			if v == nil {
				delete(m, k)
			} else {
				m[k] = v
			}
		}
	}
	return m
}

func tmViol(kind, detail string) *core.Violation {
	return &core.Violation{Property: "C03", Kind: kind, Fingerprint: kind, Detail: detail}
}

// Execute implements core.Engine.
func (e TreeMapEngine) Execute(sc *core.Scenario, st *core.Stats) (*core.Violation, bool) {
	var k TMKnobs
	if err := json.Unmarshal(sc.Knobs, &k); err != nil {
		core.Harnessf("treemap: bad knobs: %v", err)
	}
	v, nt, maxDepth := e.execute(sc, k, st)
	if v != nil && CapacityBelowPath(k.NodeCap, k.ValueCap, maxDepth) {
		// Differential classification: does the same scenario pass with an unlimited cache?
		k2 := k
		k2.NodeCap, k2.ValueCap = 0, 0
		if v2, _, _ := e.execute(sc, k2, core.NewStats()); v2 == nil {
			v = &core.Violation{Property: "C03", Kind: "active-path-eviction", Fingerprint: "active-path-eviction cache-capacity-below-active-path",
				Detail: fmt.Sprintf("cache capacity (nodes=%d, value bytes=%d) is below what the longest root-to-leaf path needs (%d internal nodes); the same scenario passes with an unlimited cache. Original violation: [%s] %s", k.NodeCap, k.ValueCap, maxDepth, v.Kind, v.Detail)}
		}
	}
	return v, nt
}

func (e TreeMapEngine) execute(sc *core.Scenario, k TMKnobs, st *core.Stats) (*core.Violation, bool, int) {
	maxDepth := 0
	keys := UnhexKeys(k.Keys)
	ctx := context.Background()
	var ndb dbapi.NodeDB
	var faulty *FaultyNodeDB
	if k.Backend != "none" {
		real := OpenTreeDB(k.Backend)
		defer real.Close()
		faulty = &FaultyNodeDB{NodeDB: real}
		ndb = faulty
	}
	rootType := node.RootType(k.RootType)
	var opts []mkvs.Option
	if k.NodeCap > 0 || k.ValueCap > 0 {
		opts = append(opts, mkvs.Capacity(k.NodeCap, k.ValueCap))
	}
	tree := mkvs.New(nil, ndb, rootType, opts...)
	defer func() { tree.Close() }()
	s := &tmState{base: Model{}}
	var committed Model
	var committedRoot node.Root
	haveRoot := false
	version := uint64(0)
	kinds := map[string]bool{}
	armed := false

	top := func() mkvs.KeyValueTree {
		if len(s.handles) > 0 {
			return s.handles[len(s.handles)-1]
		}
		return tree
	}
	handleAt := func(level int) mkvs.KeyValueTree {
		if level == 0 {
			return tree
		}
		return s.handles[level-1]
	}
	write := func(key string, v []byte) {
		if d := len(s.layers); d > 0 {
			s.layers[d-1][key] = v
		} else if v == nil {
			delete(s.base, key)
		} else {
			s.base[key] = v
		}
	}
	// recover after a failed mutating operation under an injected fault: reopen at the last
	// committed root (the consensus layer treats such errors as fatal).
	reopen := func() *core.Violation {
		for i := len(s.handles) - 1; i >= 0; i-- {
			s.handles[i].Close()
		}
		s.handles, s.layers = nil, nil
		tree.Close()
		if haveRoot {
			tree = mkvs.NewWithRoot(nil, ndb, committedRoot, opts...)
			s.base = committed.Clone()
		} else {
			tree = mkvs.New(nil, ndb, rootType, opts...)
			s.base = Model{}
		}
		// No full read-back here: it would warm the cache; later operations read lazily and the
		// final read-back checks everything.
		return nil
	}

	for step, raw := range sc.Ops {
		var op TMOp
		if err := json.Unmarshal(raw, &op); err != nil {
			core.Harnessf("treemap: bad op: %v", err)
		}
		kinds[op.K] = true
		var v *core.Violation
		depth := len(s.handles)
		pv, stack := core.Guard(func() {
			// faultable runs f; under an armed fault an ErrInjected failure is legitimate.
			switch op.K {
			case "fault":
				if faulty != nil {
					faulty.Arm(op.N)
					armed = true
				}
				return
			case "ins", "rm", "rmx":
				key := keys[op.Key%len(keys)]
				var err error
				var prev []byte
				switch op.K {
				case "ins":
					err = top().Insert(ctx, key, Value(op.ID, op.Len))
				case "rm":
					err = top().Remove(ctx, key)
				case "rmx":
					prev, err = top().RemoveExisting(ctx, key)
				}
				st.Event("%s key=%x depth=%d err=%v", op.K, key, depth, err != nil)
				if err != nil {
					if armed && errors.Is(err, ErrInjected) {
						st.Inc("fault.read_error_in_write")
						faulty.Disarm()
						armed = false
						v = reopen()
						return
					}
					v = tmViol("op-error", fmt.Sprintf("step %d: %s of key %x failed without an injected fault: %v", step, op.K, key, err))
					return
				}
				if op.K == "rmx" {
					want, ok := s.read(depth, string(key))
					if (prev != nil) != ok || !bytes.Equal(prev, want) {
						v = tmViol("rmx-mismatch", fmt.Sprintf("step %d: RemoveExisting(%x) returned %x (present=%v), the ordered-map model holds %x (present=%v)", step, key, prev, prev != nil, want, ok))
						return
					}
					if ok && len(want) == 0 {
						st.Inc("probe.empty_value_seen")
					}
				}
				if op.K == "ins" {
					write(string(key), Value(op.ID, op.Len))
				} else {
					write(string(key), nil)
				}
			case "get":
				level := op.H % (depth + 1)
				key := keys[op.Key%len(keys)]
				got, err := handleAt(level).Get(ctx, key)
				st.Event("get key=%x level=%d err=%v", key, level, err != nil)
				if err != nil {
					if armed && errors.Is(err, ErrInjected) {
						st.Inc("fault.read_error_in_get")
						faulty.Disarm()
						armed = false
						got, err = handleAt(level).Get(ctx, key) // the retry must answer exactly as the model
						if err != nil {
							v = tmViol("retry-error", fmt.Sprintf("step %d: retry of Get(%x) after an injected error failed: %v", step, key, err))
							return
						}
					} else {
						v = tmViol("op-error", fmt.Sprintf("step %d: Get(%x) failed without an injected fault: %v", step, key, err))
						return
					}
				}
				want, ok := s.read(level, string(key))
				if (got != nil) != ok || !bytes.Equal(got, want) {
					v = tmViol("get-mismatch", fmt.Sprintf("step %d: Get(%x) at overlay level %d/%d returned %x (present=%v), the ordered-map model holds %x (present=%v)", step, key, level, depth, got, got != nil, want, ok))
				}
			case "iter":
				level := op.H % (depth + 1)
				view := s.view(level)
				sorted := view.SortedKeys()
				var seek []byte
				pos := 0
				if op.Seek >= 0 {
					seek = keys[op.Seek%len(keys)]
					pos = sort.SearchStrings(sorted, string(seek))
				}
				run := func() (err error, mism string) {
					it := handleAt(level).NewIterator(ctx)
					defer it.Close()
					if op.Seek >= 0 {
						it.Seek(seek)
					} else {
						it.Rewind()
					}
					p := pos
					for i := 0; i < op.N; i++ {
						if it.Err() != nil {
							return it.Err(), ""
						}
						if p >= len(sorted) {
							if it.Valid() {
								return nil, fmt.Sprintf("iterator still valid at key %x after the last model key", []byte(it.Key()))
							}
							return nil, ""
						}
						if !it.Valid() {
							if it.Err() != nil {
								return it.Err(), ""
							}
							return nil, fmt.Sprintf("iterator ended before model key %x (position %d of %d)", sorted[p], p, len(sorted))
						}
						if string(it.Key()) != sorted[p] || !bytes.Equal(it.Value(), view[sorted[p]]) {
							return nil, fmt.Sprintf("iterator yielded (%x, %x), the model's next live key is (%x, %x)", []byte(it.Key()), it.Value(), sorted[p], view[sorted[p]])
						}
						p++
						it.Next()
					}
					return it.Err(), ""
				}
				err, mism := run()
				st.Event("iter seek=%x level=%d n=%d err=%v", seek, level, op.N, err != nil)
				if err != nil {
					if armed && errors.Is(err, ErrInjected) {
						st.Inc("fault.read_error_in_iter")
						faulty.Disarm()
						armed = false
						err, mism = run()
						if err != nil {
							v = tmViol("retry-error", fmt.Sprintf("step %d: retry of iteration after an injected error failed: %v", step, err))
							return
						}
					} else {
						v = tmViol("op-error", fmt.Sprintf("step %d: iteration failed without an injected fault: %v", step, err))
						return
					}
				}
				if mism != "" {
					v = tmViol("iter-mismatch", fmt.Sprintf("step %d: Seek(%x)/Rewind at overlay level %d/%d: %s", step, seek, level, depth, mism))
				}
			case "push":
				if depth >= 3 {
					return
				}
				s.handles = append(s.handles, mkvs.NewOverlay(top()))
				s.layers = append(s.layers, tmLayer{})
				st.Event("push depth=%d", depth+1)
			case "popc":
				if depth == 0 {
					return
				}
				o := s.handles[depth-1]
				if _, err := o.Commit(ctx); err != nil {
					if armed && errors.Is(err, ErrInjected) {
						st.Inc("fault.read_error_in_overlay_commit")
						faulty.Disarm()
						armed = false
						v = reopen()
						return
					}
					v = tmViol("op-error", fmt.Sprintf("step %d: overlay commit failed without an injected fault: %v", step, err))
					return
				}
				o.Close()
				layer := s.layers[depth-1]
				s.handles, s.layers = s.handles[:depth-1], s.layers[:depth-1]
				lk := make([]string, 0, len(layer))
				for key := range layer {
					lk = append(lk, key)
				}
				sort.Strings(lk)
				for _, key := range lk {
					write(key, layer[key])
				}
				st.Inc("probe.overlay_commit")
				st.Event("popc depth=%d n=%d", depth, len(lk))
			case "popx":
				if depth == 0 {
					return
				}
				s.handles[depth-1].Close()
				s.handles, s.layers = s.handles[:depth-1], s.layers[:depth-1]
				st.Inc("probe.overlay_discard")
				st.Event("popx depth=%d", depth)
			case "copy":
				if depth == 0 {
					return
				}
				orig := s.handles[depth-1]
				cp := orig.Copy(nil)
				if op.Keep {
					cp.Close() // keep working on the original
				} else {
					orig.Close()
					s.handles[depth-1] = cp
				}
				st.Inc("probe.overlay_copy")
				st.Event("copy keep=%v", op.Keep)
			case "commit":
				version++
				_, h, err := tree.Commit(ctx, Namespace, version)
				if err != nil {
					if armed && errors.Is(err, ErrInjected) {
						st.Inc("fault.read_error_in_commit")
						faulty.Disarm()
						armed = false
						v = reopen()
						return
					}
					v = tmViol("op-error", fmt.Sprintf("step %d: tree commit failed without an injected fault: %v", step, err))
					return
				}
				root := node.Root{Namespace: Namespace, Version: version, Type: rootType, Hash: h}
				if ndb != nil {
					if err := ndb.Finalize([]node.Root{root}); err != nil {
						v = tmViol("op-error", fmt.Sprintf("step %d: finalize failed: %v", step, err))
						return
					}
				}
				committed, committedRoot, haveRoot = s.base.Clone(), root, true
				st.Inc("probe.tree_commit")
				st.Event("commit v=%d root=%s", version, h)
				if want := CanonicalRoot(ctx, s.base, rootType); want != h {
					v = tmViol("root-mismatch", fmt.Sprintf("step %d: committed root %s differs from the canonical root %s of the same contents", step, h, want))
				}
			case "reopen":
				if ndb == nil || !haveRoot {
					return
				}
				if faulty != nil && faulty.Disarm() {
					armed = false
				}
				st.Inc("probe.reopen")
				st.Event("reopen")
				v = reopen()
			default:
				core.Harnessf("treemap: unknown op %q", op.K)
			}
			// An armed fault that did not fire during this operation (cache hits) stays armed for
			// the following operations; it is cleared before harness read-back.
		})
		if pv != nil {
			return tmViol("panic", fmt.Sprintf("step %d (%s): panic: %v\n%s", step, op.K, pv, stack)), true, maxDepth
		}
		if d := TrieDepth(s.base); d > maxDepth {
			maxDepth = d
		}
		if os.Getenv("VERIF_DEBUG") != "" {
			fmt.Fprintf(os.Stderr, "--- after step %d %s\n", step, string(raw))
			tree.DumpLocal(ctx, os.Stderr, 12)
			fmt.Fprintln(os.Stderr)
		}
		if v != nil {
			return v, true, maxDepth
		}
	}
	// Final read-back of every level.
	if faulty != nil {
		faulty.Disarm()
	}
	var v *core.Violation
	pv, stack := core.Guard(func() {
		for level := 0; level <= len(s.handles); level++ {
			if err := CompareDump(ctx, handleAt(level), s.view(level)); err != nil {
				v = tmViol("dump-mismatch", fmt.Sprintf("final read-back at overlay level %d/%d: %v", level, len(s.handles), err))
				return
			}
		}
	})
	if pv != nil {
		return tmViol("panic", fmt.Sprintf("final read-back: panic: %v\n%s", pv, stack)), true, maxDepth
	}
	for i := len(s.handles) - 1; i >= 0; i-- {
		s.handles[i].Close()
	}
	if faulty != nil {
		st.Add("probe.db_get_node_calls", int64(faulty.Gets))
		st.Add("fault.get_node_error_fired", int64(faulty.Fired))
	}
	st.Distinct("final_contents", s.view(len(s.layers)).Digest())
	st.Sample(2, map[string]interface{}{"knobs": k, "ops": sc.Ops})
	nt := len(kinds) >= 4 && (kinds["ins"]) && (kinds["get"] || kinds["iter"])
	if e.Faults {
		nt = nt && faulty != nil && faulty.Fired > 0
	}
	return v, nt, maxDepth
}
