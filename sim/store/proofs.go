package store

import (
	"bytes"
	"context"
	"encoding/hex"
	"encoding/json"
	"fmt"
	"sort"
	"strings"

	"github.com/oasisprotocol/oasis-core/go/common/crypto/hash"
	"github.com/oasisprotocol/oasis-core/go/storage/mkvs"
	"github.com/oasisprotocol/oasis-core/go/storage/mkvs/node"
	"github.com/oasisprotocol/oasis-core/go/storage/mkvs/syncer"

	"verif/sim/core"
)

// ProofEngine decides C04: honest proofs are complete; a reader holding only a trusted root and
// reading through a Byzantine peer obtains the true answer or an error.
type ProofEngine struct{}

// PFKnobs are the knobs of a run.
type PFKnobs struct {
	Keys     []string   `json:"keys"`
	Contents []RHTarget `json:"contents"`
	Other    []RHTarget `json:"other"` // contents of a second tree (splice source)
	NodeCap  uint64     `json:"node_cap"`
	ValueCap uint64     `json:"value_cap"`
}

// Mut is one mutation operator application.
type Mut struct {
	Call int    `json:"call"` // which remote call of the operation (0-based) is mutated
	Kind string `json:"kind"`
	A    int    `json:"a,omitempty"`
	B    int    `json:"b,omitempty"`
}

// PFOp is one operation.
type PFOp struct {
	K        string `json:"k"` // get | vget | cget | citer | cprefix | newclient
	Key      int    `json:"key,omitempty"`
	Derive   int    `json:"derive,omitempty"` // 0 as is, 1 proper prefix, 2 extension, 3 last-bit flip, 4 byte appended 0x00
	Ver      uint16 `json:"ver,omitempty"`
	Siblings bool   `json:"sib,omitempty"`
	N        int    `json:"n,omitempty"`
	Prefetch uint16 `json:"prefetch,omitempty"`
	Muts     []Mut  `json:"muts,omitempty"`
	// Prefixes (hex) of a pget operation, in request order (nested prefixes in either order,
	// duplicates, prefixes without keys).
	Prefixes []string `json:"prefixes,omitempty"`
}

var mutKinds = []string{"flipbit", "drop", "dup", "swap", "tohash", "nil", "truncate", "extend", "root", "version", "otherkey", "othertree", "replay", "empty", "cutentry", "growentry", "leafvalue", "dropleaf", "fullenc", "fullenc", "fullenc", "inlineleaf", "inlineleaf"}

// (appended later: drawn by the generator through a PRNG of its own so that earlier scenarios keep their operators)
var mutKindsLate = []string{"emptytree"}

func genMuts(r *core.Rand, maxCalls int) []Mut {
	n := r.Pick([]int{0, 5, 2, 1})
	var ms []Mut
	for i := 0; i < n; i++ {
		ms = append(ms, Mut{Call: r.Intn(maxCalls), Kind: mutKinds[r.Intn(len(mutKinds))], A: r.Intn(1 << 16), B: r.Intn(1 << 16)})
	}
	return ms
}

// Generate implements core.Engine.
func (ProofEngine) Generate(r *core.Rand, tier core.Tier) *core.Scenario {
	nk := r.Range(1, 40)
	if r.Chance(1, 6) {
		nk = r.Range(40, 200)
	}
	keys := GenKeys(r, nk, 64)
	nk = len(keys)
	k := PFKnobs{Keys: HexKeys(keys)}
	vlen := func() int {
		switch r.Intn(5) {
		case 0:
			return 0
		case 1:
			return 1
		default:
			return r.Range(1, 40)
		}
	}
	for i := 0; i < nk; i++ {
		if r.Chance(3, 5) {
			k.Contents = append(k.Contents, RHTarget{Key: i, Len: vlen(), ID: i + 1})
		}
		if r.Chance(1, 2) {
			k.Other = append(k.Other, RHTarget{Key: i, Len: vlen(), ID: 5000 + i + r.Intn(2)*(-4999)})
		}
	}
	if r.Chance(1, 25) {
		k.Contents = nil // empty tree
	}
	// Client cache: unlimited or comfortably above the active path (tiny capacities are the
	// territory of a known finding and are exercised by C02/C03).
	if r.Bool() {
		d := TrieDepthKeys(keys)
		k.NodeCap = uint64(d + PathSlack + r.Range(0, 6))
		k.ValueCap = uint64((d+PathSlack)*MaxLeafBytes + r.Range(0, 1024))
	}
	nops := r.Range(3, 40)
	if tier == core.Thorough {
		nops = r.Range(3, 100)
	}
	sc := &core.Scenario{Engine: "proofs", Knobs: core.MustJSON(k)}
	w := []int{3, 4, 8, 4, 1, 1}
	for i := 0; i < nops; i++ {
		op := PFOp{Key: r.Intn(nk), Derive: r.Pick([]int{6, 1, 1, 1, 1}), Ver: uint16(r.Intn(2)), Siblings: r.Bool()}
		switch r.Pick(w) {
		case 0:
			op.K = "get"
		case 1:
			op.K = "vget"
			op.Muts = genMuts(r, 1)
			if len(op.Muts) == 0 {
				op.Muts = []Mut{{Kind: mutKinds[r.Intn(len(mutKinds))], A: r.Intn(1 << 16), B: r.Intn(1 << 16)}}
			}
		case 2:
			op.K = "cget"
			op.Muts = genMuts(r, 3)
		case 3:
			op.K = "citer"
			op.N = r.Range(1, 20)
			op.Prefetch = uint16(r.Pick([]int{3, 1, 1, 1}) * r.Range(0, 10))
			op.Muts = genMuts(r, 4)
		case 4:
			op.K = "cprefix"
			op.N = r.Range(1, 3)
			op.Prefetch = uint16(r.Range(0, 12))
			op.Muts = genMuts(r, 1)
		case 5:
			op.K = "newclient"
		}
		sc.Ops = append(sc.Ops, core.MustJSON(op))
	}
	// Completeness of honest prefix-fetch and iteration proofs (own PRNG, operations appended at
	// drawn positions: the other operations of the scenario are unchanged).
	xr := core.NewRand(core.Hash64([]byte(strings.Join(k.Keys, ","))) ^ 0x9e7)
	for i, n := 0, xr.Range(0, 1+nops/5); i < n; i++ {
		op := PFOp{K: "iget", Key: xr.Intn(nk), Derive: xr.Pick([]int{6, 1, 1, 1, 1}), Ver: uint16(xr.Intn(2)), Prefetch: uint16(xr.Pick([]int{3, 1, 1}) * xr.Range(0, 8))}
		if xr.Bool() {
			op.K = "pget"
			op.Prefetch = uint16(xr.Pick([]int{1, 3, 2}) * xr.Range(0, 12))
			base := keys[xr.Intn(nk)]
			for j, m := 0, xr.Range(1, 4); j < m; j++ {
				src := base
				if xr.Chance(1, 3) {
					src = keys[xr.Intn(nk)]
				}
				op.Prefixes = append(op.Prefixes, hex.EncodeToString(src[:xr.Range(0, len(src))]))
			}
		}
		if xr.Chance(1, 4) {
			// A mutated proof verified directly / a client read through a lying peer, with one of
			// the operators added after the main generator was fixed.
			op = PFOp{K: []string{"vget", "cget"}[xr.Intn(2)], Key: xr.Intn(nk), Derive: xr.Pick([]int{6, 1, 1, 1, 1}), Ver: uint16(xr.Intn(2)), Siblings: xr.Bool(),
				Muts: []Mut{{Kind: mutKindsLate[xr.Intn(len(mutKindsLate))], A: xr.Intn(1 << 16), B: xr.Intn(1 << 16)}}}
		}
		pos := xr.Intn(len(sc.Ops) + 1)
		sc.Ops = append(sc.Ops, nil)
		copy(sc.Ops[pos+1:], sc.Ops[pos:])
		sc.Ops[pos] = core.MustJSON(op)
	}
	return sc
}

func pfViol(kind, detail string) *core.Violation {
	return &core.Violation{Property: "C04", Kind: kind, Fingerprint: kind, Detail: detail}
}

// byzSyncer applies scheduled mutations to the honest server's responses.
type byzSyncer struct {
	honest, other syncer.ReadSyncer
	otherRoot     node.Root
	keys          [][]byte
	muts          []Mut
	call          int
	history       []*syncer.ProofResponse
	st            *core.Stats
	mutated       int // responses actually changed during the current operation
}

func (b *byzSyncer) begin(muts []Mut) { b.muts, b.call, b.mutated = muts, 0, 0 }

func cloneResp(r *syncer.ProofResponse) *syncer.ProofResponse {
	c := &syncer.ProofResponse{Proof: syncer.Proof{V: r.Proof.V, UntrustedRoot: r.Proof.UntrustedRoot}}
	for _, e := range r.Proof.Entries {
		if e == nil {
			c.Proof.Entries = append(c.Proof.Entries, nil)
		} else {
			c.Proof.Entries = append(c.Proof.Entries, append([]byte{}, e...))
		}
	}
	return c
}

func respEqual(a, b *syncer.ProofResponse) bool {
	if a.Proof.V != b.Proof.V || a.Proof.UntrustedRoot != b.Proof.UntrustedRoot || len(a.Proof.Entries) != len(b.Proof.Entries) {
		return false
	}
	for i := range a.Proof.Entries {
		if (a.Proof.Entries[i] == nil) != (b.Proof.Entries[i] == nil) || !bytes.Equal(a.Proof.Entries[i], b.Proof.Entries[i]) {
			return false
		}
	}
	return true
}

// mutate applies one operator. alt produces the honest answer to an alternative request (other
// key / other tree) and may return nil.
func (b *byzSyncer) mutate(m Mut, honest *syncer.ProofResponse, alt func(kind string) *syncer.ProofResponse) *syncer.ProofResponse {
	r := cloneResp(honest)
	es := r.Proof.Entries
	n := len(es)
	pick := func(x int) int {
		if n == 0 {
			return 0
		}
		return x % n
	}
	switch m.Kind {
	case "flipbit":
		if n > 0 {
			i := pick(m.A)
			if len(es[i]) > 0 {
				j := m.B % len(es[i])
				es[i][j] ^= 1 << uint((m.A/7)%8)
			}
		}
	case "drop":
		if n > 0 {
			i := pick(m.A)
			r.Proof.Entries = append(es[:i:i], es[i+1:]...)
		}
	case "dup":
		if n > 0 {
			i := pick(m.A)
			r.Proof.Entries = append(es[:i+1:i+1], es[i:]...)
		}
	case "swap":
		if n > 1 {
			i, j := pick(m.A), pick(m.B)
			es[i], es[j] = es[j], es[i]
		}
	case "tohash":
		// Replace a full-node entry by the hash entry of that node (or by a wrong hash).
		if n > 0 {
			i := pick(m.A)
			if len(es[i]) > 1 && es[i][0] == 0x01 {
				if nd, err := node.UnmarshalBinary(es[i][1:]); err == nil {
					nd.UpdateHash()
					h := nd.GetHash()
					if m.B%3 == 0 {
						h[m.B%len(h)] ^= 0x40
					}
					es[i] = append([]byte{0x02}, h[:]...)
				}
			}
		}
	case "nil":
		if n > 0 {
			i := pick(m.A)
			if m.B%2 == 0 {
				es[i] = nil
			} else {
				r.Proof.Entries = append(es[:i:i], append([][]byte{nil}, es[i:]...)...)
			}
		}
	case "truncate":
		if n > 0 {
			r.Proof.Entries = es[:pick(m.A)]
		}
	case "extend":
		var extra []byte
		if n > 0 && m.B%2 == 0 {
			extra = append([]byte{}, es[pick(m.A)]...)
		} else {
			var h hash.Hash
			h.FromBytes([]byte{byte(m.A), byte(m.B)})
			extra = append([]byte{0x02}, h[:]...)
		}
		r.Proof.Entries = append(es, extra)
	case "root":
		if m.A%2 == 0 {
			r.Proof.UntrustedRoot = b.otherRoot.Hash
		} else {
			r.Proof.UntrustedRoot[m.B%len(r.Proof.UntrustedRoot)] ^= 1
		}
	case "version":
		r.Proof.V ^= 1
		if m.A%5 == 0 {
			r.Proof.V = uint16(2 + m.B%3)
		}
	case "otherkey", "othertree":
		if a := alt(m.Kind); a != nil {
			r = cloneResp(a)
		}
	case "replay":
		if len(b.history) > 0 {
			r = cloneResp(b.history[m.A%len(b.history)])
		}
	case "empty":
		r.Proof.Entries = nil
	case "emptytree":
		// The honest proof of another, empty tree with the root field rewritten: a single entry
		// that stands for the empty subtree (nil, or a hash entry of the empty hash).
		var eh hash.Hash
		eh.Empty()
		switch m.B % 3 {
		case 0:
			r.Proof.Entries = [][]byte{nil}
		case 1:
			r.Proof.Entries = [][]byte{append([]byte{0x02}, eh[:]...)}
		default:
			r.Proof.Entries = [][]byte{nil, nil}
		}
	case "cutentry":
		if n > 0 {
			i := pick(m.A)
			if len(es[i]) > 0 {
				es[i] = es[i][:m.B%len(es[i])]
			}
		}
	case "growentry":
		if n > 0 {
			i := pick(m.A)
			es[i] = append(es[i], byte(m.B))
		}
	case "leafvalue":
		// Re-encode a leaf entry with an altered value (a fabricated pair).
		for off := 0; off < n; off++ {
			i := pick(m.A + off)
			if len(es[i]) > 1 && es[i][0] == 0x01 {
				if nd, err := node.UnmarshalBinary(es[i][1:]); err == nil {
					if lf, ok := nd.(*node.LeafNode); ok {
						lf.Value = append(append([]byte{}, lf.Value...), byte(m.B))
						if m.B%2 == 0 && len(lf.Value) > 1 {
							lf.Value = lf.Value[:len(lf.Value)-2]
						}
						var enc []byte
						if r.Proof.V == 0 {
							enc, _ = lf.CompactMarshalBinaryV0()
						} else {
							enc, _ = lf.CompactMarshalBinaryV1()
						}
						es[i] = append([]byte{0x01}, enc...)
						break
					}
				}
			}
		}
	case "fullenc":
		// Replace the compact encoding of an internal node by its full
		// encoding (which carries the true child hashes, so the node
		// unmarshals with the right hash already set) and then forge a leaf
		// below it.  A verifier that trusts the embedded hashes instead of
		// recomputing them from the children it actually walked accepts it.
		info := alignProof(&r.Proof)
		var cands []int
		for i := 0; i < n; i++ {
			if ei, ok := info[i]; ok && ei.internal != nil {
				cands = append(cands, i)
			}
		}
		if len(cands) == 0 {
			break
		}
		i := cands[m.A%len(cands)]
		ei := info[i]
		var enc []byte
		if m.B%4 == 3 {
			// Compact encoding plus the true child hashes only (leaf stays
			// a separate entry in V1).
			if r.Proof.V == 0 {
				enc, _ = ei.internal.CompactMarshalBinaryV0()
			} else {
				enc, _ = ei.internal.CompactMarshalBinaryV1()
			}
			lh, rh := ei.internal.Left.GetHash(), ei.internal.Right.GetHash()
			enc = append(append(enc, lh[:]...), rh[:]...)
		} else {
			if ei.internal.LeafNode != nil && ei.internal.LeafNode.Node == nil {
				break // leaf only known by hash: no full encoding possible
			}
			enc, _ = ei.internal.MarshalBinary()
		}
		if len(enc) == 0 {
			break
		}
		es[i] = append([]byte{0x01}, enc...)
		// Forge a leaf entry inside the subtree.
		var leaves []int
		for j := i + 1; j < ei.end && j < n; j++ {
			if ej, ok := info[j]; ok && ej.leaf != nil {
				leaves = append(leaves, j)
			}
		}
		if len(leaves) == 0 {
			break
		}
		j := leaves[(m.A/7)%len(leaves)]
		switch m.B % 3 {
		case 0:
			es[j] = nil
		default:
			lf := &node.LeafNode{Key: append(node.Key{}, info[j].leaf.Key...), Value: append(append([]byte{}, info[j].leaf.Value...), byte(m.B>>2))}
			if m.B%3 == 2 && len(lf.Key) > 0 {
				// Also move the key (stays under the same parent label most of the time).
				lf.Key[len(lf.Key)-1] ^= 1
			}
			var lenc []byte
			if r.Proof.V == 0 {
				lenc, _ = lf.CompactMarshalBinaryV0()
			} else {
				lenc, _ = lf.CompactMarshalBinaryV1()
			}
			es[j] = append([]byte{0x01}, lenc...)
		}
	case "inlineleaf":
		// An internal-node entry is re-encoded in the form that carries the node's own leaf INLINE,
		// with a fabricated leaf in that slot. In version-0 proofs the inline leaf takes part in
		// the node's hash (so the fabrication cannot verify); in version-1 proofs the node's leaf
		// is a separate entry and whatever stands inline must not be believed.
		info := alignProof(&r.Proof)
		var cands []int
		for i := 0; i < n; i++ {
			if ei, ok := info[i]; ok && ei.internal != nil {
				cands = append(cands, i)
			}
		}
		if len(cands) == 0 {
			break
		}
		i := cands[m.A%len(cands)]
		nd, err := node.UnmarshalBinary(es[i][1:])
		in, ok := nd.(*node.InternalNode)
		if err != nil || !ok {
			break
		}
		// The fabricated pair: the key of a leaf of the proof with another value, or a new key.
		forged := &node.LeafNode{Key: node.Key(fmt.Sprintf("forged-inline-%d", m.B%7)), Value: []byte{'f', byte(m.B)}}
		if m.B%3 != 0 {
			for j := 0; j < n; j++ {
				if ej, ok := info[(j+m.A)%n]; ok && ej.leaf != nil {
					forged.Key = append(node.Key{}, ej.leaf.Key...)
					forged.Value = append(append([]byte{}, ej.leaf.Value...), 'x')
					break
				}
			}
		}
		forged.UpdateHash()
		in.LeafNode = &node.Pointer{Clean: true, Hash: forged.Hash, Node: forged}
		enc, err := in.CompactMarshalBinaryV0()
		if err != nil || len(enc) == 0 {
			break
		}
		es[i] = append([]byte{0x01}, enc...)
	case "dropleaf":
		// Replace a leaf entry by nil (claim absence).
		for off := 0; off < n; off++ {
			i := pick(m.A + off)
			if len(es[i]) > 1 && es[i][0] == 0x01 {
				if nd, err := node.UnmarshalBinary(es[i][1:]); err == nil {
					if _, ok := nd.(*node.LeafNode); ok {
						es[i] = nil
						break
					}
				}
			}
		}
	}
	return r
}

// proofLookup follows the lookup path of key through a verified (partial) pointer tree the
// way the tree's own Get does and reports the answer, or that the path is not fully expanded.
func proofLookup(ptr *node.Pointer, key node.Key) (val []byte, present, determined bool) {
	var depth node.Depth
	for steps := 0; steps < 1<<16; steps++ {
		if ptr == nil {
			return nil, false, true
		}
		switch n := ptr.Node.(type) {
		case nil:
			return nil, false, false
		case *node.InternalNode:
			bitLength := depth + n.LabelBitLength
			switch {
			case key.BitLength() < bitLength:
				return nil, false, true
			case key.BitLength() == bitLength:
				ptr = n.LeafNode
			case key.GetBit(bitLength):
				ptr = n.Right
			default:
				ptr = n.Left
			}
			depth = bitLength
		case *node.LeafNode:
			if n.Key.Equal(key) {
				return n.Value, true, true
			}
			return nil, false, true
		}
	}
	return nil, false, false
}

// proofLookupLabels is proofLookup for range proofs: an iterator prunes by comparing the
// compressed labels, so a key whose bits disagree with the label of an internal node on its path
// is determined to be absent there (every key below that node shares the label).
func proofLookupLabels(ptr *node.Pointer, key node.Key) (val []byte, present, determined bool) {
	var depth node.Depth
	for steps := 0; steps < 1<<16; steps++ {
		if ptr == nil {
			return nil, false, true
		}
		switch n := ptr.Node.(type) {
		case nil:
			return nil, false, false
		case *node.InternalNode:
			bitLength := depth + n.LabelBitLength
			if key.BitLength() < bitLength {
				return nil, false, true
			}
			for i := node.Depth(0); i < n.LabelBitLength; i++ {
				if key.GetBit(depth+i) != n.Label.GetBit(i) {
					return nil, false, true
				}
			}
			switch {
			case key.BitLength() == bitLength:
				ptr = n.LeafNode
			case key.GetBit(bitLength):
				ptr = n.Right
			default:
				ptr = n.Left
			}
			depth = bitLength
		case *node.LeafNode:
			if n.Key.Equal(key) {
				return n.Value, true, true
			}
			return nil, false, true
		}
	}
	return nil, false, false
}

// entInfo describes the node a proof entry stands for.
type entInfo struct {
	internal *node.InternalNode // with true child pointers (hashes) set
	leaf     *node.LeafNode
	end      int // index one past the last entry of this entry's subtree
}

// alignProof verifies an honest proof and maps entry indexes to the nodes
// they encode, following the verifier's pre-order layout.
func alignProof(p *syncer.Proof) map[int]entInfo {
	var pv syncer.ProofVerifier
	rootPtr, err := pv.VerifyProof(context.Background(), p.UntrustedRoot, p)
	info := map[int]entInfo{}
	if err != nil || rootPtr == nil {
		return info
	}
	var walk func(idx int, ptr *node.Pointer) int
	walk = func(idx int, ptr *node.Pointer) int {
		if idx >= len(p.Entries) {
			return idx
		}
		e := p.Entries[idx]
		if e == nil || len(e) == 0 || e[0] != 0x01 || ptr == nil || ptr.Node == nil {
			return idx + 1
		}
		switch nd := ptr.Node.(type) {
		case *node.LeafNode:
			info[idx] = entInfo{leaf: nd, end: idx + 1}
			return idx + 1
		case *node.InternalNode:
			pos := idx + 1
			if p.V == 1 {
				pos = walk(pos, nd.LeafNode)
			}
			pos = walk(pos, nd.Left)
			pos = walk(pos, nd.Right)
			info[idx] = entInfo{internal: nd, end: pos}
			return pos
		}
		return idx + 1
	}
	walk(0, rootPtr)
	return info
}

func (b *byzSyncer) respond(honest *syncer.ProofResponse, err error, alt func(kind string) *syncer.ProofResponse) (*syncer.ProofResponse, error) {
	call := b.call
	b.call++
	if err != nil {
		return nil, err
	}
	b.history = append(b.history, cloneResp(honest))
	if len(b.history) > 16 {
		b.history = b.history[1:]
	}
	out := honest
	for _, m := range b.muts {
		if m.Call != call {
			continue
		}
		mr := b.mutate(m, out, alt)
		if !respEqual(mr, out) {
			b.st.Inc("fault.mut_" + m.Kind)
			b.mutated++
		}
		out = mr
	}
	return out, nil
}

func (b *byzSyncer) SyncGet(ctx context.Context, req *syncer.GetRequest) (*syncer.ProofResponse, error) {
	h, err := b.honest.SyncGet(ctx, req)
	return b.respond(h, err, func(kind string) *syncer.ProofResponse {
		r2 := *req
		if kind == "otherkey" {
			r2.Key = b.keys[(len(req.Key)+b.call)%len(b.keys)]
		} else {
			r2.Tree.Root = b.otherRoot
			r2.Tree.Position = b.otherRoot.Hash
		}
		src := b.honest
		if kind == "othertree" {
			src = b.other
		}
		a, err := src.SyncGet(ctx, &r2)
		if err != nil {
			return nil
		}
		return a
	})
}

func (b *byzSyncer) SyncGetPrefixes(ctx context.Context, req *syncer.GetPrefixesRequest) (*syncer.ProofResponse, error) {
	h, err := b.honest.SyncGetPrefixes(ctx, req)
	return b.respond(h, err, func(kind string) *syncer.ProofResponse {
		r2 := *req
		if kind == "otherkey" {
			r2.Prefixes = [][]byte{b.keys[b.call%len(b.keys)]}
			a, err := b.honest.SyncGetPrefixes(ctx, &r2)
			if err != nil {
				return nil
			}
			return a
		}
		r2.Tree.Root = b.otherRoot
		r2.Tree.Position = b.otherRoot.Hash
		a, err := b.other.SyncGetPrefixes(ctx, &r2)
		if err != nil {
			return nil
		}
		return a
	})
}

func (b *byzSyncer) SyncIterate(ctx context.Context, req *syncer.IterateRequest) (*syncer.ProofResponse, error) {
	h, err := b.honest.SyncIterate(ctx, req)
	return b.respond(h, err, func(kind string) *syncer.ProofResponse {
		r2 := *req
		if kind == "otherkey" {
			r2.Key = b.keys[(len(req.Key)+b.call)%len(b.keys)]
			a, err := b.honest.SyncIterate(ctx, &r2)
			if err != nil {
				return nil
			}
			return a
		}
		r2.Tree.Root = b.otherRoot
		r2.Tree.Position = b.otherRoot.Hash
		a, err := b.other.SyncIterate(ctx, &r2)
		if err != nil {
			return nil
		}
		return a
	})
}

func deriveKey(key []byte, mode int) []byte {
	k := append([]byte{}, key...)
	switch mode {
	case 1:
		if len(k) > 0 {
			k = k[:len(k)/2]
		}
	case 2:
		k = append(k, 0x55)
	case 3:
		if len(k) > 0 {
			k[len(k)-1] ^= 1
		}
	case 4:
		k = append(k, 0x00)
	}
	return k
}

// Execute implements core.Engine.
func (ProofEngine) Execute(sc *core.Scenario, st *core.Stats) (*core.Violation, bool) {
	var k PFKnobs
	if err := json.Unmarshal(sc.Knobs, &k); err != nil {
		core.Harnessf("proofs: bad knobs: %v", err)
	}
	keys := UnhexKeys(k.Keys)
	ctx := context.Background()
	build := func(ts []RHTarget) (Model, *MemDB, node.Root, mkvs.Tree) {
		m := Model{}
		ndb := NewMemDB()
		t := mkvs.New(nil, ndb, node.RootTypeState)
		for _, x := range ts {
			key := keys[x.Key%len(keys)]
			val := Value(x.ID, x.Len)
			m[string(key)] = val
			if err := t.Insert(ctx, key, val); err != nil {
				core.Harnessf("proofs: build insert: %v", err)
			}
		}
		_, h, err := t.Commit(ctx, Namespace, 1)
		if err != nil {
			core.Harnessf("proofs: build commit: %v", err)
		}
		t.Close()
		root := node.Root{Namespace: Namespace, Version: 1, Type: node.RootTypeState, Hash: h}
		return m, ndb, root, mkvs.NewWithRoot(nil, ndb, root)
	}
	contents, _, root, server := build(k.Contents)
	defer server.Close()
	_, _, otherRoot, otherServer := build(k.Other)
	defer otherServer.Close()
	sorted := contents.SortedKeys()

	byz := &byzSyncer{honest: server, other: otherServer, otherRoot: otherRoot, keys: keys, st: st}
	var opts []mkvs.Option
	if k.NodeCap > 0 || k.ValueCap > 0 {
		opts = append(opts, mkvs.Capacity(k.NodeCap, k.ValueCap))
	}
	client := mkvs.NewWithRoot(byz, nil, root, opts...)
	defer func() { client.Close() }()
	var pv syncer.ProofVerifier
	effective := 0
	honestOK := 0
	finiteCache := k.NodeCap > 0 || k.ValueCap > 0
	// With a finite client cache an honest exchange may legitimately fail ("cache too small"):
	// the property allows an error, never a wrong answer.
	honestErr := func(step int, what string, err error) *core.Violation {
		if finiteCache {
			st.Inc("probe.honest_error_with_finite_cache")
			return nil
		}
		return pfViol("honest-client-error", fmt.Sprintf("step %d: %s failed although every response was honest and the client cache is unlimited: %v", step, what, err))
	}

	for step, raw := range sc.Ops {
		var op PFOp
		if err := json.Unmarshal(raw, &op); err != nil {
			core.Harnessf("proofs: bad op: %v", err)
		}
		key := deriveKey(keys[op.Key%len(keys)], op.Derive)
		want, present := contents[string(key)]
		var v *core.Violation
		pval, stack := core.Guard(func() {
			switch op.K {
			case "newclient":
				client.Close()
				client = mkvs.NewWithRoot(byz, nil, root, opts...)
				st.Event("newclient")
			case "get", "vget":
				req := &syncer.GetRequest{Tree: syncer.TreeID{Root: root, Position: root.Hash}, Key: key, IncludeSiblings: op.Siblings, ProofVersion: op.Ver}
				rsp, err := server.SyncGet(ctx, req)
				if err != nil {
					v = pfViol("honest-proof-error", fmt.Sprintf("step %d: SyncGet(%x, v%d, siblings=%v) on a clean tree failed: %v", step, key, op.Ver, op.Siblings, err))
					return
				}
				if op.K == "get" {
					wl, err := pv.VerifyProofToWriteLog(ctx, root.Hash, &rsp.Proof)
					st.Event("get key=%x v=%d sib=%v entries=%d err=%v", key, op.Ver, op.Siblings, len(rsp.Proof.Entries), err != nil)
					if err != nil {
						v = pfViol("honest-proof-rejected", fmt.Sprintf("step %d: honest proof for key %x (v%d, siblings=%v) does not verify against its own root: %v", step, key, op.Ver, op.Siblings, err))
						return
					}
					rootPtr, err := pv.VerifyProof(ctx, root.Hash, &rsp.Proof)
					if err != nil {
						v = pfViol("honest-proof-rejected", fmt.Sprintf("step %d: VerifyProof rejects what VerifyProofToWriteLog accepted: %v", step, err))
						return
					}
					// Completeness: the verified proof alone must determine the answer for the key
					// (its value, or its absence), i.e. the lookup path must be fully expanded.
					pval, ppresent, determined := proofLookup(rootPtr, key)
					switch {
					case !determined:
						v = pfViol("honest-proof-indeterminate", fmt.Sprintf("step %d: the honest proof for key %x (v%d, siblings=%v, present=%v) verifies but does not determine the answer: the lookup path ends in an unexpanded hash", step, key, op.Ver, op.Siblings, present))
						return
					case ppresent != present || (present && !bytes.Equal(pval, contents[string(key)])):
						v = pfViol("honest-proof-wrong-answer", fmt.Sprintf("step %d: the honest proof for key %x (v%d) determines (%x, present=%v) but the tree holds (%x, present=%v)", step, key, op.Ver, pval, ppresent, contents[string(key)], present))
						return
					}
					st.Inc("probe.proof_determines_answer")
					found := false
					for _, e := range wl {
						tv, ok := contents[string(e.Key)]
						if !ok || !bytes.Equal(tv, e.Value) {
							v = pfViol("honest-writelog-wrong", fmt.Sprintf("step %d: honest proof yields pair (%x,%x) which is not in the tree", step, e.Key, e.Value))
							return
						}
						if bytes.Equal(e.Key, key) {
							found = true
						}
					}
					if present && !found {
						v = pfViol("honest-proof-incomplete", fmt.Sprintf("step %d: honest proof for present key %x does not contain its leaf", step, key))
						return
					}
					honestOK++
					if op.Siblings {
						st.Inc("probe.proof_with_siblings")
					}
					if !present {
						st.Inc("probe.absence_proof")
					}
					return
				}
				// vget: verify a mutated proof directly.
				byz.begin(op.Muts)
				for i := range byz.muts {
					byz.muts[i].Call = 0
				}
				mr, _ := byz.respond(rsp, nil, func(kind string) *syncer.ProofResponse {
					r2 := *req
					if kind == "otherkey" {
						r2.Key = keys[(op.Key+1)%len(keys)]
						a, _ := server.SyncGet(ctx, &r2)
						return a
					}
					r2.Tree.Root, r2.Tree.Position = otherRoot, otherRoot.Hash
					a, _ := otherServer.SyncGet(ctx, &r2)
					return a
				})
				if mr == nil {
					return
				}
				wl, err := pv.VerifyProofToWriteLog(ctx, root.Hash, &mr.Proof)
				st.Event("vget key=%x mutated=%d accepted=%v", key, byz.mutated, err == nil)
				if byz.mutated > 0 {
					effective++
					if err == nil {
						st.Inc("probe.mutant_accepted_equivalent_or_checked")
					} else {
						st.Inc("probe.mutant_rejected")
					}
				}
				if err == nil {
					for _, e := range wl {
						tv, ok := contents[string(e.Key)]
						if !ok || !bytes.Equal(tv, e.Value) {
							v = pfViol("mutant-proof-fabricates", fmt.Sprintf("step %d: mutated proof (%v) verifies against the trusted root and yields pair (%x,%x) which is not in the tree", step, op.Muts, e.Key, e.Value))
							return
						}
					}
				}
				if err == nil {
					// An accepted proof must not make any key of the universe appear absent (or with
					// another value) contrary to the real contents: wherever the verified proof
					// determines an answer, it is the true one.
					if rp, perr := pv.VerifyProof(ctx, root.Hash, &mr.Proof); perr == nil {
						for _, u := range keys {
							pval, ppresent, determined := proofLookupLabels(rp, node.Key(u))
							if !determined {
								continue
							}
							tv, ok := contents[string(u)]
							if ppresent != ok || (ok && !bytes.Equal(pval, tv)) {
								v = pfViol("mutant-proof-fabricates", fmt.Sprintf("step %d: mutated proof (%v) verifies against the trusted root %s and determines (%x, present=%v) for key %x, but the tree holds (%x, present=%v)", step, op.Muts, root.Hash, pval, ppresent, u, tv, ok))
								return
							}
						}
						st.Inc("probe.accepted_mutant_determines_only_true_answers")
					}
				}
			case "cget":
				byz.begin(op.Muts)
				got, err := client.Get(ctx, key)
				st.Event("cget key=%x mutated=%d err=%v", key, byz.mutated, err != nil)
				if byz.mutated > 0 {
					effective++
				}
				if err != nil {
					if byz.mutated == 0 {
						v = honestErr(step, fmt.Sprintf("remote-backed Get(%x)", key), err)
					} else {
						st.Inc("probe.client_error_after_mutation")
					}
					return
				}
				if byz.mutated > 0 {
					st.Inc("probe.client_answer_despite_mutation")
				} else {
					honestOK++
				}
				if (got != nil) != present || !bytes.Equal(got, want) {
					kind := "client-wrong-value"
					if got == nil {
						kind = "client-false-absence"
					}
					v = pfViol(kind, fmt.Sprintf("step %d: remote-backed Get(%x) returned %x (present=%v) but the tree under the trusted root holds %x (present=%v); mutations applied: %v", step, key, got, got != nil, want, present, op.Muts))
				}
			case "citer":
				byz.begin(op.Muts)
				pos := sort.SearchStrings(sorted, string(key))
				it := client.NewIterator(ctx, mkvs.IteratorPrefetch(op.Prefetch))
				defer it.Close()
				it.Seek(key)
				p := pos
				for i := 0; i < op.N; i++ {
					if it.Err() != nil {
						break
					}
					if !it.Valid() {
						if p < len(sorted) {
							v = pfViol("client-iter-false-end", fmt.Sprintf("step %d: remote-backed iteration from %x ended before key %x (position %d of %d); mutations: %v", step, key, sorted[p], p, len(sorted), op.Muts))
							return
						}
						break
					}
					if p >= len(sorted) {
						v = pfViol("client-iter-fabricated", fmt.Sprintf("step %d: remote-backed iteration from %x yielded (%x,%x) after the last key; mutations: %v", step, key, []byte(it.Key()), it.Value(), op.Muts))
						return
					}
					if string(it.Key()) != sorted[p] || !bytes.Equal(it.Value(), contents[sorted[p]]) {
						v = pfViol("client-iter-wrong", fmt.Sprintf("step %d: remote-backed iteration from %x yielded (%x,%x), the true next pair is (%x,%x); mutations: %v", step, key, []byte(it.Key()), it.Value(), sorted[p], contents[sorted[p]], op.Muts))
						return
					}
					p++
					it.Next()
				}
				st.Event("citer key=%x n=%d prefetch=%d mutated=%d err=%v", key, p-pos, op.Prefetch, byz.mutated, it.Err() != nil)
				if byz.mutated > 0 {
					effective++
				}
				if it.Err() != nil {
					if byz.mutated == 0 {
						v = honestErr(step, "remote-backed iteration", it.Err())
					} else {
						st.Inc("probe.client_error_after_mutation")
					}
				} else if byz.mutated == 0 {
					honestOK++
				}
			case "pget", "iget":
				v = honestRangeProof(ctx, st, step, &op, server, &pv, root, key, keys, contents, sorted)
				if v == nil {
					honestOK++
				}
			case "cprefix":
				byz.begin(op.Muts)
				var prefixes [][]byte
				for i := 0; i < op.N; i++ {
					prefixes = append(prefixes, deriveKey(keys[(op.Key+i)%len(keys)], 1))
				}
				err := client.PrefetchPrefixes(ctx, prefixes, op.Prefetch)
				st.Event("cprefix n=%d limit=%d mutated=%d err=%v", op.N, op.Prefetch, byz.mutated, err != nil)
				if byz.mutated > 0 {
					effective++
				}
				if err != nil && byz.mutated == 0 {
					v = honestErr(step, "PrefetchPrefixes", err)
				}
			default:
				core.Harnessf("proofs: unknown op %q", op.K)
			}
		})
		if pval != nil {
			return pfViol("panic", fmt.Sprintf("step %d (%s): panic: %v\n%s", step, op.K, pval, stack)), true
		}
		if v != nil {
			return v, true
		}
	}
	// Final: with honest responses from now on, the client must answer every key like the full
	// replica, whatever corrupt responses it has seen before.
	var v *core.Violation
	pval, stack := core.Guard(func() {
		byz.begin(nil)
		for _, key := range keys {
			got, err := client.Get(ctx, key)
			if err != nil {
				if v = honestErr(-1, fmt.Sprintf("final read-back Get(%x)", key), err); v != nil {
					return
				}
				continue
			}
			want, present := contents[string(key)]
			if (got != nil) != present || !bytes.Equal(got, want) {
				v = pfViol("client-wrong-after-faults", fmt.Sprintf("final read-back: Get(%x) returned %x, true value %x (present=%v)", key, got, want, present))
				return
			}
		}
		if !finiteCache {
			if err := CompareDump(ctx, client, contents); err != nil {
				v = pfViol("client-wrong-after-faults", fmt.Sprintf("final full iteration through the remote-backed tree: %v", err))
			}
		}
	})
	if pval != nil {
		return pfViol("panic", fmt.Sprintf("final read-back: panic: %v\n%s", pval, stack)), true
	}
	st.Distinct("trees", contents.Digest())
	st.Sample(2, map[string]interface{}{"pairs": len(contents), "keys": len(keys), "ops": firstN(sc.Ops, 6)})
	return v, honestOK >= 1 && effective >= 1
}

// honestRangeProof checks the completeness of an honest prefix-fetch (pget) or iteration (iget)
// proof: it verifies against the root and by itself determines the value of every key the
// request covers and the absence of every other key inside the covered ranges.
func honestRangeProof(ctx context.Context, st *core.Stats, step int, op *PFOp, server mkvs.Tree, pv *syncer.ProofVerifier, root node.Root, key []byte, keys [][]byte, contents Model, sorted []string) *core.Violation {
	tid := syncer.TreeID{Root: root, Position: root.Hash}
	var rsp *syncer.ProofResponse
	var err error
	var what string
	// must lists the keys whose answer the proof has to determine; mustAbsentIn lists closed key
	// ranges [lo, hi] (hi == "" = unbounded) in which every key of the universe has to be determined.
	var must []string
	type span struct {
		lo, hi  string
		prefix  bool
		bounded bool // hi is an upper bound (inclusive)
	}
	var spans []span
	switch op.K {
	case "pget":
		var prefixes [][]byte
		for _, h := range op.Prefixes {
			b, _ := hex.DecodeString(h)
			prefixes = append(prefixes, b)
		}
		what = fmt.Sprintf("SyncGetPrefixes(%v, limit %d, v%d)", op.Prefixes, op.Prefetch, op.Ver)
		rsp, err = server.SyncGetPrefixes(ctx, &syncer.GetPrefixesRequest{Tree: tid, Prefixes: prefixes, Limit: op.Prefetch, ProofVersion: op.Ver})
		total := 0
	prefixLoop:
		for _, p := range prefixes {
			for _, k := range sorted {
				if !bytes.HasPrefix([]byte(k), p) {
					continue
				}
				if total >= int(op.Prefetch) {
					break prefixLoop
				}
				must = append(must, k)
				total++
			}
			if total >= int(op.Prefetch) {
				// (the item at which the limit is noticed may or may not exist: stop expecting)
				break
			}
			spans = append(spans, span{lo: string(p), prefix: true})
		}
	default:
		what = fmt.Sprintf("SyncIterate(%x, prefetch %d, v%d)", key, op.Prefetch, op.Ver)
		rsp, err = server.SyncIterate(ctx, &syncer.IterateRequest{Tree: tid, Key: key, Prefetch: op.Prefetch, ProofVersion: op.Ver})
		n := max(int(op.Prefetch), 1)
		last := ""
		complete := false
		for _, k := range sorted {
			if k < string(key) {
				continue
			}
			if len(must) >= n {
				complete = true
				break
			}
			must = append(must, k)
			last = k
		}
		if complete || len(must) > 0 {
			spans = append(spans, span{lo: string(key), hi: last, bounded: true})
		}
		if !complete && len(must) < n {
			// The iteration ran off the end: everything from the key on is determined.
			spans = []span{{lo: string(key)}}
		}
	}
	st.Event("%s entries=%d err=%v", what, func() int {
		if rsp == nil {
			return -1
		}
		return len(rsp.Proof.Entries)
	}(), err != nil)
	if err != nil {
		return pfViol("honest-proof-error", fmt.Sprintf("step %d: %s on a clean tree failed: %v", step, what, err))
	}
	if root.Hash.IsEmpty() {
		return nil
	}
	wl, err := pv.VerifyProofToWriteLog(ctx, root.Hash, &rsp.Proof)
	if err != nil {
		return pfViol("honest-proof-rejected", fmt.Sprintf("step %d: the honest proof of %s does not verify against its own root: %v", step, what, err))
	}
	rootPtr, err := pv.VerifyProof(ctx, root.Hash, &rsp.Proof)
	if err != nil {
		return pfViol("honest-proof-rejected", fmt.Sprintf("step %d: VerifyProof rejects what VerifyProofToWriteLog accepted for %s: %v", step, what, err))
	}
	inLog := map[string][]byte{}
	for _, e := range wl {
		tv, ok := contents[string(e.Key)]
		if !ok || !bytes.Equal(tv, e.Value) {
			return pfViol("honest-writelog-wrong", fmt.Sprintf("step %d: the honest proof of %s yields pair (%x,%x) which is not in the tree", step, what, e.Key, e.Value))
		}
		inLog[string(e.Key)] = e.Value
	}
	check := func(k string) *core.Violation {
		want, present := contents[k]
		pval, ppresent, determined := proofLookupLabels(rootPtr, node.Key(k))
		switch {
		case !determined:
			return pfViol("honest-proof-indeterminate", fmt.Sprintf("step %d: the honest proof of %s verifies but does not determine the answer for key %x (present=%v), which the request covers: the lookup path ends in an unexpanded hash", step, what, k, present))
		case ppresent != present || (present && !bytes.Equal(pval, want)):
			return pfViol("honest-proof-wrong-answer", fmt.Sprintf("step %d: the honest proof of %s determines (%x, present=%v) for key %x but the tree holds (%x, present=%v)", step, what, pval, ppresent, k, want, present))
		}
		if _, ok := inLog[k]; present && !ok {
			return pfViol("honest-proof-incomplete", fmt.Sprintf("step %d: the write log of the honest proof of %s lacks the covered key %x", step, what, k))
		}
		return nil
	}
	for _, k := range must {
		if v := check(k); v != nil {
			return v
		}
	}
	st.Add("probe.range_proof_keys_determined", int64(len(must)))
	// Absent keys of the universe inside the covered ranges.
	for _, u := range keys {
		for d := 0; d < 5; d++ {
			k := string(deriveKey(u, d))
			if _, present := contents[k]; present {
				continue
			}
			for _, sp := range spans {
				in := k >= sp.lo && (!sp.bounded || k <= sp.hi)
				if sp.prefix {
					in = strings.HasPrefix(k, sp.lo)
				}
				if !in {
					continue
				}
				if v := check(k); v != nil {
					return v
				}
				st.Inc("probe.range_proof_absent_keys_determined")
				break
			}
		}
	}
	if op.K == "pget" {
		st.Inc("probe.prefix_proof_complete")
	} else {
		st.Inc("probe.iterate_proof_complete")
	}
	return nil
}
